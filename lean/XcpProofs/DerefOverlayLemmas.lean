import XcpProofs.DerefConcLemmas
import XcpProofs.OverlayConcLemmas
/-! # Lemmas for `DerefOverlay`: `-L` onto an EXISTING, compatible destination

The sequential execution of `opsOfS` over a compatible destination (`exec_overlayS`, the analogue of `exec_overlay`:
the operations read from canonical places, which are assumed out of the way of the target — `ReadsAway`), and the
invariant `OInvD` of the concurrent runs (the analogue of `OInv`, over the static facts `DSpec` of `DerefConcLemmas`). -/
namespace Xcp

open L0

/-! ## The side condition -/

/-- every canonical place the operations of the sourced tree `s` read from is neither at/below the target `T` nor above
it.  For a fresh target this is implied (`hout_of_absent`); for an existing one it excludes `xcp -rL S D` where a
link of `S` leads to a file inside `D/S` (or `D/S` is itself such a file). -/
def ReadsAway (s : SNode) (T : List Name) : Prop := ∀ l ∈ s.leaves, ¬ T <+: l.1 ∧ ¬ l.1 <+: T

instance (s : SNode) (T : List Name) : Decidable (ReadsAway s T) := by
  unfold ReadsAway; infer_instance

theorem ReadsAway.child {T : List Name} {cp : List Name} {es : List (Name × SNode)}
    (h : ReadsAway (.dir cp es) T) {m : Name} {ch : SNode} (hmem : (m, ch) ∈ es) : ReadsAway ch (T ++ [m]) := by
  intro l hl
  obtain ⟨u1, u2⟩ := h l (by simp only [SNode.leaves]; exact leavesL_mem es m ch hmem l hl)
  refine ⟨fun hh => u1 ((List.prefix_append T [m]).trans hh), ?_⟩
  intro hh
  rcases List.prefix_concat_iff.1 hh with hh | hh
  · exact u1 (hh ▸ List.prefix_append _ _)
  · exact u2 hh

/-! ## The exact effect of copy and special operations reading from a place up to 256 names deep -/

theorem execOp_copy_over_le (g : Fs) (c : Cfg) (sn tn : List Name) (k k' : Nat)
    (hs : g.root.getAt sn = some (.file k)) (ht : g.root.getAt tn = some (.file k'))
    (hne : sn ≠ tn) (hls : sn.length ≤ 256) (hlt : tn.length < 256) :
    execOp g c (.copy (plainPath sn) (plainPath tn)) =
      some { g with root := g.root.setAt tn (.file k) } := by
  have hst := stat_plain_le g sn _ (by simpa [Node.isDir] using hls) hs (noLinkUpto_of_getAt hs rfl)
  have htt := stat_plain g tn _ hlt ht (noLinkUpto_of_getAt ht rfl)
  have hr := resolve_plain_found g tn true _ hlt ht
    (fun p hp _ tg => noLinkUpto_of_getAt ht rfl p hp tg)
  simp [execOp, Fs.contentOf, hst, Fs.exists, htt, Fs.sameFile, hne, Fs.createFile, hr, ht, Except.toOption]

theorem execOp_special_over_le (g : Fs) (c : Cfg) (hn : c.noClobber = false) (sn par : List Name) (nm : Name)
    (k : FileKind) (d : Nat) (pes : Entries) (x : Node)
    (hs : g.root.getAt sn = some (.special k d)) (hp : g.root.getAt par = some (.dir pes))
    (hnd : (pes.map (·.1)).Nodup)
    (ht : g.root.getAt (par ++ [nm]) = some x) (hxd : x.isDir = false) (hxl : x.isLink = false)
    (hne : sn ≠ par ++ [nm]) (hls : sn.length ≤ 256) (hlt : par.length + 1 < 256) :
    execOp g c (.special (plainPath sn) (plainPath (par ++ [nm]))) =
      some { g with root := (g.root.delAt (par ++ [nm])).setAt (par ++ [nm]) (.special k d) } := by
  have hlt' : (par ++ [nm]).length < 256 := by simpa using hlt
  have hst := stat_plain_le g sn _ (by simpa [Node.isDir] using hls) hs (noLinkUpto_of_getAt hs rfl)
  have htt := stat_plain g (par ++ [nm]) _ hlt' ht (noLinkUpto_of_getAt ht hxl)
  have hr := resolve_plain_found g (par ++ [nm]) false _ hlt' ht
    (fun p hp _ tg => noLinkUpto_of_getAt ht hxl p hp tg)
  have hu : g.unlink (plainPath (par ++ [nm])) = .ok { g with root := g.root.delAt (par ++ [nm]) } := by
    cases x <;> simp [Node.isDir] at hxd <;> simp [Fs.unlink, hr, ht]
  have hdel := delAt_child g.root par nm pes hp
  have hp1 : (g.root.delAt (par ++ [nm])).getAt par = some (.dir (entDel pes nm)) := by
    rw [hdel]; exact getAt_setAt_exists g.root par _ _ hp
  have hn1 : (g.root.delAt (par ++ [nm])).getAt (par ++ [nm]) = none := by
    rw [getAt_child _ par nm _ hp1]
    exact entGet_entDel_self pes nm hnd
  have hr1 := resolve_plain_missing { g with root := g.root.delAt (par ++ [nm]) } par nm false _
    (by omega) hp1 hn1
  simp [execOp, hst, Fs.exists, htt, hn, Fs.sameFile, hne, hu, Fs.mknod, hr1, Except.toOption]

/-! ## Sequential execution over a compatible destination -/

/-- a file or special file of the sourced tree onto a compatible place -/
theorem exec_overlayS_leaf (c : Cfg) (hn : c.noClobber = false) (s : SNode) (hnd : s.erase.isDir = false)
    (g : Fs) (par : List Name) (nm : Name) (pes : Entries) (rest : List Op)
    (hsrc : SrcIn g.root s) (haway : ReadsAway s (par ++ [nm]))
    (hp : g.root.getAt par = some (.dir pes)) (hpn : (pes.map (·.1)).Nodup)
    (hc : Compatible (g.root.getAt (par ++ [nm])) s.erase) (hl2 : par.length + 1 < 256) :
    execOps g c (opsOfS s (par ++ [nm]) ++ rest) =
      execOps { g with root := placeAt g.root (par ++ [nm]) (g.root.getAt (par ++ [nm])) s.erase } c rest := by
  cases s with
  | dir cp es => simp [SNode.erase, Node.isDir] at hnd
  | file cp k =>
    obtain ⟨hs, _, hlen⟩ := hsrc (cp, .file k) (by simp [SNode.leaves])
    obtain ⟨u1, _⟩ := haway (cp, .file k) (by simp [SNode.leaves])
    have hne : cp ≠ par ++ [nm] := fun e => u1 (e ▸ List.prefix_refl _)
    simp only [opsOfS, SNode.erase, List.cons_append, List.nil_append] at hc ⊢
    cases hdst : g.root.getAt (par ++ [nm]) with
    | none =>
      rw [execOps_cons_some _ _ _ _ _ (execOp_copy_fresh_le g c cp par nm k pes hs hlen (by omega) hp hdst)]
      simp [placeAt, Node.isSpecial]
    | some x =>
      rw [hdst] at hc
      cases x <;> simp [Compatible, Node.compatible] at hc
      rename_i k'
      rw [execOps_cons_some _ _ _ _ _
        (execOp_copy_over_le g c cp (par ++ [nm]) k k' hs hdst hne hlen (by simpa using hl2))]
      simp [placeAt, Node.isSpecial, Node.overlay]
  | special cp k dv =>
    obtain ⟨hs, _, hlen⟩ := hsrc (cp, .special k dv) (by simp [SNode.leaves])
    obtain ⟨u1, _⟩ := haway (cp, .special k dv) (by simp [SNode.leaves])
    have hne : cp ≠ par ++ [nm] := fun e => u1 (e ▸ List.prefix_refl _)
    simp only [opsOfS, SNode.erase, List.cons_append, List.nil_append] at hc ⊢
    cases hdst : g.root.getAt (par ++ [nm]) with
    | none =>
      rw [execOps_cons_some _ _ _ _ _ (execOp_special_fresh_le g c cp par nm k dv pes hs hlen (by omega) hp hdst)]
      simp only [placeAt, Node.isSpecial, if_true]
      rw [delAt_absent g.root par nm pes hp hdst]
    | some x =>
      rw [hdst] at hc
      have hx : x.isDir = false ∧ x.isLink = false := by
        cases x <;> simp [Compatible, Node.compatible] at hc <;> simp [Node.isDir, Node.isLink]
      rw [execOps_cons_some _ _ _ _ _
        (execOp_special_over_le g c hn cp par nm k dv pes x hs hp hpn hdst hx.1 hx.2 hne hlen hl2)]
      simp [placeAt, Node.isSpecial]

/-- running the operations of a sourced tree, all of whose leaves are found in the state at their canonical places —
places out of the way of the target —, towards a compatible place `par ++ [nm]` below an existing directory leaves
exactly `placeAt` of the erased tree there -/
theorem exec_overlayS (c : Cfg) (hn : c.noClobber = false) :
    ∀ (d : Nat) (s : SNode), s.erase.Copyable d →
      ∀ (g : Fs) (par : List Name) (nm : Name) (pes : Entries) (rest : List Op),
      SrcIn g.root s → ReadsAway s (par ++ [nm]) →
      g.root.getAt par = some (.dir pes) → (pes.map (·.1)).Nodup →
      (∀ x, g.root.getAt (par ++ [nm]) = some x → x.WF) →
      Compatible (g.root.getAt (par ++ [nm])) s.erase →
      par.length + 1 + d < 256 →
      execOps g c (opsOfS s (par ++ [nm]) ++ rest) =
        execOps { g with root := placeAt g.root (par ++ [nm]) (g.root.getAt (par ++ [nm])) s.erase } c rest := by
  intro d
  induction d with
  | zero =>
    intro s hcop g par nm pes rest hsrc haway hp hpn _ hc hl2
    have hnd : s.erase.isDir = false := by
      cases s with
      | dir cp es => simp [SNode.erase, Node.Copyable] at hcop
      | _ => rfl
    exact exec_overlayS_leaf c hn s hnd g par nm pes rest hsrc haway hp hpn hc (by omega)
  | succ d ih =>
    intro s hcop g par nm pes rest hsrc haway hp hpn hw hc hl2
    cases hnd : s.erase.isDir with
    | false => exact exec_overlayS_leaf c hn s hnd g par nm pes rest hsrc haway hp hpn hc (by omega)
    | true =>
      cases s with
      | file cp k => simp [SNode.erase, Node.isDir] at hnd
      | special cp k dv => simp [SNode.erase, Node.isDir] at hnd
      | dir cp es =>
        cases hdst : g.root.getAt (par ++ [nm]) with
        | none =>
          rw [exec_opsOfS c (d + 1) (.dir cp es) hcop g par nm pes rest hsrc hp hdst hl2]
          simp [placeAt, Node.isSpecial, SNode.erase]
        | some x =>
          simp only [SNode.erase] at hcop hc ⊢
          obtain ⟨d', hd', hndp, hch⟩ := copyable_dir hcop
          have hd'' : d' = d := by omega
          subst hd''
          rw [eraseL_names] at hndp
          rw [hdst] at hc
          cases x <;> simp [Compatible, Node.compatible] at hc
          rename_i des
          have hwx := hw _ hdst
          rw [WF_dir] at hwx
          have htl : (par ++ [nm]).length = par.length + 1 := by simp
          generalize par ++ [nm] = tn at *
          simp only [opsOfS, List.cons_append]
          rw [execOps_cons_some _ _ _ _ _ (execOp_mkdir_over g c tn des hdst (by omega))]
          have hassoc : ∀ a b : List Op, (a ++ b) ++ rest = a ++ (b ++ rest) :=
            fun a b => List.append_assoc a b rest
          -- the children, one after the other
          have key : ∀ (post : List (Name × SNode)) (acc : Entries), (acc.map (·.1)).Nodup →
              (post.map (·.1)).Nodup →
              (∀ e ∈ post, e ∈ es) → (∀ e ∈ post, entGet acc e.1 = entGet des e.1) →
              execOps { g with root := g.root.setAt tn (.dir acc) } c (opsOfSL post tn ++ rest) =
                execOps { g with root := g.root.setAt tn (.dir (overlayL acc (eraseL post))) } c rest := by
            intro post
            induction post with
            | nil => intro acc _ _ _ _; simp [opsOfSL, overlayL, eraseL]
            | cons e post' ihp =>
              intro acc hna hnp hsub hag
              obtain ⟨m, ch⟩ := e
              have hmem : (m, ch) ∈ es := hsub _ List.mem_cons_self
              have hmemE := eraseL_mem es m ch hmem
              simp only [List.map_cons, List.nodup_cons] at hnp
              have hs' : SrcIn (g.root.setAt tn (.dir acc)) ch := by
                intro l hl
                have hlm : l ∈ (SNode.dir cp es).leaves := by
                  simp only [SNode.leaves]; exact leavesL_mem es m ch hmem l hl
                obtain ⟨a1, a2, a3⟩ := hsrc l hlm
                obtain ⟨u1, u2⟩ := haway l hlm
                exact ⟨by rw [getAt_setAt_unrelated _ _ _ _ u1 u2]; exact a1, a2, a3⟩
              have hp' : (g.root.setAt tn (.dir acc)).getAt tn = some (.dir acc) :=
                getAt_setAt_exists _ _ _ _ hdst
              have hda : (g.root.setAt tn (.dir acc)).getAt (tn ++ [m]) = entGet acc m :=
                getAt_child _ _ m _ hp'
              have hag0 : entGet acc m = entGet des m := hag (m, ch) List.mem_cons_self
              have step := ih ch (hch _ hmemE) { g with root := g.root.setAt tn (.dir acc) }
                tn m acc (opsOfSL post' tn ++ rest) hs' (haway.child hmem) hp' hna
                (by intro x hx; rw [hda, hag0] at hx; exact hwx.2 m x hx)
                (by rw [hda, hag0]; exact compatibleL_mem hc (m, ch.erase) hmemE)
                (by omega)
              rw [opsOfSL, hassoc, step]
              show execOps { g with root := (placeAt (g.root.setAt tn (.dir acc)) (tn ++ [m])
                ((g.root.setAt tn (.dir acc)).getAt (tn ++ [m])) ch.erase) } c (opsOfSL post' tn ++ rest) = _
              rw [placeAt_child _ tn m acc _ ch.erase hp', setAt_setAt_same, hda]
              simp only [eraseL, overlayL]
              apply ihp
              · exact nodup_keys_entPut _ _ _ hna
              · exact hnp.2
              · exact fun e he => hsub e (List.mem_cons_of_mem _ he)
              · intro e he
                have hne : m ≠ e.1 := by
                  intro h
                  apply hnp.1
                  rw [h]
                  exact List.mem_map.2 ⟨e, he, rfl⟩
                rw [entGet_entPut_ne _ _ _ _ hne]
                exact hag e (List.mem_cons_of_mem _ he)
          have h0 : execOps g c (opsOfSL es tn ++ rest) =
              execOps { g with root := g.root.setAt tn (.dir des) } c (opsOfSL es tn ++ rest) := by
            rw [setAt_same _ _ _ hdst]
          rw [h0, key es des hwx.1 hndp (fun _ h => h) (fun _ _ => rfl)]
          simp [placeAt, Node.isSpecial, Node.overlay]

/-! ## One operation executed in a state where it is due -/

/-- what the execution of the entry operation of the node `m` at `rel` leaves -/
structure OPostD (T : List Name) (g g' : Fs) (rel : List Name) (m : Node) : Prop where
  wf : FsEq g' g'
  out : ∀ q, ¬ q <+: T → ¬ T <+: q → g'.root.getAt q = g.root.getAt q
  here : obsAt g'.root (T ++ rel) = some m.obs
  frame : ∀ t', t' ≠ T ++ rel → obsAt g'.root t' = obsAt g.root t'

theorem OPostD.dirs {T : List Name} {g g' : Fs} {rel : List Name} {m : Node}
    (P : OPostD T g g' rel m) (hok : HeadOK (obsAt g.root (T ++ rel)) m) :
    ∀ p, DirsOf g p → DirsOf g' p := by
  rintro p ⟨es, hes⟩
  show ∃ es', g'.root.getAt p = some (.dir es')
  apply getAt_dir_of_obs
  by_cases hp : p = T ++ rel
  · subst hp
    rw [obsAt_dir hes] at hok
    rw [P.here, headOK_dir_isDir hok]
  · rw [P.frame p hp]
    exact obsAt_dir hes

theorem OPostD.made {T : List Name} {g g' : Fs} {rel : List Name} {m : Node} {cp : List Name}
    (P : OPostD T g g' rel m) (t : RPath) (ht : headOp m cp (T ++ rel) = .mkdir t) :
    DirsOf g' t.names := by
  obtain ⟨e1, e2⟩ := headOp_mkdir _ _ _ _ ht
  subst e1
  rw [plainPath_names]
  show ∃ es', g'.root.getAt (T ++ rel) = some (.dir es')
  apply getAt_dir_of_obs
  rw [P.here]
  cases m <;> simp [stub] at e2
  rfl

theorem exec_due_overD {fs0 : Fs} {E : Node} {T : List Name} {d : Nat} {ops : List Op} (h : DSpec fs0 E T d ops)
    (c : Cfg) (hn : c.noClobber = false) (g : Fs) (hwf : FsEq g g) (x : Op) (rel : List Name) (m : Node)
    (cp : List Name) (hl : rel.length ≤ d)
    (ex : x = headOp m cp (T ++ rel))
    (hsrc : m.isDir = false → g.root.getAt cp = some m ∧ cp.length ≤ 256)
    (hun : m.isDir = false → ¬ cp <+: T ∧ ¬ T <+: cp)
    (hpar : DirsOf g (T ++ rel).dropLast)
    (hok : HeadOK (obsAt g.root (T ++ rel)) m) :
    ∃ g', execOp g c x = some g' ∧ OPostD T g g' rel m := by
  have hne : T ++ rel ≠ [] := by
    intro h0
    exact h.tne (List.append_eq_nil_iff.1 h0).1
  have hpd : ParentDir g.root (T ++ rel) := hpar
  have hlT : (T ++ rel).length < 256 := by
    simp only [List.length_append]; have := h.lenT; omega
  have hneST : m.isDir = false → cp ≠ T ++ rel := by
    intro hm e
    obtain ⟨u1, u2⟩ := hun hm
    have := unrel_append u1 u2 [] rel
    rw [List.append_nil] at this
    exact this.1 (e ▸ List.prefix_refl _)
  have hUq : ∀ q, ¬ q <+: T → ¬ T <+: q → ¬ T ++ rel <+: q ∧ ¬ q <+: T ++ rel := by
    intro q h1 h2
    have := unrel_append h1 h2 [] rel
    rw [List.append_nil] at this
    exact ⟨this.2, this.1⟩
  rcases List.eq_nil_or_concat (T ++ rel) with h0 | ⟨par, nm, h0⟩
  · exact absurd h0 hne
  simp only [List.concat_eq_append] at h0
  obtain ⟨pes, hpes⟩ := hpar
  rw [h0, List.dropLast_concat] at hpes
  have hlen : par.length + 1 < 256 := by
    have := congrArg List.length h0
    simp only [List.length_append, List.length_cons, List.length_nil] at this
    simp only [List.length_append] at hlT
    omega
  -- the common ending: the new root is the old one with a leaf observed as `m.obs` put at the target
  have fin : ∀ r1 : Node, execOp g c x = some { g with root := r1 } → ReplacedAt g.root r1 (T ++ rel) m.obs →
      (∀ s, s ≠ [] → obsAt g.root (T ++ rel ++ s) = none) →
      (∀ q, ¬ q <+: T → ¬ T <+: q → r1.getAt q = g.root.getAt q) →
      ∃ g', execOp g c x = some g' ∧ OPostD T g g' rel m := by
    intro r1 hx R hb hS
    exact ⟨_, hx, ⟨wf_exec hwf hx, hS, R.here, frame_of_replacedAt R hb⟩⟩
  have outSet : ∀ (v : Node) (q : List Name), ¬ q <+: T → ¬ T <+: q →
      (g.root.setAt (T ++ rel) v).getAt q = g.root.getAt q := by
    intro v q h1 h2
    obtain ⟨a, b⟩ := hUq q h1 h2
    exact getAt_setAt_unrelated _ _ _ _ a b
  cases hdst : g.root.getAt (T ++ rel) with
  | none =>
    have hx := exec_headOp_le g c m cp par nm pes hsrc (by omega) hpes (by rw [← h0]; exact hdst)
    rw [← h0, ← ex] at hx
    apply fin _ hx
    · have R := replacedAt_setAt g.root (T ++ rel) (stub m) hne hpd (stub_leafLike m)
      rw [stub_obs] at R
      exact R
    · intro s _
      rw [obsAt_eq_none]
      exact getAt_append_none _ _ _ hdst
    · exact outSet _
  | some y =>
    have hoy : obsAt g.root (T ++ rel) = some y.obs := by simp [obsAt, hdst]
    rw [hoy] at hok
    cases m with
    | file k =>
      cases y <;> simp [HeadOK, Node.obs] at hok
      rename_i k'
      have hx0 := execOp_copy_over_le g c cp (T ++ rel) k k' (hsrc rfl).1 hdst (hneST rfl) (hsrc rfl).2 hlT
      have hx : execOp g c x = some { g with root := g.root.setAt (T ++ rel) (.file k) } := by
        rw [ex]; exact hx0
      apply fin _ hx
      · exact replacedAt_setAt g.root (T ++ rel) (.file k) hne hpd (leafLike_nondir _ rfl)
      · exact obs_below_none hdst (leafLike_nondir _ rfl)
      · exact outSet _
    | link t =>
      cases y <;> simp [HeadOK, Node.obs] at hok
    | special k dv =>
      have hy : y.isDir = false ∧ y.isLink = false := by
        cases y <;> simp [HeadOK, Node.obs] at hok <;> simp [Node.isDir, Node.isLink]
      have hnd : (pes.map (·.1)).Nodup := hwf.2.1 par pes hpes
      have hx0 := execOp_special_over_le g c hn cp par nm k dv pes y (hsrc rfl).1 hpes hnd
        (by rw [← h0]; exact hdst) hy.1 hy.2 (by rw [← h0]; exact hneST rfl) (hsrc rfl).2 hlen
      rw [← h0] at hx0
      have hx : execOp g c x =
          some { g with root := (g.root.delAt (T ++ rel)).setAt (T ++ rel) (.special k dv) } := by
        rw [ex]; exact hx0
      apply fin _ hx
      · exact replacedAt_reset g.root (T ++ rel) (.special k dv) hne hpd (leafLike_nondir _ rfl)
      · exact obs_below_none hdst (leafLike_nondir _ hy.1)
      · intro q h1 h2
        obtain ⟨a, b⟩ := hUq q h1 h2
        rw [getAt_setAt_unrelated _ _ _ _ a b, getAt_delAt_unrelated _ _ _ a b]
    | dir es =>
      cases y <;> simp [HeadOK, Node.obs] at hok
      rename_i des
      have hx0 := execOp_mkdir_over g c (T ++ rel) des hdst hlT
      have hx : execOp g c x = some g := by rw [ex]; exact hx0
      exact ⟨g, hx, ⟨hwf, fun _ _ _ => rfl, obsAt_dir hdst, fun _ _ => rfl⟩⟩

/-! ## The invariant of the concurrent runs -/

/-- `OInv` for the operations of a sourced tree: instead of "the source tree is where it was", whatever is neither
at/below nor above the target is what it was in the initial state `fs0` (`out`) -/
structure OInvD (fs0 : Fs) (E : Node) (T : List Name) (ops : List Op) (s : St) : Prop where
  ok : s.failed = false
  wf : FsEq s.fs s.fs
  out : ∀ q, ¬ q <+: T → ¬ T <+: q → s.fs.root.getAt q = fs0.root.getAt q
  base : DirsOf s.fs T.dropLast
  todo : TodoOK (DirsOf s.fs) s.todo
  qpar : ∀ x ∈ s.queue, ∀ t, opTarget x = some t → DirsOf s.fs t.names.dropLast
  pend : ∀ x ∈ s.queue ++ s.todo, ∀ t, opTarget x = some t → obsAt s.fs.root t.names = obsAt fs0.root t.names
  kinds : ∀ rel n, E.getAt rel = some n →
    obsAt s.fs.root (T ++ rel) = obsAt fs0.root (T ++ rel) ∨ obsAt s.fs.root (T ++ rel) = some n.obs
  mem : ∀ x ∈ s.queue ++ s.todo, x ∈ ops
  nodup : (s.queue ++ s.todo).Nodup

theorem OInvD.srcAt {fs0 : Fs} {E : Node} {T : List Name} {ops : List Op} {s : St}
    (hinv : OInvD fs0 E T ops s) {m : Node} {cp : List Name}
    (hlf : m.isDir = false → fs0.root.getAt cp = some m ∧ cp.length ≤ 256 ∧ ¬ cp <+: T ∧ ¬ T <+: cp) :
    m.isDir = false → s.fs.root.getAt cp = some m ∧ cp.length ≤ 256 := by
  intro hm
  obtain ⟨h1, h2, u1, u2⟩ := hlf hm
  exact ⟨by rw [hinv.out cp u1 u2]; exact h1, h2⟩

theorem OInvD.init {E : Node} {T : List Name} {ops : List Op}
    (fs : Fs) (hwf : FsEq fs fs) (hpar : DirsOf fs T.dropLast)
    (htodo : TodoOK (DirsOf fs) ops) (hnd : ops.Nodup) :
    OInvD fs E T ops (L0.init fs ops) := by
  refine ⟨rfl, hwf, fun _ _ _ => rfl, hpar, htodo, ?_, ?_, ?_, ?_, ?_⟩
  · intro x hx; cases hx
  · intro x _ t _; rfl
  · intro rel n _; exact .inl rfl
  · intro x hx; simpa [L0.init] using hx
  · simpa [L0.init] using hnd

theorem OInvD.step {fs0 : Fs} {E : Node} {T : List Name} {d : Nat} {ops : List Op}
    (h : DSpec fs0 E T d ops) (H0 : Head0 fs0 E T)
    (c : Cfg) (hn : c.noClobber = false) (s s1 : St) (l : Label) (hinv : OInvD fs0 E T ops s)
    (hstep : L0.step c s l = some s1) : OInvD fs0 E T ops s1 := by
  have hsrcAt := @OInvD.srcAt fs0 E T ops s hinv
  obtain ⟨hok, hwf, hout, hbase, htodo, hqpar, hpend, hkinds, hmem, hnd⟩ := hinv
  -- what one executed operation does to `kinds`
  have hkinds' : ∀ (g' : Fs) (rel : List Name) (m : Node), E.getAt rel = some m →
      OPostD T s.fs g' rel m → ∀ rel' n', E.getAt rel' = some n' →
      obsAt g'.root (T ++ rel') = obsAt fs0.root (T ++ rel') ∨ obsAt g'.root (T ++ rel') = some n'.obs := by
    intro g' rel m hg P rel' n' hg'
    by_cases he : rel' = rel
    · subst he
      rw [hg] at hg'
      injection hg' with hg'
      subst hg'
      exact .inr P.here
    · rw [P.frame (T ++ rel') (fun e => he (List.append_cancel_left e))]
      exact hkinds rel' n' hg'
  cases l with
  | walk =>
    simp only [L0.step, hok, Bool.false_eq_true, if_false] at hstep
    split at hstep
    · cases hstep
    · next op r htd =>
      rw [htd] at htodo hpend hmem hnd
      have hopmem : op ∈ ops := hmem op (by simp)
      obtain ⟨rel, m, cp, hg, hl, ex, hlf⟩ := h.char op hopmem
      have hnd' := List.nodup_append.1 hnd
      have hnd'' := List.nodup_cons.1 hnd'.2.1
      split at hstep
      · -- executed by the walker
        have hpar : DirsOf s.fs (T ++ rel).dropLast := by
          have := htodo.1 (plainPath (T ++ rel)) (by rw [ex, headOp_target])
          rwa [plainPath_names] at this
        have hhok : HeadOK (obsAt s.fs.root (T ++ rel)) m := by
          have := hpend op (by simp) (plainPath (T ++ rel)) (by rw [ex, headOp_target])
          rw [plainPath_names] at this
          rw [this]
          exact H0 rel m hg
        obtain ⟨g', hx, P⟩ := exec_due_overD h c hn s.fs hwf op rel m cp hl ex (hsrcAt hlf)
          (fun hm => (hlf hm).2.2) hpar hhok
        rw [hx] at hstep
        cases hstep
        have hne : ∀ y ∈ s.queue ++ r, op ≠ y := by
          intro y hy hoy
          subst hoy
          rcases List.mem_append.1 hy with hy | hy
          · exact hnd'.2.2 op hy op List.mem_cons_self rfl
          · exact hnd''.1 hy
        have hdirs := P.dirs hhok
        refine ⟨rfl, P.wf, fun q h1 h2 => (P.out q h1 h2).trans (hout q h1 h2), hdirs _ hbase, ?_, ?_, ?_,
          hkinds' g' rel m hg P, ?_, ?_⟩
        · refine TodoOK.mono _ _ _ ?_ htodo.2
          rintro p (hp | ⟨t, ht, hpt⟩)
          · exact hdirs p hp
          · rw [hpt]; exact P.made t (ex ▸ ht)
        · intro y hy t ht
          exact hdirs _ (hqpar y hy t ht)
        · intro y hy t ht
          have hy' : y ∈ s.queue ++ op :: r := by
            rcases List.mem_append.1 hy with hy | hy
            · exact List.mem_append_left _ hy
            · exact List.mem_append_right _ (List.mem_cons_of_mem _ hy)
          show obsAt g'.root t.names = _
          rw [P.frame _ (h.tgt_ne hopmem (hmem y hy') (hne y hy) ex ht)]
          exact hpend y hy' t ht
        · intro y hy
          apply hmem y
          rcases List.mem_append.1 hy with hy | hy
          · exact List.mem_append_left _ hy
          · exact List.mem_append_right _ (List.mem_cons_of_mem _ hy)
        · show (s.queue ++ r).Nodup
          rw [List.nodup_append]
          exact ⟨hnd'.1, hnd''.2, fun a ha b hb => hnd'.2.2 a ha b (List.mem_cons_of_mem _ hb)⟩
      · next hsync =>
        cases hstep
        have hsync' : isSync op = false := by simpa using hsync
        refine ⟨rfl, hwf, hout, hbase, ?_, ?_, ?_, hkinds, ?_, ?_⟩
        · refine TodoOK.mono _ _ _ ?_ htodo.2
          rintro p (hp | ⟨t, ht, _⟩)
          · exact hp
          · rw [ht] at hsync'; cases hsync'
        · intro y hy t ht
          rcases List.mem_append.1 hy with hy | hy
          · exact hqpar y hy t ht
          · have : y = op := by simpa using hy
            subst this
            exact htodo.1 t ht
        · show ∀ y ∈ (s.queue ++ [op]) ++ r, _
          simpa using hpend
        · show ∀ y ∈ (s.queue ++ [op]) ++ r, y ∈ ops
          simpa using hmem
        · show ((s.queue ++ [op]) ++ r).Nodup
          simpa using hnd
  | exec i =>
    simp only [L0.step] at hstep
    split at hstep
    · next a hq =>
      obtain ⟨qpre, qpost, hq1, hq2⟩ := eraseIdx_split s.queue i a hq
      rw [hq2] at hstep
      rw [hq1] at hqpar hpend hmem hnd
      have hamem : a ∈ ops := hmem a (by simp)
      obtain ⟨rel, m, cp, hg, hl, ex, hlf⟩ := h.char a hamem
      have hpar : DirsOf s.fs (T ++ rel).dropLast := by
        have := hqpar a (by simp) (plainPath (T ++ rel)) (by rw [ex, headOp_target])
        rwa [plainPath_names] at this
      have hhok : HeadOK (obsAt s.fs.root (T ++ rel)) m := by
        have := hpend a (by simp) (plainPath (T ++ rel)) (by rw [ex, headOp_target])
        rw [plainPath_names] at this
        rw [this]
        exact H0 rel m hg
      obtain ⟨g', hx, P⟩ := exec_due_overD h c hn s.fs hwf a rel m cp hl ex (hsrcAt hlf)
        (fun hm => (hlf hm).2.2) hpar hhok
      rw [hx] at hstep
      cases hstep
      have hsub : ((qpre ++ qpost) ++ s.todo).Sublist ((qpre ++ a :: qpost) ++ s.todo) := by
        apply List.Sublist.append_right
        apply List.Sublist.append_left
        exact List.sublist_cons_self ..
      have hnd1 := (List.nodup_append.1 hnd).1
      have hnd2 := List.nodup_append.1 hnd1
      have hnd3 := List.nodup_cons.1 hnd2.2.1
      have hne : ∀ y ∈ (qpre ++ qpost) ++ s.todo, a ≠ y := by
        intro y hy hay
        subst hay
        rcases List.mem_append.1 hy with hy | hy
        · rcases List.mem_append.1 hy with hy | hy
          · exact hnd2.2.2 a hy a List.mem_cons_self rfl
          · exact hnd3.1 hy
        · exact (List.nodup_append.1 hnd).2.2 a (by simp) a hy rfl
      have hdirs := P.dirs hhok
      refine ⟨hok, P.wf, fun q h1 h2 => (P.out q h1 h2).trans (hout q h1 h2), hdirs _ hbase,
        TodoOK.mono _ _ _ hdirs htodo, ?_, ?_, hkinds' g' rel m hg P, ?_, ?_⟩
      · intro y hy t ht
        have hy' : y ∈ qpre ++ a :: qpost := by
          rcases List.mem_append.1 hy with hy | hy
          · exact List.mem_append_left _ hy
          · exact List.mem_append_right _ (List.mem_cons_of_mem _ hy)
        exact hdirs _ (hqpar y hy' t ht)
      · intro y hy t ht
        have hy' := hsub.subset hy
        show obsAt g'.root t.names = _
        rw [P.frame _ (h.tgt_ne hamem (hmem y hy') (hne y hy) ex ht)]
        exact hpend y hy' t ht
      · exact fun y hy => hmem y (hsub.subset hy)
      · exact hnd.sublist hsub
    · cases hstep

theorem OInvD.run {fs0 : Fs} {E : Node} {T : List Name} {d : Nat} {ops : List Op}
    (h : DSpec fs0 E T d ops) (H0 : Head0 fs0 E T) (c : Cfg) (hn : c.noClobber = false) :
    ∀ (ls : List Label) (s s' : St), OInvD fs0 E T ops s → L0.run c s ls = some s' →
      OInvD fs0 E T ops s' := by
  intro ls
  induction ls with
  | nil => intro s s' hinv hr; cases hr; exact hinv
  | cons l ls ih =>
    intro s s' hinv hr
    simp only [L0.run] at hr
    split at hr
    · next s1 hs1 => exact ih s1 s' (OInvD.step h H0 c hn s s1 l hinv hs1) hr
    · cases hr

/-! ## What the invariant gives at the moment an operation is handed over -/

/-- no symbolic link at a position of the dereferenced tree, unless the node there is one (it never is) -/
theorem OInvD.not_link {fs0 : Fs} {E : Node} {T : List Name} {ops : List Op} {s : St}
    (H0 : Head0 fs0 E T) (hinv : OInvD fs0 E T ops s) {rel : List Name} {n : Node}
    (hg : E.getAt rel = some n) (hnl : n.isLink = false) (tg : RPath) :
    s.fs.root.getAt (T ++ rel) ≠ some (.link tg) := by
  intro hgl
  rw [getAt_link_iff] at hgl
  rcases hinv.kinds rel n hg with hk | hk
  · rw [hk] at hgl
    have := H0 rel n hg
    rw [hgl] at this
    exact headOK_link_false this
  · rw [hk] at hgl
    cases n <;> simp [Node.obs, Node.isLink] at hgl hnl

theorem OInvD.noLinkAbove {fs0 : Fs} {E : Node} {T : List Name} {ops : List Op} {s : St}
    (H0 : Head0 fs0 E T) (hinv : OInvD fs0 E T ops s) {rel : List Name} {n : Node}
    (hg : E.getAt rel = some n) : NoLinkAbove s.fs.root (T ++ rel) := by
  intro p hp hne tg hgl
  by_cases hT : T <+: p
  · obtain ⟨s', hs'⟩ := hT
    subst hs'
    obtain ⟨u, hu⟩ := (List.prefix_append_right_inj T).1 hp
    subst hu
    have hu0 : u ≠ [] := by
      intro h0; apply hne; rw [h0, List.append_nil]
    obtain ⟨es, hes⟩ := getAt_proper_prefix_dir hg hu0
    exact hinv.not_link H0 hes rfl tg hgl
  · have hpT : p <+: T := by
      rcases List.prefix_or_prefix_of_prefix hp (List.prefix_append T rel) with h1 | h1
      · exact h1
      · exact absurd h1 hT
    have hpne : p ≠ T := fun e => hT (e ▸ List.prefix_refl _)
    obtain ⟨es, hes⟩ := hinv.base
    obtain ⟨es', hes'⟩ := L0.getAt_prefix_dir hes (prefix_dropLast_of_ne hpT hpne)
    rw [hes'] at hgl
    cases hgl

theorem OInvD.plains {fs0 : Fs} {E : Node} {T : List Name} {d : Nat} {ops : List Op} {s : St}
    (h : DSpec fs0 E T d ops) (H0 : Head0 fs0 E T) (hinv : OInvD fs0 E T ops s) :
    ∀ x ∈ ops, Plains s.fs x := by
  intro x hx
  obtain ⟨rel, m, cp, hg, hl, ex, hlf⟩ := h.char x hx
  refine ⟨?_, ?_⟩
  · intro t ht
    rw [ex, headOp_target] at ht
    have := Option.some.inj ht
    subst this
    rw [plainPath_names]
    refine ⟨hinv.noLinkAbove H0 hg, ?_⟩
    intro hnl p hp tg hgl
    by_cases hpe : p = T ++ rel
    · subst hpe
      rw [ex, headOp_isLinkOp] at hnl
      exact hinv.not_link H0 hg hnl tg hgl
    · exact hinv.noLinkAbove H0 hg p hp hpe tg hgl
  · intro sp hs
    rw [ex] at hs
    obtain ⟨e, hmd, hml⟩ := headOp_srcOf _ _ _ _ hs
    subst e
    rw [plainPath_names]
    exact noLinkUpto_of_getAt (hinv.srcAt hlf hmd).1 hml

theorem OInvD.goodAll {fs0 : Fs} {E : Node} {T : List Name} {d : Nat} {ops : List Op} {s : St}
    (h : DSpec fs0 E T d ops) (H0 : Head0 fs0 E T) (hinv : OInvD fs0 E T ops s)
    (op : Op) (r : List Op) (htd : s.todo = op :: r) : GoodAllD ops s.fs op := by
  refine ⟨?_, hinv.plains h H0⟩
  have hopmem : op ∈ ops := hinv.mem op (by rw [htd]; simp)
  obtain ⟨rel, m, cp, hg, hl, ex, hlf⟩ := h.char op hopmem
  have htgt : opTarget op = some (plainPath (T ++ rel)) := by rw [ex, headOp_target]
  have htodo := hinv.todo
  rw [htd] at htodo
  refine ⟨?_, ⟨plainPath (T ++ rel), htgt, ?_, ?_, ?_, ?_⟩, ?_⟩
  · obtain ⟨es, hes⟩ := hinv.base
    obtain ⟨es', hes'⟩ := L0.getAt_prefix_dir hes List.nil_prefix
    simp only [getAt_nil, Option.some.injEq] at hes'
    rw [hes']; rfl
  · refine ⟨rfl, rfl, (plainPath_namesOnly _).2.2, ?_⟩
    rw [plainPath_names]
    intro p hp tg hgl
    by_cases hpe : p = T ++ rel
    · subst hpe
      have := hinv.pend op (by rw [htd]; simp) _ htgt
      rw [plainPath_names] at this
      rw [getAt_link_iff, this] at hgl
      have h0 := H0 rel m hg
      rw [hgl] at h0
      exact headOK_link_false h0
    · exact hinv.noLinkAbove H0 hg p hp hpe tg hgl
  · rw [plainPath_names]
    intro h0
    exact h.tne (List.append_eq_nil_iff.1 h0).1
  · rw [plainPath_names]
    simp only [List.length_append]
    have := h.lenT
    omega
  · exact htodo.1 _ htgt
  · intro sp hs
    rw [ex] at hs
    obtain ⟨e, hmd, hml⟩ := headOp_srcOf _ _ _ _ hs
    subst e
    have hsm : s.fs.root.getAt cp = some m := (hinv.srcAt hlf hmd).1
    refine ⟨⟨rfl, rfl, (plainPath_namesOnly _).2.2, ?_⟩, ?_⟩
    · rw [plainPath_names]; exact noLinkUpto_of_getAt hsm hml
    · rw [plainPath_names]; exact ⟨m, hsm⟩

/-! ## The set-up -/

/-- for a fresh target the side condition holds for free -/
theorem hout_of_absent (fs : Fs) (sn : List Name) (tb : RPath) (s : SNode) (fuel : Nat)
    (hwf : FsEq fs fs)
    (hder : derefS fs fuel sn [] = some s)
    (hne : tb.names ≠ []) (habs : fs.root.getAt tb.names = none)
    (hpar : ∃ es, fs.root.getAt tb.names.dropLast = some (.dir es)) : ReadsAway s tb.names := by
  obtain ⟨pes, hpes⟩ := hpar
  exact (deref_reads_away fs sn tb s fuel hwf (root_not_link_of_dir hpes) hder hne habs ⟨pes, hpes⟩).1

theorem overlay_deref_setup (fs : Fs) (c : Cfg) (hd : c.dereference = true) (hn : c.noClobber = false)
    (src tb : RPath) (s : SNode) (fuel : Nat)
    (hwf : FsEq fs fs)
    (hsrc : AbsNames src)
    (hder : derefS fs (fuel + 1) src.names [] = some s)
    (htb : PlainTarget fs tb) (hne : tb.names ≠ [])
    (hcompat : Compatible (fs.root.getAt tb.names) s.erase)
    (hpar : ∃ es, fs.root.getAt tb.names.dropLast = some (.dir es))
    (hout : ReadsAway s tb.names)
    (hlen : tb.names.length + fuel < 255) :
    walkEntry fs c none src tb (fuel + 1) [] [] = opsOfS s tb.names ∧
    DSpec fs s.erase tb.names (fuel + 1) (opsOfS s tb.names) ∧
    (opsOfS s tb.names).Nodup ∧
    Head0 fs s.erase tb.names ∧
    OInvD fs s.erase tb.names (opsOfS s tb.names) (L0.init fs (opsOfS s tb.names)) := by
  have htbE := plainTarget_eq fs tb htb
  have hsrcE := absNames_eq hsrc
  obtain ⟨pes, hpes⟩ := hpar
  have hroot : fs.root.isLink = false := root_not_link_of_dir hpes
  have hshape := walk_shape_deref fs c hd hn hroot src.names tb.names (fuel + 1) [] [] s (by simpa using hder)
  rw [← htbE, ← hsrcE] at hshape
  simp only [List.append_nil] at hshape
  obtain ⟨hcop, hsrcin⟩ := derefS_good fs hroot hwf.2.1 (fuel + 1) src.names [] s hder
  have hspec : DSpec fs s.erase tb.names (fuel + 1) (opsOfS s tb.names) := by
    refine ⟨?_, opsOfS_tgt_nodup _ s hcop _, hne, by omega⟩
    intro x hx
    obtain ⟨rel, m, cp, hg, hl, ex, hlf⟩ := mem_opsOfS (fuel + 1) s hcop tb.names x hx
    refine ⟨rel, m, cp, hg, hl, ex, ?_⟩
    intro hm
    have hmem := hlf hm
    obtain ⟨h1, _, h3⟩ := hsrcin _ hmem
    obtain ⟨u1, u2⟩ := hout _ hmem
    exact ⟨h1, h3, u2, u1⟩
  have hnd := nodup_of_nodup_map opTarget hspec.tnd
  have htodo : TodoOK (DirsOf fs) (opsOfS s tb.names) :=
    todoOK_opsOfS (fuel + 1) s hcop tb.names (DirsOf fs) ⟨pes, hpes⟩
  have H0 : Head0 fs s.erase tb.names := by
    intro rel m hg
    have := headOK_of_compatible rel (fs.root.getAt tb.names) s.erase m hcompat hg
    unfold obsAt
    rw [Node.getAt_append]
    exact this
  exact ⟨hshape, hspec, hnd, H0, OInvD.init fs hwf ⟨pes, hpes⟩ htodo hnd⟩

end Xcp
