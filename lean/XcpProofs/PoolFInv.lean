import XcpModel.PoolF
/-! Invariants of the dispatcher/pool model WITH failures, for every reachable state (every schedule, any failures).

Adapted from `XcpProofs/PoolInv.lean`: every case analysis is extended by the labels `failJob i` and `abort`. -/
namespace Xcp.PoolF

/-- steps still possible: as in `Xcp.Pool.measure`, plus one for a dispatcher that may still abort -/
def measure (s : St) : Nat :=
  (s.files.map fun b => 5 * b + 2).sum
  + (match s.cur with | some (_, _, left) => 5 * left + 1 | none => 0)
  + 4 * s.queue.length
  + (s.running.map fun jp => match jp.2 with | .copying => 3 | .written => 2 | .reported => 1).sum
  + (if s.aborted then 0 else 1)

/-- `omega` does not look through the abbreviation `Hid` -/
local macro "homega" : tactic => `(tactic| ((try unfold Hid at *); omega))

/-! ## list helpers -/

theorem sum_map_set {α} (f : α → Nat) (x y : α) : ∀ (l : List α) (i : Nat), l[i]? = some y →
    ((l.set i x).map f).sum + f y = (l.map f).sum + f x
  | [], i, h => by simp at h
  | a :: l, 0, h => by simp at h; subst h; simp; omega
  | a :: l, i+1, h => by
    simp at h; have := sum_map_set f x y l i h
    simp only [List.set_cons_succ, List.map_cons, List.sum_cons]; omega

theorem sum_map_eraseIdx {α} (f : α → Nat) (y : α) : ∀ (l : List α) (i : Nat), l[i]? = some y →
    ((l.eraseIdx i).map f).sum + f y = (l.map f).sum
  | [], i, h => by simp at h
  | a :: l, 0, h => by simp at h; subst h; simp; omega
  | a :: l, i+1, h => by
    simp at h; have := sum_map_eraseIdx f y l i h; simp; omega

theorem countP_set' {α} (p : α → Bool) (x y : α) : ∀ (l : List α) (i : Nat), l[i]? = some y →
    (l.set i x).countP p + (if p y then 1 else 0) = l.countP p + (if p x then 1 else 0)
  | [], i, h => by simp at h
  | a :: l, 0, h => by simp at h; subst h; simp [List.countP_cons]; omega
  | a :: l, i+1, h => by
    simp at h; have := countP_set' p x y l i h; simp [List.countP_cons]; omega

theorem countP_eraseIdx' {α} (p : α → Bool) (y : α) : ∀ (l : List α) (i : Nat), l[i]? = some y →
    (l.eraseIdx i).countP p + (if p y then 1 else 0) = l.countP p
  | [], i, h => by simp at h
  | a :: l, 0, h => by simp at h; subst h; simp [List.countP_cons]
  | a :: l, i+1, h => by
    simp at h; have := countP_eraseIdx' p y l i h; simp [List.countP_cons]; omega

/-! ## `release` field by field -/

@[simp] theorem release_files (s : St) (h : Hid) : (release s h).files = s.files := by
  by_cases hr : s.refs h - 1 = 0 <;> simp [release, hr]
@[simp] theorem release_cur (s : St) (h : Hid) : (release s h).cur = s.cur := by
  by_cases hr : s.refs h - 1 = 0 <;> simp [release, hr]
@[simp] theorem release_queue (s : St) (h : Hid) : (release s h).queue = s.queue := by
  by_cases hr : s.refs h - 1 = 0 <;> simp [release, hr]
@[simp] theorem release_running (s : St) (h : Hid) : (release s h).running = s.running := by
  by_cases hr : s.refs h - 1 = 0 <;> simp [release, hr]
@[simp] theorem release_next (s : St) (h : Hid) : (release s h).next = s.next := by
  by_cases hr : s.refs h - 1 = 0 <;> simp [release, hr]
@[simp] theorem release_cap (s : St) (h : Hid) : (release s h).cap = s.cap := by
  by_cases hr : s.refs h - 1 = 0 <;> simp [release, hr]
@[simp] theorem release_workers (s : St) (h : Hid) : (release s h).workers = s.workers := by
  by_cases hr : s.refs h - 1 = 0 <;> simp [release, hr]
@[simp] theorem release_fsyncOn (s : St) (h : Hid) : (release s h).fsyncOn = s.fsyncOn := by
  by_cases hr : s.refs h - 1 = 0 <;> simp [release, hr]
@[simp] theorem release_aborted (s : St) (h : Hid) : (release s h).aborted = s.aborted := by
  by_cases hr : s.refs h - 1 = 0 <;> simp [release, hr]
theorem release_refs (s : St) (h x : Hid) : (release s h).refs x = if x = h then s.refs h - 1 else s.refs x := by
  by_cases hr : s.refs h - 1 = 0 <;> simp [release, hr]
theorem release_isOpen (s : St) (h x : Hid) :
    (release s h).isOpen x = if x = h ∧ s.refs h - 1 = 0 then false else s.isOpen x := by
  by_cases hr : s.refs h - 1 = 0 <;> simp [release, hr]
theorem release_log (s : St) (h : Hid) :
    (release s h).log = s.log ++ (if s.refs h - 1 = 0 then
      [.finalise h] ++ (if s.fsyncOn then [.fsync h] else []) ++ [.closed h] else []) := by
  by_cases hr : s.refs h - 1 = 0 <;> simp [release, hr]

/-! ## inversion of `step`, one lemma per label -/

theorem step_openNext {s s' : St} (h : step s .openNext = some s') :
    ∃ b fs, s.cur = none ∧ s.files = b :: fs ∧
      s' = { s with files := fs, cur := some (s.next, 0, b), next := s.next + 1,
                    refs := fun x => if x = s.next then 1 else s.refs x,
                    isOpen := fun x => if x = s.next then true else s.isOpen x,
                    log := s.log ++ [.opened s.next] } := by
  simp only [step] at h
  split at h
  · next b fs hc hf => exact ⟨b, fs, hc, hf, by simpa using h.symm⟩
  · simp at h

theorem step_push {s s' : St} (h : step s .push = some s') :
    ∃ hd q b, s.cur = some (hd, q, b+1) ∧ s.queue.length < s.cap ∧
      s' = { s with cur := some (hd, q+1, b), queue := s.queue ++ [⟨hd, q⟩],
                    refs := fun x => if x = hd then s.refs x + 1 else s.refs x } := by
  simp only [step] at h
  split at h
  · next hd q b hc =>
    split at h
    · next hq => exact ⟨hd, q, b, hc, hq, by simpa using h.symm⟩
    · simp at h
  · simp at h

theorem step_dropOwn {s s' : St} (h : step s .dropOwn = some s') :
    ∃ hd q, s.cur = some (hd, q, 0) ∧ s' = release { s with cur := none } hd := by
  simp only [step] at h
  split at h
  · next hd q hc => exact ⟨hd, q, hc, by simpa using h.symm⟩
  · simp at h

theorem step_take {s s' : St} (h : step s .take = some s') :
    ∃ j q, s.queue = j :: q ∧ s.running.length < s.workers ∧
      s' = { s with queue := q, running := s.running ++ [(j, .copying)] } := by
  simp only [step] at h
  split at h
  · next j q hq =>
    split at h
    · next hr => exact ⟨j, q, hq, hr, by simpa using h.symm⟩
    · simp at h
  · simp at h

theorem step_stepJob {s s' : St} {i : Nat} (h : step s (.stepJob i) = some s') :
    (∃ j, s.running[i]? = some (j, .copying) ∧
      s' = { s with running := s.running.set i (j, .written), log := s.log ++ [.write j.h j.blk] }) ∨
    (∃ j, s.running[i]? = some (j, .written) ∧
      s' = { s with running := s.running.set i (j, .reported), log := s.log ++ [.copied j.h j.blk] }) ∨
    (∃ j, s.running[i]? = some (j, .reported) ∧
      s' = release { s with running := s.running.eraseIdx i } j.h) := by
  simp only [step] at h
  split at h
  · next j hr => exact .inl ⟨j, hr, by simpa using h.symm⟩
  · next j hr => exact .inr (.inl ⟨j, hr, by simpa using h.symm⟩)
  · next j hr => exact .inr (.inr ⟨j, hr, by simpa using h.symm⟩)
  · simp at h


theorem step_failJob {s s' : St} {i : Nat} (h : step s (.failJob i) = some s') :
    ∃ j, s.running[i]? = some (j, .copying) ∧
      s' = { s with running := s.running.set i (j, .reported), log := s.log ++ [.failed j.h j.blk] } := by
  simp only [step] at h
  split at h
  · next j hr => exact ⟨j, hr, by simpa using h.symm⟩
  · simp at h

theorem step_abort {s s' : St} (h : step s .abort = some s') :
    s.aborted = false ∧
    ((∃ hd q left, s.cur = some (hd, q, left) ∧
        s' = release { s with cur := none, files := [], aborted := true, log := s.log ++ [.aborted] } hd) ∨
     (s.cur = none ∧ s' = { s with files := [], aborted := true, log := s.log ++ [.aborted] })) := by
  simp only [step] at h
  split at h
  · simp at h
  · next ha =>
    refine ⟨by simpa using ha, ?_⟩
    split at h
    · next hd q left hc => exact .inl ⟨hd, q, left, hc, by simpa using h.symm⟩
    · next hc => exact .inr ⟨hc, by simpa using h.symm⟩

/-- every step — including a failing job and an aborting dispatcher — strictly decreases the measure:
every schedule with any failures is finite -/
theorem step_measure (s s' : St) (l : Label) (h : step s l = some s') : measure s' < measure s := by
  cases l with
  | openNext =>
    obtain ⟨b, fs, hc, hf, rfl⟩ := step_openNext h
    simp only [measure, hc, hf, List.map_cons, List.sum_cons]
    generalize (if s.aborted = true then 0 else 1) = a
    omega
  | push =>
    obtain ⟨hd, q, b, hc, hq, rfl⟩ := step_push h
    simp only [measure, hc, List.length_append, List.length_singleton]
    generalize (if s.aborted = true then 0 else 1) = a
    omega
  | dropOwn =>
    obtain ⟨hd, q, hc, rfl⟩ := step_dropOwn h
    simp only [measure, hc, release_files, release_cur, release_queue, release_running, release_aborted]
    generalize (if s.aborted = true then 0 else 1) = a
    omega
  | take =>
    obtain ⟨j, q, hq, hr, rfl⟩ := step_take h
    simp only [measure, hq, List.map_append, List.sum_append, List.map_cons, List.map_nil, List.sum_cons, List.sum_nil,
      List.length_cons]
    generalize (if s.aborted = true then 0 else 1) = a
    omega
  | stepJob i =>
    obtain ⟨j, hr, rfl⟩ | ⟨j, hr, rfl⟩ | ⟨j, hr, rfl⟩ := step_stepJob h
    · have := sum_map_set (fun jp : Job × Phase => match jp.2 with | .copying => 3 | .written => 2 | .reported => 1)
        (j, .written) _ _ _ hr
      simp only [measure]; simp only [] at this
      generalize (if s.aborted = true then 0 else 1) = a
      omega
    · have := sum_map_set (fun jp : Job × Phase => match jp.2 with | .copying => 3 | .written => 2 | .reported => 1)
        (j, .reported) _ _ _ hr
      simp only [measure]; simp only [] at this
      generalize (if s.aborted = true then 0 else 1) = a
      omega
    · have := sum_map_eraseIdx (fun jp : Job × Phase => match jp.2 with | .copying => 3 | .written => 2 | .reported => 1)
        _ _ _ hr
      simp only [measure, release_files, release_cur, release_queue, release_running, release_aborted]
      simp only [] at this
      generalize (if s.aborted = true then 0 else 1) = a
      omega
  | failJob i =>
    obtain ⟨j, hr, rfl⟩ := step_failJob h
    have := sum_map_set (fun jp : Job × Phase => match jp.2 with | .copying => 3 | .written => 2 | .reported => 1)
      (j, .reported) _ _ _ hr
    simp only [measure]; simp only [] at this
    generalize (if s.aborted = true then 0 else 1) = a
    omega
  | abort =>
    obtain ⟨ha, ⟨hd, q, left, hc, rfl⟩ | ⟨hc, rfl⟩⟩ := step_abort h
    · simp only [measure, hc, ha, release_files, release_cur, release_queue, release_running, release_aborted]
      simp
      omega
    · simp only [measure, hc, ha]
      simp
      omega

theorem run_measure (s s' : St) (ls : List Label) (h : run s ls = some s') : measure s' + ls.length ≤ measure s := by
  induction ls generalizing s with
  | nil => simp [run] at h; subst h; simp
  | cons l ls ih =>
    simp only [run] at h
    split at h
    · next s1 hs =>
      have := ih s1 h; have := step_measure _ _ _ hs
      simp; omega
    · simp at h

/-- no deadlock, also after failures: with at least one worker and one queue slot some label is enabled in every
non-final state -/
theorem no_deadlock (s : St) (hw : 0 < s.workers) (hc : 0 < s.cap) (hf : final s = false) : enabled s ≠ [] := by
  suffices ∃ l, l ∈ candidates s ∧ (step s l).isSome by
    obtain ⟨l, hl, hs⟩ := this
    intro he
    have : l ∈ enabled s := by simp [enabled, hl, hs]
    simp [he] at this
  cases hr : s.running with
  | cons jp r =>
    refine ⟨.stepJob 0, by simp [candidates, hr], ?_⟩
    obtain ⟨j, p⟩ := jp
    cases p <;> simp [step, hr]
  | nil =>
    cases hq : s.queue with
    | cons j q => exact ⟨.take, by simp [candidates], by simp [step, hq, hr, hw]⟩
    | nil =>
      cases hcur : s.cur with
      | some c =>
        obtain ⟨hd, q, left⟩ := c
        cases left with
        | zero => exact ⟨.dropOwn, by simp [candidates], by simp [step, hcur]⟩
        | succ b => exact ⟨.push, by simp [candidates], by simp [step, hcur, hq, hc]⟩
      | none =>
        cases hfl : s.files with
        | nil => simp [final, hr, hq, hcur, hfl] at hf
        | cons b fs => exact ⟨.openNext, by simp [candidates], by simp [step, hcur, hfl]⟩

/-! ## induction over reachable states -/

theorem run_ind (P : St → Prop) (hs : ∀ s l s', P s → step s l = some s' → P s') :
    ∀ (ls : List Label) (s0 s : St), P s0 → run s0 ls = some s → P s
  | [], s0, s, h0, h => by simp [run] at h; subst h; exact h0
  | l :: ls, s0, s, h0, h => by
    simp only [run] at h
    split at h
    · next s1 h1 => exact run_ind P hs ls s1 s (hs _ _ _ h0 h1) h
    · simp at h

theorem reach_ind {files : List Nat} {cap workers : Nat} {fs : Bool} (P : St → Prop)
    (h0 : P (init files cap workers fs)) (hs : ∀ s l s', P s → step s l = some s' → P s')
    {s : St} (h : Reachable files cap workers fs s) : P s := by
  obtain ⟨ls, hl⟩ := h
  exact run_ind P hs ls _ _ h0 hl

/-! ## core invariant: the strong count of a handle is the number of its holders -/

def curOcc (c : Option (Hid × Nat × Nat)) (h : Hid) : Nat :=
  match c with
  | some (h', _, _) => if h' = h then 1 else 0
  | none => 0

/-- number of holders of a clone of `h`: queued jobs, running jobs, the dispatcher -/
def occ (s : St) (h : Hid) : Nat :=
  s.queue.countP (fun j => j.h = h) + s.running.countP (fun jp => jp.1.h = h) + curOcc s.cur h

structure CInv (cap workers : Nat) (fs : Bool) (s : St) : Prop where
  refs_eq  : ∀ h, s.refs h = occ s h
  open_iff : ∀ h, s.isOpen h = true ↔ 0 < s.refs h
  fresh    : ∀ h, s.next ≤ h → s.refs h = 0
  qcap     : s.queue.length ≤ s.cap
  rcap     : s.running.length ≤ s.workers
  cap_eq   : s.cap = cap
  workers_eq : s.workers = workers
  fs_eq    : s.fsyncOn = fs

theorem cinv_init (files : List Nat) (cap workers : Nat) (fs : Bool) : CInv cap workers fs (init files cap workers fs) := by
  constructor <;> simp [init, occ, curOcc]

theorem cinv_openNext {cap workers fs} {s s' : St} (inv : CInv cap workers fs s) (h : step s .openNext = some s') :
    CInv cap workers fs s' := by
  obtain ⟨b, fs', hc, hf, rfl⟩ := step_openNext h
  have h0 := inv.fresh s.next (Nat.le_refl _)
  have h0' := inv.refs_eq s.next
  refine ⟨?_, ?_, ?_, inv.qcap, inv.rcap, inv.cap_eq, inv.workers_eq, inv.fs_eq⟩
  · intro x
    have h1 := inv.refs_eq x
    simp only [occ, curOcc, hc] at h1 h0' ⊢
    by_cases e : x = s.next
    · subst e; simp only [↓reduceIte]; omega
    · have : ¬ s.next = x := fun h => e h.symm
      simp only [e, this, ↓reduceIte] at h1 ⊢; omega
  · intro x
    have h1 := inv.open_iff x
    by_cases e : x = s.next <;> simp [e, h1]
  · intro x hx
    have hx' : s.next + 1 ≤ x := hx
    have h1 := inv.fresh x (by homega)
    have : x ≠ s.next := by homega
    simp [this, h1]

theorem cur_refs_pos {cap workers fs} {s : St} (inv : CInv cap workers fs s) {hd q b} (hc : s.cur = some (hd, q, b)) :
    0 < s.refs hd ∧ hd < s.next := by
  have h1 := inv.refs_eq hd
  simp only [occ, curOcc, hc] at h1
  have : 0 < s.refs hd := by simp at h1; omega
  refine ⟨this, ?_⟩
  apply Nat.lt_of_not_le; intro hle
  have := inv.fresh hd hle; omega

theorem cinv_push {cap workers fs} {s s' : St} (inv : CInv cap workers fs s) (h : step s .push = some s') :
    CInv cap workers fs s' := by
  obtain ⟨hd, q, b, hc, hq, rfl⟩ := step_push h
  obtain ⟨hp, hlt⟩ := cur_refs_pos inv hc
  refine ⟨?_, ?_, ?_, ?_, inv.rcap, inv.cap_eq, inv.workers_eq, inv.fs_eq⟩
  · intro x
    have h1 := inv.refs_eq x
    simp only [occ, curOcc, hc] at h1 ⊢
    by_cases e : x = hd
    · subst e; simp [List.countP_append]; simp at h1; omega
    · have : ¬ hd = x := fun h => e h.symm
      simp [e, this, List.countP_append]; simp [this] at h1; omega
  · intro x
    have h1 := inv.open_iff x
    by_cases e : x = hd
    · subst e; simp [h1]; omega
    · simp [e, h1]
  · intro x hx
    have h1 := inv.fresh x hx
    have hx' : s.next ≤ x := hx
    have : x ≠ hd := by homega
    simp [this, h1]
  · simp only [List.length_append, List.length_singleton]; omega

/-- `release` of `hd` after one holder of `hd` went away -/
theorem cinv_release {cap workers fs} {s t : St} (inv : CInv cap workers fs s) (hd : Hid)
    (hq : t.queue.length ≤ s.queue.length) (hr : t.running.length ≤ s.running.length)
    (hrefs : t.refs = s.refs) (hopen : t.isOpen = s.isOpen) (hnext : t.next = s.next)
    (hcap : t.cap = s.cap) (hw : t.workers = s.workers) (hfs : t.fsyncOn = s.fsyncOn)
    (hocc : ∀ x, occ t x + (if x = hd then 1 else 0) = occ s x) :
    CInv cap workers fs (release t hd) := by
  have := inv.qcap; have := inv.rcap
  refine ⟨?_, ?_, ?_, ?_, ?_, ?_, ?_, ?_⟩
  · intro x
    have h1 := inv.refs_eq x; have h2 := hocc x
    simp only [occ, release_queue, release_running, release_cur, release_refs, hrefs] at h1 h2 ⊢
    by_cases e : x = hd
    · subst e; simp at h2 ⊢; omega
    · simp [e] at h2 ⊢; omega
  · intro x
    have h1 := inv.open_iff x
    simp only [release_refs, release_isOpen, hrefs, hopen]
    by_cases e : x = hd
    · subst e
      by_cases z : s.refs x - 1 = 0
      · simp [z]
      · simp [z, h1]; omega
    · simp [e, h1]
  · intro x hx
    have h1 := inv.fresh x (by simpa [hnext] using hx)
    simp only [release_refs, hrefs]
    split
    · next e => subst e; omega
    · exact h1
  · simp [hcap]; omega
  · simp [hw]; omega
  · simp [hcap, inv.cap_eq]
  · simp [hw, inv.workers_eq]
  · simp [hfs, inv.fs_eq]

theorem cinv_dropOwn {cap workers fs} {s s' : St} (inv : CInv cap workers fs s) (h : step s .dropOwn = some s') :
    CInv cap workers fs s' := by
  obtain ⟨hd, q, hc, rfl⟩ := step_dropOwn h
  apply cinv_release inv hd <;> try simp
  intro x
  simp only [occ, curOcc, hc]
  by_cases e : x = hd
  · subst e; simp
  · have : ¬ hd = x := fun h => e h.symm
    simp [e, this]

theorem cinv_take {cap workers fs} {s s' : St} (inv : CInv cap workers fs s) (h : step s .take = some s') :
    CInv cap workers fs s' := by
  obtain ⟨j, q, hq, hr, rfl⟩ := step_take h
  have := inv.qcap
  refine ⟨?_, inv.open_iff, inv.fresh, ?_, ?_, inv.cap_eq, inv.workers_eq, inv.fs_eq⟩
  · intro x
    have h1 := inv.refs_eq x
    simp only [occ, hq] at h1 ⊢
    rw [h1]; simp [List.countP_cons, List.countP_append]; omega
  · simp [hq] at this ⊢; omega
  · simp; omega

theorem cinv_stepJob {cap workers fs} {s s' : St} {i : Nat} (inv : CInv cap workers fs s)
    (h : step s (.stepJob i) = some s') : CInv cap workers fs s' := by
  obtain ⟨j, hr, rfl⟩ | ⟨j, hr, rfl⟩ | ⟨j, hr, rfl⟩ := step_stepJob h
  · refine ⟨?_, inv.open_iff, inv.fresh, inv.qcap, ?_, inv.cap_eq, inv.workers_eq, inv.fs_eq⟩
    · intro x
      have h1 := inv.refs_eq x
      have h2 := countP_set' (fun jp : Job × Phase => decide (jp.1.h = x)) (j, .written) _ _ _ hr
      simp only [occ] at h1 ⊢
      simp only [] at h2
      omega
    · simpa using inv.rcap
  · refine ⟨?_, inv.open_iff, inv.fresh, inv.qcap, ?_, inv.cap_eq, inv.workers_eq, inv.fs_eq⟩
    · intro x
      have h1 := inv.refs_eq x
      have h2 := countP_set' (fun jp : Job × Phase => decide (jp.1.h = x)) (j, .reported) _ _ _ hr
      simp only [occ] at h1 ⊢
      simp only [] at h2
      omega
    · simpa using inv.rcap
  · apply cinv_release inv j.h <;> try simp
    · exact List.length_eraseIdx_le _ _
    · intro x
      have h2 := countP_eraseIdx' (fun jp : Job × Phase => decide (jp.1.h = x)) _ _ _ hr
      simp only [occ]
      simp only [] at h2
      by_cases e : x = j.h
      · subst e; simp at h2 ⊢; omega
      · have : ¬ j.h = x := fun h => e h.symm
        simp [e, this] at h2 ⊢; omega


theorem cinv_failJob {cap workers fs} {s s' : St} {i : Nat} (inv : CInv cap workers fs s)
    (h : step s (.failJob i) = some s') : CInv cap workers fs s' := by
  obtain ⟨j, hr, rfl⟩ := step_failJob h
  refine ⟨?_, inv.open_iff, inv.fresh, inv.qcap, ?_, inv.cap_eq, inv.workers_eq, inv.fs_eq⟩
  · intro x
    have h1 := inv.refs_eq x
    have h2 := countP_set' (fun jp : Job × Phase => decide (jp.1.h = x)) (j, .reported) _ _ _ hr
    simp only [occ] at h1 ⊢
    simp only [] at h2
    omega
  · simpa using inv.rcap

theorem cinv_abort {cap workers fs} {s s' : St} (inv : CInv cap workers fs s) (h : step s .abort = some s') :
    CInv cap workers fs s' := by
  obtain ⟨ha, ⟨hd, q, left, hc, rfl⟩ | ⟨hc, rfl⟩⟩ := step_abort h
  · apply cinv_release inv hd <;> try simp
    intro x
    simp only [occ, curOcc, hc]
    by_cases e : x = hd
    · subst e; simp
    · have : ¬ hd = x := fun h => e h.symm
      simp [e, this]
  · exact ⟨fun x => inv.refs_eq x, inv.open_iff, inv.fresh, inv.qcap, inv.rcap, inv.cap_eq, inv.workers_eq, inv.fs_eq⟩

theorem cinv_step {cap workers fs} {s s' : St} (l : Label) (inv : CInv cap workers fs s)
    (h : step s l = some s') : CInv cap workers fs s' := by
  cases l with
  | openNext => exact cinv_openNext inv h
  | push => exact cinv_push inv h
  | dropOwn => exact cinv_dropOwn inv h
  | take => exact cinv_take inv h
  | stepJob i => exact cinv_stepJob inv h
  | failJob i => exact cinv_failJob inv h
  | abort => exact cinv_abort inv h

theorem cinv_reachable {files : List Nat} {cap workers : Nat} {fs : Bool} {s : St}
    (h : Reachable files cap workers fs s) : CInv cap workers fs s :=
  reach_ind (CInv cap workers fs) (cinv_init files cap workers fs) (fun _ l _ inv hs => cinv_step l inv hs) h

/-! ## C20 -/

def holders (s : St) : List Hid :=
  s.queue.map (·.h) ++ s.running.map (·.1.h) ++ (match s.cur with | some (h, _, _) => [h] | none => [])

theorem occ_pos_mem (s : St) (h : Hid) (hp : 0 < occ s h) : h ∈ holders s := by
  unfold occ at hp; unfold holders
  simp only [List.mem_append, List.mem_map]
  by_cases h1 : 0 < s.queue.countP (fun j => j.h = h)
  · obtain ⟨j, hj, e⟩ := List.countP_pos_iff.mp h1
    exact .inl (.inl ⟨j, hj, by simpa using e⟩)
  · by_cases h2 : 0 < s.running.countP (fun jp => jp.1.h = h)
    · obtain ⟨j, hj, e⟩ := List.countP_pos_iff.mp h2
      exact .inl (.inr ⟨j, hj, by simpa using e⟩)
    · right
      cases hc : s.cur with
      | none => simp [hc, curOcc] at hp; omega
      | some p =>
        obtain ⟨h', q, b⟩ := p
        simp only [hc, curOcc] at hp ⊢
        by_cases e : h' = h
        · simp [e]
        · simp [e] at hp; omega

theorem nodup_subset_length {α} [DecidableEq α] : ∀ (l m : List α), l.Nodup → (∀ a ∈ l, a ∈ m) → l.length ≤ m.length
  | [], m, _, _ => by simp
  | a :: l, m, hn, hs => by
    have ha : a ∈ m := hs a (by simp)
    rw [List.nodup_cons] at hn
    have := nodup_subset_length l (m.erase a) hn.2 (fun x hx => by
      have hne : x ≠ a := fun e => hn.1 (e ▸ hx)
      exact (List.mem_erase_of_ne hne).mpr (hs x (by simp [hx])))
    have := List.length_erase_of_mem ha
    have : 0 < m.length := List.length_pos_of_mem ha
    simp; omega

/-- C20 with failures: open handles stay bounded by capacity + workers + 1 -/
theorem open_bound (files : List Nat) (cap workers : Nat) (fs : Bool) (s : St)
    (h : Reachable files cap workers fs s) : openCount s ≤ cap + workers + 1 := by
  have inv := cinv_reachable h
  have hn : ((List.range s.next).filter fun h => s.isOpen h).Nodup :=
    List.Nodup.sublist List.filter_sublist List.nodup_range
  have hsub : ∀ a ∈ ((List.range s.next).filter fun h => s.isOpen h), a ∈ holders s := by
    intro a ha
    have := (List.mem_filter.mp ha).2
    exact occ_pos_mem s a (by rw [← inv.refs_eq]; exact (inv.open_iff a).mp this)
  have h1 := nodup_subset_length _ _ hn hsub
  have h2 : (holders s).length ≤ s.cap + s.workers + 1 := by
    unfold holders
    have := inv.qcap; have := inv.rcap
    cases s.cur <;> simp <;> omega
  have := inv.cap_eq; have := inv.workers_eq
  unfold openCount; omega

/-! ## C18/C10/C06: the trace monitor -/

theorem wbf_fin_cons (h : Hid) (r : List Event) :
    writesBeforeFinalise (.finalise h :: r) = true ↔ (∀ blk, .write h blk ∉ r) ∧ writesBeforeFinalise r = true := by
  simp only [writesBeforeFinalise, Bool.and_eq_true, Bool.not_eq_true', List.any_eq_false]
  refine and_congr_left fun _ => ⟨fun H blk hm => by simpa using H _ hm, fun H x hx => ?_⟩
  cases x <;> simp
  rintro rfl; exact H _ hx

theorem wbf_fsync_cons (h : Hid) (r : List Event) :
    writesBeforeFinalise (.fsync h :: r) = true ↔ (∀ blk, .write h blk ∉ r) ∧ writesBeforeFinalise r = true := by
  simp only [writesBeforeFinalise, Bool.and_eq_true, Bool.not_eq_true', List.any_eq_false]
  refine and_congr_left fun _ => ⟨fun H blk hm => by simpa using H _ hm, fun H x hx => ?_⟩
  cases x <;> simp
  rintro rfl; exact H _ hx

theorem wbf_snoc (l : List Event) (e : Event) :
    writesBeforeFinalise (l ++ [e]) = true ↔
      writesBeforeFinalise l = true ∧ ∀ h blk, e = .write h blk → .finalise h ∉ l ∧ .fsync h ∉ l := by
  induction l with
  | nil => cases e <;> simp [writesBeforeFinalise]
  | cons a l ih =>
    cases a with
    | finalise h' =>
      rw [List.cons_append, wbf_fin_cons, wbf_fin_cons, ih]
      simp only [List.mem_append, List.mem_cons]
      grind
    | fsync h' =>
      rw [List.cons_append, wbf_fsync_cons, wbf_fsync_cons, ih]
      simp only [List.mem_append, List.mem_cons]
      grind
    | opened h' => simpa [writesBeforeFinalise] using ih
    | write h' b' => simpa [writesBeforeFinalise] using ih
    | copied h' b' => simpa [writesBeforeFinalise] using ih
    | closed h' => simpa [writesBeforeFinalise] using ih
    | failed h' b' => simpa [writesBeforeFinalise] using ih
    | aborted => simpa [writesBeforeFinalise] using ih

theorem wbf_snoc_nw (l : List Event) (e : Event) (he : ∀ h blk, e ≠ .write h blk) :
    writesBeforeFinalise (l ++ [e]) = writesBeforeFinalise l := by
  rw [Bool.eq_iff_iff, wbf_snoc]
  exact ⟨fun h => h.1, fun h => ⟨h, fun x b e' => absurd e' (he x b)⟩⟩

theorem holder_pos {cap workers fs} {s : St} (inv : CInv cap workers fs s) {h : Hid} (hp : 0 < occ s h) :
    0 < s.refs h ∧ h < s.next := by
  have h1 := inv.refs_eq h
  refine ⟨by omega, ?_⟩
  apply Nat.lt_of_not_le; intro hle
  have := inv.fresh h hle; omega

theorem running_occ_pos {s : St} {i : Nat} {j : Job} {p : Phase} (hr : s.running[i]? = some (j, p)) :
    0 < occ s j.h := by
  have : 0 < s.running.countP (fun jp => jp.1.h = j.h) :=
    List.countP_pos_iff.mpr ⟨(j, p), List.mem_of_getElem? hr, by simp⟩
  unfold occ; omega

structure LInv (s : St) : Prop where
  dead : ∀ h, (.finalise h ∈ s.log ∨ .fsync h ∈ s.log) → s.refs h = 0 ∧ h < s.next
  wbf  : writesBeforeFinalise s.log = true

theorem linv_init (files : List Nat) (cap workers : Nat) (fs : Bool) : LInv (init files cap workers fs) := by
  constructor <;> simp [init, writesBeforeFinalise]

/-- `release` of a handle that still had a holder -/
theorem linv_release {s t : St} (linv : LInv s) (hd : Hid) (hpos : 0 < s.refs hd) (hlt : hd < s.next)
    (hrefs : t.refs = s.refs) (hnext : t.next = s.next) (hlog : t.log = s.log) :
    LInv (release t hd) := by
  constructor
  · intro h hm
    simp only [release_log, release_refs, release_next, hrefs, hnext, hlog] at hm ⊢
    by_cases e : h = hd
    · subst e
      simp only [↓reduceIte]
      refine ⟨?_, hlt⟩
      by_cases z : s.refs h - 1 = 0
      · exact z
      · simp only [z, ↓reduceIte, List.append_nil] at hm
        have := (linv.dead h hm).1; omega
    · have hm' : .finalise h ∈ s.log ∨ .fsync h ∈ s.log := by
        have e' : ¬ hd = h := fun x => e x.symm
        split at hm
        · split at hm <;> simpa [e, e'] using hm
        · simpa using hm
      simpa [e] using linv.dead h hm'
  · simp only [release_log, hlog]
    split
    · split
      · rw [← List.append_assoc, ← List.append_assoc]
        show writesBeforeFinalise (s.log ++ [Event.finalise hd] ++ [Event.fsync hd] ++ [Event.closed hd]) = true
        rw [wbf_snoc_nw _ _ (by simp), wbf_snoc_nw _ _ (by simp), wbf_snoc_nw _ _ (by simp)]
        exact linv.wbf
      · rw [List.append_nil, ← List.append_assoc]
        rw [wbf_snoc_nw _ _ (by simp), wbf_snoc_nw _ _ (by simp)]
        exact linv.wbf
    · simpa using linv.wbf

theorem linv_step {cap workers fs} {s s' : St} (l : Label) (inv : CInv cap workers fs s) (linv : LInv s)
    (h : step s l = some s') : LInv s' := by
  cases l with
  | openNext =>
    obtain ⟨b, fs', hc, hf, rfl⟩ := step_openNext h
    constructor
    · intro x hm
      have := linv.dead x (by simpa using hm)
      have hne : x ≠ s.next := by homega
      simp only [hne, ↓reduceIte]
      exact ⟨this.1, by homega⟩
    · show writesBeforeFinalise (s.log ++ [Event.opened s.next]) = true
      rw [wbf_snoc_nw _ _ (by simp)]; exact linv.wbf
  | push =>
    obtain ⟨hd, q, b, hc, hq, rfl⟩ := step_push h
    obtain ⟨hp, hlt⟩ := cur_refs_pos inv hc
    constructor
    · intro x hm
      have := linv.dead x hm
      have hne : x ≠ hd := by intro e; subst e; omega
      simpa [hne] using this
    · exact linv.wbf
  | dropOwn =>
    obtain ⟨hd, q, hc, rfl⟩ := step_dropOwn h
    obtain ⟨hp, hlt⟩ := cur_refs_pos inv hc
    exact linv_release linv hd hp hlt rfl rfl rfl
  | take =>
    obtain ⟨j, q, hq, hr, rfl⟩ := step_take h
    exact ⟨linv.dead, linv.wbf⟩
  | stepJob i =>
    obtain ⟨j, hr, rfl⟩ | ⟨j, hr, rfl⟩ | ⟨j, hr, rfl⟩ := step_stepJob h
    · obtain ⟨hp, hlt⟩ := holder_pos inv (running_occ_pos hr)
      constructor
      · intro x hm
        exact linv.dead x (by simpa using hm)
      · show writesBeforeFinalise (s.log ++ [Event.write j.h j.blk]) = true
        rw [wbf_snoc]
        refine ⟨linv.wbf, ?_⟩
        intro x b e
        injection e with e1 e2
        subst e1
        constructor
        · intro hm; have := (linv.dead _ (.inl hm)).1; omega
        · intro hm; have := (linv.dead _ (.inr hm)).1; omega
    · constructor
      · intro x hm
        exact linv.dead x (by simpa using hm)
      · show writesBeforeFinalise (s.log ++ [Event.copied j.h j.blk]) = true
        rw [wbf_snoc_nw _ _ (by simp)]; exact linv.wbf
    · obtain ⟨hp, hlt⟩ := holder_pos inv (running_occ_pos hr)
      exact linv_release linv j.h hp hlt rfl rfl rfl
  | failJob i =>
    obtain ⟨j, hr, rfl⟩ := step_failJob h
    constructor
    · intro x hm
      exact linv.dead x (by simpa using hm)
    · show writesBeforeFinalise (s.log ++ [Event.failed j.h j.blk]) = true
      rw [wbf_snoc_nw _ _ (by simp)]; exact linv.wbf
  | abort =>
    obtain ⟨ha, ⟨hd, q, left, hc, rfl⟩ | ⟨hc, rfl⟩⟩ := step_abort h
    · obtain ⟨hp, hlt⟩ := cur_refs_pos inv hc
      have l1 : LInv { s with cur := none, files := [], aborted := true, log := s.log ++ [.aborted] } := by
        constructor
        · intro x hm
          exact linv.dead x (by simpa using hm)
        · show writesBeforeFinalise (s.log ++ [Event.aborted]) = true
          rw [wbf_snoc_nw _ _ (by simp)]; exact linv.wbf
      exact linv_release l1 hd hp hlt rfl rfl rfl
    · constructor
      · intro x hm
        exact linv.dead x (by simpa using hm)
      · show writesBeforeFinalise (s.log ++ [Event.aborted]) = true
        rw [wbf_snoc_nw _ _ (by simp)]; exact linv.wbf

theorem linv_reachable {files : List Nat} {cap workers : Nat} {fs : Bool} {s : St}
    (h : Reachable files cap workers fs s) : CInv cap workers fs s ∧ LInv s :=
  reach_ind (fun s => CInv cap workers fs s ∧ LInv s) ⟨cinv_init files cap workers fs, linv_init files cap workers fs⟩
    (fun _ l _ inv hs => ⟨cinv_step l inv.1 hs, linv_step l inv.1 inv.2 hs⟩) h

/-- C18/C10 with failures: no write of a handle follows its finalisation or fsync -/
theorem writes_before_finalise (files : List Nat) (cap workers : Nat) (fs : Bool) (s : St)
    (h : Reachable files cap workers fs s) : writesBeforeFinalise s.log = true :=
  (linv_reachable h).2.wbf

/-! ## no leak: a handle below `next` has a holder or is closed -/

def WInv (s : St) : Prop := ∀ h, h < s.next → 0 < s.refs h ∨ .closed h ∈ s.log

theorem winv_init (files : List Nat) (cap workers : Nat) (fs : Bool) : WInv (init files cap workers fs) := by
  intro h hl; simp [init] at hl

theorem winv_release {s : St} (winv : WInv s) (hd : Hid) : WInv (release s hd) := by
  intro h hl
  have := winv h (by simpa using hl)
  simp only [release_refs, release_log]
  by_cases e : h = hd
  · subst e
    by_cases z : s.refs h - 1 = 0
    · right; simp [z]
    · left; simp; omega
  · simp only [e, ↓reduceIte]
    rcases this with h1 | h1
    · exact .inl h1
    · exact .inr (List.mem_append_left _ h1)

/-- appending events keeps `WInv` -/
theorem winv_log {s t : St} (winv : WInv s) (hnext : t.next = s.next) (hrefs : t.refs = s.refs)
    (hlog : ∃ es, t.log = s.log ++ es) : WInv t := by
  obtain ⟨es, hlog⟩ := hlog
  intro h hl
  rw [hrefs, hlog]
  rcases winv h (by simpa [hnext] using hl) with h1 | h1
  · exact .inl h1
  · exact .inr (List.mem_append_left _ h1)

theorem winv_step {s s' : St} (l : Label) (winv : WInv s) (h : step s l = some s') : WInv s' := by
  cases l with
  | openNext =>
    obtain ⟨b, fs', hc, hf, rfl⟩ := step_openNext h
    intro x hx
    have hx' : x < s.next + 1 := hx
    by_cases e : x = s.next
    · left; simp [e]
    · have := winv x (by homega)
      simp only [e, ↓reduceIte]
      rcases this with h1 | h1
      · exact .inl h1
      · exact .inr (List.mem_append_left _ h1)
  | push =>
    obtain ⟨hd, q, b, hc, hq, rfl⟩ := step_push h
    intro x hx
    rcases winv x hx with h1 | h1
    · left; show 0 < (if x = hd then s.refs x + 1 else s.refs x); split <;> omega
    · exact .inr h1
  | dropOwn =>
    obtain ⟨hd, q, hc, rfl⟩ := step_dropOwn h
    exact winv_release (s := { s with cur := none }) winv hd
  | take =>
    obtain ⟨j, q, hq, hr, rfl⟩ := step_take h
    exact winv
  | stepJob i =>
    obtain ⟨j, hr, rfl⟩ | ⟨j, hr, rfl⟩ | ⟨j, hr, rfl⟩ := step_stepJob h
    · exact winv_log winv rfl rfl ⟨_, rfl⟩
    · exact winv_log winv rfl rfl ⟨_, rfl⟩
    · exact winv_release (s := { s with running := s.running.eraseIdx i }) winv j.h
  | failJob i =>
    obtain ⟨j, hr, rfl⟩ := step_failJob h
    exact winv_log winv rfl rfl ⟨_, rfl⟩
  | abort =>
    obtain ⟨ha, ⟨hd, q, left, hc, rfl⟩ | ⟨hc, rfl⟩⟩ := step_abort h
    · exact winv_release (s := { s with cur := none, files := [], aborted := true, log := s.log ++ [.aborted] })
        (winv_log winv rfl rfl ⟨[.aborted], rfl⟩) hd
    · exact winv_log winv rfl rfl ⟨_, rfl⟩

/-- descriptors are not leaked by failures: in a final state every opened handle has been closed -/
theorem final_all_closed (files : List Nat) (cap workers : Nat) (fs : Bool) (s : St)
    (h : Reachable files cap workers fs s) (hf : final s = true) :
    ∀ hd, hd < s.next → .closed hd ∈ s.log := by
  have inv := cinv_reachable h
  have winv : WInv s := reach_ind WInv (winv_init files cap workers fs)
    (fun _ l _ inv hs => winv_step l inv hs) h
  simp only [final, Bool.and_eq_true, List.isEmpty_iff, Option.isNone_iff_eq_none] at hf
  obtain ⟨⟨⟨hfl, hcur⟩, hq⟩, hr⟩ := hf
  intro hd hlt
  rcases winv hd hlt with h1 | h1
  · have := inv.refs_eq hd
    simp [occ, curOcc, hq, hr, hcur] at this
    omega
  · exact h1

end Xcp.PoolF
