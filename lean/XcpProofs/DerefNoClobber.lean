import XcpProofs.DerefConc
import XcpProofs.GiConc
import XcpProofs.DerefNoClobberLemmas
/-! # `--no-clobber` with `--dereference`, fresh destination, EVERY interleaving

The counterpart of `noclobber_tree_any_interleaving` (NoClobberTree) under `-L`: with every target of the walk absent
the no-clobber probe never fires, so the walk emits the operations `opsOfS` of the tree seen through the links
whatever `noClobber` is (`walk_shape_deref_nc`); the invariant `DInv` (DerefConcLemmas) does not consult `noClobber`
(every operation finds its target absent), and it keeps the targets of all pending operations absent for `lstat`
(`DInv.pending_fresh`, GiConcLemmas).  In every reachable state: every entry that existed initially is kept, whichever
queued operation completes next and whichever operation the walker reaches next finds that its target does not exist
at that moment, and the run has not failed. -/
namespace Xcp

open L0

theorem deref_noclobber_any_interleaving (fs : Fs) (c : Cfg) (hd : c.dereference = true) (hn : c.noClobber = true)
    (src tb : RPath) (s : SNode) (fuel : Nat)
    (hwf : FsEq fs fs)
    (hsrc : AbsNames src)
    (hder : derefS fs (fuel + 1) src.names [] = some s)
    (htb : PlainTarget fs tb) (hne : tb.names ≠ []) (habs : fs.root.getAt tb.names = none)
    (hpar : ∃ es, fs.root.getAt tb.names.dropLast = some (.dir es))
    (hlen : tb.names.length + fuel < 255)
    (ls : List Label) (st : St)
    (hrun : run c (init fs (walkEntry fs c none src tb (fuel + 1) [] [])) ls = some st) :
    Preserved fs.root st.fs.root ∧
    (∀ op ∈ st.queue, ∀ t, opTarget op = some t → st.fs.lexists t = false) ∧
    (∀ op r, st.todo = op :: r → ∀ t, opTarget op = some t → st.fs.lexists t = false) ∧
    st.failed = false := by
  have _ := hn      -- the statement holds whatever `noClobber` is; this is the case C08 is about
  obtain ⟨hshape, hspec, _, hinit⟩ := deref_setup_nc fs c hd src tb s fuel hwf hsrc hder htb hne habs hpar hlen
  rw [hshape] at hrun
  obtain ⟨hinv, hpres⟩ := DInv.run_preserved hspec c ls _ st hinit hrun
  refine ⟨hpres, ?_, ?_, hinv.ok⟩
  · intro op hop t ht
    exact hinv.pending_fresh hspec op (List.mem_append_left _ hop) t ht
  · intro op r htd t ht
    exact hinv.pending_fresh hspec op (List.mem_append_right _ (by rw [htd]; simp)) t ht

/-- sequential: the operations the walker emits under `-L` and no-clobber for an absent plain target form a
`FreshRun` … -/
theorem deref_noclobber_fresh_run (fs : Fs) (c : Cfg) (hd : c.dereference = true) (hn : c.noClobber = true)
    (src tb : RPath) (s : SNode) (fuel : Nat)
    (hwf : FsEq fs fs)
    (hsrc : AbsNames src)
    (hder : derefS fs (fuel + 1) src.names [] = some s)
    (htb : PlainTarget fs tb) (hne : tb.names ≠ []) (habs : fs.root.getAt tb.names = none)
    (hpar : ∃ es, fs.root.getAt tb.names.dropLast = some (.dir es))
    (hlen : tb.names.length + fuel < 255) :
    FreshRun fs c (walkEntry fs c none src tb (fuel + 1) [] []) := by
  apply freshRun_of_reach
  intro ls st hr
  have := deref_noclobber_any_interleaving fs c hd hn src tb s fuel hwf hsrc hder htb hne habs hpar hlen ls st hr
  exact ⟨this.2.1, this.2.2.1⟩

/-- … hence the sequential run alters no entry that existed before, anywhere in the file system -/
theorem deref_noclobber_preserves (fs : Fs) (c : Cfg) (hd : c.dereference = true) (hn : c.noClobber = true)
    (src tb : RPath) (s : SNode) (fuel : Nat)
    (hwf : FsEq fs fs)
    (hsrc : AbsNames src)
    (hder : derefS fs (fuel + 1) src.names [] = some s)
    (htb : PlainTarget fs tb) (hne : tb.names ≠ []) (habs : fs.root.getAt tb.names = none)
    (hpar : ∃ es, fs.root.getAt tb.names.dropLast = some (.dir es))
    (hlen : tb.names.length + fuel < 255) :
    Preserved fs.root (execOps fs c (walkEntry fs c none src tb (fuel + 1) [] [])).fs.root :=
  freshRun_preserved c _ fs
    (deref_noclobber_fresh_run fs c hd hn src tb s fuel hwf hsrc hder htb hne habs hpar hlen)

end Xcp
