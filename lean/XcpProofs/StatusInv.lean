import XcpModel.Status
/-! Invariants of the status-update stream model (`Xcp.Status`), for every reachable state, and the
batching lemmas of `channelRun`.

Layout: `sumCopied`/`sumSize`/`hasError` of cons and snoc; list sums under `set`/`eraseIdx`; the prefix monitor
as a proposition (`PrefixFine`); `channelRun` unfolded, and "every prefix of the delivered stream is dominated by
a prefix of the sent stream"; inversion of `step`; induction over reachable states; the invariant `Inv`. -/
namespace Xcp.Status

open Xcp

/-! ## the three folds -/

@[simp] theorem sumCopied_nil : sumCopied [] = 0 := rfl
@[simp] theorem sumSize_nil : sumSize [] = 0 := rfl
@[simp] theorem hasError_nil : hasError [] = false := rfl
@[simp] theorem sumCopied_copied (n : Nat) (r : List Update) : sumCopied (.copied n :: r) = n + sumCopied r := rfl
@[simp] theorem sumCopied_size (n : Nat) (r : List Update) : sumCopied (.size n :: r) = sumCopied r := rfl
@[simp] theorem sumCopied_error (r : List Update) : sumCopied (.error :: r) = sumCopied r := rfl
@[simp] theorem sumSize_copied (n : Nat) (r : List Update) : sumSize (.copied n :: r) = sumSize r := rfl
@[simp] theorem sumSize_size (n : Nat) (r : List Update) : sumSize (.size n :: r) = n + sumSize r := rfl
@[simp] theorem sumSize_error (r : List Update) : sumSize (.error :: r) = sumSize r := rfl
@[simp] theorem hasError_copied (n : Nat) (r : List Update) : hasError (.copied n :: r) = hasError r := rfl
@[simp] theorem hasError_size (n : Nat) (r : List Update) : hasError (.size n :: r) = hasError r := rfl
@[simp] theorem hasError_error (r : List Update) : hasError (.error :: r) = true := rfl

theorem sumCopied_append (l m : List Update) : sumCopied (l ++ m) = sumCopied l + sumCopied m := by
  induction l with
  | nil => simp
  | cons a l ih => cases a <;> simp [ih] <;> omega

theorem sumSize_append (l m : List Update) : sumSize (l ++ m) = sumSize l + sumSize m := by
  induction l with
  | nil => simp
  | cons a l ih => cases a <;> simp [ih] <;> omega

theorem hasError_append (l m : List Update) : hasError (l ++ m) = (hasError l || hasError m) := by
  induction l with
  | nil => simp
  | cons a l ih => cases a <;> simp [ih]

/-! ## list sums -/

theorem sum_set : ∀ (l : List Nat) (i : Nat) (x y : Nat), l[i]? = some y →
    (l.set i x).sum + y = l.sum + x
  | [], i, _, _, h => by simp at h
  | a :: l, 0, x, y, h => by simp at h; subst h; simp; omega
  | a :: l, i+1, x, y, h => by
    simp at h; have := sum_set l i x y h
    simp only [List.set_cons_succ, List.sum_cons]; omega

theorem sum_eraseIdx : ∀ (l : List Nat) (i : Nat) (y : Nat), l[i]? = some y →
    (l.eraseIdx i).sum + y = l.sum
  | [], i, _, h => by simp at h
  | a :: l, 0, y, h => by simp at h; subst h; simp; omega
  | a :: l, i+1, y, h => by
    simp at h; have := sum_eraseIdx l i y h; simp; omega

theorem sum_map_set {α} (f : α → Nat) (x y : α) : ∀ (l : List α) (i : Nat), l[i]? = some y →
    ((l.set i x).map f).sum + f y = (l.map f).sum + f x
  | [], i, h => by simp at h
  | a :: l, 0, h => by simp at h; subst h; simp; omega
  | a :: l, i+1, h => by
    simp at h; have := sum_map_set f x y l i h
    simp only [List.set_cons_succ, List.map_cons, List.sum_cons]; omega

theorem sum_map_eraseIdx {α} (f : α → Nat) (y : α) : ∀ (l : List α) (i : Nat), l[i]? = some y →
    ((l.eraseIdx i).map f).sum + f y = (l.map f).sum
  | [], i, h => by simp at h
  | a :: l, 0, h => by simp at h; subst h; simp; omega
  | a :: l, i+1, h => by
    simp at h; have := sum_map_eraseIdx f y l i h; simp; omega

/-! ## the prefix monitor -/

/-- every prefix reports no more copied than announced -/
def PrefixFine (l : List Update) : Prop := ∀ n, sumCopied (l.take n) ≤ sumSize (l.take n)

theorem prefixOk_iff (l : List Update) : prefixOk l = true ↔ PrefixFine l := by
  unfold prefixOk PrefixFine
  simp only [List.all_eq_true, List.mem_range, decide_eq_true_eq]
  constructor
  · intro h n
    by_cases hn : n < l.length + 1
    · exact h n hn
    · have e : l.take n = l.take l.length := by
        rw [List.take_of_length_le (by omega), List.take_of_length_le (Nat.le_refl _)]
      rw [e]; exact h _ (by omega)
  · intro h n _; exact h n

theorem PrefixFine.whole {l : List Update} (h : PrefixFine l) : sumCopied l ≤ sumSize l := by
  have := h l.length
  rwa [List.take_of_length_le (Nat.le_refl _)] at this

theorem prefixFine_nil : PrefixFine [] := by intro n; simp

theorem prefixFine_snoc {l : List Update} {u : Update} (h : PrefixFine l)
    (hw : sumCopied (l ++ [u]) ≤ sumSize (l ++ [u])) : PrefixFine (l ++ [u]) := by
  intro n
  by_cases hn : n ≤ l.length
  · have e : (l ++ [u]).take n = l.take n := by
      rw [List.take_append]
      have : n - l.length = 0 := by omega
      simp [this]
    rw [e]; exact h n
  · rw [List.take_of_length_le (by simp; omega)]; exact hw

/-! ## `channelRun` -/

theorem channelRun_nil (b sent : Nat) : channelRun b sent [] = [] := rfl

theorem channelRun_copied (b sent n : Nat) (r : List Update) :
    channelRun b sent (.copied n :: r) =
      if (sent + n) / b > sent / b then .copied n :: channelRun b (sent + n) r else channelRun b (sent + n) r := by
  simp only [channelRun, channelSend]
  by_cases h : (sent + n) / b > sent / b <;> simp [h]

theorem channelRun_size (b sent n : Nat) (r : List Update) :
    channelRun b sent (.size n :: r) = .size n :: channelRun b sent r := by
  simp [channelRun, channelSend]

theorem channelRun_error (b sent : Nat) (r : List Update) :
    channelRun b sent (.error :: r) = .error :: channelRun b sent r := by
  simp [channelRun, channelSend]

theorem channelRun_sums (b : Nat) : ∀ (us : List Update) (sent : Nat),
    sumCopied (channelRun b sent us) ≤ sumCopied us ∧ sumSize (channelRun b sent us) = sumSize us ∧
    hasError (channelRun b sent us) = hasError us
  | [], sent => by simp [channelRun_nil]
  | .copied n :: r, sent => by
    obtain ⟨h1, h2, h3⟩ := channelRun_sums b r (sent + n)
    rw [channelRun_copied]
    split
    · simp [h2, h3]; omega
    · simp [h2, h3]; omega
  | .size n :: r, sent => by
    obtain ⟨h1, h2, h3⟩ := channelRun_sums b r sent
    rw [channelRun_size]; simp [h2, h3]; omega
  | .error :: r, sent => by
    obtain ⟨h1, h2, h3⟩ := channelRun_sums b r sent
    rw [channelRun_error]; simp [h2]; omega

/-- every prefix of the delivered stream is dominated by a prefix of the sent stream: same announced total,
at least as much reported -/
theorem channelRun_prefix (b : Nat) : ∀ (us : List Update) (sent n : Nat),
    ∃ m, sumSize (us.take m) = sumSize ((channelRun b sent us).take n) ∧
      sumCopied ((channelRun b sent us).take n) ≤ sumCopied (us.take m)
  | [], sent, n => ⟨0, by simp [channelRun_nil]⟩
  | .copied k :: r, sent, n => by
    rw [channelRun_copied]
    split
    · cases n with
      | zero => exact ⟨0, by simp⟩
      | succ n =>
        obtain ⟨m, h1, h2⟩ := channelRun_prefix b r (sent + k) n
        exact ⟨m + 1, by simp [h1], by simp; omega⟩
    · obtain ⟨m, h1, h2⟩ := channelRun_prefix b r (sent + k) n
      exact ⟨m + 1, by simp [h1], by simp; omega⟩
  | .size k :: r, sent, n => by
    rw [channelRun_size]
    cases n with
    | zero => exact ⟨0, by simp⟩
    | succ n =>
      obtain ⟨m, h1, h2⟩ := channelRun_prefix b r sent n
      exact ⟨m + 1, by simp [h1], by simp; omega⟩
  | .error :: r, sent, n => by
    rw [channelRun_error]
    cases n with
    | zero => exact ⟨0, by simp⟩
    | succ n =>
      obtain ⟨m, h1, h2⟩ := channelRun_prefix b r sent n
      exact ⟨m + 1, by simp [h1], by simp; omega⟩

theorem channelRun_prefixFine (b sent : Nat) {us : List Update} (h : PrefixFine us) :
    PrefixFine (channelRun b sent us) := by
  intro n
  obtain ⟨m, h1, h2⟩ := channelRun_prefix b us sent n
  have := h m
  omega

/-! ## inversion of `step` -/

theorem step_announce {s s' : St} (h : step s .announce = some s') :
    s.walkerDone = false ∧
    ((∃ len r, s.todo = len :: r ∧
        s' = { s with todo := r, queue := s.queue ++ [len], log := s.log ++ [.size len] }) ∨
     (s.todo = [] ∧ s' = { s with walkerDone := true })) := by
  simp only [step] at h
  split at h
  · next len r ht =>
    split at h
    · simp at h
    · next hw => exact ⟨by simpa using hw, .inl ⟨len, r, ht, by simpa using h.symm⟩⟩
  · next ht =>
    split at h
    · simp at h
    · next hw => exact ⟨by simpa using hw, .inr ⟨ht, by simpa using h.symm⟩⟩

theorem step_walkerFail {s s' : St} (h : step s .walkerFail = some s') :
    s.walkerDone = false ∧
    s' = { s with walkerDone := true, todo := [], failed := true, log := s.log ++ [.error] } := by
  simp only [step] at h
  split at h
  · simp at h
  · next hw => exact ⟨by simpa using hw, by simpa using h.symm⟩

theorem step_take {s s' : St} (h : step s .take = some s') :
    ∃ len q, s.queue = len :: q ∧ s' = { s with queue := q, active := s.active ++ [len] } := by
  simp only [step] at h
  split at h
  · next len q hq => exact ⟨len, q, hq, by simpa using h.symm⟩
  · simp at h

theorem step_copy {s s' : St} {i k : Nat} (h : step s (.copy i k) = some s') :
    ∃ rem, s.active[i]? = some rem ∧ 0 < k ∧ k ≤ rem ∧
      s' = { s with active := s.active.set i (rem - k), log := s.log ++ [.copied k], moved := s.moved + k } := by
  simp only [step] at h
  split at h
  · next rem hr =>
    split at h
    · next hk => exact ⟨rem, hr, hk.1, hk.2, by simpa using h.symm⟩
    · simp at h
  · simp at h

theorem step_finish {s s' : St} {i : Nat} (h : step s (.finish i) = some s') :
    s.active[i]? = some 0 ∧ s' = { s with active := s.active.eraseIdx i } := by
  simp only [step] at h
  split at h
  · next hr => exact ⟨hr, by simpa using h.symm⟩
  · simp at h

theorem step_fail {s s' : St} {i : Nat} (h : step s (.fail i) = some s') :
    ∃ rem, s.active[i]? = some rem ∧
      s' = { s with active := s.active.eraseIdx i, failed := true, log := s.log ++ [.error] } := by
  simp only [step] at h
  split at h
  · next rem hr => exact ⟨rem, hr, by simpa using h.symm⟩
  · simp at h

/-! ## induction over reachable states -/

theorem run_ind (P : St → Prop) (hs : ∀ s l s', P s → step s l = some s' → P s') :
    ∀ (ls : List Label) (s0 s : St), P s0 → run s0 ls = some s → P s
  | [], s0, s, h0, h => by simp [run] at h; subst h; exact h0
  | l :: ls, s0, s, h0, h => by
    simp only [run] at h
    split at h
    · next s1 h1 => exact run_ind P hs ls s1 s (hs _ _ _ h0 h1) h
    · simp at h

theorem reach_ind {files : List Nat} (P : St → Prop)
    (h0 : P (init files)) (hs : ∀ s l s', P s → step s l = some s' → P s')
    {s : St} (h : Reachable files s) : P s := by
  obtain ⟨ls, hl⟩ := h
  exact run_ind P hs ls _ _ h0 hl

/-! ## the invariant -/

structure Inv (files : List Nat) (s : St) : Prop where
  acc_le : sumCopied s.log + s.queue.sum + s.active.sum ≤ sumSize s.log
  acc_eq : s.failed = false → sumCopied s.log + s.queue.sum + s.active.sum = sumSize s.log
  tot_le : sumSize s.log + s.todo.sum ≤ files.sum
  tot_eq : s.failed = false → sumSize s.log + s.todo.sum = files.sum
  moved_eq : sumCopied s.log = s.moved
  err    : s.failed = true → hasError s.log = true
  done   : s.walkerDone = true → s.todo = []
  fine   : PrefixFine s.log

theorem inv_init (files : List Nat) : Inv files (init files) := by
  constructor <;> simp [init, prefixFine_nil]

theorem inv_step {files : List Nat} {s s' : St} (l : Label) (inv : Inv files s) (h : step s l = some s') :
    Inv files s' := by
  obtain ⟨a1, a2, a3, a4, a5, a6, a7, a8⟩ := inv
  cases l with
  | announce =>
    obtain ⟨hw, ⟨len, r, ht, rfl⟩ | ⟨ht, rfl⟩⟩ := step_announce h
    · simp only [ht, List.sum_cons] at a3 a4
      have hle : sumCopied (s.log ++ [Update.size len]) + (s.queue ++ [len]).sum + s.active.sum
          ≤ sumSize (s.log ++ [Update.size len]) := by
        simp [sumCopied_append, sumSize_append, List.sum_append]; omega
      refine ⟨hle, ?_, ?_, ?_, ?_, ?_, ?_, ?_⟩
      · intro hf; have := a2 hf
        simp [sumCopied_append, sumSize_append, List.sum_append]; omega
      · simp [sumSize_append]; omega
      · intro hf; have := a4 hf; simp [sumSize_append]; omega
      · simpa [sumCopied_append] using a5
      · intro hf; simp [hasError_append, a6 hf]
      · intro hd; simp [hw] at hd
      · exact prefixFine_snoc a8 (by omega)
    · exact ⟨a1, a2, a3, a4, a5, a6, fun _ => ht, a8⟩
  | walkerFail =>
    obtain ⟨hw, rfl⟩ := step_walkerFail h
    have hle : sumCopied (s.log ++ [Update.error]) + s.queue.sum + s.active.sum
        ≤ sumSize (s.log ++ [Update.error]) := by
      simp [sumCopied_append, sumSize_append]; omega
    refine ⟨hle, ?_, ?_, ?_, ?_, ?_, ?_, ?_⟩
    · intro hf; simp at hf
    · simp [sumSize_append]; omega
    · intro hf; simp at hf
    · simpa [sumCopied_append] using a5
    · intro _; simp [hasError_append]
    · intro _; rfl
    · exact prefixFine_snoc a8 (by omega)
  | take =>
    obtain ⟨len, q, hq, rfl⟩ := step_take h
    simp only [hq, List.sum_cons] at a1 a2
    refine ⟨?_, ?_, a3, a4, a5, a6, a7, a8⟩
    · simp [List.sum_append]; omega
    · intro hf; have := a2 hf; simp [List.sum_append]; omega
  | copy i k =>
    obtain ⟨rem, hr, hk0, hk, rfl⟩ := step_copy h
    have hs := sum_set s.active i (rem - k) rem hr
    have hle : sumCopied (s.log ++ [Update.copied k]) + s.queue.sum + (s.active.set i (rem - k)).sum
        ≤ sumSize (s.log ++ [Update.copied k]) := by
      simp [sumCopied_append, sumSize_append]; omega
    refine ⟨hle, ?_, ?_, ?_, ?_, ?_, a7, ?_⟩
    · intro hf; have := a2 hf
      simp [sumCopied_append, sumSize_append]; omega
    · simpa [sumSize_append] using a3
    · intro hf; simpa [sumSize_append] using a4 hf
    · simp [sumCopied_append]; omega
    · intro hf; simp [hasError_append, a6 hf]
    · exact prefixFine_snoc a8 (by omega)
  | finish i =>
    obtain ⟨hr, rfl⟩ := step_finish h
    have hs := sum_eraseIdx s.active i 0 hr
    refine ⟨?_, ?_, a3, a4, a5, a6, a7, a8⟩
    · show sumCopied s.log + s.queue.sum + (s.active.eraseIdx i).sum ≤ sumSize s.log
      omega
    · intro hf; have := a2 hf
      show sumCopied s.log + s.queue.sum + (s.active.eraseIdx i).sum = sumSize s.log
      omega
  | fail i =>
    obtain ⟨rem, hr, rfl⟩ := step_fail h
    have hs := sum_eraseIdx s.active i rem hr
    have hle : sumCopied (s.log ++ [Update.error]) + s.queue.sum + (s.active.eraseIdx i).sum
        ≤ sumSize (s.log ++ [Update.error]) := by
      simp [sumCopied_append, sumSize_append]; omega
    refine ⟨hle, ?_, ?_, ?_, ?_, ?_, a7, ?_⟩
    · intro hf; simp at hf
    · simpa [sumSize_append] using a3
    · intro hf; simp at hf
    · simpa [sumCopied_append] using a5
    · intro _; simp [hasError_append]
    · exact prefixFine_snoc a8 (by omega)

theorem inv_reachable {files : List Nat} {s : St} (h : Reachable files s) : Inv files s :=
  reach_ind (Inv files) (inv_init files) (fun _ l _ inv hs => inv_step l inv hs) h

end Xcp.Status
