import XcpProofs.EndToEnd
import XcpProofs.MultiClash
import XcpProofs.EndToEndClashLemmas
/-! # END TO END, no compatibility assumed: exit 0 implies the overlay; a clash exits non-zero; the frame

For `L1run fs o texts` — main's up-front validation followed by the sequential run over all sources, the very function
the correspondence check compares with the real program — and the invocation `xcp -r s1 … sn DEST` (or
`-t DEST s1 … sn`) with `DEST` an existing directory, under the hypotheses of `l1run_overlay` with `hcomp` REPLACED
by `hplain` (every existing target `DEST/bi` is made of directories and regular files):

* `whole_invocation_exit_zero_implies_overlaid`: exit status ok IMPLIES that the final file system is the initial one
  with every target overlaid with its source tree (C02 as stated, for the whole program model);
* `whole_invocation_with_a_clash_exits_nonzero`: if some target is not compatible with its source, the exit status is
  not ok — whether main's validation already rejects the invocation (a directory onto an existing non-directory is
  refused up front) or the run fails;
* `whole_invocation_rejected_or_started`: validation either accepts, returning the sources and the destination as
  spelled, or `L1run` reports failure and leaves the file system untouched;
* `whole_invocation_changes_only_the_targets` (C03 for the whole program model, every exit): whatever is not at or
  below a target `DEST/bi` is observed as in the initial file system. -/
namespace Xcp

/-- validation accepts (returning the command line's sources and destination), or `L1run` fails without touching
anything -/
theorem whole_invocation_rejected_or_started (fs : Fs) (o : Opts) (texts : GiTexts) (dest : RPath)
    (items : List CopySrc) (hglob : o.glob = false)
    (hpaths : (o.targetDir = none ∧ o.paths = items.map (·.path) ++ [dest]) ∨
      (o.targetDir = some dest ∧ o.paths = items.map (·.path))) :
    (validate fs o = .ok (items.map (·.path), dest) ∧
      L1run fs o texts = runSources fs o.cfg texts dest (items.map (·.path))) ∨
    L1run fs o texts = ⟨.err, fs⟩ := by
  cases hv : validate fs o with
  | error e => right; simp only [L1run, hv]
  | ok r =>
    have hr := validate_ok_eq fs o dest (items.map (·.path)) hglob hpaths r hv
    subst hr
    left
    exact ⟨rfl, by simp only [L1run, hv]⟩

/-- END TO END, no compatibility assumed: exit status ok IMPLIES the overlay -/
theorem whole_invocation_exit_zero_implies_overlaid (fs : Fs) (o : Opts) (texts : GiTexts) (dest : RPath)
    (items : List CopySrc) (fuel : Nat)
    (hd : o.cfg.dereference = false) (hn : o.cfg.noClobber = false) (hg : o.cfg.gitignore = false)
    (hnt : o.cfg.noTargetDir = false) (hrec : o.cfg.recursive = true) (hglob : o.glob = false)
    (hpaths : (o.targetDir = none ∧ o.paths = items.map (·.path) ++ [dest]) ∨
      (o.targetDir = some dest ∧ o.paths = items.map (·.path)))
    (hne : items ≠ [])
    (hwf : FsEq fs fs)
    (hdest : PlainTarget fs dest) (hdd : ∃ es, fs.root.getAt dest.names = some (.dir es))
    (hfuel : fuel < walkFuel)
    (hsrc : ∀ e ∈ items, PlainTarget fs e.path ∧ e.path.fileName = some e.base ∧
      fs.root.getAt e.path.names = some e.node ∧ e.node.Copyable fuel ∧ e.path.names.length + walkFuel < 256)
    (hnd : (items.map (·.base)).Nodup)
    (hun : ∀ e ∈ items, ∀ e' ∈ items,
      ¬ e.path.names <+: dest.names ++ [e'.base] ∧ ¬ dest.names ++ [e'.base] <+: e.path.names)
    (hplain : ∀ e ∈ items, ∀ d, fs.root.getAt (dest.names ++ [e.base]) = some d → d.plainTree = true)
    (hlen : dest.names.length + 1 + walkFuel < 256)
    (fs' : Fs) (hrun : L1run fs o texts = ⟨.ok, fs'⟩) :
    FsEq fs' { fs with root := overlayAll fs.root dest.names items fs.root } := by
  have _ := hrec   -- only validation looks at it, and validation is not assumed to accept
  have _ := hne
  rcases whole_invocation_rejected_or_started fs o texts dest items hglob hpaths with ⟨_, hL⟩ | hL
  · rw [hL] at hrun
    exact multi_run_ok_implies_overlaid fs o.cfg texts dest items fuel hd hn hg hnt hwf hdest hdd hfuel hsrc hnd hun
      hplain hlen fs' hrun
  · rw [hL] at hrun
    cases hrun

/-- END TO END: a target of directories and regular files that is not compatible with its source makes the whole
invocation exit non-zero -/
theorem whole_invocation_with_a_clash_exits_nonzero (fs : Fs) (o : Opts) (texts : GiTexts) (dest : RPath)
    (items : List CopySrc) (fuel : Nat)
    (hd : o.cfg.dereference = false) (hn : o.cfg.noClobber = false) (hg : o.cfg.gitignore = false)
    (hnt : o.cfg.noTargetDir = false) (hrec : o.cfg.recursive = true) (hglob : o.glob = false)
    (hpaths : (o.targetDir = none ∧ o.paths = items.map (·.path) ++ [dest]) ∨
      (o.targetDir = some dest ∧ o.paths = items.map (·.path)))
    (hne : items ≠ [])
    (hwf : FsEq fs fs)
    (hdest : PlainTarget fs dest) (hdd : ∃ es, fs.root.getAt dest.names = some (.dir es))
    (hfuel : fuel < walkFuel)
    (hsrc : ∀ e ∈ items, PlainTarget fs e.path ∧ e.path.fileName = some e.base ∧
      fs.root.getAt e.path.names = some e.node ∧ e.node.Copyable fuel ∧ e.path.names.length + walkFuel < 256)
    (hnd : (items.map (·.base)).Nodup)
    (hun : ∀ e ∈ items, ∀ e' ∈ items,
      ¬ e.path.names <+: dest.names ++ [e'.base] ∧ ¬ dest.names ++ [e'.base] <+: e.path.names)
    (hplain : ∀ e ∈ items, ∀ d, fs.root.getAt (dest.names ++ [e.base]) = some d → d.plainTree = true)
    (hlen : dest.names.length + 1 + walkFuel < 256)
    (hclash : ∃ e ∈ items, ¬ Compatible (fs.root.getAt (dest.names ++ [e.base])) e.node) :
    (L1run fs o texts).exit = .err := by
  have _ := hrec
  have _ := hne
  rcases whole_invocation_rejected_or_started fs o texts dest items hglob hpaths with ⟨_, hL⟩ | hL
  · rw [hL]
    exact multi_run_clash_fails fs o.cfg texts dest items fuel hd hn hg hnt hwf hdest hdd hfuel hsrc hnd hun hplain
      hlen hclash
  · rw [hL]

/-- END TO END, the frame, every exit (validation rejected, run failed, run succeeded): whatever is not at or below
a target is observed as in the initial file system -/
theorem whole_invocation_changes_only_the_targets (fs : Fs) (o : Opts) (texts : GiTexts) (dest : RPath)
    (items : List CopySrc) (fuel : Nat)
    (hd : o.cfg.dereference = false) (hn : o.cfg.noClobber = false) (hg : o.cfg.gitignore = false)
    (hnt : o.cfg.noTargetDir = false) (hrec : o.cfg.recursive = true) (hglob : o.glob = false)
    (hpaths : (o.targetDir = none ∧ o.paths = items.map (·.path) ++ [dest]) ∨
      (o.targetDir = some dest ∧ o.paths = items.map (·.path)))
    (hne : items ≠ [])
    (hwf : FsEq fs fs)
    (hdest : PlainTarget fs dest) (hdd : ∃ es, fs.root.getAt dest.names = some (.dir es))
    (hfuel : fuel < walkFuel)
    (hsrc : ∀ e ∈ items, PlainTarget fs e.path ∧ e.path.fileName = some e.base ∧
      fs.root.getAt e.path.names = some e.node ∧ e.node.Copyable fuel ∧ e.path.names.length + walkFuel < 256)
    (hnd : (items.map (·.base)).Nodup)
    (hun : ∀ e ∈ items, ∀ e' ∈ items,
      ¬ e.path.names <+: dest.names ++ [e'.base] ∧ ¬ dest.names ++ [e'.base] <+: e.path.names)
    (hplain : ∀ e ∈ items, ∀ d, fs.root.getAt (dest.names ++ [e.base]) = some d → d.plainTree = true)
    (hlen : dest.names.length + 1 + walkFuel < 256) :
    ∀ q, (∀ e ∈ items, ¬ dest.names ++ [e.base] <+: q) →
      obsAt (L1run fs o texts).fs.root q = obsAt fs.root q := by
  have _ := hrec
  have _ := hne
  intro q hq
  rcases whole_invocation_rejected_or_started fs o texts dest items hglob hpaths with ⟨_, hL⟩ | hL
  · rw [hL]
    obtain ⟨_, hcl⟩ := multi_mspec fs dest items fuel hfuel hsrc hnd hun hlen
    have hw : walkFuel = 64 := rfl
    rw [hw] at hlen
    have hde := plainTarget_eq fs dest hdest
    have h := runSources_frame_inv o.cfg texts hd hn hg hnt fs.root dest.names (by omega) items fs hwf hdd hnd
      (by
        intro e he
        obtain ⟨hp, hfn, hsn, _, _⟩ := hsrc e he
        refine ⟨plainTarget_eq fs e.path hp, hfn, hsn, ?_, (hcl e he).1, (hcl e he).2⟩
        cases hnode : e.node with
        | link t => exact absurd (hnode ▸ hsn) (hp.2.2.2 _ (List.prefix_refl _) t)
        | _ => rfl)
      hun (fun _ _ => rfl)
      (fun e he x hx q y hq => plainTree_getAt q x y (hplain e he x hx) hq) q hq
    rw [← hde] at h
    exact h
  · rw [hL]

end Xcp
