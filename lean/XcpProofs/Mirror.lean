import XcpProofs.WalkMore
import XcpProofs.L0FsLemmas
import XcpProofs.MirrorLemmas
/-! The mirror theorem for a fresh destination: copying a source tree (sequentially, L1) to a plain target that
does not exist yet leaves exactly the source's subtree at the target and touches nothing else. -/
namespace Xcp

/-- every node of the tree is of a kind xcp copies (no block devices / unknown kinds), directories list no name
twice, and the tree is at most `d` levels deep -/
def Node.Copyable : Node → Nat → Prop
  | .file _, _ => True
  | .link _, _ => True
  | .special k _, _ => k = .socket ∨ k = .chr ∨ k = .fifo
  | .dir _, 0 => False
  | .dir es, d+1 => (es.map (·.1)).Nodup ∧ CopyableL es d
where CopyableL : List (Name × Node) → Nat → Prop
  | [], _ => True
  | (_, n) :: r, d => Node.Copyable n d ∧ CopyableL r d


/-! ## Unfolding `Copyable` -/

theorem copyableL_mem {es : List (Name × Node)} {d : Nat} (h : Node.Copyable.CopyableL es d) :
    ∀ e ∈ es, e.2.Copyable d := by
  induction es with
  | nil => intro e he; cases he
  | cons kv r ih =>
    obtain ⟨k, x⟩ := kv
    simp only [Node.Copyable.CopyableL] at h
    intro e he
    cases he with
    | head => exact h.1
    | tail _ hm => exact ih h.2 e hm

theorem copyable_dir {es : List (Name × Node)} {d : Nat} (h : (Node.dir es).Copyable d) :
    ∃ d', d = d' + 1 ∧ (es.map (·.1)).Nodup ∧ ∀ e ∈ es, e.2.Copyable d' := by
  cases d with
  | zero => simp [Node.Copyable] at h
  | succ d' =>
    simp only [Node.Copyable] at h
    exact ⟨d', rfl, h.1, copyableL_mem h.2⟩

/-! ## Prefix facts for sibling paths -/

theorem unrel_child {sn tn : List Name} (h1 : ¬ sn <+: tn) (h2 : ¬ tn <+: sn) (m : Name) :
    (¬ tn <+: sn ++ [m]) ∧ (¬ sn ++ [m] <+: tn) ∧ (¬ sn ++ [m] <+: tn ++ [m]) ∧ (¬ tn ++ [m] <+: sn ++ [m]) := by
  have a1 : ¬ tn <+: sn ++ [m] := by
    intro h
    rcases List.prefix_concat_iff.1 h with h | h
    · exact h1 (h ▸ List.prefix_append _ _)
    · exact h2 h
  have a2 : ¬ sn ++ [m] <+: tn := fun h => h1 ((List.prefix_append _ _).trans h)
  have b1 : ¬ sn <+: tn ++ [m] := by
    intro h
    rcases List.prefix_concat_iff.1 h with h | h
    · exact h2 (h ▸ List.prefix_append _ _)
    · exact h1 h
  have b2 : ¬ tn ++ [m] <+: sn := fun h => h2 ((List.prefix_append _ _).trans h)
  refine ⟨a1, a2, ?_, ?_⟩
  · intro h
    rcases List.prefix_concat_iff.1 h with h | h
    · exact h1 ((List.append_cancel_right h) ▸ List.prefix_refl _)
    · exact a2 h
  · intro h
    rcases List.prefix_concat_iff.1 h with h | h
    · exact h2 ((List.append_cancel_right h) ▸ List.prefix_refl _)
    · exact b2 h

/-! ## Shape of the walk -/

/-- the walk over a plain source designating a copyable subtree emits exactly `opsOf` -/
theorem walk_shape (fs : Fs) (c : Cfg) (hd : c.dereference = false) (sn0 tn0 : List Name)
    (hn : c.noClobber = false ∨ ∀ rel, fs.lexists (relJoin (plainPath tn0) rel) = false) :
    ∀ (d : Nat) (n : Node), n.Copyable d → ∀ (rel : List Name) (anc : List (List Name)),
      fs.root.getAt (sn0 ++ rel) = some n → (n.isLink = true → rel ≠ []) → sn0.length + rel.length + d < 256 →
      walkEntry fs c none (plainPath sn0) (plainPath tn0) (d + 1) rel anc = opsOf n (sn0 ++ rel) (tn0 ++ rel) := by
  intro d
  induction d with
  | zero =>
    intro n hc rel anc hg hlk hlen
    have hn' : c.noClobber = false ∨ fs.lexists (relJoin (plainPath tn0) rel) = false := hn.imp id (fun h => h rel)
    have hls := lstat_plain fs (sn0 ++ rel) n (by simp only [List.length_append]; omega) hg (noLinkAbove_of_getAt hg)
    rw [← relJoin_plain] at hls
    cases n with
    | file k => rw [walkEntry_file fs c hd _ _ _ hn' _ _ _ k hls]; simp [opsOf, relJoin_plain]
    | link t => rw [walkEntry_link fs c hd _ _ _ hn' _ _ _ t (hlk rfl) hls]; simp [opsOf, relJoin_plain]
    | special k dv =>
      rw [walkEntry_special fs c hd _ _ _ hn' _ _ _ k dv (by simpa [Node.Copyable] using hc) hls]
      simp [opsOf, relJoin_plain]
    | dir es => simp [Node.Copyable] at hc
  | succ d ih =>
    intro n hc rel anc hg hlk hlen
    have hn' : c.noClobber = false ∨ fs.lexists (relJoin (plainPath tn0) rel) = false := hn.imp id (fun h => h rel)
    have hls := lstat_plain fs (sn0 ++ rel) n (by simp only [List.length_append]; omega) hg (noLinkAbove_of_getAt hg)
    rw [← relJoin_plain] at hls
    cases n with
    | file k => rw [walkEntry_file fs c hd _ _ _ hn' _ _ _ k hls]; simp [opsOf, relJoin_plain]
    | link t => rw [walkEntry_link fs c hd _ _ _ hn' _ _ _ t (hlk rfl) hls]; simp [opsOf, relJoin_plain]
    | special k dv =>
      rw [walkEntry_special fs c hd _ _ _ hn' _ _ _ k dv (by simpa [Node.Copyable] using hc) hls]
      simp [opsOf, relJoin_plain]
    | dir es =>
      obtain ⟨d', hd', hnd, hch⟩ := copyable_dir hc
      have hd'' : d' = d := by omega
      subst hd''
      rw [walkEntry_dir fs c hd _ _ _ hn' _ _ _ es es hls hg]
      simp only [opsOf, relJoin_plain]
      congr 1
      -- the children, one by one
      have key : ∀ (l : List (Name × Node)), (∀ e ∈ l, e ∈ es) →
          ((l.map (·.1)).flatMap fun m =>
            walkEntry fs c none (plainPath sn0) (plainPath tn0) (d' + 1) (rel ++ [m]) ((sn0 ++ rel) :: anc)) =
          opsOfL l (sn0 ++ rel) (tn0 ++ rel) := by
        intro l
        induction l with
        | nil => intro _; simp [opsOfL]
        | cons e r ihl =>
          intro hsub
          obtain ⟨m, ch⟩ := e
          have hmem : (m, ch) ∈ es := hsub _ List.mem_cons_self
          have hget : fs.root.getAt (sn0 ++ (rel ++ [m])) = some ch := by
            rw [← List.append_assoc, Node.getAt_append, hg]
            simp [getAt_dir_cons, entGet_of_mem es hnd (m, ch) hmem]
          have := ih ch (hch _ hmem) (rel ++ [m]) ((sn0 ++ rel) :: anc) hget (fun _ => by simp)
            (by simp only [List.length_append, List.length_cons, List.length_nil]; omega)
          simp only [List.map_cons, List.flatMap_cons, opsOfL]
          rw [this, ihl (fun e he => hsub e (List.mem_cons_of_mem _ he))]
          simp [List.append_assoc]
      exact key es (fun _ h => h)

/-! ## Execution -/

theorem execOps_cons_some (g g' : Fs) (c : Cfg) (op : Op) (r : List Op) (h : execOp g c op = some g') :
    execOps g c (op :: r) = execOps g' c r := by
  simp [execOps, h]

/-- running the operations of a copyable subtree found at `sn`, towards a fresh place `par ++ [nm]` below an existing
directory and unrelated to `sn`, puts exactly that subtree there -/
theorem exec_opsOf (c : Cfg) :
    ∀ (d : Nat) (n : Node), n.Copyable d →
      ∀ (g : Fs) (sn par : List Name) (nm : Name) (pes : Entries) (rest : List Op),
      g.root.getAt sn = some n → g.root.getAt par = some (.dir pes) → g.root.getAt (par ++ [nm]) = none →
      ¬ sn <+: par ++ [nm] → ¬ par ++ [nm] <+: sn → sn.length + d < 256 → par.length + 1 + d < 256 →
      execOps g c (opsOf n sn (par ++ [nm]) ++ rest) =
        execOps { g with root := g.root.setAt (par ++ [nm]) n } c rest := by
  intro d
  induction d with
  | zero =>
    intro n hc g sn par nm pes rest hs hp hn h1 h2 hl1 hl2
    cases n with
    | file k =>
      simp only [opsOf, List.cons_append, List.nil_append]
      exact execOps_cons_some _ _ _ _ _ (execOp_copy_fresh g c sn par nm k pes hs (by omega) (by omega) hp hn)
    | link t =>
      simp only [opsOf, List.cons_append, List.nil_append]
      exact execOps_cons_some _ _ _ _ _ (execOp_link_fresh g c t par nm pes (by omega) hp hn)
    | special k dv =>
      simp only [opsOf, List.cons_append, List.nil_append]
      exact execOps_cons_some _ _ _ _ _ (execOp_special_fresh g c sn par nm k dv pes hs (by omega) (by omega) hp hn)
    | dir es => simp [Node.Copyable] at hc
  | succ d ih =>
    intro n hc g sn par nm pes rest hs hp hn h1 h2 hl1 hl2
    cases n with
    | file k =>
      simp only [opsOf, List.cons_append, List.nil_append]
      exact execOps_cons_some _ _ _ _ _ (execOp_copy_fresh g c sn par nm k pes hs (by omega) (by omega) hp hn)
    | link t =>
      simp only [opsOf, List.cons_append, List.nil_append]
      exact execOps_cons_some _ _ _ _ _ (execOp_link_fresh g c t par nm pes (by omega) hp hn)
    | special k dv =>
      simp only [opsOf, List.cons_append, List.nil_append]
      exact execOps_cons_some _ _ _ _ _ (execOp_special_fresh g c sn par nm k dv pes hs (by omega) (by omega) hp hn)
    | dir es =>
      obtain ⟨d', hd', hnd, hch⟩ := copyable_dir hc
      have hd'' : d' = d := by omega
      subst hd''
      simp only [opsOf, List.cons_append]
      rw [execOps_cons_some _ _ _ _ _ (execOp_mkdir_fresh g c par nm pes (by omega) hp hn)]
      -- the children, one after the other
      have key : ∀ (post pre : Entries), ((pre ++ post).map (·.1)).Nodup → (∀ e ∈ post, e ∈ es) →
          execOps { g with root := g.root.setAt (par ++ [nm]) (.dir pre) } c
              (opsOfL post sn (par ++ [nm]) ++ rest) =
            execOps { g with root := g.root.setAt (par ++ [nm]) (.dir (pre ++ post)) } c rest := by
        intro post
        induction post with
        | nil => intro pre _ _; simp [opsOfL]
        | cons e post' ihp =>
          intro pre hnd' hsub
          obtain ⟨m, ch⟩ := e
          have hmem : (m, ch) ∈ es := hsub _ List.mem_cons_self
          obtain ⟨u1, u2, u3, u4⟩ := unrel_child h1 h2 m
          have hm : m ∉ pre.map (·.1) := by
            intro hmm
            simp only [List.map_append, List.map_cons] at hnd'
            exact (List.nodup_append.1 hnd').2.2 m hmm m List.mem_cons_self rfl
          -- the state before this child
          have hs' : (g.root.setAt (par ++ [nm]) (.dir pre)).getAt (sn ++ [m]) = some ch := by
            rw [getAt_setAt_unrelated _ _ _ _ u1 u2, Node.getAt_append, hs]
            simp [getAt_dir_cons, entGet_of_mem es hnd (m, ch) hmem]
          have hp' : (g.root.setAt (par ++ [nm]) (.dir pre)).getAt (par ++ [nm]) = some (.dir pre) :=
            getAt_setAt_child _ nm par g.root pes hp
          have hn' : (g.root.setAt (par ++ [nm]) (.dir pre)).getAt (par ++ [nm] ++ [m]) = none := by
            rw [Node.getAt_append, hp']
            simp [getAt_dir_cons, entGet_none_of_not_mem pre m hm]
          have step := ih ch (hch _ hmem) { g with root := g.root.setAt (par ++ [nm]) (.dir pre) }
            (sn ++ [m]) (par ++ [nm]) m pre (opsOfL post' sn (par ++ [nm]) ++ rest) hs' hp' hn' u3 u4
            (by simp only [List.length_append, List.length_cons, List.length_nil]; omega)
            (by simp only [List.length_append, List.length_cons, List.length_nil]; omega)
          simp only [opsOfL, List.append_assoc]
          simp only [List.append_assoc] at step
          rw [step]
          have e := setAt_dir_push g.root (par ++ [nm]) pre m ch hm
          simp only [List.append_assoc] at e
          rw [e]
          have := ihp (pre ++ [(m, ch)]) (by simpa [List.append_assoc] using hnd')
            (fun e he => hsub e (List.mem_cons_of_mem _ he))
          simp only [List.append_assoc, List.singleton_append] at this
          exact this
      have := key es [] (by simpa using hnd) (fun _ h => h)
      simpa using this

/-- MIRROR (fresh destination).  Hypotheses: no dereference / gitignore / no-clobber games (`c`); the source is a
plain path designating `srcNode`; the target base `tb` is a plain path that does not exist, whose parent is a
directory; source and target are unrelated (the destination is not inside the source, nor the source inside the
destination); paths are shorter than the resolution fuel.  Then the sequential execution of the walk's
operations succeeds and the resulting tree is the old one with `srcNode` placed at `tb` — up to the order of
directory entries (`FsEq`). -/
theorem mirror_fresh (fs : Fs) (c : Cfg) (hd : c.dereference = false) (hn : c.noClobber = false)
    (src tb : RPath) (srcNode : Node) (fuel : Nat)
    (hwf : FsEq fs fs) (hroot : fs.root.isDir = true)
    (hsrc : PlainTarget fs src) (hsn : fs.root.getAt src.names = some srcNode)
    (hcop : srcNode.Copyable fuel)
    (htb : PlainTarget fs tb) (hne : tb.names ≠ []) (habs : fs.root.getAt tb.names = none)
    (hpar : ∃ es, fs.root.getAt tb.names.dropLast = some (.dir es))
    (hun1 : ¬ src.names <+: tb.names) (hun2 : ¬ tb.names <+: src.names)
    (hlen : src.names.length + fuel < 200 ∧ tb.names.length + fuel < 200) :
    ∃ fs', execOps fs c (walkEntry fs c none src tb (fuel + 1) [] []) = ⟨.ok, fs'⟩ ∧
      FsEq fs' { fs with root := fs.root.setAt tb.names srcNode } := by
  have _ := hroot   -- implied by `hpar`/`hsn`; kept in the statement for the callers
  have hsrcE := plainTarget_eq fs src hsrc
  have htbE := plainTarget_eq fs tb htb
  have hnl : srcNode.isLink = false := by
    cases srcNode with
    | link t => exact absurd hsn (hsrc.2.2.2 src.names (List.prefix_refl _) t)
    | _ => rfl
  -- the target: a new name below an existing directory
  obtain ⟨pes, hpes⟩ := hpar
  rcases List.eq_nil_or_concat tb.names with h0 | ⟨par, nm, h0⟩
  · exact absurd h0 hne
  simp only [List.concat_eq_append] at h0
  rw [h0, List.dropLast_concat] at hpes
  rw [h0] at habs hun1 hun2
  have hlt : par.length + 1 + fuel < 256 := by
    have := hlen.2
    rw [h0] at this
    simp only [List.length_append, List.length_cons, List.length_nil] at this
    omega
  -- the shape of the walk
  have hshape := walk_shape fs c hd src.names tb.names (.inl hn) fuel srcNode hcop [] []
    (by simpa using hsn) (fun h => by rw [hnl] at h; cases h) (by simp only [List.length_nil]; omega)
  rw [← hsrcE, ← htbE] at hshape
  simp only [List.append_nil] at hshape
  -- its execution
  have hexec := exec_opsOf c fuel srcNode hcop fs src.names par nm pes [] hsn hpes habs hun1 hun2
    (by omega) hlt
  rw [List.append_nil] at hexec
  refine ⟨{ fs with root := fs.root.setAt tb.names srcNode }, ?_, ?_⟩
  · rw [hshape, h0, hexec]
    rfl
  · have hsw : srcNode.WF := by
      intro q es hq
      apply hwf.2.1 (src.names ++ q) es
      rw [Node.getAt_append, hsn]
      exact hq
    exact ⟨rfl, setAt_WF srcNode hsw _ _ hwf.2.1, setAt_WF srcNode hsw _ _ hwf.2.1, SameObs.refl _⟩

end Xcp
