import XcpProofs.Clash
import XcpProofs.L0Fs
import XcpProofs.MirrorConc
import XcpProofs.ClashConcLemmas
/-! # A destination that clashes with the source, EVERY interleaving: the run fails

The concurrent counterpart of `clash_fails`, under exactly its hypotheses: no run of the concurrent model L0 over the
walk's operations — any interleaving of the walker with the completions of queued operations — can be complete
without having failed.  So the exit STATUS of a clashing copy does not depend on the schedule.  (What the failed run
leaves behind does: the operations that were queued before the failure still complete.)

The directly clashing operation (`clash_position`) fails at whatever moment it runs, because the place it targets
still shows what the initial destination showed there: no other operation of the walk, when it succeeds, changes that
(`clash_exec`, invariant `CInv`).  `unfailed_unfinished_can_step` makes the statement meaningful: a run that has not
failed and is not complete can always go on, so every maximal run ends failed. -/
namespace Xcp

open L0

/-- under the hypotheses of `clash_fails`, every complete run of the concurrent model has failed -/
theorem clash_fails_every_interleaving (fs : Fs) (c : Cfg) (hd : c.dereference = false) (hn : c.noClobber = false)
    (src tb : RPath) (srcNode dstNode : Node) (fuel : Nat)
    (hwf : FsEq fs fs) (hroot : fs.root.isDir = true)
    (hsrc : PlainTarget fs src) (hsn : fs.root.getAt src.names = some srcNode)
    (hcop : srcNode.Copyable fuel)
    (htb : PlainTarget fs tb) (hne : tb.names ≠ [])
    (hdst : fs.root.getAt tb.names = some dstNode) (hplain : dstNode.plainTree = true)
    (hclash : ¬ Compatible (some dstNode) srcNode)
    (hpar : ∃ es, fs.root.getAt tb.names.dropLast = some (.dir es))
    (hun1 : ¬ src.names <+: tb.names) (hun2 : ¬ tb.names <+: src.names)
    (hlen : src.names.length + fuel < 200 ∧ tb.names.length + fuel < 200)
    (ls : List Label) (s : St)
    (hrun : run c (init fs (walkEntry fs c none src tb (fuel + 1) [] [])) ls = some s)
    (hfin : final s = true) : s.failed = true := by
  have _ := hroot   -- implied by `hdst` and `hne`; kept so that the hypotheses are those of `clash_fails`
  have _ := hpar    -- implied by `hdst` and `hne`
  have hsrcE := plainTarget_eq fs src hsrc
  have htbE := plainTarget_eq fs tb htb
  have hnl : srcNode.isLink = false := by
    cases srcNode with
    | link t => exact absurd hsn (hsrc.2.2.2 src.names (List.prefix_refl _) t)
    | _ => rfl
  -- the shape of the walk
  have hshape : walkEntry fs c none (plainPath src.names) (plainPath tb.names) (fuel + 1) [] [] =
      opsOf srcNode (src.names ++ []) (tb.names ++ []) := by
    have h1 : fs.root.getAt (src.names ++ []) = some srcNode := by simpa using hsn
    have h2 : srcNode.isLink = true → ([] : List Name) ≠ [] := fun h => by rw [hnl] at h; cases h
    have h3 : src.names.length + ([] : List Name).length + fuel < 256 := by
      simp only [List.length_nil]; omega
    exact walk_shape fs c hd src.names tb.names (.inl hn) fuel srcNode hcop [] [] h1 h2 h3
  rw [← hsrcE, ← htbE] at hshape
  simp only [List.append_nil] at hshape
  rw [hshape] at hrun
  have hspec : OpsSpec srcNode src.names tb.names fuel (opsOf srcNode src.names tb.names) :=
    ⟨mem_opsOf fuel srcNode hcop _ _, hun1, hun2, hne, by omega, by omega⟩
  -- the destination: well-formed, of directories and regular files only
  have hwd : dstNode.WF := by
    intro q es hq
    apply hwf.2.1 (tb.names ++ q) es
    rw [Node.getAt_append, hdst]
    exact hq
  have hpl : PlainBelow dstNode := fun q y hq => plainTree_getAt q dstNode y hplain hq
  -- the directly clashing position
  obtain ⟨rel0, m0, y, hl0, hg0, hy, hdc⟩ := clash_position fuel srcNode hcop dstNode hwd hpl hclash
  -- the invariant holds initially, hence at the end of the run
  have hinit : CInv (opsOf srcNode src.names tb.names) (headOp m0 (src.names ++ rel0) (tb.names ++ rel0))
      (tb.names ++ rel0) y.obs (init fs (opsOf srcNode src.names tb.names)) := by
    refine ⟨hwf, plains_init hspec fs dstNode hsn hdst htb.2.2.2 hpl, ?_, ?_, .inr ?_⟩
    · show obsAt fs.root (tb.names ++ rel0) = some y.obs
      simp [obsAt, Node.getAt_append, hdst, hy]
    · intro x hx
      simpa [init] using hx
    · show headOp m0 (src.names ++ rel0) (tb.names ++ rel0) ∈ [] ++ opsOf srcNode src.names tb.names
      rw [List.nil_append]
      exact headOp_mem_opsOf rel0 srcNode m0 src.names tb.names hg0
  exact (CInv.run hspec c hg0 hl0 hdc ls _ s hinit hrun).failed_of_final hfin

/-- a run that has not failed and is not complete can take a step: the walker reaches its next operation, or (the
walker being done) the first queued operation completes -/
theorem unfailed_unfinished_can_step (c : Cfg) (s : St) (hf : s.failed = false) (hn : final s = false) :
    ∃ l s', step c s l = some s' := by
  cases htd : s.todo with
  | cons op r =>
    refine ⟨.walk, ?_⟩
    simp only [step, hf, htd, Bool.false_eq_true, if_false]
    cases isSync op with
    | false => exact ⟨_, rfl⟩
    | true =>
      simp only [if_true]
      cases execOp s.fs c op with
      | none => exact ⟨_, rfl⟩
      | some fs' => exact ⟨_, rfl⟩
  | nil =>
    cases hq : s.queue with
    | nil => simp [final, htd, hq] at hn
    | cons op r =>
      refine ⟨.exec 0, ?_⟩
      simp only [step, hq, List.getElem?_cons_zero]
      cases execOp s.fs c op with
      | none => exact ⟨_, rfl⟩
      | some fs' => exact ⟨_, rfl⟩

/-- together: from any state of a run of a clashing copy that has not failed, the run can go on; and when it can
go on no further it has failed -/
theorem clash_maximal_run_fails (fs : Fs) (c : Cfg) (hd : c.dereference = false) (hn : c.noClobber = false)
    (src tb : RPath) (srcNode dstNode : Node) (fuel : Nat)
    (hwf : FsEq fs fs) (hroot : fs.root.isDir = true)
    (hsrc : PlainTarget fs src) (hsn : fs.root.getAt src.names = some srcNode)
    (hcop : srcNode.Copyable fuel)
    (htb : PlainTarget fs tb) (hne : tb.names ≠ [])
    (hdst : fs.root.getAt tb.names = some dstNode) (hplain : dstNode.plainTree = true)
    (hclash : ¬ Compatible (some dstNode) srcNode)
    (hpar : ∃ es, fs.root.getAt tb.names.dropLast = some (.dir es))
    (hun1 : ¬ src.names <+: tb.names) (hun2 : ¬ tb.names <+: src.names)
    (hlen : src.names.length + fuel < 200 ∧ tb.names.length + fuel < 200)
    (ls : List Label) (s : St)
    (hrun : run c (init fs (walkEntry fs c none src tb (fuel + 1) [] [])) ls = some s)
    (hmax : ∀ l, step c s l = none) : s.failed = true := by
  cases hf : s.failed with
  | true => rfl
  | false =>
    cases hfin : final s with
    | true =>
      have := clash_fails_every_interleaving fs c hd hn src tb srcNode dstNode fuel hwf hroot hsrc hsn hcop htb hne
        hdst hplain hclash hpar hun1 hun2 hlen ls s hrun hfin
      rw [hf] at this; cases this
    | false =>
      obtain ⟨l, s', hs'⟩ := unfailed_unfinished_can_step c s hf hfin
      rw [hmax l] at hs'; cases hs'

end Xcp
