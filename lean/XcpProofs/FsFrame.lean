import XcpProofs.FsDefs
/-! # Frame and preservation lemmas over the namespace model (C03, C08)

Entry-list algebra, tree algebra (`getAt` after `setAt`/`delAt`), facts about path resolution (`walkPath`,
`Fs.resolve`) and, from these, what each mutating call and each `execOp` may change. -/
namespace Xcp

/-! ## Entry lists -/

theorem entGet_entSet (es : Entries) (n m : Name) (v : Node) :
    entGet (entSet es n v) m = if n = m then some v else entGet es m := by
  induction es with
  | nil => simp [entSet, entGet]
  | cons kv r ih =>
    obtain ⟨k, w⟩ := kv
    by_cases hk : k = n
    · subst hk
      by_cases hm : k = m <;> simp [entSet, entGet, hm]
    · by_cases hm : n = m
      · subst hm; simp [entSet, entGet, hk, ih]
      · by_cases hkm : k = m
        · subst hkm; simp [entSet, entGet, hk, hm]
        · simp [entSet, entGet, hk, hm, hkm, ih]

theorem entGet_entSet_self (es : Entries) (n : Name) (v : Node) : entGet (entSet es n v) n = some v := by
  simp [entGet_entSet]

theorem entGet_entSet_ne (es : Entries) (n m : Name) (v : Node) (h : n ≠ m) :
    entGet (entSet es n v) m = entGet es m := by
  simp [entGet_entSet, h]

theorem entGet_entDel_ne (es : Entries) (n m : Name) (h : n ≠ m) :
    entGet (entDel es n) m = entGet es m := by
  induction es with
  | nil => simp [entDel]
  | cons kv r ih =>
    obtain ⟨k, w⟩ := kv
    by_cases hk : k = n
    · subst hk; simp [entDel, entGet, h]
    · by_cases hkm : k = m
      · subst hkm; simp [entDel, entGet, hk]
      · simp [entDel, entGet, hk, hkm, ih]

/-! ## Unfolding `getAt`, `setAt`, `delAt` -/

@[simp] theorem getAt_nil (nd : Node) : nd.getAt [] = some nd := by
  cases nd <;> rfl

theorem getAt_dir_cons (es : Entries) (n : Name) (r : List Name) :
    (Node.dir es).getAt (n :: r) = (entGet es n).bind fun c => c.getAt r := by
  rw [Node.getAt]
  cases entGet es n <;> rfl

theorem getAt_nondir (nd : Node) (n : Name) (r : List Name) (h : nd.isDir = false) :
    nd.getAt (n :: r) = none := by
  cases nd <;> simp [Node.isDir] at h <;> rfl

@[simp] theorem setAt_nil (nd v : Node) : nd.setAt [] v = v := by
  cases nd <;> rfl

theorem setAt_dir_single (es : Entries) (n : Name) (v : Node) :
    (Node.dir es).setAt [n] v = .dir (entSet es n v) := by
  rw [Node.setAt]

theorem setAt_dir_cons (es : Entries) (n m : Name) (r : List Name) (v : Node) :
    (Node.dir es).setAt (n :: m :: r) v =
      match entGet es n with
      | some c => .dir (entSet es n (c.setAt (m :: r) v))
      | none => .dir es := by
  rw [Node.setAt]
  · cases entGet es n <;> rfl
  · intro h; cases h

theorem setAt_nondir (nd : Node) (n : Name) (r : List Name) (v : Node) (h : nd.isDir = false) :
    nd.setAt (n :: r) v = nd := by
  cases nd <;> simp [Node.isDir] at h <;> simp [Node.setAt]

@[simp] theorem delAt_nil (nd : Node) : nd.delAt [] = nd := by
  cases nd <;> rfl

theorem delAt_dir_single (es : Entries) (n : Name) :
    (Node.dir es).delAt [n] = .dir (entDel es n) := by
  rw [Node.delAt]

theorem delAt_dir_cons (es : Entries) (n m : Name) (r : List Name) :
    (Node.dir es).delAt (n :: m :: r) =
      match entGet es n with
      | some c => .dir (entSet es n (c.delAt (m :: r)))
      | none => .dir es := by
  rw [Node.delAt]
  · cases entGet es n <;> rfl
  · intro h; cases h

theorem delAt_nondir (nd : Node) (n : Name) (r : List Name) (h : nd.isDir = false) :
    nd.delAt (n :: r) = nd := by
  cases nd <;> simp [Node.isDir] at h <;> simp [Node.delAt]

/-! ## Tree algebra -/

theorem getAt_append_none (root : Node) (p s : List Name) (h : root.getAt p = none) :
    root.getAt (p ++ s) = none := by
  induction p generalizing root with
  | nil => simp at h
  | cons n r ih =>
    cases hd : root.isDir with
    | false => exact getAt_nondir _ _ _ hd
    | true =>
      cases root <;> simp [Node.isDir] at hd
      rename_i es
      rw [getAt_dir_cons] at h
      rw [List.cons_append, getAt_dir_cons]
      cases hc : entGet es n with
      | none => rfl
      | some c =>
        rw [hc] at h
        exact ih c h

/-- `setAt` does not touch what is neither above nor below the place set -/
theorem getAt_setAt_unrelated (root : Node) (p q : List Name) (v : Node)
    (h1 : ¬ p <+: q) (h2 : ¬ q <+: p) : (root.setAt p v).getAt q = root.getAt q := by
  induction p generalizing root q with
  | nil => exact absurd List.nil_prefix h1
  | cons n r ih =>
    cases q with
    | nil => exact absurd List.nil_prefix h2
    | cons m q' =>
      cases hd : root.isDir with
      | false => rw [setAt_nondir _ _ _ _ hd]
      | true =>
        cases root <;> simp [Node.isDir] at hd
        rename_i es
        by_cases hnm : n = m
        · subst hnm
          have h1' : ¬ r <+: q' := fun h => h1 (List.cons_prefix_cons.2 ⟨rfl, h⟩)
          have h2' : ¬ q' <+: r := fun h => h2 (List.cons_prefix_cons.2 ⟨rfl, h⟩)
          cases r with
          | nil => exact absurd List.nil_prefix h1'
          | cons m' r' =>
            rw [setAt_dir_cons]
            cases hc : entGet es n with
            | none => rfl
            | some c =>
              simp only [getAt_dir_cons, entGet_entSet_self, hc, Option.bind_some]
              exact ih c q' h1' h2'
        · cases r with
          | nil => rw [setAt_dir_single, getAt_dir_cons, getAt_dir_cons, entGet_entSet_ne _ _ _ _ hnm]
          | cons m' r' =>
            rw [setAt_dir_cons]
            cases hc : entGet es n with
            | none => rfl
            | some c => simp only [getAt_dir_cons, entGet_entSet_ne _ _ _ _ hnm]

theorem getAt_delAt_unrelated (root : Node) (p q : List Name)
    (h1 : ¬ p <+: q) (h2 : ¬ q <+: p) : (root.delAt p).getAt q = root.getAt q := by
  induction p generalizing root q with
  | nil => exact absurd List.nil_prefix h1
  | cons n r ih =>
    cases q with
    | nil => exact absurd List.nil_prefix h2
    | cons m q' =>
      cases hd : root.isDir with
      | false => rw [delAt_nondir _ _ _ hd]
      | true =>
        cases root <;> simp [Node.isDir] at hd
        rename_i es
        by_cases hnm : n = m
        · subst hnm
          have h1' : ¬ r <+: q' := fun h => h1 (List.cons_prefix_cons.2 ⟨rfl, h⟩)
          have h2' : ¬ q' <+: r := fun h => h2 (List.cons_prefix_cons.2 ⟨rfl, h⟩)
          cases r with
          | nil => exact absurd List.nil_prefix h1'
          | cons m' r' =>
            rw [delAt_dir_cons]
            cases hc : entGet es n with
            | none => rfl
            | some c =>
              simp only [getAt_dir_cons, entGet_entSet_self, hc, Option.bind_some]
              exact ih c q' h1' h2'
        · cases r with
          | nil => rw [delAt_dir_single, getAt_dir_cons, getAt_dir_cons, entGet_entDel_ne _ _ _ hnm]
          | cons m' r' =>
            rw [delAt_dir_cons]
            cases hc : entGet es n with
            | none => rfl
            | some c => simp only [getAt_dir_cons, entGet_entSet_ne _ _ _ _ hnm]

/-- what may happen to a proper ancestor of a place that is set or deleted: nothing, or it was a directory and
still is one -/
def DirOrSame (a b : Option Node) : Prop := b = a ∨ ∃ es es', a = some (.dir es) ∧ b = some (.dir es')

theorem getAt_setAt_ancestor (root : Node) (p q : List Name) (v : Node) (h1 : q <+: p) (h2 : q ≠ p) :
    DirOrSame (root.getAt q) ((root.setAt p v).getAt q) := by
  induction p generalizing root q with
  | nil => exact absurd (List.prefix_nil.1 h1) h2
  | cons n r ih =>
    cases hd : root.isDir with
    | false => rw [setAt_nondir _ _ _ _ hd]; exact .inl rfl
    | true =>
      cases root <;> simp [Node.isDir] at hd
      rename_i es
      cases q with
      | nil =>
        cases r with
        | nil => rw [setAt_dir_single]; exact .inr ⟨_, _, rfl, rfl⟩
        | cons m' r' =>
          rw [setAt_dir_cons]
          cases hc : entGet es n with
          | none => exact .inl rfl
          | some c => exact .inr ⟨_, _, rfl, rfl⟩
      | cons m q' =>
        obtain ⟨hmn, hq'⟩ := List.cons_prefix_cons.1 h1
        subst hmn
        have hne : q' ≠ r := fun h => h2 (by rw [h])
        cases r with
        | nil => exact absurd (List.prefix_nil.1 hq') hne
        | cons m' r' =>
          rw [setAt_dir_cons]
          cases hc : entGet es m with
          | none => exact .inl rfl
          | some c =>
            simp only [getAt_dir_cons, entGet_entSet_self, hc, Option.bind_some]
            exact ih c q' hq' hne

theorem getAt_delAt_ancestor (root : Node) (p q : List Name) (h1 : q <+: p) (h2 : q ≠ p) :
    DirOrSame (root.getAt q) ((root.delAt p).getAt q) := by
  induction p generalizing root q with
  | nil => exact absurd (List.prefix_nil.1 h1) h2
  | cons n r ih =>
    cases hd : root.isDir with
    | false => rw [delAt_nondir _ _ _ hd]; exact .inl rfl
    | true =>
      cases root <;> simp [Node.isDir] at hd
      rename_i es
      cases q with
      | nil =>
        cases r with
        | nil => rw [delAt_dir_single]; exact .inr ⟨_, _, rfl, rfl⟩
        | cons m' r' =>
          rw [delAt_dir_cons]
          cases hc : entGet es n with
          | none => exact .inl rfl
          | some c => exact .inr ⟨_, _, rfl, rfl⟩
      | cons m q' =>
        obtain ⟨hmn, hq'⟩ := List.cons_prefix_cons.1 h1
        subst hmn
        have hne : q' ≠ r := fun h => h2 (by rw [h])
        cases r with
        | nil => exact absurd (List.prefix_nil.1 hq') hne
        | cons m' r' =>
          rw [delAt_dir_cons]
          cases hc : entGet es m with
          | none => exact .inl rfl
          | some c =>
            simp only [getAt_dir_cons, entGet_entSet_self, hc, Option.bind_some]
            exact ih c q' hq' hne

/-- below a freshly created empty directory there is nothing -/
theorem getAt_setAt_below_fresh (root : Node) (p s : List Name) (h : root.getAt p = none) (hs : s ≠ []) :
    (root.setAt p (.dir [])).getAt (p ++ s) = none := by
  induction p generalizing root with
  | nil => simp at h
  | cons n r ih =>
    cases hd : root.isDir with
    | false => rw [setAt_nondir _ _ _ _ hd]; exact getAt_nondir _ _ _ hd
    | true =>
      cases root <;> simp [Node.isDir] at hd
      rename_i es
      rw [getAt_dir_cons] at h
      cases r with
      | nil =>
        cases s with
        | nil => exact absurd rfl hs
        | cons a s' =>
          simp [setAt_dir_single, getAt_dir_cons, entGet_entSet_self, entGet]
      | cons m' r' =>
        rw [setAt_dir_cons]
        cases hc : entGet es n with
        | none => simp [getAt_dir_cons, hc]
        | some c =>
          rw [hc] at h
          simp only [List.cons_append, getAt_dir_cons, entGet_entSet_self, Option.bind_some]
          exact ih c h

/-! ## `Kept` and `Preserved` -/

theorem Kept.refl (a : Option Node) : Kept a a := by
  cases a with
  | none => trivial
  | some n => cases n <;> simp [Kept]

theorem Kept.trans {a b c : Option Node} (h1 : Kept a b) (h2 : Kept b c) : Kept a c := by
  cases a with
  | none => trivial
  | some n =>
    cases n with
    | dir es =>
      obtain ⟨es', h⟩ := h1
      subst h
      exact h2
    | file k => simp only [Kept] at h1; subst h1; exact h2
    | link k => simp only [Kept] at h1; subst h1; exact h2
    | special k d => simp only [Kept] at h1; subst h1; exact h2

theorem Kept.of_dirOrSame {a b : Option Node} (h : DirOrSame a b) : Kept a b := by
  cases h with
  | inl h => subst h; exact Kept.refl _
  | inr h =>
    obtain ⟨es, es', ha, hb⟩ := h
    subst ha; subst hb
    exact ⟨es', rfl⟩

theorem Preserved.refl (r : Node) : Preserved r r := fun _ => Kept.refl _

theorem Preserved.trans {a b c : Node} (h1 : Preserved a b) (h2 : Preserved b c) : Preserved a c :=
  fun q => Kept.trans (h1 q) (h2 q)

theorem prefix_cases (p q : List Name) :
    (∃ s, q = p ++ s) ∨ (q <+: p ∧ q ≠ p) ∨ (¬ p <+: q ∧ ¬ q <+: p) := by
  by_cases h1 : p <+: q
  · obtain ⟨s, hs⟩ := h1
    exact .inl ⟨s, hs.symm⟩
  · by_cases h2 : q <+: p
    · refine .inr (.inl ⟨h2, ?_⟩)
      intro h; subst h; exact h1 (List.prefix_refl _)
    · exact .inr (.inr ⟨h1, h2⟩)

/-- inserting at a place where nothing is alters no existing entry (whatever the tree: if the parent is not a
directory `setAt` changes nothing) -/
theorem setAt_missing_preserved (root : Node) (p : List Name) (v : Node) (h : root.getAt p = none) :
    Preserved root (root.setAt p v) := by
  intro q
  rcases prefix_cases p q with ⟨s, hs⟩ | ⟨h1, h2⟩ | ⟨h1, h2⟩
  · subst hs
    rw [getAt_append_none _ _ _ h]
    trivial
  · exact Kept.of_dirOrSame (getAt_setAt_ancestor _ _ _ _ h1 h2)
  · rw [getAt_setAt_unrelated _ _ _ _ h1 h2]
    exact Kept.refl _

/-! ## Path resolution -/

theorem toOption_eq_some {ε α} {x : Except ε α} {a : α} (h : x.toOption = some a) : x = .ok a := by
  cases x with
  | ok b => simp [Except.toOption] at h; rw [h]
  | error e => simp [Except.toOption] at h

/-- `.missing par n` is only ever answered when nothing is at `par ++ [n]` -/
theorem walkPath_missing (root : Node) (fl : Bool) :
    ∀ (fuel : Nat) (cur : List Name) (cs : List Comp) (par : List Name) (n : Name),
      walkPath root fl fuel cur cs = .missing par n → root.getAt (par ++ [n]) = none := by
  intro fuel
  induction fuel with
  | zero => intro cur cs par n h; simp [walkPath] at h
  | succ f ih =>
    intro cur cs par n h
    cases cs with
    | nil => simp [walkPath] at h
    | cons c r =>
      cases c with
      | cur => simp only [walkPath] at h; exact ih _ _ _ _ h
      | parent => simp only [walkPath] at h; exact ih _ _ _ _ h
      | name m =>
        simp only [walkPath] at h
        split at h
        · split at h
          · cases h; assumption
          · cases h
        · split at h
          · cases h
          · exact ih _ _ _ _ h
        · exact ih _ _ _ _ h
        · split at h <;> cases h

/-- following the last component differs from not following it only when the latter ends on a link -/
theorem walkPath_nofollow (root : Node) :
    ∀ (fuel : Nat) (cur : List Name) (cs : List Comp),
      (∃ q tg, walkPath root false fuel cur cs = .found q ∧ root.getAt q = some (.link tg)) ∨
      walkPath root true fuel cur cs = walkPath root false fuel cur cs := by
  intro fuel
  induction fuel with
  | zero => intro cur cs; right; simp [walkPath]
  | succ f ih =>
    intro cur cs
    cases cs with
    | nil => right; simp [walkPath]
    | cons c r =>
      cases c with
      | cur => simp only [walkPath]; exact ih _ _
      | parent => simp only [walkPath]; exact ih _ _
      | name m =>
        simp only [walkPath]
        cases hg : root.getAt (cur ++ [m]) with
        | none => right; rfl
        | some nd =>
          cases nd with
          | file k => right; rfl
          | special k d => right; rfl
          | dir es => exact ih _ _
          | link t =>
            cases hr : r.isEmpty with
            | true => left; exact ⟨_, t, by simp, hg⟩
            | false => simpa using ih _ _

theorem resolve_missing (fs : Fs) (p : RPath) (fl : Bool) (par : List Name) (n : Name)
    (h : fs.resolve p fl = .missing par n) : fs.root.getAt (par ++ [n]) = none := by
  unfold Fs.resolve at h
  split at h
  · cases h
  · split at h
    · split at h
      · split at h <;> cases h
      · cases h
    · exact walkPath_missing _ _ _ _ _ _ _ h

theorem resolve_nofollow (fs : Fs) (p : RPath) :
    (∃ q tg, fs.resolve p false = .found q ∧ fs.root.getAt q = some (.link tg)) ∨
    fs.resolve p true = fs.resolve p false := by
  unfold Fs.resolve
  split
  · right; rfl
  · cases ht : p.trail with
    | true => right; simp
    | false =>
      rcases walkPath_nofollow fs.root resolveFuel (if p.abs then [] else fs.cwd) p.comps with ⟨q, tg, hw, hl⟩ | hw
      · left; exact ⟨q, tg, by simp [hw], hl⟩
      · right; simp [hw]

theorem lstat_none_of_lexists (fs : Fs) (p : RPath) (h : fs.lexists p = false) : fs.lstat p = none := by
  simpa [Fs.lexists] using h

theorem found_none_of_lexists (fs : Fs) (p : RPath) (h : fs.lexists p = false) (q : List Name)
    (hq : fs.resolve p false = .found q) : fs.root.getAt q = none := by
  have := lstat_none_of_lexists fs p h
  simpa [Fs.lstat, hq] using this

theorem resolve_follow_of_lexists (fs : Fs) (p : RPath) (h : fs.lexists p = false) :
    fs.resolve p true = fs.resolve p false := by
  rcases resolve_nofollow fs p with ⟨q, tg, hq, hl⟩ | hr
  · rw [found_none_of_lexists fs p h q hq] at hl; cases hl
  · exact hr

/-- nothing there for `lstat` ⇒ nothing there for `stat` -/
theorem exists_false_of_lexists (fs : Fs) (p : RPath) (h : fs.lexists p = false) : fs.exists p = false := by
  have hn : fs.stat p = none := by
    unfold Fs.stat
    rw [resolve_follow_of_lexists fs p h]
    cases hr : fs.resolve p false with
    | found q => simp [found_none_of_lexists fs p h q hr]
    | missing par n => rfl
    | err e => rfl
  simp [Fs.exists, hn]

/-! ## What the mutating calls preserve -/

theorem mkdir_preserved (fs fs' : Fs) (p : RPath) (h : fs.mkdir p = .ok fs') : Preserved fs.root fs'.root := by
  unfold Fs.mkdir at h
  split at h
  · cases h
  · rename_i par n hr
    cases h
    exact setAt_missing_preserved _ _ _ (resolve_missing _ _ _ _ _ hr)
  · cases h

theorem symlink_preserved (fs fs' : Fs) (tg p : RPath) (h : fs.symlink tg p = .ok fs') :
    Preserved fs.root fs'.root := by
  unfold Fs.symlink at h
  split at h
  · cases h
  · rename_i par n hr
    cases h
    exact setAt_missing_preserved _ _ _ (resolve_missing _ _ _ _ _ hr)
  · cases h

theorem mknod_preserved (fs fs' : Fs) (p : RPath) (k : FileKind) (d : Nat) (h : fs.mknod p k d = .ok fs') :
    Preserved fs.root fs'.root := by
  unfold Fs.mknod at h
  split at h
  · cases h
  · rename_i par n hr
    cases h
    exact setAt_missing_preserved _ _ _ (resolve_missing _ _ _ _ _ hr)
  · cases h

theorem mkdirAllAux_preserved (abs : Bool) :
    ∀ (rev : List Comp) (fs fs' : Fs), Fs.mkdirAllAux fs abs rev = .ok fs' → Preserved fs.root fs'.root := by
  intro rev
  induction rev with
  | nil => intro fs fs' h; simp only [Fs.mkdirAllAux] at h; cases h; exact Preserved.refl _
  | cons c rest ih =>
    intro fs fs' h
    simp only [Fs.mkdirAllAux] at h
    split at h
    · rename_i fs1 hm
      cases h
      exact mkdir_preserved _ _ _ hm
    · split at h
      · rename_i fs1 h1
        have p1 := ih _ _ h1
        split at h
        · rename_i fs2 h2
          cases h
          exact Preserved.trans p1 (mkdir_preserved _ _ _ h2)
        · split at h
          · cases h; exact p1
          · cases h
      · cases h
    · split at h
      · cases h; exact Preserved.refl _
      · cases h

theorem mkdirAll_preserved (fs fs' : Fs) (p : RPath) (h : fs.mkdirAll p = .ok fs') :
    Preserved fs.root fs'.root := by
  unfold Fs.mkdirAll at h
  split at h
  · cases h; exact Preserved.refl _
  · exact mkdirAllAux_preserved _ _ _ _ h

/-- `File::create` on a path at which `lstat` finds nothing can only create -/
theorem createFile_preserved (fs fs' : Fs) (p : RPath) (c : Nat) (hf : fs.lexists p = false)
    (h : fs.createFile p c = .ok fs') : Preserved fs.root fs'.root := by
  unfold Fs.createFile at h
  rw [resolve_follow_of_lexists fs p hf] at h
  split at h
  · rename_i q hr
    rw [found_none_of_lexists fs p hf q hr] at h
    cases h
  · rename_i par n hr
    split at h
    · cases h
    · cases h
      exact setAt_missing_preserved _ _ _ (resolve_missing _ _ _ _ _ hr)
  · cases h

/-! ## The working directory -/

theorem mkdir_cwd (fs fs' : Fs) (p : RPath) (h : fs.mkdir p = .ok fs') : fs'.cwd = fs.cwd := by
  unfold Fs.mkdir at h
  split at h <;> cases h <;> rfl

theorem symlink_cwd (fs fs' : Fs) (tg p : RPath) (h : fs.symlink tg p = .ok fs') : fs'.cwd = fs.cwd := by
  unfold Fs.symlink at h
  split at h <;> cases h <;> rfl

theorem mknod_cwd (fs fs' : Fs) (p : RPath) (k : FileKind) (d : Nat) (h : fs.mknod p k d = .ok fs') :
    fs'.cwd = fs.cwd := by
  unfold Fs.mknod at h
  split at h <;> cases h <;> rfl

theorem unlink_cwd (fs fs' : Fs) (p : RPath) (h : fs.unlink p = .ok fs') : fs'.cwd = fs.cwd := by
  unfold Fs.unlink at h
  split at h
  · split at h
    · cases h
    · split at h <;> cases h <;> rfl
    · cases h
  · cases h
  · cases h

theorem createFile_cwd (fs fs' : Fs) (p : RPath) (c : Nat) (h : fs.createFile p c = .ok fs') :
    fs'.cwd = fs.cwd := by
  unfold Fs.createFile at h
  split at h
  · split at h <;> cases h <;> rfl
  · split at h <;> cases h <;> rfl
  · cases h

theorem mkdirAllAux_cwd (abs : Bool) :
    ∀ (rev : List Comp) (fs fs' : Fs), Fs.mkdirAllAux fs abs rev = .ok fs' → fs'.cwd = fs.cwd := by
  intro rev
  induction rev with
  | nil => intro fs fs' h; simp only [Fs.mkdirAllAux] at h; cases h; rfl
  | cons c rest ih =>
    intro fs fs' h
    simp only [Fs.mkdirAllAux] at h
    split at h
    · rename_i fs1 hm
      cases h
      exact mkdir_cwd _ _ _ hm
    · split at h
      · rename_i fs1 h1
        have p1 := ih _ _ h1
        split at h
        · rename_i fs2 h2
          cases h
          rw [mkdir_cwd _ _ _ h2, p1]
        · split at h
          · cases h; exact p1
          · cases h
      · cases h
    · split at h
      · cases h; rfl
      · cases h

theorem mkdirAll_cwd (fs fs' : Fs) (p : RPath) (h : fs.mkdirAll p = .ok fs') : fs'.cwd = fs.cwd := by
  unfold Fs.mkdirAll at h
  split at h
  · cases h; rfl
  · exact mkdirAllAux_cwd _ _ _ _ h

theorem execOp_cwd (fs fs' : Fs) (c : Cfg) (op : Op) (h : execOp fs c op = some fs') : fs'.cwd = fs.cwd := by
  cases op with
  | fail => simp [execOp] at h
  | mkdir t => exact mkdirAll_cwd _ _ _ (toOption_eq_some h)
  | link tx t => exact symlink_cwd _ _ _ _ (toOption_eq_some h)
  | copy s t =>
    simp only [execOp] at h
    split at h
    · cases h
    · split at h
      · cases h
      · exact createFile_cwd _ _ _ _ (toOption_eq_some h)
  | special s t =>
    simp only [execOp] at h
    split at h
    · split at h
      · split at h
        · cases h
        · split at h
          · cases h
          · split at h
            · rename_i fs1 hu
              rw [mknod_cwd _ _ _ _ _ (toOption_eq_some h), unlink_cwd _ _ _ hu]
            · cases h
      · exact mknod_cwd _ _ _ _ _ (toOption_eq_some h)
    · cases h

/-- one operation executed on a target that does not exist alters no existing entry -/
theorem execOp_fresh_preserved (fs fs' : Fs) (c : Cfg) (op : Op)
    (hf : ∀ t, opTarget op = some t → fs.lexists t = false) (h : execOp fs c op = some fs') :
    Preserved fs.root fs'.root := by
  cases op with
  | fail => simp [execOp] at h
  | mkdir t => exact mkdirAll_preserved _ _ _ (toOption_eq_some h)
  | link tx t => exact symlink_preserved _ _ _ _ (toOption_eq_some h)
  | copy s t =>
    have hl := hf t rfl
    simp only [execOp] at h
    split at h
    · cases h
    · split at h
      · cases h
      · exact createFile_preserved _ _ _ _ hl (toOption_eq_some h)
  | special s t =>
    have hl := hf t rfl
    simp only [execOp, exists_false_of_lexists fs t hl] at h
    split at h
    · exact mknod_preserved _ _ _ _ _ (toOption_eq_some h)
    · cases h

/-! ## Plain targets: the kernel resolves them to the place they spell -/

def plainPath (ns : List Name) : RPath := ⟨true, ns.map .name, false⟩

theorem comps_eq_map_names (a b : Bool) (l : List Comp) (h : ∀ c ∈ l, ∃ n, c = .name n) :
    l = (RPath.names ⟨a, l, b⟩).map .name := by
  induction l with
  | nil => rfl
  | cons c r ih =>
    obtain ⟨n, hn⟩ := h c List.mem_cons_self
    subst hn
    have := ih (fun c hc => h c (List.mem_cons_of_mem _ hc))
    simp only [RPath.names] at this ⊢
    simp only [List.filterMap_cons, List.map_cons]
    rw [← this]

theorem plainTarget_eq (fs : Fs) (t : RPath) (hp : PlainTarget fs t) : t = plainPath t.names := by
  obtain ⟨ha, ht, hc, _⟩ := hp
  cases t with
  | mk abs comps trail =>
    simp only at ha ht hc
    subst ha; subst ht
    simp only [plainPath]
    rw [← comps_eq_map_names true false comps hc]

/-- no symbolic link strictly above `ns` -/
def NoLinkAbove (root : Node) (ns : List Name) : Prop :=
  ∀ p, p <+: ns → p ≠ ns → ∀ tg, root.getAt p ≠ some (.link tg)

/-- no symbolic link at or above `ns` -/
def NoLinkUpto (root : Node) (ns : List Name) : Prop :=
  ∀ p, p <+: ns → ∀ tg, root.getAt p ≠ some (.link tg)

theorem NoLinkUpto.above {root : Node} {ns : List Name} (h : NoLinkUpto root ns) : NoLinkAbove root ns :=
  fun p hp _ => h p hp

theorem NoLinkUpto.prefix {root : Node} {ns p : List Name} (h : NoLinkUpto root ns) (hp : p <+: ns) :
    NoLinkUpto root p :=
  fun q hq => h q (List.IsPrefix.trans hq hp)

theorem walkPath_plain (root : Node) (fl : Bool) :
    ∀ (fuel : Nat) (cur ns : List Name),
      (∀ p, p <+: ns → p ≠ [] → (p ≠ ns ∨ fl = true) → ∀ tg, root.getAt (cur ++ p) ≠ some (.link tg)) →
      walkPath root fl fuel cur (ns.map .name) = .found (cur ++ ns) ∨
      (∃ par n, walkPath root fl fuel cur (ns.map .name) = .missing par n ∧ par ++ [n] = cur ++ ns) ∨
      ∃ e, walkPath root fl fuel cur (ns.map .name) = .err e := by
  intro fuel
  induction fuel with
  | zero => intro cur ns _; right; right; exact ⟨_, rfl⟩
  | succ f ih =>
    intro cur ns h
    cases ns with
    | nil => left; simp [walkPath]
    | cons n r =>
      simp only [List.map_cons, walkPath]
      cases hg : root.getAt (cur ++ [n]) with
      | none =>
        cases r with
        | nil => right; left; exact ⟨cur, n, by simp, rfl⟩
        | cons m r' => right; right; exact ⟨.ENOENT, by simp⟩
      | some nd =>
        have hrec : ∀ p, p <+: r → p ≠ [] → (p ≠ r ∨ fl = true) →
            ∀ tg, root.getAt ((cur ++ [n]) ++ p) ≠ some (.link tg) := by
          intro p hp hne hor tg
          have := h (n :: p) (List.cons_prefix_cons.2 ⟨rfl, hp⟩) (by simp)
            (hor.elim (fun h => .inl (by simpa using h)) .inr) tg
          simpa using this
        cases nd with
        | file k =>
          cases r with
          | nil => left; simp
          | cons m r' => right; right; exact ⟨.ENOTDIR, by simp⟩
        | special k d =>
          cases r with
          | nil => left; simp
          | cons m r' => right; right; exact ⟨.ENOTDIR, by simp⟩
        | dir es =>
          have := ih (cur ++ [n]) r hrec
          simpa using this
        | link t =>
          cases r with
          | nil =>
            cases fl with
            | false => left; simp
            | true => exact absurd hg (h [n] (List.prefix_refl _) (by simp) (.inr rfl) t)
          | cons m r' =>
            exact absurd hg (h [n] (List.cons_prefix_cons.2 ⟨rfl, List.nil_prefix⟩) (by simp) (.inl (by simp)) t)

theorem resolve_plain (fs : Fs) (ns : List Name) (fl : Bool)
    (h : ∀ p, p <+: ns → (p ≠ ns ∨ fl = true) → ∀ tg, fs.root.getAt p ≠ some (.link tg)) :
    fs.resolve (plainPath ns) fl = .found ns ∨
    (∃ par n, fs.resolve (plainPath ns) fl = .missing par n ∧ par ++ [n] = ns) ∨
    ∃ e, fs.resolve (plainPath ns) fl = .err e := by
  have hw := walkPath_plain fs.root fl resolveFuel [] ns (by
    intro p hp _ hor tg
    simpa using h p hp hor tg)
  simp only [List.nil_append] at hw
  rcases hw with hw | ⟨par, n, hw, hpn⟩ | ⟨e, hw⟩
  · left; simp [Fs.resolve, plainPath, hw]
  · right; left; exact ⟨par, n, by simp [Fs.resolve, plainPath, hw], hpn⟩
  · right; right; exact ⟨e, by simp [Fs.resolve, plainPath, hw]⟩

/-! ## Frame of an operation on a plain target -/

/-- nothing changed except at/below `ns` and at its ancestors -/
def FrameAt (r r' : Node) (ns : List Name) : Prop :=
  ∀ q, ¬ ns <+: q → ¬ q <+: ns → r'.getAt q = r.getAt q

/-- every proper ancestor of `ns` is untouched, or was and still is a directory -/
def AncKept (r r' : Node) (ns : List Name) : Prop :=
  ∀ q, q <+: ns → q ≠ ns → DirOrSame (r.getAt q) (r'.getAt q)

/-- every proper ancestor of `ns` that was a directory still is one -/
def AncDir (r r' : Node) (ns : List Name) : Prop :=
  ∀ q es, q <+: ns → q ≠ ns → r.getAt q = some (.dir es) → ∃ es', r'.getAt q = some (.dir es')

theorem FrameAt.refl (r : Node) (ns : List Name) : FrameAt r r ns := fun _ _ _ => rfl

theorem FrameAt.trans {a b c : Node} {ns : List Name} (h1 : FrameAt a b ns) (h2 : FrameAt b c ns) :
    FrameAt a c ns := fun q hq1 hq2 => (h2 q hq1 hq2).trans (h1 q hq1 hq2)

theorem DirOrSame.refl (a : Option Node) : DirOrSame a a := .inl rfl

theorem DirOrSame.trans {a b c : Option Node} (h1 : DirOrSame a b) (h2 : DirOrSame b c) : DirOrSame a c := by
  rcases h1 with h1 | ⟨es, es', ha, hb⟩
  · subst h1; exact h2
  · rcases h2 with h2 | ⟨es1, es2, hb', hc⟩
    · subst h2; exact .inr ⟨es, es', ha, hb⟩
    · exact .inr ⟨es, es2, ha, hc⟩

theorem DirOrSame.notLink {a b : Option Node} (h : DirOrSame a b) (ha : ∀ tg, a ≠ some (.link tg)) :
    ∀ tg, b ≠ some (.link tg) := by
  intro tg
  rcases h with h | ⟨es, es', _, hb⟩
  · subst h; exact ha tg
  · rw [hb]; intro hh; cases hh

theorem AncKept.refl (r : Node) (ns : List Name) : AncKept r r ns := fun _ _ _ => DirOrSame.refl _

theorem AncKept.trans {a b c : Node} {ns : List Name} (h1 : AncKept a b ns) (h2 : AncKept b c ns) :
    AncKept a c ns := fun q hq1 hq2 => DirOrSame.trans (h1 q hq1 hq2) (h2 q hq1 hq2)

theorem AncKept.ancDir {r r' : Node} {ns : List Name} (h : AncKept r r' ns) : AncDir r r' ns := by
  intro q es hq hne hd
  rcases h q hq hne with h | ⟨_, es', _, hb⟩
  · exact ⟨es, by rw [h, hd]⟩
  · exact ⟨es', hb⟩

theorem AncKept.noLinkAbove {r r' : Node} {ns : List Name} (h : AncKept r r' ns) (hl : NoLinkAbove r ns) :
    NoLinkAbove r' ns :=
  fun p hp hne => (h p hp hne).notLink (hl p hp hne)

theorem Preserved.ancDir {r r' : Node} (h : Preserved r r') (ns : List Name) : AncDir r r' ns := by
  intro q es _ _ hd
  have := h q
  rw [hd] at this
  exact this

theorem setAt_frameAt (r : Node) (ns : List Name) (v : Node) : FrameAt r (r.setAt ns v) ns :=
  fun q h1 h2 => getAt_setAt_unrelated r ns q v h1 h2

theorem setAt_ancKept (r : Node) (ns : List Name) (v : Node) : AncKept r (r.setAt ns v) ns :=
  fun q h1 h2 => getAt_setAt_ancestor r ns q v h1 h2

theorem delAt_frameAt (r : Node) (ns : List Name) : FrameAt r (r.delAt ns) ns :=
  fun q h1 h2 => getAt_delAt_unrelated r ns q h1 h2

theorem delAt_ancKept (r : Node) (ns : List Name) : AncKept r (r.delAt ns) ns :=
  fun q h1 h2 => getAt_delAt_ancestor r ns q h1 h2

theorem resolve_plain_nofollow (fs : Fs) (ns : List Name) (hl : NoLinkAbove fs.root ns) :
    fs.resolve (plainPath ns) false = .found ns ∨
    (∃ par n, fs.resolve (plainPath ns) false = .missing par n ∧ par ++ [n] = ns) ∨
    ∃ e, fs.resolve (plainPath ns) false = .err e :=
  resolve_plain fs ns false fun p hp hor tg => hl p hp (hor.elim id (fun h => by cases h)) tg

theorem resolve_plain_follow (fs : Fs) (ns : List Name) (hl : NoLinkUpto fs.root ns) :
    fs.resolve (plainPath ns) true = .found ns ∨
    (∃ par n, fs.resolve (plainPath ns) true = .missing par n ∧ par ++ [n] = ns) ∨
    ∃ e, fs.resolve (plainPath ns) true = .err e :=
  resolve_plain fs ns true fun p hp _ tg => hl p hp tg

theorem createFile_plain (fs fs' : Fs) (ns : List Name) (c : Nat) (hl : NoLinkUpto fs.root ns)
    (h : fs.createFile (plainPath ns) c = .ok fs') :
    fs' = fs ∨ ∃ v, fs' = { fs with root := fs.root.setAt ns v } := by
  unfold Fs.createFile at h
  rcases resolve_plain_follow fs ns hl with hr | ⟨par, n, hr, hpn⟩ | ⟨e, hr⟩
  · rw [hr] at h
    simp only at h
    split at h
    · cases h; exact .inr ⟨_, rfl⟩
    · cases h
    · cases h; exact .inl rfl
    · cases h
  · rw [hr] at h
    simp only [plainPath] at h
    cases h
    rw [hpn]
    exact .inr ⟨_, rfl⟩
  · rw [hr] at h; cases h

theorem mkdir_plain (fs fs' : Fs) (ns : List Name) (hl : NoLinkAbove fs.root ns)
    (h : fs.mkdir (plainPath ns) = .ok fs') :
    fs.root.getAt ns = none ∧ fs' = { fs with root := fs.root.setAt ns (.dir []) } := by
  unfold Fs.mkdir at h
  rcases resolve_plain_nofollow fs ns hl with hr | ⟨par, n, hr, hpn⟩ | ⟨e, hr⟩
  · rw [hr] at h; cases h
  · have hm := resolve_missing _ _ _ _ _ hr
    rw [hr] at h
    cases h
    rw [hpn] at hm ⊢
    exact ⟨hm, rfl⟩
  · rw [hr] at h; cases h

theorem symlink_plain (fs fs' : Fs) (tg : RPath) (ns : List Name) (hl : NoLinkAbove fs.root ns)
    (h : fs.symlink tg (plainPath ns) = .ok fs') :
    ∃ v, fs' = { fs with root := fs.root.setAt ns v } := by
  unfold Fs.symlink at h
  rcases resolve_plain_nofollow fs ns hl with hr | ⟨par, n, hr, hpn⟩ | ⟨e, hr⟩
  · rw [hr] at h; cases h
  · rw [hr] at h
    cases h
    rw [hpn]
    exact ⟨_, rfl⟩
  · rw [hr] at h; cases h

theorem mknod_plain (fs fs' : Fs) (ns : List Name) (k : FileKind) (d : Nat) (hl : NoLinkAbove fs.root ns)
    (h : fs.mknod (plainPath ns) k d = .ok fs') :
    ∃ v, fs' = { fs with root := fs.root.setAt ns v } := by
  unfold Fs.mknod at h
  rcases resolve_plain_nofollow fs ns hl with hr | ⟨par, n, hr, hpn⟩ | ⟨e, hr⟩
  · rw [hr] at h; cases h
  · rw [hr] at h
    cases h
    rw [hpn]
    exact ⟨_, rfl⟩
  · rw [hr] at h; cases h

theorem unlink_plain (fs fs' : Fs) (ns : List Name) (hl : NoLinkAbove fs.root ns)
    (h : fs.unlink (plainPath ns) = .ok fs') :
    fs' = { fs with root := fs.root.delAt ns } := by
  unfold Fs.unlink at h
  rcases resolve_plain_nofollow fs ns hl with hr | ⟨par, n, hr, hpn⟩ | ⟨e, hr⟩
  · rw [hr] at h
    simp only at h
    split at h
    · cases h
    · split at h
      · cases h
      · cases h; rfl
    · cases h
  · rw [hr] at h; cases h
  · rw [hr] at h; cases h

theorem getAt_setAt_self (root : Node) (p : List Name) (v : Node) :
    (root.setAt p v).getAt p = some v ∨ (root.setAt p v).getAt p = root.getAt p := by
  induction p generalizing root with
  | nil => left; simp
  | cons n r ih =>
    cases hd : root.isDir with
    | false => rw [setAt_nondir _ _ _ _ hd]; exact .inr rfl
    | true =>
      cases root <;> simp [Node.isDir] at hd
      rename_i es
      cases r with
      | nil => left; simp [setAt_dir_single, getAt_dir_cons, entGet_entSet_self]
      | cons m' r' =>
        rw [setAt_dir_cons]
        cases hc : entGet es n with
        | none => exact .inr rfl
        | some c =>
          simp only [getAt_dir_cons, entGet_entSet_self, hc, Option.bind_some]
          exact ih c

/-- creating an empty directory where nothing is: at and below it there is no link afterwards -/
theorem getAt_setAt_fresh_notLink (root : Node) (p s : List Name) (h : root.getAt p = none) (tg : RPath) :
    (root.setAt p (.dir [])).getAt (p ++ s) ≠ some (.link tg) := by
  cases s with
  | nil =>
    rw [List.append_nil]
    rcases getAt_setAt_self root p (.dir []) with h1 | h1
    · rw [h1]; intro hh; cases hh
    · rw [h1, h]; intro hh; cases hh
  | cons a s' =>
    rw [getAt_setAt_below_fresh root p (a :: s') h (by simp)]
    intro hh; cases hh

/-- one `mkdir` at a prefix of a plain path -/
theorem mkdir_plain_step (fs fs' : Fs) (ns p : List Name) (hp : p <+: ns) (hl : NoLinkUpto fs.root ns)
    (h : fs.mkdir (plainPath p) = .ok fs') : FrameAt fs.root fs'.root ns ∧ NoLinkUpto fs'.root ns := by
  obtain ⟨hnone, hfs⟩ := mkdir_plain fs fs' p (hl.prefix hp).above h
  subst hfs
  refine ⟨?_, ?_⟩
  · intro q h1 h2
    show (fs.root.setAt p (.dir [])).getAt q = fs.root.getAt q
    rcases prefix_cases p q with ⟨s, hs⟩ | ⟨h3, _⟩ | ⟨h3, h4⟩
    · subst hs
      have hs : s ≠ [] := by
        intro hs; subst hs
        rw [List.append_nil] at h2
        exact h2 hp
      rw [getAt_setAt_below_fresh _ _ _ hnone hs, getAt_append_none _ _ _ hnone]
    · exact absurd (List.IsPrefix.trans h3 hp) h2
    · exact getAt_setAt_unrelated _ _ _ _ h3 h4
  · intro q hq tg
    show (fs.root.setAt p (.dir [])).getAt q ≠ some (.link tg)
    rcases prefix_cases p q with ⟨s, hs⟩ | ⟨h3, h4⟩ | ⟨h3, h4⟩
    · subst hs
      exact getAt_setAt_fresh_notLink _ _ _ hnone tg
    · exact (getAt_setAt_ancestor _ _ _ _ h3 h4).notLink (hl q hq) tg
    · rw [getAt_setAt_unrelated _ _ _ _ h3 h4]
      exact hl q hq tg

theorem mkdirAllAux_plain (ns : List Name) :
    ∀ (rn : List Name) (fs fs' : Fs), rn.reverse <+: ns → NoLinkUpto fs.root ns →
      Fs.mkdirAllAux fs true (rn.map .name) = .ok fs' →
      FrameAt fs.root fs'.root ns ∧ NoLinkUpto fs'.root ns := by
  intro rn
  induction rn with
  | nil =>
    intro fs fs' _ hl h
    simp only [List.map_nil, Fs.mkdirAllAux] at h
    cases h
    exact ⟨FrameAt.refl _ _, hl⟩
  | cons n rest ih =>
    intro fs fs' hp hl h
    have hpp : (⟨true, (Comp.name n :: rest.map .name).reverse, false⟩ : RPath) = plainPath (n :: rest).reverse := by
      simp [plainPath]
    have hp' : rest.reverse <+: ns := by
      rw [List.reverse_cons] at hp
      exact List.IsPrefix.trans (List.prefix_append _ _) hp
    simp only [List.map_cons, Fs.mkdirAllAux] at h
    rw [hpp] at h
    split at h
    · rename_i fs1 hm
      cases h
      exact mkdir_plain_step _ _ _ _ hp hl hm
    · split at h
      · rename_i fs1 h1
        obtain ⟨f1, l1⟩ := ih _ _ hp' hl h1
        split at h
        · rename_i fs2 h2
          cases h
          obtain ⟨f2, l2⟩ := mkdir_plain_step _ _ _ _ hp l1 h2
          exact ⟨FrameAt.trans f1 f2, l2⟩
        · split at h
          · cases h; exact ⟨f1, l1⟩
          · cases h
      · cases h
    · split at h
      · cases h; exact ⟨FrameAt.refl _ _, hl⟩
      · cases h

theorem mkdirAll_plain (fs fs' : Fs) (ns : List Name) (hl : NoLinkUpto fs.root ns)
    (h : fs.mkdirAll (plainPath ns) = .ok fs') : FrameAt fs.root fs'.root ns := by
  unfold Fs.mkdirAll at h
  split at h
  · cases h; exact FrameAt.refl _ _
  · simp only [plainPath, ← List.map_reverse] at h
    exact (mkdirAllAux_plain ns ns.reverse fs fs' (by simp) hl h).1

/-- an operation on a plain target changes only what is at or below the target and the entry lists of the
target's ancestor directories, which stay directories -/
theorem execOp_plain (fs fs' : Fs) (c : Cfg) (op : Op) (ns : List Name)
    (ht : opTarget op = some (plainPath ns)) (hl : NoLinkUpto fs.root ns) (h : execOp fs c op = some fs') :
    FrameAt fs.root fs'.root ns ∧ AncDir fs.root fs'.root ns := by
  cases op with
  | fail => simp [execOp] at h
  | mkdir t =>
    simp only [opTarget, Option.some.injEq] at ht
    subst ht
    have h' := toOption_eq_some h
    exact ⟨mkdirAll_plain _ _ _ hl h', (mkdirAll_preserved _ _ _ h').ancDir _⟩
  | link tx t =>
    simp only [opTarget, Option.some.injEq] at ht
    subst ht
    obtain ⟨v, hv⟩ := symlink_plain _ _ _ _ hl.above (toOption_eq_some h)
    subst hv
    exact ⟨setAt_frameAt _ _ _, (setAt_ancKept _ _ _).ancDir⟩
  | copy s t =>
    simp only [opTarget, Option.some.injEq] at ht
    subst ht
    simp only [execOp] at h
    split at h
    · cases h
    · split at h
      · cases h
      · rcases createFile_plain _ _ _ _ hl (toOption_eq_some h) with hv | ⟨v, hv⟩
        · subst hv; exact ⟨FrameAt.refl _ _, (AncKept.refl _ _).ancDir⟩
        · subst hv; exact ⟨setAt_frameAt _ _ _, (setAt_ancKept _ _ _).ancDir⟩
  | special s t =>
    simp only [opTarget, Option.some.injEq] at ht
    subst ht
    simp only [execOp] at h
    split at h
    · split at h
      · split at h
        · cases h
        · split at h
          · cases h
          · split at h
            · rename_i fs1 hu
              have h1 := unlink_plain _ _ _ hl.above hu
              subst h1
              have hl1 : NoLinkAbove (fs.root.delAt ns) ns := (delAt_ancKept _ _).noLinkAbove hl.above
              obtain ⟨v, hv⟩ := mknod_plain _ _ _ _ _ hl1 (toOption_eq_some h)
              subst hv
              exact ⟨FrameAt.trans (delAt_frameAt _ _) (setAt_frameAt _ _ _),
                (AncKept.trans (delAt_ancKept _ _) (setAt_ancKept _ _ _)).ancDir⟩
            · cases h
      · obtain ⟨v, hv⟩ := mknod_plain _ _ _ _ _ hl.above (toOption_eq_some h)
        subst hv
        exact ⟨setAt_frameAt _ _ _, (setAt_ancKept _ _ _).ancDir⟩
    · cases h

end Xcp
