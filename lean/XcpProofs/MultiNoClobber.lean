import XcpProofs.MultiConc
import XcpProofs.NoClobberLemmas
/-! # `--no-clobber`, several sources into one existing directory, EVERY interleaving

The several-sources version of `noclobber_tree_any_interleaving` (NoClobberTree): `xcp -r --no-clobber s1 … sn DEST/`
with `DEST` an existing directory and every `DEST/basename(si)` ABSENT (an existing target makes the walker emit
nothing / `.fail`: `C08.collision_emits_no_operation`).  The concurrent model runs over the concatenation `multiOps`
of the walker's per-source lists; with every target absent for `lstat` the no-clobber probe never fires, so the lists
are the structural `opsOf` lists whatever `noClobber` is (`multiOps_eq_noclobber`, the `.inr` form of `walk_shape`).

In every reachable state: every entry that existed initially is kept (`Preserved`), the target of every queued
operation and of the operation the walker reaches next does not exist at that moment (`lexists = false`), and the
run has not failed.  The sequential run is one of the interleavings: `FreshRun` (`multi_noclobber_fresh_run`).

Proof: the invariant `MOInv` (MultiConcLemmas) was developed for `noClobber = false`, which `execOp` consults only
when a special file's target EXISTS; along these runs every executed operation's target is absent, so the runs under
`c` are exactly the runs under `{ c with noClobber := false }` (`run_noClobber_off`). -/
namespace Xcp

open L0

/-! ## `noClobber` is irrelevant to an operation whose target does not exist -/

theorem execOp_noClobber_off (fs : Fs) (c : Cfg) (op : Op)
    (h : ∀ t, opTarget op = some t → fs.exists t = false) :
    execOp fs c op = execOp fs { c with noClobber := false } op := by
  cases op with
  | fail => rfl
  | mkdir t => rfl
  | copy s t => rfl
  | link tx t => rfl
  | special s t =>
    have ht := h t rfl
    simp only [execOp, ht]
    rfl

theorem step_congr (c c' : Cfg) (s : St) (l : Label)
    (h : ∀ x ∈ s.queue ++ s.todo, execOp s.fs c x = execOp s.fs c' x) : step c s l = step c' s l := by
  cases l with
  | walk =>
    simp only [step]
    cases htd : s.todo with
    | nil => rfl
    | cons op r =>
      have := h op (by rw [htd]; simp)
      simp only [this]
  | exec i =>
    simp only [step]
    cases hq : s.queue[i]? with
    | none => rfl
    | some a =>
      have := h a (List.mem_append_left _ (List.mem_of_getElem? hq))
      simp only [this]

/-! ## Pending targets are absent -/

/-- with every initial target absent, the target of every pending operation is absent for `lstat` -/
theorem MOInv.pending_fresh {fs0 : Fs} {items : List CopySrc} {dn : List Name} {s : St}
    (h : MSpec items dn) (H0 : MHead0 fs0 items dn)
    (habs : ∀ e ∈ items, fs0.root.getAt (dn ++ [e.base]) = none)
    (hinv : MOInv fs0 items dn s) (x : Op) (hx : x ∈ s.queue ++ s.todo)
    (t : RPath) (ht : opTarget x = some t) : s.fs.lexists t = false := by
  obtain ⟨e, he, rel, m, hg, _, ex⟩ := h.char (hinv.mem x hx)
  have hp := hinv.pend x hx t ht
  rw [ex, headOp_target] at ht
  have := Option.some.inj ht
  subst this
  rw [plainPath_names] at hp
  apply lexists_false_of_absent _ _ (hinv.noLinkAbove H0 he hg)
  rw [← obsAt_eq_none, hp, obsAt_eq_none]
  exact getAt_append_none _ _ _ (habs e he)

/-- … so the runs under `c` are the runs with `noClobber` switched off -/
theorem run_noClobber_off {fs0 : Fs} {items : List CopySrc} {dn : List Name}
    (h : MSpec items dn) (H0 : MHead0 fs0 items dn)
    (habs : ∀ e ∈ items, fs0.root.getAt (dn ++ [e.base]) = none) (c : Cfg) :
    ∀ (ls : List Label) (s : St), MOInv fs0 items dn s →
      run c s ls = run { c with noClobber := false } s ls := by
  intro ls
  induction ls with
  | nil => intro s _; rfl
  | cons l ls ih =>
    intro s hinv
    have hs : step c s l = step { c with noClobber := false } s l := by
      apply step_congr
      intro x hx
      apply execOp_noClobber_off
      intro t ht
      exact exists_false_of_lexists _ _ (hinv.pending_fresh h H0 habs x hx t ht)
    simp only [run]
    rw [hs]
    cases hst : step { c with noClobber := false } s l with
    | none => rfl
    | some s1 => exact ih s1 (MOInv.step h H0 _ rfl s s1 l hinv hst)

/-! ## `Preserved` along the run -/

theorem MOInv.step_preserved {fs0 : Fs} {items : List CopySrc} {dn : List Name} {s s1 : St}
    (h : MSpec items dn) (H0 : MHead0 fs0 items dn)
    (habs : ∀ e ∈ items, fs0.root.getAt (dn ++ [e.base]) = none)
    (c : Cfg) (l : Label) (hinv : MOInv fs0 items dn s)
    (hstep : L0.step c s l = some s1) : Preserved s.fs.root s1.fs.root := by
  rcases step_fs c s s1 l hstep with he | ⟨x, hx, hex⟩
  · rw [he]; exact Preserved.refl _
  · exact execOp_fresh_preserved _ _ c x (fun t ht => hinv.pending_fresh h H0 habs x hx t ht) hex

theorem MOInv.run_preserved {fs0 : Fs} {items : List CopySrc} {dn : List Name}
    (h : MSpec items dn) (H0 : MHead0 fs0 items dn)
    (habs : ∀ e ∈ items, fs0.root.getAt (dn ++ [e.base]) = none)
    (c : Cfg) (hn : c.noClobber = false) : ∀ (ls : List Label) (s s' : St), MOInv fs0 items dn s →
      L0.run c s ls = some s' → MOInv fs0 items dn s' ∧ Preserved s.fs.root s'.fs.root := by
  intro ls
  induction ls with
  | nil => intro s s' hinv hr; cases hr; exact ⟨hinv, Preserved.refl _⟩
  | cons l ls ih =>
    intro s s' hinv hr
    simp only [L0.run] at hr
    split at hr
    · next s1 hs1 =>
      obtain ⟨h1, h2⟩ := ih s1 s' (MOInv.step h H0 c hn s s1 l hinv hs1) hr
      exact ⟨h1, Preserved.trans (hinv.step_preserved h H0 habs c l hs1) h2⟩
    · cases hr

/-! ## The walker's lists under no-clobber -/

/-- whatever `noClobber` is: every target of every walk is absent for `lstat`, so the no-clobber probe never fires and
the concatenated walker lists are the concatenated structural lists -/
theorem multiOps_eq_noclobber (fs : Fs) (c : Cfg) (dest : RPath) (items : List CopySrc) (fuel : Nat)
    (hd : c.dereference = false)
    (hdd : ∃ es, fs.root.getAt dest.names = some (.dir es))
    (hfuel : fuel < walkFuel)
    (hsrc : ∀ e ∈ items, PlainTarget fs e.path ∧ e.path.fileName = some e.base ∧
      fs.root.getAt e.path.names = some e.node ∧ e.node.Copyable fuel ∧ e.path.names.length + walkFuel < 256)
    (habs : ∀ e ∈ items, fs.root.getAt (dest.names ++ [e.base]) = none) :
    multiOps fs c dest items = allOps dest.names items := by
  have hw : walkFuel = 64 := rfl
  rw [hw] at hfuel
  apply flatMap_congr_mem
  intro e he
  obtain ⟨hp, _, hsn, hcop, hl⟩ := hsrc e he
  rw [hw] at hl
  have hab := habs e he
  have hpe := plainTarget_eq fs e.path hp
  have hnl : e.node.isLink = false := by
    cases hnode : e.node with
    | link t => exact absurd (hnode ▸ hsn) (hp.2.2.2 _ (List.prefix_refl _) t)
    | _ => rfl
  have hpar : ∃ es, fs.root.getAt (dest.names ++ [e.base]).dropLast = some (.dir es) := by
    rw [List.dropLast_concat]; exact hdd
  have habsent : ∀ rel, fs.lexists (relJoin (plainPath (dest.names ++ [e.base])) rel) = false := by
    intro rel
    rw [relJoin_plain]
    apply lexists_false_of_absent _ _ _ (getAt_append_none _ _ _ hab)
    intro p hp' hpne tg hgl
    by_cases hT : dest.names ++ [e.base] <+: p
    · obtain ⟨s', hs'⟩ := hT
      rw [← hs', getAt_append_none _ _ _ hab] at hgl
      cases hgl
    · have hpT : p <+: dest.names ++ [e.base] := by
        rcases List.prefix_or_prefix_of_prefix hp' (List.prefix_append (dest.names ++ [e.base]) rel) with h1 | h1
        · exact h1
        · exact absurd h1 hT
      have hpne' : p ≠ dest.names ++ [e.base] := fun e => hT (e ▸ List.prefix_refl _)
      obtain ⟨es, hes⟩ := hpar
      obtain ⟨es', hes'⟩ := getAt_prefix_dir hes (prefix_dropLast_of_ne hpT hpne')
      rw [hes'] at hgl
      cases hgl
  have h1 : fs.root.getAt (e.path.names ++ []) = some e.node := by simpa using hsn
  have h2 : e.node.isLink = true → ([] : List Name) ≠ [] := fun h => by rw [hnl] at h; cases h
  have h3 : e.path.names.length + ([] : List Name).length + 63 < 256 := by
    simp only [List.length_nil]; omega
  have hshape := walk_shape fs c hd e.path.names (dest.names ++ [e.base]) (.inr habsent) 63 e.node
    (copyable_mono hcop (by omega)) [] [] h1 h2 h3
  rw [← hpe] at hshape
  simp only [List.append_nil] at hshape
  rw [walkFuel_eq]
  exact hshape

/-! ## The theorems -/

/-- concurrent: in EVERY reachable state of the concurrent model over the operations of ALL sources, every entry that
existed initially is still kept; whichever queued operation completes next, and whichever operation the walker
reaches next, finds that its target does not exist at that moment; and the run has not failed -/
theorem multi_noclobber_any_interleaving (fs : Fs) (c : Cfg) (dest : RPath) (items : List CopySrc) (fuel : Nat)
    (hd : c.dereference = false) (hn : c.noClobber = true)
    (hwf : FsEq fs fs)
    (hdest : PlainTarget fs dest) (hdd : ∃ es, fs.root.getAt dest.names = some (.dir es))
    (hfuel : fuel < walkFuel)
    (hsrc : ∀ e ∈ items, PlainTarget fs e.path ∧ e.path.fileName = some e.base ∧
      fs.root.getAt e.path.names = some e.node ∧ e.node.Copyable fuel ∧ e.path.names.length + walkFuel < 256)
    (hnd : (items.map (·.base)).Nodup)
    (hun : ∀ e ∈ items, ∀ e' ∈ items,
      ¬ e.path.names <+: dest.names ++ [e'.base] ∧ ¬ dest.names ++ [e'.base] <+: e.path.names)
    (habs : ∀ e ∈ items, fs.root.getAt (dest.names ++ [e.base]) = none)
    (hlen : dest.names.length + 1 + walkFuel < 256)
    (ls : List Label) (s : St)
    (hrun : run c (init fs (multiOps fs c dest items)) ls = some s) :
    Preserved fs.root s.fs.root ∧
    (∀ op ∈ s.queue, ∀ t, opTarget op = some t → s.fs.lexists t = false) ∧
    (∀ op r, s.todo = op :: r → ∀ t, opTarget op = some t → s.fs.lexists t = false) ∧
    s.failed = false := by
  have _ := hn      -- the statement holds whatever `noClobber` is; this is the case C08 is about
  have _ := hdest   -- implied by `hdd`; kept so that the hypotheses are those of `multi_never_fails`
  obtain ⟨_, hspec, H0, hinit, _⟩ := multi_setup fs { c with noClobber := false } dest items fuel hd rfl hwf hdd
    hfuel hsrc hnd hun (fun e he => by rw [habs e he]; exact compatible_none _) hlen
  rw [multiOps_eq_noclobber fs c dest items fuel hd hdd hfuel hsrc habs,
    run_noClobber_off hspec H0 habs c ls _ hinit] at hrun
  obtain ⟨hinv, hpres⟩ := MOInv.run_preserved hspec H0 habs _ rfl ls _ s hinit hrun
  refine ⟨hpres, ?_, ?_, hinv.ok⟩
  · intro op hop t ht
    exact hinv.pending_fresh hspec H0 habs op (List.mem_append_left _ hop) t ht
  · intro op r htd t ht
    exact hinv.pending_fresh hspec H0 habs op (List.mem_append_right _ (by rw [htd]; simp)) t ht

/-- sequential: the concatenated operations form a `FreshRun` — each is executed at a moment when its own target does
not exist -/
theorem multi_noclobber_fresh_run (fs : Fs) (c : Cfg) (dest : RPath) (items : List CopySrc) (fuel : Nat)
    (hd : c.dereference = false) (hn : c.noClobber = true)
    (hwf : FsEq fs fs)
    (hdest : PlainTarget fs dest) (hdd : ∃ es, fs.root.getAt dest.names = some (.dir es))
    (hfuel : fuel < walkFuel)
    (hsrc : ∀ e ∈ items, PlainTarget fs e.path ∧ e.path.fileName = some e.base ∧
      fs.root.getAt e.path.names = some e.node ∧ e.node.Copyable fuel ∧ e.path.names.length + walkFuel < 256)
    (hnd : (items.map (·.base)).Nodup)
    (hun : ∀ e ∈ items, ∀ e' ∈ items,
      ¬ e.path.names <+: dest.names ++ [e'.base] ∧ ¬ dest.names ++ [e'.base] <+: e.path.names)
    (habs : ∀ e ∈ items, fs.root.getAt (dest.names ++ [e.base]) = none)
    (hlen : dest.names.length + 1 + walkFuel < 256) :
    FreshRun fs c (multiOps fs c dest items) := by
  apply freshRun_of_reach
  intro ls s hr
  have := multi_noclobber_any_interleaving fs c dest items fuel hd hn hwf hdest hdd hfuel hsrc hnd hun habs hlen
    ls s hr
  exact ⟨this.2.1, this.2.2.1⟩

/-- … hence the sequential run over all sources alters no entry that existed before, anywhere in the file system -/
theorem multi_noclobber_preserves (fs : Fs) (c : Cfg) (dest : RPath) (items : List CopySrc) (fuel : Nat)
    (hd : c.dereference = false) (hn : c.noClobber = true)
    (hwf : FsEq fs fs)
    (hdest : PlainTarget fs dest) (hdd : ∃ es, fs.root.getAt dest.names = some (.dir es))
    (hfuel : fuel < walkFuel)
    (hsrc : ∀ e ∈ items, PlainTarget fs e.path ∧ e.path.fileName = some e.base ∧
      fs.root.getAt e.path.names = some e.node ∧ e.node.Copyable fuel ∧ e.path.names.length + walkFuel < 256)
    (hnd : (items.map (·.base)).Nodup)
    (hun : ∀ e ∈ items, ∀ e' ∈ items,
      ¬ e.path.names <+: dest.names ++ [e'.base] ∧ ¬ dest.names ++ [e'.base] <+: e.path.names)
    (habs : ∀ e ∈ items, fs.root.getAt (dest.names ++ [e.base]) = none)
    (hlen : dest.names.length + 1 + walkFuel < 256) :
    Preserved fs.root (execOps fs c (multiOps fs c dest items)).fs.root :=
  freshRun_preserved c _ fs
    (multi_noclobber_fresh_run fs c dest items fuel hd hn hwf hdest hdd hfuel hsrc hnd hun habs hlen)

end Xcp
