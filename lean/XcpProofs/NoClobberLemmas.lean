import XcpProofs.MirrorConc
import XcpProofs.FsFrame
/-! # Lemmas for `--no-clobber` over a whole tree

The run invariant `MInv` (MirrorConcLemmas) does not depend on `noClobber`; here: pending targets are `lexists = false`,
`Preserved` along every concurrent run, the sequential run as one particular interleaving, and `FreshRun ⇒ Preserved`. -/
namespace Xcp

open L0

/-- the target of every pending operation is absent for `lstat` -/
theorem MInv.pending_fresh {srcNode : Node} {S T : List Name} {d : Nat} {ops : List Op} {s : St}
    (h : OpsSpec srcNode S T d ops) (hinv : MInv srcNode S T ops s) (x : Op) (hx : x ∈ s.queue ++ s.todo)
    (t : RPath) (ht : opTarget x = some t) : s.fs.lexists t = false := by
  obtain ⟨rel, m, hg, _, ex⟩ := h.char x (hinv.mem x hx)
  have hfr := hinv.fresh x hx t ht
  rw [ex, headOp_target] at ht
  have := Option.some.inj ht
  subst this
  rw [plainPath_names] at hfr
  exact lexists_false_of_absent _ _ (hinv.noLinkAbove hg) hfr

/-- what a step does to the file system: nothing, or one pending operation is executed -/
theorem step_fs (c : Cfg) (s s1 : St) (l : Label) (h : step c s l = some s1) :
    s1.fs = s.fs ∨ ∃ x, x ∈ s.queue ++ s.todo ∧ execOp s.fs c x = some s1.fs := by
  cases l with
  | walk =>
    simp only [step] at h
    split at h
    · cases h
    · split at h
      · cases h
      · next op r htd =>
        split at h
        · split at h
          · next fs' hx =>
            cases h
            exact .inr ⟨op, by rw [htd]; simp, hx⟩
          · cases h; exact .inl rfl
        · cases h; exact .inl rfl
  | exec i =>
    simp only [step] at h
    split at h
    · next a hq =>
      split at h
      · next fs' hx =>
        cases h
        exact .inr ⟨a, List.mem_append_left _ (List.mem_of_getElem? hq), hx⟩
      · cases h; exact .inl rfl
    · cases h

theorem MInv.step_preserved {srcNode : Node} {S T : List Name} {d : Nat} {ops : List Op} {s s1 : St}
    (h : OpsSpec srcNode S T d ops) (c : Cfg) (l : Label) (hinv : MInv srcNode S T ops s)
    (hstep : L0.step c s l = some s1) : Preserved s.fs.root s1.fs.root := by
  rcases step_fs c s s1 l hstep with he | ⟨x, hx, hex⟩
  · rw [he]; exact Preserved.refl _
  · exact execOp_fresh_preserved _ _ c x (fun t ht => hinv.pending_fresh h x hx t ht) hex

theorem MInv.run_preserved {srcNode : Node} {S T : List Name} {d : Nat} {ops : List Op}
    (h : OpsSpec srcNode S T d ops) (c : Cfg) : ∀ (ls : List Label) (s s' : St), MInv srcNode S T ops s →
      L0.run c s ls = some s' → MInv srcNode S T ops s' ∧ Preserved s.fs.root s'.fs.root := by
  intro ls
  induction ls with
  | nil => intro s s' hinv hr; cases hr; exact ⟨hinv, Preserved.refl _⟩
  | cons l ls ih =>
    intro s s' hinv hr
    simp only [L0.run] at hr
    split at hr
    · next s1 hs1 =>
      obtain ⟨h1, h2⟩ := ih s1 s' (MInv.step h c s s1 l hinv hs1) hr
      exact ⟨h1, Preserved.trans (hinv.step_preserved h c l hs1) h2⟩
    · cases hr

/-- the sequential run is one of the interleavings: if in every reachable state the pending targets the model may
touch next are absent, the operations form a `FreshRun` -/
theorem freshRun_of_reach (c : Cfg) : ∀ (todo : List Op) (g : Fs),
    (∀ ls s, run c ⟨g, todo, [], false⟩ ls = some s →
      (∀ op ∈ s.queue, ∀ t, opTarget op = some t → s.fs.lexists t = false) ∧
      (∀ op r, s.todo = op :: r → ∀ t, opTarget op = some t → s.fs.lexists t = false)) →
    FreshRun g c todo := by
  intro todo
  induction todo with
  | nil => intro g _; trivial
  | cons op r ih =>
    intro g H
    refine ⟨(H [] _ rfl).2 op r rfl, ?_⟩
    cases hx : execOp g c op with
    | none => trivial
    | some g' =>
      apply ih g'
      intro ls s hr
      have hpre : ∃ pre, run c ⟨g, op :: r, [], false⟩ pre = some ⟨g', r, [], false⟩ := by
        cases hsync : isSync op with
        | true => exact ⟨[.walk], by simp [run, step, hsync, hx]⟩
        | false => exact ⟨[.walk, .exec 0], by simp [run, step, hsync, hx]⟩
      obtain ⟨pre, hp⟩ := hpre
      apply H (pre ++ ls) s
      rw [run_append, hp]
      exact hr

/-- operations executed on absent targets alter no existing entry -/
theorem freshRun_preserved (c : Cfg) : ∀ (ops : List Op) (fs : Fs), FreshRun fs c ops →
    Preserved fs.root (execOps fs c ops).fs.root := by
  intro ops
  induction ops with
  | nil => intro fs _; exact Preserved.refl _
  | cons op r ih =>
    intro fs h
    obtain ⟨h1, h2⟩ := h
    simp only [execOps]
    cases hx : execOp fs c op with
    | none => exact Preserved.refl _
    | some fs' =>
      rw [hx] at h2
      exact Preserved.trans (execOp_fresh_preserved _ _ c op h1 hx) (ih fs' h2)

/-- the three facts about every reachable state of the concurrent run of a fresh-destination copy, whatever
`noClobber` is -/
theorem fresh_reach (fs : Fs) (c : Cfg) (hd : c.dereference = false)
    (src tb : RPath) (srcNode : Node) (fuel : Nat)
    (hsrc : PlainTarget fs src) (hsn : fs.root.getAt src.names = some srcNode)
    (hcop : srcNode.Copyable fuel)
    (htb : PlainTarget fs tb) (hne : tb.names ≠ []) (habs : fs.root.getAt tb.names = none)
    (hpar : ∃ es, fs.root.getAt tb.names.dropLast = some (.dir es))
    (hun1 : ¬ src.names <+: tb.names) (hun2 : ¬ tb.names <+: src.names)
    (hlen : src.names.length + fuel < 200 ∧ tb.names.length + fuel < 200)
    (ls : List Label) (s : St) (hrun : run c (init fs (walkEntry fs c none src tb (fuel + 1) [] [])) ls = some s) :
    Preserved fs.root s.fs.root ∧
    (∀ op ∈ s.queue, ∀ t, opTarget op = some t → s.fs.lexists t = false) ∧
    (∀ op r, s.todo = op :: r → ∀ t, opTarget op = some t → s.fs.lexists t = false) := by
  obtain ⟨hshape, hspec, _, hinit⟩ := fresh_setup' fs c hd src tb srcNode fuel hsrc hsn hcop htb hne habs hpar
    hun1 hun2 hlen
  rw [hshape] at hrun
  obtain ⟨hinv, hpres⟩ := MInv.run_preserved hspec c ls _ s hinit hrun
  refine ⟨hpres, ?_, ?_⟩
  · intro op hop t ht
    exact hinv.pending_fresh hspec op (List.mem_append_left _ hop) t ht
  · intro op r htd t ht
    exact hinv.pending_fresh hspec op (List.mem_append_right _ (by rw [htd]; simp)) t ht

end Xcp
