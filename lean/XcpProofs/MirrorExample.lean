import XcpProofs.MirrorConc
/-! # Non-vacuity of the mirror theorems

A concrete instance satisfying every hypothesis of `mirror_fresh` / `mirror_fresh_concurrent` at once: the root
holds `S` = { file `a`, link `l` → "a", directory `sub` = { file `b`, fifo `p` } } and an empty directory `D`; the
source is `/S`, the target base `/D/S`. -/
namespace Xcp.MirrorExample

open Xcp L0

def nS : Name := [83]
def nD : Name := [68]
def na : Name := [97]
def nl : Name := [108]
def nsub : Name := [115, 117, 98]
def nb : Name := [98]
def np : Name := [112]

def subN : Node := .dir [(nb, .file 2), (np, .special .fifo 0)]
def SN : Node := .dir [(na, .file 1), (nl, .link ⟨false, [.name na], false⟩), (nsub, subN)]
def rootN : Node := .dir [(nS, SN), (nD, .dir [])]
def fs0 : Fs := ⟨rootN, []⟩
def c0 : Cfg := {}
def src0 : RPath := plainPath [nS]
def tb0 : RPath := plainPath [nD, nS]

theorem entGet_mem {es : Entries} {n : Name} {x : Node} (h : entGet es n = some x) : (n, x) ∈ es := by
  induction es with
  | nil => simp [entGet] at h
  | cons kv r ih =>
    obtain ⟨k, w⟩ := kv
    simp only [entGet] at h
    split at h
    · next hk => injection h with h; subst h; subst hk; exact List.mem_cons_self
    · exact List.mem_cons_of_mem _ (ih h)

theorem WF_of_entries (es : Entries) (hnd : (es.map (·.1)).Nodup) (hch : ∀ e ∈ es, e.2.WF) : (Node.dir es).WF := by
  rw [WF_dir]
  exact ⟨hnd, fun n x hx => hch (n, x) (entGet_mem hx)⟩

theorem subN_WF : subN.WF := by
  apply WF_of_entries
  · decide
  · intro e he
    simp only [List.mem_cons, List.not_mem_nil, or_false] at he
    rcases he with he | he <;> subst he <;> exact WF_nondir _ rfl

theorem SN_WF : SN.WF := by
  apply WF_of_entries
  · decide
  · intro e he
    simp only [List.mem_cons, List.not_mem_nil, or_false] at he
    rcases he with he | he | he <;> subst he
    · exact WF_nondir _ rfl
    · exact WF_nondir _ rfl
    · exact subN_WF

theorem rootN_WF : rootN.WF := by
  apply WF_of_entries
  · decide
  · intro e he
    simp only [List.mem_cons, List.not_mem_nil, or_false] at he
    rcases he with he | he <;> subst he
    · exact SN_WF
    · exact WF_emptyDir

theorem fs0_wf : FsEq fs0 fs0 := ⟨rfl, rootN_WF, rootN_WF, SameObs.refl _⟩

theorem getS : fs0.root.getAt [nS] = some SN := by
  simp [fs0, rootN, Node.getAt, entGet]

theorem getD : fs0.root.getAt [nD] = some (.dir []) := by
  simp [fs0, rootN, Node.getAt, entGet, nS, nD]

theorem getDS : fs0.root.getAt [nD, nS] = none := by
  simp [fs0, rootN, Node.getAt, entGet, nS, nD]

theorem src0_names : src0.names = [nS] := plainPath_names _
theorem tb0_names : tb0.names = [nD, nS] := plainPath_names _

theorem src0_plain : PlainTarget fs0 src0 := by
  refine ⟨rfl, rfl, (plainPath_namesOnly _).2.2, ?_⟩
  rw [src0_names]
  exact noLinkUpto_of_getAt getS rfl

theorem tb0_plain : PlainTarget fs0 tb0 := by
  refine ⟨rfl, rfl, (plainPath_namesOnly _).2.2, ?_⟩
  rw [tb0_names]
  intro p hp tg hg
  rcases List.prefix_concat_iff.1 (show p <+: [nD] ++ [nS] from hp) with h | h
  · rw [h] at hg
    have := getDS
    simp only [List.cons_append, List.nil_append] at hg
    rw [this] at hg
    cases hg
  · exact noLinkUpto_of_getAt getD rfl p h tg hg

theorem SN_copyable : SN.Copyable 2 := by
  simp [SN, subN, Node.Copyable, Node.Copyable.CopyableL, na, nl, nsub, nb, np]

/-- every hypothesis of `mirror_fresh` / `mirror_fresh_concurrent` holds of a concrete, non-trivial instance -/
theorem mirror_hypotheses_satisfiable : ∃ (fs : Fs) (c : Cfg) (src tb : RPath) (srcNode : Node) (fuel : Nat),
    c.dereference = false ∧ c.noClobber = false ∧ FsEq fs fs ∧ fs.root.isDir = true ∧ PlainTarget fs src ∧
    fs.root.getAt src.names = some srcNode ∧ srcNode.Copyable fuel ∧ PlainTarget fs tb ∧ tb.names ≠ [] ∧
    fs.root.getAt tb.names = none ∧ (∃ es, fs.root.getAt tb.names.dropLast = some (.dir es)) ∧
    ¬ src.names <+: tb.names ∧ ¬ tb.names <+: src.names ∧
    (src.names.length + fuel < 200 ∧ tb.names.length + fuel < 200) ∧
    (∃ es, srcNode = .dir es ∧ 3 ≤ es.length) := by
  refine ⟨fs0, c0, src0, tb0, SN, 2, rfl, rfl, fs0_wf, rfl, src0_plain, ?_, SN_copyable, tb0_plain, ?_, ?_, ?_,
    ?_, ?_, ?_, ⟨_, rfl, by decide⟩⟩
  · rw [src0_names]; exact getS
  · rw [tb0_names]; simp
  · rw [tb0_names]; exact getDS
  · rw [tb0_names]; exact ⟨[], getD⟩
  · rw [src0_names, tb0_names]; decide
  · rw [src0_names, tb0_names]; decide
  · rw [src0_names, tb0_names]; decide

/-- the concurrent mirror theorem applied to the instance: every complete failure-free run over it ends with the
tree `S` at `/D/S` -/
example (ls : List Label) (s : St) (hrun : run c0 (init fs0 (freshOps fs0 c0 src0 tb0 2)) ls = some s)
    (hfin : final s = true) (hok : s.failed = false) :
    FsEq s.fs { fs0 with root := fs0.root.setAt tb0.names SN } :=
  mirror_fresh_concurrent fs0 c0 rfl rfl src0 tb0 SN 2 fs0_wf rfl src0_plain (by rw [src0_names]; exact getS)
    SN_copyable tb0_plain (by rw [tb0_names]; simp) (by rw [tb0_names]; exact getDS)
    (by rw [tb0_names]; exact ⟨[], getD⟩) (by rw [src0_names, tb0_names]; decide)
    (by rw [src0_names, tb0_names]; decide) (by rw [src0_names, tb0_names]; decide) ls s hrun hfin hok

/-- … and no run over it fails -/
example (ls : List Label) (s : St) (hrun : run c0 (init fs0 (freshOps fs0 c0 src0 tb0 2)) ls = some s) :
    s.failed = false :=
  mirror_fresh_never_fails fs0 c0 rfl rfl src0 tb0 SN 2 fs0_wf rfl src0_plain (by rw [src0_names]; exact getS)
    SN_copyable tb0_plain (by rw [tb0_names]; simp) (by rw [tb0_names]; exact getDS)
    (by rw [tb0_names]; exact ⟨[], getD⟩) (by rw [src0_names, tb0_names]; decide)
    (by rw [src0_names, tb0_names]; decide) (by rw [src0_names, tb0_names]; decide) ls s hrun

/-- one interleaving of the instance: the walker and the workers alternate -/
def ls0 : List Label := [.walk, .walk, .walk, .exec 1, .walk, .walk, .walk, .exec 2, .exec 0, .exec 0]

/-- the hypotheses about runs are satisfiable too: this interleaving is a complete, failure-free run (so the
conclusion of `mirror_fresh_concurrent` holds of its final state) -/
theorem complete_run_exists : ∃ s, run c0 (init fs0 (freshOps fs0 c0 src0 tb0 2)) ls0 = some s ∧ final s = true ∧
    s.failed = false ∧ FsEq s.fs { fs0 with root := fs0.root.setAt tb0.names SN } := by
  have h : (run c0 (init fs0 (freshOps fs0 c0 src0 tb0 2)) ls0).map final = some true := by decide
  cases hr : run c0 (init fs0 (freshOps fs0 c0 src0 tb0 2)) ls0 with
  | none => rw [hr] at h; cases h
  | some s =>
    rw [hr] at h
    have hfin : final s = true := by simpa using h
    have hok : s.failed = false :=
      mirror_fresh_never_fails fs0 c0 rfl rfl src0 tb0 SN 2 fs0_wf rfl src0_plain (by rw [src0_names]; exact getS)
        SN_copyable tb0_plain (by rw [tb0_names]; simp) (by rw [tb0_names]; exact getDS)
        (by rw [tb0_names]; exact ⟨[], getD⟩) (by rw [src0_names, tb0_names]; decide)
        (by rw [src0_names, tb0_names]; decide) (by rw [src0_names, tb0_names]; decide) ls0 s hr
    refine ⟨s, rfl, hfin, hok, ?_⟩
    exact mirror_fresh_concurrent fs0 c0 rfl rfl src0 tb0 SN 2 fs0_wf rfl src0_plain
      (by rw [src0_names]; exact getS) SN_copyable tb0_plain (by rw [tb0_names]; simp)
      (by rw [tb0_names]; exact getDS) (by rw [tb0_names]; exact ⟨[], getD⟩)
      (by rw [src0_names, tb0_names]; decide) (by rw [src0_names, tb0_names]; decide)
      (by rw [src0_names, tb0_names]; decide) ls0 s hr hfin hok

end Xcp.MirrorExample
