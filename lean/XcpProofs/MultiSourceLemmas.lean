import XcpProofs.Overlay
/-! # Lemmas for several sources copied into one existing directory

`Copyable` is monotone in the depth bound (so the fixed `walkFuel` serves every tree of depth below it);
`overlay` keeps trees well-formed; the exact single-source result on name lists (`placeAt`), what it leaves at
unrelated places, at the parent and at sibling targets; `targetBase` for a plain existing directory; one step of
`runSources`. -/
namespace Xcp

/-! ## `Copyable` is monotone in the depth -/

theorem copyableL_of_mem {es : List (Name × Node)} {d : Nat} (h : ∀ e ∈ es, e.2.Copyable d) :
    Node.Copyable.CopyableL es d := by
  induction es with
  | nil => simp [Node.Copyable.CopyableL]
  | cons kv r ih =>
    obtain ⟨k, x⟩ := kv
    simp only [Node.Copyable.CopyableL]
    exact ⟨h (k, x) List.mem_cons_self, ih (fun e he => h e (List.mem_cons_of_mem _ he))⟩

theorem copyable_succ : ∀ (d : Nat) (n : Node), n.Copyable d → n.Copyable (d + 1) := by
  intro d
  induction d with
  | zero =>
    intro n h
    cases n with
    | file k => simp [Node.Copyable]
    | link t => simp [Node.Copyable]
    | special k dv => simpa [Node.Copyable] using h
    | dir es => simp [Node.Copyable] at h
  | succ d ih =>
    intro n h
    cases n with
    | file k => simp [Node.Copyable]
    | link t => simp [Node.Copyable]
    | special k dv => simpa [Node.Copyable] using h
    | dir es =>
      obtain ⟨d', hd', hnd, hch⟩ := copyable_dir h
      have hd'' : d' = d := by omega
      subst hd''
      simp only [Node.Copyable]
      exact ⟨hnd, copyableL_of_mem (fun e he => ih e.2 (hch e he))⟩

theorem copyable_mono {n : Node} {d d' : Nat} (h : n.Copyable d) (hle : d ≤ d') : n.Copyable d' := by
  obtain ⟨k, rfl⟩ := Nat.exists_eq_add_of_le hle
  induction k with
  | zero => exact h
  | succ k ih => exact copyable_succ _ _ (ih (by omega))

/-! ## `overlay` keeps trees well-formed -/

theorem subtree_WF {r x : Node} {p : List Name} (hw : r.WF) (h : r.getAt p = some x) : x.WF := by
  intro q es hq
  apply hw (p ++ q) es
  rw [Node.getAt_append, h]
  exact hq

theorem entGet_entPut_self (acc : Entries) (m : Name) (v : Node) : entGet (entPut acc m v) m = some v := by
  unfold entPut
  exact entGet_entSet_self _ _ _

theorem overlayL_WF (ses : List (Name × Node))
    (H : ∀ e ∈ ses, ∀ dst : Option Node, (∀ x, dst = some x → x.WF) → (Node.overlay dst e.2).WF) :
    ∀ acc : Entries, (acc.map (·.1)).Nodup → (∀ m c, entGet acc m = some c → c.WF) →
      ((overlayL acc ses).map (·.1)).Nodup ∧ ∀ m c, entGet (overlayL acc ses) m = some c → c.WF := by
  induction ses with
  | nil => intro acc h1 h2; simp only [overlayL]; exact ⟨h1, h2⟩
  | cons kv r ih =>
    obtain ⟨k, ch⟩ := kv
    intro acc h1 h2
    simp only [overlayL]
    apply ih (fun e he => H e (List.mem_cons_of_mem _ he)) _ (nodup_keys_entPut _ _ _ h1)
    intro m c hc
    by_cases hkm : k = m
    · subst hkm
      rw [entGet_entPut_self] at hc
      simp only [Option.some.injEq] at hc
      subst hc
      exact H (k, ch) List.mem_cons_self _ (fun x hx => h2 k x hx)
    · rw [entGet_entPut_ne _ _ _ _ hkm] at hc
      exact h2 m c hc

theorem overlay_WF : ∀ (d : Nat) (n : Node), n.Copyable d → n.WF →
    ∀ dst : Option Node, (∀ x, dst = some x → x.WF) → (Node.overlay dst n).WF := by
  intro d
  induction d with
  | zero =>
    intro n hc hw dst _
    have hnd : n.isDir = false := by
      cases n <;> simp [Node.Copyable] at hc <;> rfl
    rw [overlay_nondir _ _ hnd]
    exact hw
  | succ d ih =>
    intro n hc hw dst hdw
    cases hnd : n.isDir with
    | false => rw [overlay_nondir _ _ hnd]; exact hw
    | true =>
      cases n <;> simp [Node.isDir] at hnd
      rename_i ses
      obtain ⟨d', hd', hndp, hch⟩ := copyable_dir hc
      have hd'' : d' = d := by omega
      subst hd''
      cases dst with
      | none => rw [overlay_none]; exact hw
      | some x =>
        cases x with
        | dir des =>
          show (Node.dir (overlayL des ses)).WF
          rw [WF_dir]
          have hx := hdw _ rfl
          rw [WF_dir] at hx
          rw [WF_dir] at hw
          exact overlayL_WF ses
            (fun e he dst hd => ih e.2 (hch e he) (hw.2 e.1 e.2 (entGet_of_mem ses hndp e he)) dst hd)
            des hx.1 hx.2
        | file k => exact hw
        | link t => exact hw
        | special k dv => exact hw

/-! ## Siblings -/

theorem sibling_unrel (dn : List Name) {b b' : Name} (h : b ≠ b') : ¬ dn ++ [b] <+: dn ++ [b'] := by
  intro hp
  rcases List.prefix_concat_iff.1 hp with e | hp'
  · have := List.append_cancel_left e
    simp only [List.cons.injEq, and_true] at this
    exact h this
  · have := hp'.length_le
    simp only [List.length_append, List.length_cons, List.length_nil] at this
    omega

/-! ## What `placeAt` leaves elsewhere -/

theorem placeAt_getAt_unrelated (root : Node) (t q : List Name) (dst : Option Node) (n : Node)
    (h1 : ¬ t <+: q) (h2 : ¬ q <+: t) : (placeAt root t dst n).getAt q = root.getAt q := by
  unfold placeAt
  split
  · rw [getAt_setAt_unrelated _ _ _ _ h1 h2, getAt_delAt_unrelated _ _ _ h1 h2]
  · rw [getAt_setAt_unrelated _ _ _ _ h1 h2]

theorem placeAt_parent (root : Node) (par : List Name) (nm : Name) (pes : Entries) (dst : Option Node) (n : Node)
    (hp : root.getAt par = some (.dir pes)) :
    ∃ es, (placeAt root (par ++ [nm]) dst n).getAt par = some (.dir es) := by
  unfold placeAt
  split
  · have hp1 : (root.delAt (par ++ [nm])).getAt par = some (.dir (entDel pes nm)) := by
      rw [delAt_child root par nm pes hp]; exact getAt_setAt_exists root par _ _ hp
    rw [setAt_child _ par nm _ n hp1]
    exact ⟨_, getAt_setAt_exists _ par _ _ hp1⟩
  · rw [setAt_child root par nm pes _ hp]
    exact ⟨_, getAt_setAt_exists root par _ _ hp⟩

theorem sameObs_placeAt (r : Node) (par : List Name) (nm : Name) (pes : Entries)
    (hp : r.getAt par = some (.dir pes)) (dst : Option Node) (n : Node) :
    SameObs (placeAt r (par ++ [nm]) dst n) (r.setAt (par ++ [nm]) (Node.overlay dst n)) := by
  unfold placeAt
  cases hsp : n.isSpecial with
  | false => simp only [Bool.false_eq_true, if_false]; exact SameObs.refl _
  | true =>
    simp only [if_true]
    rw [overlay_of_special _ _ hsp]
    have hv : n.isDir = false := by
      cases n <;> simp [Node.isSpecial] at hsp
      rfl
    exact sameObs_reset_set r _ n (by simp) ⟨pes, by rw [List.dropLast_concat]; exact hp⟩ hv

/-! ## One source, exactly, on name lists and with the walker's fixed fuel -/

theorem walkFuel_eq : walkFuel = 63 + 1 := rfl

/-- the run for one source whose tree is at most 63 levels deep: succeeds, and leaves exactly `placeAt` -/
theorem single_exact (fs : Fs) (c : Cfg) (hd : c.dereference = false) (hn : c.noClobber = false)
    (sn par : List Name) (nm : Name) (n : Node) (pes : Entries)
    (hwf : fs.root.WF) (hsn : fs.root.getAt sn = some n) (hnl : n.isLink = false) (hcop : n.Copyable 63)
    (hp : fs.root.getAt par = some (.dir pes))
    (hcompat : Compatible (fs.root.getAt (par ++ [nm])) n)
    (hun1 : ¬ sn <+: par ++ [nm]) (hun2 : ¬ par ++ [nm] <+: sn)
    (hl1 : sn.length + 63 < 256) (hl2 : par.length + 1 + 63 < 256) :
    execOps fs c (walkEntry fs c none (plainPath sn) (plainPath (par ++ [nm])) walkFuel [] []) =
      ⟨.ok, { fs with root := placeAt fs.root (par ++ [nm]) (fs.root.getAt (par ++ [nm])) n }⟩ := by
  rw [walkFuel_eq]
  have hshape : walkEntry fs c none (plainPath sn) (plainPath (par ++ [nm])) (63 + 1) [] [] =
      opsOf n (sn ++ []) (par ++ [nm] ++ []) := by
    have h1 : fs.root.getAt (sn ++ []) = some n := by simpa using hsn
    have h2 : n.isLink = true → ([] : List Name) ≠ [] := fun h => by rw [hnl] at h; cases h
    have h3 : sn.length + ([] : List Name).length + 63 < 256 := by
      simp only [List.length_nil]; omega
    -- (`walk_shape` takes the no-clobber hypothesis in either of two forms, depending on the revision)
    first
      | exact walk_shape fs c hd sn (par ++ [nm]) (.inl hn) 63 n hcop [] [] h1 h2 h3
      | exact walk_shape fs c hd hn sn (par ++ [nm]) 63 n hcop [] [] h1 h2 h3
  simp only [List.append_nil] at hshape
  have hexec := exec_overlay c hn 63 n hcop fs sn par nm pes [] hsn hp (hwf par pes hp)
    (fun x hx => subtree_WF hwf hx) hcompat hun1 hun2 hl1 hl2
  rw [List.append_nil] at hexec
  rw [hshape, hexec]
  rfl

/-! ## `targetBase` for an existing plain directory; one step of `runSources` -/

theorem lastOf_of_fileName {s : RPath} {b : Name} (h : s.fileName = some b) : lastOf s.comps = some (.name b) := by
  unfold RPath.fileName at h
  split at h
  · rename_i n hl
    simp only [Option.some.injEq] at h
    subst h
    exact hl
  · cases h

theorem targetBase_dir (g : Fs) (c : Cfg) (hnt : c.noTargetDir = false) (dn : List Name) (es : Entries)
    (s : RPath) (b : Name) (hb : s.fileName = some b) (hlen : dn.length < 256)
    (hg : g.root.getAt dn = some (.dir es)) :
    targetBase g c (plainPath dn) s = some (plainPath (dn ++ [b])) := by
  have hs := stat_plain g dn _ hlen hg (noLinkUpto_of_getAt hg rfl)
  have hl := lastOf_of_fileName hb
  have hex : g.exists (plainPath dn) = true := by simp [Fs.exists, hs]
  have hisd : g.isDir (plainPath dn) = true := by simp [Fs.isDir, hs, Node.isDir]
  have hj : (plainPath dn).join ⟨false, [.name b], false⟩ = plainPath (dn ++ [b]) := by
    simp [RPath.join, plainPath]
  simp [targetBase, RPath.lastComp, hl, hex, hisd, hnt, hj]

theorem runSources_cons_ok (g g1 : Fs) (c : Cfg) (texts : GiTexts) (dest s tb : RPath) (r : List RPath)
    (hg : c.gitignore = false) (h1 : targetBase g c dest s = some tb)
    (h2 : execOps g c (walkEntry g c none s tb walkFuel [] []) = ⟨.ok, g1⟩) :
    runSources g c texts dest (s :: r) = runSources g1 c texts dest r := by
  have hp : parseIgnore g c texts s = none := by simp [parseIgnore, hg]
  simp [runSources, h1, hp, h2]

end Xcp
