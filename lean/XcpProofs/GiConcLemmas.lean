import XcpProofs.GiTree
import XcpProofs.DerefConcLemmas
import XcpProofs.NoClobberLemmas
/-! # Lemmas for `GiConc`: `--gitignore`, fresh destination, every interleaving

With patterns in force the walk emits `opsOf` of the PRUNED tree, the copy and special operations reading from the
places of the UNPRUNED source tree, which hold the very same nodes (`getAt_prune_leaf`).  `MInv` (MirrorConcLemmas)
asks for the tree whose operations are run to sit at the source place, which the pruned tree does not; the static
facts `DSpec` and the invariant `DInv` of `DerefConcLemmas` only ask that every place read from holds the right node in
the initial state and is out of the way of the target, so they apply as they are (`gi_setup`).  Also here: `DInv`
keeps the targets of pending operations absent for `lstat` and so preserves every existing entry (as
`NoClobberLemmas` shows for `MInv`). -/
namespace Xcp

open L0

/-! ## Pending targets are absent; nothing that exists is altered -/

/-- the target of every pending operation is absent for `lstat` -/
theorem DInv.pending_fresh {fs0 : Fs} {E : Node} {T : List Name} {d : Nat} {ops : List Op} {s : St}
    (h : DSpec fs0 E T d ops) (hinv : DInv fs0 E T ops s) (x : Op) (hx : x ∈ s.queue ++ s.todo)
    (t : RPath) (ht : opTarget x = some t) : s.fs.lexists t = false := by
  obtain ⟨rel, m, cp, hg, _, ex, _⟩ := h.char x (hinv.mem x hx)
  have hfr := hinv.fresh x hx t ht
  rw [ex, headOp_target] at ht
  have := Option.some.inj ht
  subst this
  rw [plainPath_names] at hfr
  exact lexists_false_of_absent _ _ (hinv.noLinkAbove hg) hfr

theorem DInv.step_preserved {fs0 : Fs} {E : Node} {T : List Name} {d : Nat} {ops : List Op} {s s1 : St}
    (h : DSpec fs0 E T d ops) (c : Cfg) (l : Label) (hinv : DInv fs0 E T ops s)
    (hstep : L0.step c s l = some s1) : Preserved s.fs.root s1.fs.root := by
  rcases step_fs c s s1 l hstep with he | ⟨x, hx, hex⟩
  · rw [he]; exact Preserved.refl _
  · exact execOp_fresh_preserved _ _ c x (fun t ht => hinv.pending_fresh h x hx t ht) hex

theorem DInv.run_preserved {fs0 : Fs} {E : Node} {T : List Name} {d : Nat} {ops : List Op}
    (h : DSpec fs0 E T d ops) (c : Cfg) : ∀ (ls : List Label) (s s' : St), DInv fs0 E T ops s →
      L0.run c s ls = some s' → DInv fs0 E T ops s' ∧ Preserved s.fs.root s'.fs.root := by
  intro ls
  induction ls with
  | nil => intro s s' hinv hr; cases hr; exact ⟨hinv, Preserved.refl _⟩
  | cons l ls ih =>
    intro s s' hinv hr
    simp only [L0.run] at hr
    split at hr
    · next s1 hs1 =>
      obtain ⟨h1, h2⟩ := ih s1 s' (DInv.step h c s s1 l hinv hs1) hr
      exact ⟨h1, Preserved.trans (hinv.step_preserved h c l hs1) h2⟩
    · cases hr

/-! ## The set-up of the fresh-destination copy with patterns -/

/-- whatever `noClobber` is (every target of the walk is absent, so the no-clobber probe never fires): the walk with
patterns `ps` emits the operations of the pruned tree, which satisfy `DSpec` over the initial state -/
theorem gi_setup (fs : Fs) (c : Cfg) (hd : c.dereference = false) (ps : List Gi.Pattern)
    (src tb : RPath) (srcNode : Node) (fuel : Nat)
    (hsrc : PlainTarget fs src) (hsn : fs.root.getAt src.names = some srcNode)
    (hcop : srcNode.Copyable fuel)
    (htb : PlainTarget fs tb) (hne : tb.names ≠ []) (habs : fs.root.getAt tb.names = none)
    (hpar : ∃ es, fs.root.getAt tb.names.dropLast = some (.dir es))
    (hun1 : ¬ src.names <+: tb.names) (hun2 : ¬ tb.names <+: src.names)
    (hlen : src.names.length + fuel < 200 ∧ tb.names.length + fuel < 200) :
    walkEntry fs c (some ps) src tb (fuel + 1) [] [] = opsOf (Node.prune ps [] srcNode) src.names tb.names ∧
    DSpec fs (Node.prune ps [] srcNode) tb.names fuel (opsOf (Node.prune ps [] srcNode) src.names tb.names) ∧
    (opsOf (Node.prune ps [] srcNode) src.names tb.names).Nodup ∧
    DInv fs (Node.prune ps [] srcNode) tb.names (opsOf (Node.prune ps [] srcNode) src.names tb.names)
      (L0.init fs (opsOf (Node.prune ps [] srcNode) src.names tb.names)) := by
  have hsrcE := plainTarget_eq fs src hsrc
  have htbE := plainTarget_eq fs tb htb
  have hnl : srcNode.isLink = false := by
    cases srcNode with
    | link t => exact absurd hsn (hsrc.2.2.2 src.names (List.prefix_refl _) t)
    | _ => rfl
  have habsent : ∀ rel, fs.lexists (relJoin (plainPath tb.names) rel) = false := by
    intro rel
    rw [relJoin_plain]
    apply lexists_false_of_absent _ _ _ (getAt_append_none _ _ _ habs)
    intro p hp hpne tg hgl
    by_cases hT : tb.names <+: p
    · obtain ⟨s', hs'⟩ := hT
      rw [← hs', getAt_append_none _ _ _ habs] at hgl
      cases hgl
    · have hpT : p <+: tb.names := by
        rcases List.prefix_or_prefix_of_prefix hp (List.prefix_append tb.names rel) with h1 | h1
        · exact h1
        · exact absurd h1 hT
      have hpne' : p ≠ tb.names := fun e => hT (e ▸ List.prefix_refl _)
      obtain ⟨es, hes⟩ := hpar
      obtain ⟨es', hes'⟩ := L0.getAt_prefix_dir hes (prefix_dropLast_of_ne hpT hpne')
      rw [hes'] at hgl
      cases hgl
  have hshape := walk_shape_gi fs c ps hd src.names tb.names (.inr habsent) fuel srcNode hcop [] []
    (by simpa using hsn) (fun h => by rw [hnl] at h; cases h) (by simp only [List.length_nil]; omega) (.inl rfl)
  rw [← hsrcE, ← htbE] at hshape
  simp only [List.append_nil] at hshape
  have hcopP := copyable_prune ps fuel srcNode hcop []
  have hspec : DSpec fs (Node.prune ps [] srcNode) tb.names fuel
      (opsOf (Node.prune ps [] srcNode) src.names tb.names) := by
    refine ⟨?_, opsOf_tgt_nodup fuel _ hcopP _ _, hne, by omega⟩
    intro x hx
    obtain ⟨rel, m, hg, hl, ex⟩ := mem_opsOf fuel _ hcopP _ _ x hx
    refine ⟨rel, m, src.names ++ rel, hg, hl, ex, ?_⟩
    intro hm
    have hU := unrel_append hun1 hun2 rel []
    rw [List.append_nil] at hU
    refine ⟨?_, ?_, hU.1, hU.2⟩
    · rw [Node.getAt_append, hsn]
      exact getAt_prune_leaf ps rel fuel srcNode [] m hcop hg hm
    · simp only [List.length_append]; omega
  have hnd := opsOf_nodup fuel _ hcopP src.names tb.names
  have htodo : TodoOK (DirsOf fs) (opsOf (Node.prune ps [] srcNode) src.names tb.names) := by
    have := todoOK_opsOf fuel _ hcopP src.names tb.names (DirsOf fs) [] hpar (fun _ _ => trivial)
    rwa [List.append_nil] at this
  exact ⟨hshape, hspec, hnd, DInv.init hspec hpar habs htodo⟩

end Xcp
