import XcpProofs.Clash
import XcpProofs.ClashConc
import XcpProofs.MirrorExample
/-! # Non-vacuity of `clash_fails`

A concrete instance satisfying every hypothesis of `clash_fails` at once: the root holds
`S` = { file `a`, directory `sub` = { file `b` } } and `D` = { `S` = { file `keep`, FILE `sub` } }; the source is `/S`,
the target base `/D/S`.  One level down the source DIRECTORY `sub` meets the destination regular FILE `sub`, after the
sibling `a`, which is copied successfully.  The run fails — once as an application of `clash_fails`, once by
evaluation of the model — and the failed run leaves the other entries of the destination as they were. -/
namespace Xcp.ClashExample

open Xcp Xcp.MirrorExample L0

def nkeep : Name := [107, 101, 101, 112]

/-- the source tree `/S` -/
def srcN : Node := .dir [(na, .file 1), (nsub, .dir [(nb, .file 2)])]
/-- what is at the target base `/D/S` already -/
def dstN : Node := .dir [(nkeep, .file 7), (nsub, .file 9)]
def DN : Node := .dir [(nS, dstN)]
def exRoot : Node := .dir [(nS, srcN), (nD, DN)]
def exFs : Fs := ⟨exRoot, []⟩
def src : RPath := plainPath [nS]
def tb : RPath := plainPath [nD, nS]
def fuel : Nat := 2

theorem srcN_WF : srcN.WF := by
  apply WF_of_entries
  · decide
  · intro e he
    simp only [List.mem_cons, List.not_mem_nil, or_false] at he
    rcases he with he | he <;> subst he
    · exact WF_nondir _ rfl
    · apply WF_of_entries
      · decide
      · intro e he
        simp only [List.mem_cons, List.not_mem_nil, or_false] at he
        subst he
        exact WF_nondir _ rfl

theorem dstN_WF : dstN.WF := by
  apply WF_of_entries
  · decide
  · intro e he
    simp only [List.mem_cons, List.not_mem_nil, or_false] at he
    rcases he with he | he <;> subst he <;> exact WF_nondir _ rfl

theorem DN_WF : DN.WF := by
  apply WF_of_entries
  · decide
  · intro e he
    simp only [List.mem_cons, List.not_mem_nil, or_false] at he
    subst he
    exact dstN_WF

theorem exRoot_WF : exRoot.WF := by
  apply WF_of_entries
  · decide
  · intro e he
    simp only [List.mem_cons, List.not_mem_nil, or_false] at he
    rcases he with he | he <;> subst he
    · exact srcN_WF
    · exact DN_WF

theorem exFs_wf : FsEq exFs exFs := ⟨rfl, exRoot_WF, exRoot_WF, SameObs.refl _⟩

theorem getS : exFs.root.getAt [nS] = some srcN := rfl
theorem getD : exFs.root.getAt [nD] = some DN := rfl
theorem getDS : exFs.root.getAt [nD, nS] = some dstN := rfl

theorem src_names : src.names = [nS] := plainPath_names _
theorem tb_names : tb.names = [nD, nS] := plainPath_names _

theorem src_plain : PlainTarget exFs src := by
  refine ⟨rfl, rfl, (plainPath_namesOnly _).2.2, ?_⟩
  rw [src_names]
  exact noLinkUpto_of_getAt getS rfl

theorem tb_plain : PlainTarget exFs tb := by
  refine ⟨rfl, rfl, (plainPath_namesOnly _).2.2, ?_⟩
  rw [tb_names]
  exact noLinkUpto_of_getAt getDS rfl

theorem srcN_copyable : srcN.Copyable fuel := by
  simp [srcN, fuel, Node.Copyable, Node.Copyable.CopyableL, na, nsub]

/-- the source directory `sub` over the destination regular file `sub`: not compatible -/
theorem clash : ¬ Compatible (some dstN) srcN := by decide

/-- every hypothesis of `clash_fails` holds of the instance -/
theorem instance_meets_hypotheses :
    (({} : Cfg).dereference = false) ∧ (({} : Cfg).noClobber = false) ∧
    FsEq exFs exFs ∧ exFs.root.isDir = true ∧
    PlainTarget exFs src ∧ exFs.root.getAt src.names = some srcN ∧
    srcN.Copyable fuel ∧
    PlainTarget exFs tb ∧ tb.names ≠ [] ∧
    exFs.root.getAt tb.names = some dstN ∧ dstN.plainTree = true ∧
    ¬ Compatible (some dstN) srcN ∧
    (∃ es, exFs.root.getAt tb.names.dropLast = some (.dir es)) ∧
    ¬ src.names <+: tb.names ∧ ¬ tb.names <+: src.names ∧
    (src.names.length + fuel < 200 ∧ tb.names.length + fuel < 200) := by
  refine ⟨rfl, rfl, exFs_wf, rfl, src_plain, ?_, srcN_copyable, tb_plain, ?_, ?_, rfl, clash, ?_, ?_, ?_, ?_⟩
  · rw [src_names]; exact getS
  · rw [tb_names]; simp
  · rw [tb_names]; exact getDS
  · rw [tb_names]; exact ⟨_, getD⟩
  · rw [src_names, tb_names]; decide
  · rw [src_names, tb_names]; decide
  · rw [src_names, tb_names]; decide

/-- the run over the instance fails: `clash_fails` applied to `instance_meets_hypotheses` -/
theorem instance_fails :
    (execOps exFs {} (walkEntry exFs {} none src tb (fuel + 1) [] [])).exit = .err := by
  obtain ⟨hd, hn, hwf, hroot, hsrc, hsn, hcop, htb, hne, hdst, hplain, hclash, hpar, hun1, hun2, hlen⟩ :=
    instance_meets_hypotheses
  exact clash_fails exFs {} hd hn src tb srcN dstN fuel hwf hroot hsrc hsn hcop htb hne hdst hplain hclash hpar
    hun1 hun2 hlen

/-- the same fact by evaluation of the model -/
theorem instance_fails_by_evaluation :
    (execOps exFs {} (walkEntry exFs {} none src tb (fuel + 1) [] [])).exit = .err := by
  decide

/-- the failed run leaves the other entry of the destination, and the file the source directory ran into, as they
were (by evaluation of the model) -/
theorem instance_keeps_other_entry :
    (execOps exFs {} (walkEntry exFs {} none src tb (fuel + 1) [] [])).fs.root.getAt [nD, nS, nkeep] =
        some (.file 7) ∧
      (execOps exFs {} (walkEntry exFs {} none src tb (fuel + 1) [] [])).fs.root.getAt [nD, nS, nsub] =
        some (.file 9) := by
  exact ⟨rfl, rfl⟩

/-- … and the sibling `a`, which comes before `sub` in the source directory, HAS been copied (by evaluation): the
failing operation is not the first one -/
theorem instance_sibling_copied :
    (execOps exFs {} (walkEntry exFs {} none src tb (fuel + 1) [] [])).fs.root.getAt [nD, nS, na] =
      some (.file 1) := rfl

/-! ## The concurrent model -/

/-- one interleaving of the instance: the walker re-creates `/D/S`, hands the copy of `a` to the workers, and fails at
`create_dir_all /D/S/sub`; then the queued copy completes -/
def ls1 : List Label := [.walk, .walk, .walk, .exec 0]

/-- that interleaving is a complete run, and it has failed (by evaluation of the model) -/
theorem instance_fails_on_an_interleaving :
    ∃ s, run {} (init exFs (walkEntry exFs {} none src tb (fuel + 1) [] [])) ls1 = some s ∧ final s = true ∧
      s.failed = true := by
  have h1 : (run {} (init exFs (walkEntry exFs {} none src tb (fuel + 1) [] [])) ls1).map final = some true := by
    decide
  have h2 : (run {} (init exFs (walkEntry exFs {} none src tb (fuel + 1) [] [])) ls1).map (·.failed) = some true := by
    decide
  cases hr : run {} (init exFs (walkEntry exFs {} none src tb (fuel + 1) [] [])) ls1 with
  | none => rw [hr] at h1; cases h1
  | some s =>
    rw [hr] at h1 h2
    exact ⟨s, rfl, by simpa using h1, by simpa using h2⟩

/-- every complete run over the instance has failed: `clash_fails_every_interleaving` applied to
`instance_meets_hypotheses` -/
theorem instance_fails_on_every_interleaving (ls : List Label) (s : St)
    (hrun : run {} (init exFs (walkEntry exFs {} none src tb (fuel + 1) [] [])) ls = some s)
    (hfin : final s = true) : s.failed = true := by
  obtain ⟨hd, hn, hwf, hroot, hsrc, hsn, hcop, htb, hne, hdst, hplain, hclash, hpar, hun1, hun2, hlen⟩ :=
    instance_meets_hypotheses
  exact clash_fails_every_interleaving exFs {} hd hn src tb srcN dstN fuel hwf hroot hsrc hsn hcop htb hne hdst
    hplain hclash hpar hun1 hun2 hlen ls s hrun hfin

end Xcp.ClashExample
