import XcpProofs.DerefOverlay
import XcpProofs.MultiConc
import XcpProofs.MultiDerefLemmas
/-! # Several sources with `--dereference` into one existing directory (`xcp -rL s1 … sn DEST/`)

The `-L` counterparts of `multi_sequential` and `multi_concurrent_ok` (MultiConc), with, per item, the tree seen from
the source through all links (`e.s`, computed by `derefS` with the walker's fixed fuel) in place of the source node.
The operation list is `multiOps` itself — its definition does not depend on the option: the concatenation of the
items' `walkEntry` lists, each computed in the INITIAL file system with `walkFuel` — over the items' paths and base
names (`multiOpsD`).

Hypotheses, per item `e`: `e.path` is absolute and spelled with names only (it may be, or lie below, a symbolic
link); `derefS fs walkFuel e.path.names [] = some e.s`; the target `dest/e.base` is `Compatible` with `e.s.erase` in
the initial file system; and NO item reads from any item's target region: `ReadsAway e.s (dest.names ++ [e'.base])`
for all items `e`, `e'`.  Base names are pairwise distinct; `dest` designates a directory.

Then the sequential execution succeeds and every complete run of the concurrent model — none of whose reachable
states is failed — ends with every target overlaid with its item's dereferenced tree, in argv order, up to the order
of directory entries.

Not here: the `runSources` form (each `target_base` and each WALK evaluated in the state the earlier sources left).
Under `-L` the walk of a later source re-resolves every link in the changed state; relating `derefS` in that state to
`derefS` in the initial one needs a congruence of path resolution under changes at places the resolution does not
visit (the intermediate places of link resolution are not recorded in `SNode`), which this development does not have. -/
namespace Xcp

open L0

/-- the walker's lists for the items, computed in the initial file system with the walker's fixed fuel, concatenated:
`multiOps` over the items' paths and base names -/
abbrev multiOpsD (fs : Fs) (c : Cfg) (dest : RPath) (items : List DerefSrc) : List Op :=
  multiOps fs c dest (items.map DerefSrc.toCopy)

/-- the final tree: every target overlaid with its item's dereferenced tree, in argv order -/
abbrev overlayAllD (root0 : Node) (dn : List Name) (items : List DerefSrc) (r : Node) : Node :=
  overlayAll root0 dn (items.map DerefSrc.toCopy) r

theorem multi_deref_setup (fs : Fs) (c : Cfg) (dest : RPath) (items : List DerefSrc)
    (hd : c.dereference = true) (hn : c.noClobber = false)
    (hwf : FsEq fs fs)
    (hdd : ∃ es, fs.root.getAt dest.names = some (.dir es))
    (hsrc : ∀ e ∈ items, AbsNames e.path ∧ e.path.fileName = some e.base ∧
      derefS fs walkFuel e.path.names [] = some e.s)
    (hnd : (items.map (·.base)).Nodup)
    (haway : ∀ e ∈ items, ∀ e' ∈ items, ReadsAway e.s (dest.names ++ [e'.base]))
    (hcomp : ∀ e ∈ items, Compatible (fs.root.getAt (dest.names ++ [e.base])) e.s.erase)
    (hlen : dest.names.length + 1 + walkFuel < 256) :
    multiOpsD fs c dest items = allOpsD dest.names items ∧
    MSpecD fs items dest.names walkFuel ∧ MHead0D fs items dest.names ∧
    (∀ e ∈ items, SrcIn fs.root e.s ∧ e.s.erase.Copyable walkFuel) := by
  obtain ⟨des, hdes⟩ := hdd
  have hroot : fs.root.isLink = false := root_not_link_of_dir hdes
  have hgood : ∀ e ∈ items, e.s.erase.Copyable walkFuel ∧ SrcIn fs.root e.s := fun e he =>
    derefS_good fs hroot hwf.2.1 walkFuel e.path.names [] e.s (hsrc e he).2.2
  have hchar1 : ∀ e ∈ items, ∀ x ∈ opsOfS e.s (dest.names ++ [e.base]),
      ∃ rel m cp, e.s.erase.getAt rel = some m ∧ rel.length ≤ walkFuel ∧
        x = headOp m cp (dest.names ++ [e.base] ++ rel) ∧
        (m.isDir = false → fs.root.getAt cp = some m ∧ cp.length ≤ 256 ∧
          ∀ e' ∈ items, ¬ cp <+: dest.names ++ [e'.base] ∧ ¬ dest.names ++ [e'.base] <+: cp) := by
    intro e he x hx
    obtain ⟨rel, m, cp, hg, hl, ex, hlf⟩ := mem_opsOfS walkFuel e.s (hgood e he).1 (dest.names ++ [e.base]) x hx
    refine ⟨rel, m, cp, hg, hl, ex, ?_⟩
    intro hm
    have hmem := hlf hm
    obtain ⟨h1, _, h3⟩ := (hgood e he).2 _ hmem
    refine ⟨h1, h3, ?_⟩
    intro e' he'
    obtain ⟨u1, u2⟩ := haway e he e' he' _ hmem
    exact ⟨u2, u1⟩
  have hspec : MSpecD fs items dest.names walkFuel := by
    refine ⟨?_, ?_, fun e he => (hgood e he).1, hnd⟩
    · intro x hx
      obtain ⟨e, he, hxe⟩ := mem_allOpsD.1 hx
      obtain ⟨rel, m, cp, h1, h2, h3, h4⟩ := hchar1 e he x hxe
      exact ⟨e, he, rel, m, cp, h1, h2, h3, h4⟩
    · intro e he
      refine ⟨?_, opsOfS_tgt_nodup _ e.s (hgood e he).1 _, by simp, ?_⟩
      · intro x hx
        obtain ⟨rel, m, cp, h1, h2, h3, h4⟩ := hchar1 e he x hx
        exact ⟨rel, m, cp, h1, h2, h3, fun hm => ⟨(h4 hm).1, (h4 hm).2.1, (h4 hm).2.2 e he⟩⟩
      · simp only [List.length_append, List.length_cons, List.length_nil]
        omega
  have H0 : MHead0D fs items dest.names := by
    intro e he rel m hg
    have := headOK_of_compatible rel (fs.root.getAt (dest.names ++ [e.base])) e.s.erase m (hcomp e he) hg
    unfold obsAt
    rw [Node.getAt_append]
    exact this
  refine ⟨?_, hspec, H0, fun e he => ⟨(hgood e he).2, (hgood e he).1⟩⟩
  -- the shape of each walk
  show (items.map DerefSrc.toCopy).flatMap _ = _
  rw [List.flatMap_map]
  apply flatMap_congr_mem
  intro e he
  obtain ⟨hp, _, hder⟩ := hsrc e he
  have hshape := walk_shape_deref fs c hd hn hroot e.path.names (dest.names ++ [e.base]) walkFuel [] [] e.s
    (by simpa using hder)
  rw [← absNames_eq hp] at hshape
  simp only [List.append_nil] at hshape
  exact hshape

/-- SEVERAL SOURCES with `--dereference`, sequential: the operations all succeed, and every target is overlaid with
the tree seen from its source through the links; nothing else changes (up to the order of directory entries) -/
theorem multi_deref_sequential (fs : Fs) (c : Cfg) (dest : RPath) (items : List DerefSrc)
    (hd : c.dereference = true) (hn : c.noClobber = false)
    (hwf : FsEq fs fs)
    (hdd : ∃ es, fs.root.getAt dest.names = some (.dir es))
    (hsrc : ∀ e ∈ items, AbsNames e.path ∧ e.path.fileName = some e.base ∧
      derefS fs walkFuel e.path.names [] = some e.s)
    (hnd : (items.map (·.base)).Nodup)
    (haway : ∀ e ∈ items, ∀ e' ∈ items, ReadsAway e.s (dest.names ++ [e'.base]))
    (hcomp : ∀ e ∈ items, Compatible (fs.root.getAt (dest.names ++ [e.base])) e.s.erase)
    (hlen : dest.names.length + 1 + walkFuel < 256) :
    ∃ fs', execOps fs c (multiOpsD fs c dest items) = ⟨.ok, fs'⟩ ∧
      FsEq fs' { fs with root := overlayAllD fs.root dest.names items fs.root } := by
  obtain ⟨hops, _, _, hgood⟩ := multi_deref_setup fs c dest items hd hn hwf hdd hsrc hnd haway hcomp hlen
  rw [hops]
  exact execAllD_overlay_inv c hn fs.root hwf.2.1 dest.names walkFuel hlen items fs hwf hdd hnd hgood haway
    (fun _ _ => rfl) hcomp

/-- SEVERAL SOURCES with `--dereference`, EVERY interleaving: no reachable state of the concurrent model is failed,
and every complete run ends with every target overlaid with its item's dereferenced tree -/
theorem multi_deref_concurrent_ok (fs : Fs) (c : Cfg) (dest : RPath) (items : List DerefSrc)
    (hd : c.dereference = true) (hn : c.noClobber = false)
    (hwf : FsEq fs fs)
    (hdd : ∃ es, fs.root.getAt dest.names = some (.dir es))
    (hsrc : ∀ e ∈ items, AbsNames e.path ∧ e.path.fileName = some e.base ∧
      derefS fs walkFuel e.path.names [] = some e.s)
    (hnd : (items.map (·.base)).Nodup)
    (haway : ∀ e ∈ items, ∀ e' ∈ items, ReadsAway e.s (dest.names ++ [e'.base]))
    (hcomp : ∀ e ∈ items, Compatible (fs.root.getAt (dest.names ++ [e.base])) e.s.erase)
    (hlen : dest.names.length + 1 + walkFuel < 256)
    (ls : List Label) (st : St)
    (hrun : run c (init fs (multiOpsD fs c dest items)) ls = some st) :
    st.failed = false ∧ (final st = true →
      FsEq st.fs { fs with root := overlayAllD fs.root dest.names items fs.root }) := by
  obtain ⟨fs', hex, heq⟩ := multi_deref_sequential fs c dest items hd hn hwf hdd hsrc hnd haway hcomp hlen
  obtain ⟨hops, hspec, H0, _⟩ := multi_deref_setup fs c dest items hd hn hwf hdd hsrc hnd haway hcomp hlen
  rw [hops] at hrun hex
  have hinit := MOInvD.init hspec hwf hdd
  have hok : st.failed = false := (MOInvD.run hspec H0 c hn ls _ st hinit hrun).ok
  refine ⟨hok, fun hfin => ?_⟩
  have hand : ∀ (ls : List Label) (s' : St) (op : Op) (r : List Op),
      run c (init fs (allOpsD dest.names items)) ls = some s' →
      s'.failed = false → s'.todo = op :: r → isSync op = false →
      GoodAllD (allOpsD dest.names items) s'.fs op := by
    intro ls s' op r hr _ htd _
    exact (MOInvD.run hspec H0 c hn ls _ s' hinit hr).goodAll hspec H0 op r htd
  obtain ⟨f, hf, hfe⟩ := fs_run_refines_sequentialD c fs _ hwf hspec.nodup hspec.pairIndep hand ls st hrun hfin hok
  rw [execOps_seqExec c _ fs fs' hex] at hf
  injection hf with hf
  subst hf
  exact hfe.symm.trans heq

/-! ## Non-vacuity: a concrete two-item instance

`/S` = { file `a`; `l` → `a`; `m` → `/O/f` (absolute, outside the source) }, `/O` = { file `f` }, `/B` = { file `y`;
`k` → `../O/f` }, and the destination `/T` = { `B` = { file `y` (to be overwritten); file `z` (kept) } }.  The run is
`xcp -rL /S /B /T`: the target `/T/S` is absent and receives the link-containing directory `S` with every link replaced
by what it leads to; the target `/T/B` exists and is merged into. -/
namespace MultiDerefExample

open DerefExample (nS nO nT ex_names ex_absNames)

def nB : Name := [66]

def exRoot : Node := .dir [
  (nS, .dir [([97], .file 1),
             ([108], .link ⟨false, [.name [97]], false⟩),
             ([109], .link ⟨true, [.name nO, .name [102]], false⟩)]),
  (nO, .dir [([102], .file 2)]),
  (nB, .dir [([121], .file 3), ([107], .link ⟨false, [.parent, .name nO, .name [102]], false⟩)]),
  (nT, .dir [(nB, .dir [([121], .file 9), ([122], .file 7)])])]

def exFs : Fs := ⟨exRoot, []⟩
def exCfg : Cfg := { dereference := true }
def exDestP : RPath := plainPath [nT]

/-- the trees seen through the links, with the canonical path of every node -/
def exS : SNode := .dir [nS] [
  ([97], .file [nS, [97]] 1),
  ([108], .file [nS, [97]] 1),
  ([109], .file [nO, [102]] 2)]
def exB : SNode := .dir [nB] [
  ([121], .file [nB, [121]] 3),
  ([107], .file [nO, [102]] 2)]

def itemS : DerefSrc := ⟨plainPath [nS], nS, exS⟩
def itemB : DerefSrc := ⟨plainPath [nB], nB, exB⟩
def exItems : List DerefSrc := [itemS, itemB]

/-- the destination afterwards: `/T/B` = { `y` rewritten in place, `z` kept, `k` appended as a regular file };
`/T/S` = the `S` tree with `l` and `m` as regular files -/
def exDestAfter : Node := .dir [
  (nB, .dir [([121], .file 3), ([122], .file 7), ([107], .file 2)]),
  (nS, .dir [([97], .file 1), ([108], .file 1), ([109], .file 2)])]

theorem exS_computed : derefS exFs walkFuel [nS] [] = some exS := by rfl
theorem exB_computed : derefS exFs walkFuel [nB] [] = some exB := by rfl

theorem ex_result : overlayAllD exFs.root [nT] exItems exFs.root = exFs.root.setAt [nT] exDestAfter := by rfl

theorem exFs_wf : FsEq exFs exFs := by
  have h : exRoot.Copyable 4 := by
    simp [exRoot, Node.Copyable, Node.Copyable.CopyableL, nS, nO, nT, nB]
  exact ⟨rfl, copyable_WF 4 _ h, copyable_WF 4 _ h, SameObs.refl _⟩

theorem ex_hsrc : ∀ e ∈ exItems, AbsNames e.path ∧ e.path.fileName = some e.base ∧
    derefS exFs walkFuel e.path.names [] = some e.s := by
  intro e he
  simp only [exItems, List.mem_cons, List.not_mem_nil, or_false] at he
  rcases he with he | he <;> subst he
  · exact ⟨ex_absNames _, rfl, by show derefS exFs walkFuel (plainPath [nS]).names [] = _; rw [ex_names]; exact exS_computed⟩
  · exact ⟨ex_absNames _, rfl, by show derefS exFs walkFuel (plainPath [nB]).names [] = _; rw [ex_names]; exact exB_computed⟩

theorem ex_haway : ∀ e ∈ exItems, ∀ e' ∈ exItems, ReadsAway e.s ([nT] ++ [e'.base]) := by decide

theorem ex_hcomp : ∀ e ∈ exItems, Compatible (exFs.root.getAt ([nT] ++ [e.base])) e.s.erase := by
  intro e he
  simp only [exItems, List.mem_cons, List.not_mem_nil, or_false] at he
  rcases he with he | he <;> subst he
  · show Node.compatible _ _ = true
    rfl
  · show Node.compatible _ _ = true
    rfl

/-- the sequential theorem applied to the instance -/
theorem example_run :
    ∃ fs', execOps exFs exCfg (multiOpsD exFs exCfg exDestP exItems) = ⟨.ok, fs'⟩ ∧
      FsEq fs' { exFs with root := exFs.root.setAt [nT] exDestAfter } := by
  have h := multi_deref_sequential exFs exCfg exDestP exItems rfl rfl exFs_wf
    (by rw [exDestP, ex_names]; exact ⟨_, by rfl⟩) ex_hsrc (by decide)
    (by rw [exDestP, ex_names]; exact ex_haway) (by rw [exDestP, ex_names]; exact ex_hcomp)
    (by rw [exDestP, ex_names]; decide)
  rw [exDestP, ex_names, ex_result] at h
  exact h

/-- … and the concurrent one: whatever the interleaving, no failure, and a complete run ends in the same tree -/
theorem example_concurrent (ls : List Label) (st : St)
    (hrun : run exCfg (init exFs (multiOpsD exFs exCfg exDestP exItems)) ls = some st) :
    st.failed = false ∧
      (final st = true → FsEq st.fs { exFs with root := exFs.root.setAt [nT] exDestAfter }) := by
  have h := multi_deref_concurrent_ok exFs exCfg exDestP exItems rfl rfl exFs_wf
    (by rw [exDestP, ex_names]; exact ⟨_, by rfl⟩) ex_hsrc (by decide)
    (by rw [exDestP, ex_names]; exact ex_haway) (by rw [exDestP, ex_names]; exact ex_hcomp)
    (by rw [exDestP, ex_names]; decide) ls st hrun
  rw [exDestP, ex_names, ex_result] at h
  exact h

/-- the run evaluates to the same tree (evaluation of the model) -/
theorem example_by_evaluation :
    (execOps exFs exCfg (multiOpsD exFs exCfg exDestP exItems)).exit = .ok ∧
      (execOps exFs exCfg (multiOpsD exFs exCfg exDestP exItems)).fs.root.getAt [nT] = some exDestAfter := by
  exact ⟨rfl, rfl⟩

/-- the side condition is not idle: were `k` of `/B` a link to the OTHER item's future target `/T/S/a`, it would fail -/
example : ¬ ReadsAway (.dir [nB] [([107], .file [nT, nS, [97]] 1)]) ([nT] ++ [nS]) := by decide

end MultiDerefExample

end Xcp
