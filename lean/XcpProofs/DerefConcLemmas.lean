import XcpProofs.DerefTree
import XcpProofs.MirrorConc
/-! # Lemmas for `DerefConc`

Two parts.

1. The instance of the refinement theorem (`L0Fs`) again, with a dynamic predicate `GoodD` that asks nothing about the
   LENGTH of the source path of a queued operation: under `-L` an operation may read from a canonical place 256 names
   deep (a regular file there still resolves: `stat_plain_le`), which `L0.Good` (`s.names.length < 256`) excludes although
   no step of the commutation proofs uses the bound.  The proofs are those of `L0Fs`, word for word.
2. The static facts about `opsOfS` (characterisation of the operations, distinct targets, pairwise independence,
   parents first) and the invariant `DInv` of the concurrent runs over them, as `MirrorConcLemmas` does for `opsOf`:
   the places read from are those of the INITIAL state that are neither at/below nor above the fresh target, and
   nothing there ever changes. -/
namespace Xcp.L0

open Xcp

/-- `L0.Good` without the bound on the length of the source path -/
structure GoodD (fs : Fs) (a : Op) : Prop where
  root : fs.root.isDir = true
  tgt : ∃ t, opTarget a = some t ∧ PlainTarget fs t ∧ t.names ≠ [] ∧ t.names.length < 256 ∧
          ∃ es, fs.root.getAt t.names.dropLast = some (.dir es)
  src : ∀ s, srcOf a = some s → PlainTarget fs s ∧ ∃ x, fs.root.getAt s.names = some x

structure GoodAllD (ops : List Op) (fs : Fs) (a : Op) : Prop where
  good : GoodD fs a
  all : ∀ x ∈ ops, Plains fs x

theorem good_transferD {fs fs' : Fs} {a : Op} (hg : GoodD fs a)
    (hag : ∀ t, opTarget a = some t → AgreeUpto fs.root fs'.root t.names)
    (hags : ∀ s, srcOf a = some s → AgreeUpto fs.root fs'.root s.names) : GoodD fs' a := by
  obtain ⟨t, ht, hpt, hne, hlen, hpar⟩ := hg.tgt
  have hat := hag t ht
  refine ⟨?_, ⟨t, ht, ⟨hpt.1, hpt.2.1, hpt.2.2.1, hat.noLinkUpto hpt.2.2.2⟩, hne, hlen, hat.parentDir hpar⟩, ?_⟩
  · rw [hat.isDir]; exact hg.root
  · intro s hs
    obtain ⟨hps, x, hx⟩ := hg.src s hs
    have has := hags s hs
    refine ⟨⟨hps.1, hps.2.1, hps.2.2.1, has.noLinkUpto hps.2.2.2⟩, ?_⟩
    have h1 := has s.names (List.prefix_refl _)
    have h2 : (fs'.root.getAt s.names).isSome = true := by
      rw [getAt_isSome_iff, h1, ← getAt_isSome_iff, hx]; rfl
    cases hy : fs'.root.getAt s.names with
    | none => rw [hy] at h2; cases h2
    | some y => exact ⟨y, rfl⟩

theorem opPlain_of_goodD {fs : Fs} {a : Op} {ta : RPath} (hg : GoodD fs a) (hta : opTarget a = some ta) :
    OpPlain fs a ta.names := by
  obtain ⟨t, ht, hpt, _, _, _⟩ := hg.tgt
  have : t = ta := by rw [hta] at ht; exact (Option.some.inj ht).symm
  subst this
  refine ⟨?_, (plainTarget_noLink hpt).above, fun _ => plainTarget_noLink hpt, ?_⟩
  · rw [hta, ← namesOnly_eq (plainTarget_namesOnly hpt)]
  · intro s hs
    obtain ⟨hps, _⟩ := hg.src s hs
    exact ⟨namesOnly_eq (plainTarget_namesOnly hps), plainTarget_noLink hps⟩

theorem preserved_allD (c : Cfg) (ops : List Op) (fs fs' : Fs) (a b : Op) (hfs : FsEq fs fs)
    (hg : GoodAllD ops fs a) (hR : IndepIn ops a b) (hx : execOp fs c b = some fs') : GoodAllD ops fs' a := by
  obtain ⟨hI, hbm, hPI⟩ := hR
  rcases hI with hfail | ⟨ta, tb, hta, htb, nta, ntb, hrel, hsa, hsb⟩
  · subst hfail; simp [execOp] at hx
  · obtain ⟨t, ht, hpt, hne, hlen, hpar⟩ := hg.good.tgt
    have : t = ta := by rw [hta] at ht; exact (Option.some.inj ht).symm
    subst this
    rcases hrel with hun | ⟨⟨t', hbt⟩, hpre, hneq⟩
    · have htbne : tb.names ≠ [] := fun h => hun.2 (h ▸ List.nil_prefix)
      have pb := opPlain_of_plains htb ntb (fun s hs => (hsb s hs).1) (hg.all b hbm)
      have F := exec_frame c pb htbne hg.good.root hfs.2.1 hx
      refine ⟨good_transferD hg.good ?_ ?_, plains_transfer hbm hPI htb F hg.all⟩
      · intro t' ht'
        have : t' = t := by rw [hta] at ht'; exact (Option.some.inj ht').symm
        subst this
        exact agree_tgt F hpar hun.1 hun.2
      · intro s hs
        exact agree_src F (hg.good.src s hs).2 (hsa s hs).2.2
    · subst hbt
      have : t' = tb := Option.some.inj htb
      subst this
      have := exec_ancestor_mkdir c ntb (plainTarget_noLink hpt) hlen hpar hpre hneq
      rw [this] at hx
      cases hx
      exact hg

theorem comm_allD (c : Cfg) (ops : List Op) (fs : Fs) (a b : Op) (hfs : FsEq fs fs)
    (hg : GoodAllD ops fs a) (hR : IndepIn ops a b) (hs : isSync a = false) :
    ORel FsEq ((execOp fs c a).bind (fun f1 => execOp f1 c b)) ((execOp fs c b).bind (fun f2 => execOp f2 c a)) := by
  obtain ⟨hI, hbm, hPI⟩ := hR
  have hnma : ∀ t, a ≠ .mkdir t := by intro t h; subst h; cases hs
  rcases hI with hfail | ⟨ta, tb, hta, htb, nta, ntb, hrel, hsa, hsb⟩
  · subst hfail
    cases execOp fs c a <;> exact trivial
  · obtain ⟨t, ht, hpt, hne, hlen, hpar⟩ := hg.good.tgt
    have : t = ta := by rw [hta] at ht; exact (Option.some.inj ht).symm
    subst this
    have pa := opPlain_of_goodD hg.good hta
    have hroot := hg.good.root
    have hw := hfs.2.1
    -- the effect of `a` on `fs`
    have A0 : ∀ fa, execOp fs c a = some fa → ∃ wa, ReplacedAt fs.root fa.root t.names wa := by
      intro fa hxa
      have := execOp_local fs fs c a t.names pa hne hroot hw hw hnma (AgreeUpto.refl _ _)
        (fun _ _ => AgreeUpto.refl _ _)
      rw [hxa] at this
      obtain ⟨w, _, h1, _⟩ : LocalQ (WOf a) fs fs t.names fa fa := this
      exact ⟨w, h1⟩
    rcases hrel with hun | ⟨⟨t', hbt⟩, hpre, hneq⟩
    · have htbne : tb.names ≠ [] := fun h => hun.2 (h ▸ List.nil_prefix)
      have pb := opPlain_of_plains htb ntb (fun s hs => (hsb s hs).1) (hg.all b hbm)
      -- `a` run after `b`
      have T1 : ∀ fb, execOp fs c b = some fb →
          ORel (LocalQ (WOf a) fs fb t.names) (execOp fs c a) (execOp fb c a) := by
        intro fb hxb
        have F := exec_frame c pb htbne hroot hw hxb
        exact execOp_local fs fb c a t.names pa hne hroot hw (wf_exec hfs hxb).2.1 hnma
          (agree_tgt F hpar hun.1 hun.2)
          (fun s hs => agree_src F (hg.good.src s hs).2 (hsa s hs).2.2)
      cases hxa : execOp fs c a with
      | none =>
        cases hxb : execOp fs c b with
        | none => exact trivial
        | some fb =>
          have := T1 fb hxb
          rw [hxa] at this
          simp only [Option.bind_none, Option.bind_some]
          cases hxba : execOp fb c a with
          | none => exact trivial
          | some fba => rw [hxba] at this; exact this.elim
      | some fa =>
        obtain ⟨wa0, A0'⟩ := A0 fa hxa
        have hwa := (wf_exec hfs hxa).2.1
        have hagb : AgreeUpto fs.root fa.root tb.names := agree_of_replaced A0' hun.1
        have hagsb : ∀ s, srcOf b = some s → AgreeUpto fs.root fa.root s.names :=
          fun s hs => agree_of_replaced A0' (hsb s hs).2.2
        simp only [Option.bind_some]
        by_cases hm : ∃ t', b = .mkdir t'
        · obtain ⟨t', rfl⟩ := hm
          have ht' : t' = plainPath tb.names := by
            have := pb.tgt; exact Option.some.inj this
          have T2 := execOp_mkdir_local fs fa c tb.names hroot (pb.upto rfl) hagb
          rw [← ht'] at T2
          cases hxb : execOp fs c (.mkdir t') with
          | none =>
            rw [hxb] at T2
            cases hxab : execOp fa c (.mkdir t') with
            | none => exact trivial
            | some fab => rw [hxab] at T2; exact T2.elim
          | some fb =>
            rw [hxb] at T2
            cases hxab : execOp fa c (.mkdir t') with
            | none => rw [hxab] at T2; exact T2.elim
            | some fab =>
              rw [hxab] at T2
              have T2 : MkInv fs fa tb.names fb fab := T2
              have T1' := T1 fb hxb
              rw [hxa] at T1'
              simp only [Option.bind_some]
              cases hxba : execOp fb c a with
              | none => rw [hxba] at T1'; exact T1'.elim
              | some fba =>
                rw [hxba] at T1'
                obtain ⟨wa, _, A1, A2⟩ : LocalQ (WOf a) fs fb t.names fa fba := T1'
                refine ⟨?_, (wf_exec (wf_exec hfs hxa) hxab).2.1, (wf_exec (wf_exec hfs hxb) hxba).2.1, ?_⟩
                · rw [execOp_cwd _ _ _ _ hxab, execOp_cwd _ _ _ _ hxa, execOp_cwd _ _ _ _ hxba,
                    execOp_cwd _ _ _ _ hxb]
                · exact mkFrame_comm hun.1 A1 A2 T2.frame T2.frame' T2.agree
        · have hnmb : ∀ t', b ≠ .mkdir t' := fun t' h => hm ⟨t', h⟩
          have T2 := execOp_local fs fa c b tb.names pb htbne hroot hw hwa hnmb hagb hagsb
          cases hxb : execOp fs c b with
          | none =>
            rw [hxb] at T2
            cases hxab : execOp fa c b with
            | none => exact trivial
            | some fab => rw [hxab] at T2; exact T2.elim
          | some fb =>
            rw [hxb] at T2
            cases hxab : execOp fa c b with
            | none => rw [hxab] at T2; exact T2.elim
            | some fab =>
              rw [hxab] at T2
              obtain ⟨wb, _, B1, B2⟩ : LocalQ (WOf b) fs fa tb.names fb fab := T2
              have T1' := T1 fb hxb
              rw [hxa] at T1'
              simp only [Option.bind_some]
              cases hxba : execOp fb c a with
              | none => rw [hxba] at T1'; exact T1'.elim
              | some fba =>
                rw [hxba] at T1'
                obtain ⟨wa, _, A1, A2⟩ : LocalQ (WOf a) fs fb t.names fa fba := T1'
                refine ⟨?_, (wf_exec (wf_exec hfs hxa) hxab).2.1, (wf_exec (wf_exec hfs hxb) hxba).2.1, ?_⟩
                · rw [execOp_cwd _ _ _ _ hxab, execOp_cwd _ _ _ _ hxa, execOp_cwd _ _ _ _ hxba,
                    execOp_cwd _ _ _ _ hxb]
                · exact replacedAt_comm hun.1 hun.2 A1 A2 B1 B2
    · subst hbt
      have : t' = tb := Option.some.inj htb
      subst this
      have hl := plainTarget_noLink hpt
      have hxb := exec_ancestor_mkdir c ntb hl hlen hpar hpre hneq
      rw [hxb]
      simp only [Option.bind_some]
      cases hxa : execOp fs c a with
      | none => exact trivial
      | some fa =>
        obtain ⟨wa, A1⟩ := A0 fa hxa
        have hnp : ¬ t.names <+: t'.names := fun h => hneq (prefix_antisymm hpre h)
        have hag : AgreeUpto fs.root fa.root t.names.dropLast :=
          agree_of_replaced A1 (fun h => by
            have := h.length_le
            simp only [List.length_dropLast] at this
            have : 0 < t.names.length := List.length_pos_iff.2 hne
            omega)
        have hag' : AgreeUpto fs.root fa.root t'.names := hag.prefix (prefix_dropLast_of_ne hpre hneq)
        -- in `fa` the prefixes of `a`'s target are what they were, except the target itself
        obtain ⟨es, hes⟩ := hpar
        obtain ⟨es', hes'⟩ := getAt_prefix_dir hes (prefix_dropLast_of_ne hpre hneq)
        obtain ⟨es'', hes''⟩ : ∃ e, fa.root.getAt t'.names = some (.dir e) := by
          apply getAt_dir_of_obs
          rw [hag' t'.names (List.prefix_refl _)]
          exact obsAt_dir hes'
        have h := mkdirAll_existing_dir fa t'.names es'' (Nat.lt_of_le_of_lt hpre.length_le hlen) hes''
          (hag'.noLinkUpto (hl.prefix hpre))
        rw [← namesOnly_eq ntb] at h
        have hxab : execOp fa c (.mkdir t') = some fa := by simp [execOp, h, Except.toOption]
        simp only [Option.bind_some]
        rw [hxab]
        exact wf_exec hfs hxa

/-- Queued operations on plain, pairwise unrelated targets commute with every other operation of the run, up to
the order of directory entries. -/
theorem fs_commutesD (c : Cfg) (ops : List Op) : Commutes c FsEq (GoodAllD ops) (IndepIn ops) where
  symm := fun _ _ h => h.symm
  trans := fun _ _ _ h1 h2 => h1.trans h2
  cong := fun _ _ op h => execOp_cong h c op
  preserved := preserved_allD c ops
  comm := comm_allD c ops

/-- The refinement theorem for the namespace model.  From a well-formed initial state, if the operations of the
run are pairwise independent and every operation is good — and all operations of the run are link-free in the
sense of `Plains` — at the moment the walker hands it over, then every complete failure-free concurrent run ends
in the state of the sequential execution, up to the order of directory entries. -/
theorem fs_run_refines_sequentialD (c : Cfg) (fs0 : Fs) (ops : List Op) (h0 : FsEq fs0 fs0) (hnd : ops.Nodup)
    (hI : PairIndep ops)
    (hand : ∀ (ls : List Label) (s : St) (op : Op) (r : List Op), run c (init fs0 ops) ls = some s →
              s.failed = false → s.todo = op :: r → isSync op = false → GoodAllD ops s.fs op)
    (ls : List Label) (s : St) (hrun : run c (init fs0 ops) ls = some s)
    (hfin : final s = true) (hok : s.failed = false) :
    ∃ f, seqExec c (some fs0) ops = some f ∧ FsEq f s.fs :=
  complete_run_refines_sequential c FsEq (GoodAllD ops) (IndepIn ops) (fs_commutesD c ops) fs0 ops h0 hnd
    (fun a ha b hb hab hs => ⟨hI a ha b hb hab hs, hb, hI⟩) hand ls s hrun hfin hok

end Xcp.L0

namespace Xcp

open L0

/-! ## Small facts -/

theorem nodup_of_nodup_map {α β : Type} (f : α → β) {l : List α} (h : (l.map f).Nodup) : l.Nodup := by
  rw [List.Nodup, List.pairwise_map] at h
  exact h.imp (fun hab e => hab (congrArg f e))

/-- operations of a list with distinct targets are determined by their targets -/
theorem eq_of_tgt_nodup : ∀ {ops : List Op}, (ops.map opTarget).Nodup → ∀ {x y : Op}, x ∈ ops → y ∈ ops →
    opTarget x = opTarget y → x = y
  | [], _, _, _, hx, _, _ => by cases hx
  | a :: r, h, x, y, hx, hy, e => by
    simp only [List.map_cons, List.nodup_cons] at h
    cases hx with
    | head =>
      cases hy with
      | head => rfl
      | tail _ hy' => exact absurd (e ▸ List.mem_map_of_mem hy') h.1
    | tail _ hx' =>
      cases hy with
      | head => exact absurd (e ▸ List.mem_map_of_mem hx') h.1
      | tail _ hy' => exact eq_of_tgt_nodup h.2 hx' hy' e

theorem opTarget_dropSrc (x : Op) : opTarget (Op.dropSrc x) = opTarget x := by cases x <;> rfl

theorem dropSrc_mkdir (x : Op) (t : RPath) : Op.dropSrc x = .mkdir t ↔ x = .mkdir t := by
  cases x <;> simp [Op.dropSrc]

/-- `TodoOK` looks at targets and at which operations are `mkdir`s only -/
theorem todoOK_dropSrc : ∀ (l : List Op) (D : List Name → Prop), TodoOK D (l.map Op.dropSrc) ↔ TodoOK D l
  | [], _ => Iff.rfl
  | x :: r, D => by
    have hD : (fun p => D p ∨ ∃ t, Op.dropSrc x = .mkdir t ∧ p = t.names) =
        (fun p => D p ∨ ∃ t, x = .mkdir t ∧ p = t.names) := by
      funext p
      simp only [dropSrc_mkdir]
    simp only [List.map_cons, TodoOK, opTarget_dropSrc]
    rw [hD, todoOK_dropSrc r]

/-! ## The operations of a sourced tree -/

/-- distinct operations of `opsOf` have distinct targets -/
theorem opsOf_tgt_nodup (d : Nat) (n : Node) (hc : n.Copyable d) (sn tn : List Name) :
    ((opsOf n sn tn).map opTarget).Nodup := by
  have hnd := opsOf_nodup d n hc sn tn
  rw [List.Nodup, List.pairwise_map]
  refine List.Pairwise.imp_of_mem ?_ hnd
  intro x y hx hy hxy heq
  obtain ⟨rx, mx, hgx, _, ex⟩ := mem_opsOf d n hc sn tn x hx
  obtain ⟨ry, my, hgy, _, ey⟩ := mem_opsOf d n hc sn tn y hy
  rw [ex, ey, headOp_target, headOp_target] at heq
  have := List.append_cancel_left (plainPath_inj (Option.some.inj heq))
  subst this
  rw [hgx] at hgy
  injection hgy with hgy
  subst hgy
  exact hxy (ex.trans ey.symm)

theorem opsOfS_targets (s : SNode) (sn tn : List Name) :
    (opsOfS s tn).map opTarget = (opsOf s.erase sn tn).map opTarget := by
  have h := congrArg (List.map opTarget) (opsOfS_dropSrc s sn tn)
  simp only [List.map_map] at h
  have hf : opTarget ∘ Op.dropSrc = opTarget := by
    funext x
    exact opTarget_dropSrc x
  rw [hf] at h
  exact h

theorem opsOfS_tgt_nodup (d : Nat) (s : SNode) (hc : s.erase.Copyable d) (tn : List Name) :
    ((opsOfS s tn).map opTarget).Nodup := by
  rw [opsOfS_targets s [] tn]
  exact opsOf_tgt_nodup d s.erase hc [] tn

theorem todoOK_opsOfS (d : Nat) (s : SNode) (hc : s.erase.Copyable d) (tn : List Name) (D : List Name → Prop)
    (hD : D tn.dropLast) : TodoOK D (opsOfS s tn) := by
  have h := todoOK_opsOf d s.erase hc [] tn D [] hD (fun _ _ => trivial)
  rw [List.append_nil] at h
  rw [← todoOK_dropSrc, opsOfS_dropSrc s [] tn, todoOK_dropSrc]
  exact h

theorem mem_opsOfSL {es : List (Name × SNode)} {tn : List Name} {x : Op} (h : x ∈ opsOfSL es tn) :
    ∃ e ∈ es, x ∈ opsOfS e.2 (tn ++ [e.1]) := by
  induction es with
  | nil => simp [opsOfSL] at h
  | cons e r ih =>
    obtain ⟨m, ch⟩ := e
    simp only [opsOfSL, List.mem_append] at h
    rcases h with h | h
    · exact ⟨(m, ch), List.mem_cons_self, h⟩
    · obtain ⟨e, he, hx⟩ := ih h
      exact ⟨e, List.mem_cons_of_mem _ he, hx⟩

/-- every operation of `opsOfS` is the entry operation of some node of the dereferenced tree, reading (if it reads)
from the canonical place of a leaf -/
theorem mem_opsOfS : ∀ (d : Nat) (s : SNode), s.erase.Copyable d → ∀ (tn : List Name) (x : Op), x ∈ opsOfS s tn →
    ∃ rel m cp, s.erase.getAt rel = some m ∧ rel.length ≤ d ∧ x = headOp m cp (tn ++ rel) ∧
      (m.isDir = false → (cp, m) ∈ s.leaves) := by
  have leafF : ∀ (d : Nat) (cp : List Name) (k : Nat) (tn : List Name) (x : Op), x ∈ opsOfS (.file cp k) tn →
      ∃ rel m cp', (SNode.file cp k).erase.getAt rel = some m ∧ rel.length ≤ d ∧ x = headOp m cp' (tn ++ rel) ∧
        (m.isDir = false → (cp', m) ∈ (SNode.file cp k).leaves) := by
    intro d cp k tn x hx
    simp only [opsOfS, List.mem_singleton] at hx
    exact ⟨[], .file k, cp, rfl, Nat.zero_le _, by simp [hx, headOp], fun _ => by simp [SNode.leaves]⟩
  have leafS : ∀ (d : Nat) (cp : List Name) (k : FileKind) (dv : Nat) (tn : List Name) (x : Op),
      x ∈ opsOfS (.special cp k dv) tn →
      ∃ rel m cp', (SNode.special cp k dv).erase.getAt rel = some m ∧ rel.length ≤ d ∧
        x = headOp m cp' (tn ++ rel) ∧ (m.isDir = false → (cp', m) ∈ (SNode.special cp k dv).leaves) := by
    intro d cp k dv tn x hx
    simp only [opsOfS, List.mem_singleton] at hx
    exact ⟨[], .special k dv, cp, rfl, Nat.zero_le _, by simp [hx, headOp], fun _ => by simp [SNode.leaves]⟩
  intro d
  induction d with
  | zero =>
    intro s hc tn x hx
    cases s with
    | dir cp es => simp [SNode.erase, Node.Copyable] at hc
    | file cp k => exact leafF 0 cp k tn x hx
    | special cp k dv => exact leafS 0 cp k dv tn x hx
  | succ d ih =>
    intro s hc tn x hx
    cases s with
    | file cp k => exact leafF _ cp k tn x hx
    | special cp k dv => exact leafS _ cp k dv tn x hx
    | dir cp es =>
      simp only [SNode.erase] at hc ⊢
      obtain ⟨d', hd', hnd, hch⟩ := copyable_dir hc
      have hd'' : d' = d := by omega
      subst hd''
      simp only [opsOfS, List.mem_cons] at hx
      rcases hx with hx | hx
      · exact ⟨[], _, cp, rfl, Nat.zero_le _, by simp [hx, headOp], fun h => by simp [Node.isDir] at h⟩
      · obtain ⟨e, he, hxe⟩ := mem_opsOfSL hx
        obtain ⟨k, ch⟩ := e
        have hmem := eraseL_mem es k ch he
        obtain ⟨rel, m, cp', hg, hl, hxm, hlf⟩ := ih ch (hch _ hmem) _ x hxe
        refine ⟨k :: rel, m, cp', ?_, by simp only [List.length_cons]; omega, ?_, ?_⟩
        · rw [getAt_dir_cons, entGet_of_mem (eraseL es) hnd (k, ch.erase) hmem]; exact hg
        · simpa [List.append_assoc] using hxm
        · intro hm
          simp only [SNode.leaves]
          exact leavesL_mem es k ch he _ (hlf hm)

/-! ## The static facts about the operations of a `-L` copy onto a fresh target -/

/-- `E` is the dereferenced tree, `T` the target; an operation that reads, reads from a place that in the initial state
`fs0` holds the very node, is at most 256 names deep, and is neither at/below nor above the target -/
structure DSpec (fs0 : Fs) (E : Node) (T : List Name) (d : Nat) (ops : List Op) : Prop where
  char : ∀ x ∈ ops, ∃ rel m cp, E.getAt rel = some m ∧ rel.length ≤ d ∧ x = headOp m cp (T ++ rel) ∧
    (m.isDir = false → fs0.root.getAt cp = some m ∧ cp.length ≤ 256 ∧ ¬ cp <+: T ∧ ¬ T <+: cp)
  tnd : (ops.map opTarget).Nodup
  tne : T ≠ []
  lenT : T.length + d < 256

theorem DSpec.pairIndep {fs0 : Fs} {E : Node} {T : List Name} {d : Nat} {ops : List Op}
    (h : DSpec fs0 E T d ops) : PairIndep ops := by
  intro x hx y hy hxy hsx
  obtain ⟨rx, mx, cx, hgx, _, ex, hlx⟩ := h.char x hx
  obtain ⟨ry, my, cy, hgy, _, ey, hly⟩ := h.char y hy
  right
  refine ⟨plainPath (T ++ rx), plainPath (T ++ ry), by rw [ex, headOp_target], by rw [ey, headOp_target],
    plainPath_namesOnly _, plainPath_namesOnly _, ?_, ?_, ?_⟩
  · simp only [plainPath_names]
    have hmx : mx.isDir = false := by rw [ex, headOp_isSync] at hsx; exact hsx
    rcases prefix_cases rx ry with ⟨s, hs⟩ | ⟨h1, h2⟩ | ⟨h1, h2⟩
    · subst hs
      by_cases hs0 : s = []
      · subst hs0
        rw [List.append_nil] at ey
        exact absurd (eq_of_tgt_nodup h.tnd hx hy (by rw [ex, ey, headOp_target, headOp_target])) hxy
      · obtain ⟨es, hes⟩ := getAt_proper_prefix_dir hgy hs0
        rw [hgx] at hes
        injection hes with hes
        subst hes
        cases hmx
    · right
      obtain ⟨s, hs⟩ := h1
      subst hs
      have hs0 : s ≠ [] := fun h0 => h2 (by rw [h0, List.append_nil])
      obtain ⟨es, hes⟩ := getAt_proper_prefix_dir hgx hs0
      rw [hgy] at hes
      injection hes with hes
      subst hes
      refine ⟨⟨_, ey⟩, ?_, ?_⟩
      · rw [← List.append_assoc]; exact List.prefix_append _ _
      · intro heq
        have := List.append_cancel_left heq
        exact h2 this
    · left
      exact ⟨fun hh => h1 ((List.prefix_append_right_inj T).1 hh), fun hh => h2 ((List.prefix_append_right_inj T).1 hh)⟩
  · intro s hs
    rw [ex] at hs
    obtain ⟨e, hmd, _⟩ := headOp_srcOf _ _ _ _ hs
    subst e
    simp only [plainPath_names]
    obtain ⟨_, _, u1, u2⟩ := hlx hmd
    have hU := unrel_append u1 u2 [] ry
    rw [List.append_nil] at hU
    exact ⟨plainPath_namesOnly _, hU⟩
  · intro s hs
    rw [ey] at hs
    obtain ⟨e, hmd, _⟩ := headOp_srcOf _ _ _ _ hs
    subst e
    simp only [plainPath_names]
    obtain ⟨_, _, u1, u2⟩ := hly hmd
    have hU := unrel_append u1 u2 [] rx
    rw [List.append_nil] at hU
    exact ⟨plainPath_namesOnly _, hU⟩

/-- distinct operations have distinct targets -/
theorem DSpec.tgt_ne {fs0 : Fs} {E : Node} {T : List Name} {d : Nat} {ops : List Op}
    (h : DSpec fs0 E T d ops) {x y : Op} (hx : x ∈ ops) (hy : y ∈ ops) (hxy : x ≠ y)
    {rx cx : List Name} {mx : Node} (ex : x = headOp mx cx (T ++ rx))
    {t : RPath} (ht : opTarget y = some t) : t.names ≠ T ++ rx := by
  obtain ⟨ry, my, cy, _, _, ey, _⟩ := h.char y hy
  have ht' := ht
  rw [ey, headOp_target] at ht'
  have := Option.some.inj ht'
  subst this
  rw [plainPath_names]
  intro heq
  apply hxy
  apply eq_of_tgt_nodup h.tnd hx hy
  rw [ht, ex, headOp_target, heq]

/-! ## One operation executed in a state where it is due -/

theorem exec_headOp_le (g : Fs) (c : Cfg) (m : Node) (sn par : List Name) (nm : Name) (pes : Entries)
    (hs : m.isDir = false → g.root.getAt sn = some m ∧ sn.length ≤ 256) (hlt : par.length < 256)
    (hp : g.root.getAt par = some (.dir pes)) (hn : g.root.getAt (par ++ [nm]) = none) :
    execOp g c (headOp m sn (par ++ [nm])) = some { g with root := g.root.setAt (par ++ [nm]) (stub m) } := by
  cases m with
  | file k => exact execOp_copy_fresh_le g c sn par nm k pes (hs rfl).1 (hs rfl).2 hlt hp hn
  | link t => exact execOp_link_fresh g c t par nm pes hlt hp hn
  | special k d => exact execOp_special_fresh_le g c sn par nm k d pes (hs rfl).1 (hs rfl).2 hlt hp hn
  | dir es => exact execOp_mkdir_fresh g c par nm pes hlt hp hn

/-- what the execution of the entry operation of the node at `rel` leaves -/
structure PostD (E : Node) (T : List Name) (g g' : Fs) (x : Op) (rel : List Name) : Prop where
  out : ∀ q, ¬ q <+: T → ¬ T <+: q → g'.root.getAt q = g.root.getAt q
  dirs : ∀ p, DirsOf g p → DirsOf g' p
  made : ∀ t, x = .mkdir t → DirsOf g' t.names
  fresh : ∀ t', t' ≠ T ++ rel → g.root.getAt t' = none → g'.root.getAt t' = none
  kinds : (∀ rel n, E.getAt rel = some n → obsAt g.root (T ++ rel) = none ∨ obsAt g.root (T ++ rel) = some n.obs) →
    ∀ rel n, E.getAt rel = some n → obsAt g'.root (T ++ rel) = none ∨ obsAt g'.root (T ++ rel) = some n.obs

theorem exec_dueD {fs0 : Fs} {E : Node} {T : List Name} {d : Nat} {ops : List Op} (h : DSpec fs0 E T d ops)
    (c : Cfg) (g : Fs) (x : Op) (rel : List Name) (m : Node) (cp : List Name)
    (hg : E.getAt rel = some m) (hl : rel.length ≤ d)
    (ex : x = headOp m cp (T ++ rel))
    (hsrc : m.isDir = false → g.root.getAt cp = some m ∧ cp.length ≤ 256)
    (hpar : DirsOf g (T ++ rel).dropLast)
    (hfresh : g.root.getAt (T ++ rel) = none) :
    ∃ g', execOp g c x = some g' ∧ PostD E T g g' x rel := by
  have hne : T ++ rel ≠ [] := by
    intro h0
    exact h.tne (List.append_eq_nil_iff.1 h0).1
  have hpd : ParentDir g.root (T ++ rel) := hpar
  rcases List.eq_nil_or_concat (T ++ rel) with h0 | ⟨par, nm, h0⟩
  · exact absurd h0 hne
  simp only [List.concat_eq_append] at h0
  obtain ⟨pes, hpes⟩ := hpar
  rw [h0, List.dropLast_concat] at hpes
  have hlen : par.length < 256 := by
    have := congrArg List.length h0
    simp only [List.length_append, List.length_cons, List.length_nil] at this
    have := h.lenT
    omega
  have hx := exec_headOp_le g c m cp par nm pes hsrc hlen hpes (by rw [← h0]; exact hfresh)
  rw [← h0, ← ex] at hx
  refine ⟨_, hx, ?_⟩
  have R := replacedAt_setAt g.root (T ++ rel) (stub m) hne hpd (stub_leafLike m)
  refine ⟨?_, ?_, ?_, ?_, ?_⟩
  · intro q h1 h2
    have hU := unrel_append h1 h2 [] rel
    rw [List.append_nil] at hU
    show (g.root.setAt (T ++ rel) (stub m)).getAt q = g.root.getAt q
    exact getAt_setAt_unrelated _ _ _ _ hU.2 hU.1
  · rintro p ⟨es, hes⟩
    show ∃ es', (g.root.setAt (T ++ rel) (stub m)).getAt p = some (.dir es')
    by_cases hp : T ++ rel <+: p
    · obtain ⟨s, hs⟩ := hp
      rw [← hs, getAt_append_none _ _ _ hfresh] at hes
      cases hes
    · apply getAt_dir_of_obs
      rw [R.out p hp]
      exact obsAt_dir hes
  · intro t ht
    rw [ex] at ht
    obtain ⟨e1, e2⟩ := headOp_mkdir _ _ _ _ ht
    subst e1
    rw [plainPath_names]
    exact ⟨[], by rw [← e2]; exact getAt_setAt_eff _ _ _ hne hpd⟩
  · intro t' hne' hn'
    show (g.root.setAt (T ++ rel) (stub m)).getAt t' = none
    rw [← obsAt_eq_none]
    by_cases hp : T ++ rel <+: t'
    · obtain ⟨s, hs⟩ := hp
      subst hs
      apply R.below
      intro h0
      apply hne'
      rw [h0, List.append_nil]
    · rw [R.out t' hp, obsAt_eq_none]; exact hn'
  · intro hk rel' n' hg'
    show obsAt (g.root.setAt (T ++ rel) (stub m)) (T ++ rel') = none ∨ _ = some n'.obs
    by_cases hp : T ++ rel <+: T ++ rel'
    · obtain ⟨s, hs⟩ := hp
      by_cases hs0 : s = []
      · subst hs0
        rw [List.append_nil] at hs
        have := List.append_cancel_left hs
        subst this
        rw [hg] at hg'
        injection hg' with hg'
        subst hg'
        right
        rw [R.here, stub_obs]
      · left
        rw [← hs]
        exact R.below s hs0
    · rw [R.out _ hp]
      exact hk rel' n' hg'

/-! ## The invariant of the concurrent runs -/

structure DInv (fs0 : Fs) (E : Node) (T : List Name) (ops : List Op) (s : St) : Prop where
  ok : s.failed = false
  out : ∀ q, ¬ q <+: T → ¬ T <+: q → s.fs.root.getAt q = fs0.root.getAt q
  base : DirsOf s.fs T.dropLast
  todo : TodoOK (DirsOf s.fs) s.todo
  qpar : ∀ x ∈ s.queue, ∀ t, opTarget x = some t → DirsOf s.fs t.names.dropLast
  fresh : ∀ x ∈ s.queue ++ s.todo, ∀ t, opTarget x = some t → s.fs.root.getAt t.names = none
  kinds : ∀ rel n, E.getAt rel = some n →
    obsAt s.fs.root (T ++ rel) = none ∨ obsAt s.fs.root (T ++ rel) = some n.obs
  mem : ∀ x ∈ s.queue ++ s.todo, x ∈ ops
  nodup : (s.queue ++ s.todo).Nodup

/-- the place an operation reads from holds in the current state what it held in the initial state -/
theorem DInv.srcAt {fs0 : Fs} {E : Node} {T : List Name} {ops : List Op} {s : St}
    (hinv : DInv fs0 E T ops s) {m : Node} {cp : List Name}
    (hlf : m.isDir = false → fs0.root.getAt cp = some m ∧ cp.length ≤ 256 ∧ ¬ cp <+: T ∧ ¬ T <+: cp) :
    m.isDir = false → s.fs.root.getAt cp = some m ∧ cp.length ≤ 256 := by
  intro hm
  obtain ⟨h1, h2, u1, u2⟩ := hlf hm
  exact ⟨by rw [hinv.out cp u1 u2]; exact h1, h2⟩

theorem DInv.init {fs0 : Fs} {E : Node} {T : List Name} {d : Nat} {ops : List Op} (h : DSpec fs0 E T d ops)
    (hpar : DirsOf fs0 T.dropLast)
    (habs : fs0.root.getAt T = none) (htodo : TodoOK (DirsOf fs0) ops) :
    DInv fs0 E T ops (L0.init fs0 ops) := by
  refine ⟨rfl, fun _ _ _ => rfl, hpar, htodo, ?_, ?_, ?_, ?_, ?_⟩
  · intro x hx; cases hx
  · intro x hx t ht
    simp only [L0.init, List.nil_append] at hx
    obtain ⟨rel, m, cp, _, _, ex, _⟩ := h.char x hx
    rw [ex, headOp_target] at ht
    have := Option.some.inj ht
    subst this
    rw [plainPath_names]
    exact getAt_append_none _ _ _ habs
  · intro rel n _
    left
    rw [obsAt_eq_none]
    exact getAt_append_none _ _ _ habs
  · intro x hx; simpa [L0.init] using hx
  · simpa [L0.init] using nodup_of_nodup_map opTarget h.tnd

theorem DInv.step {fs0 : Fs} {E : Node} {T : List Name} {d : Nat} {ops : List Op} (h : DSpec fs0 E T d ops)
    (c : Cfg) (s s1 : St) (l : Label) (hinv : DInv fs0 E T ops s) (hstep : L0.step c s l = some s1) :
    DInv fs0 E T ops s1 := by
  have hsrcAt := @DInv.srcAt fs0 E T ops s hinv
  obtain ⟨hok, hout, hbase, htodo, hqpar, hfresh, hkinds, hmem, hnd⟩ := hinv
  cases l with
  | walk =>
    simp only [L0.step, hok, Bool.false_eq_true, if_false] at hstep
    split at hstep
    · cases hstep
    · next op r htd =>
      rw [htd] at htodo hfresh hmem hnd
      have hopmem : op ∈ ops := hmem op (by simp)
      obtain ⟨rel, m, cp, hg, hl, ex, hlf⟩ := h.char op hopmem
      have hnd' := List.nodup_append.1 hnd
      have hnd'' := List.nodup_cons.1 hnd'.2.1
      split at hstep
      · -- executed by the walker
        have hpar : DirsOf s.fs (T ++ rel).dropLast := by
          have := htodo.1 (plainPath (T ++ rel)) (by rw [ex, headOp_target])
          rwa [plainPath_names] at this
        have hfr : s.fs.root.getAt (T ++ rel) = none := by
          have := hfresh op (by simp) (plainPath (T ++ rel)) (by rw [ex, headOp_target])
          rwa [plainPath_names] at this
        obtain ⟨g', hx, P⟩ := exec_dueD h c s.fs op rel m cp hg hl ex (hsrcAt hlf) hpar hfr
        rw [hx] at hstep
        cases hstep
        have hne : ∀ y ∈ s.queue ++ r, op ≠ y := by
          intro y hy hoy
          subst hoy
          rcases List.mem_append.1 hy with hy | hy
          · exact hnd'.2.2 op hy op List.mem_cons_self rfl
          · exact hnd''.1 hy
        refine ⟨rfl, fun q h1 h2 => (P.out q h1 h2).trans (hout q h1 h2), P.dirs _ hbase, ?_, ?_, ?_,
          P.kinds hkinds, ?_, ?_⟩
        · refine TodoOK.mono _ _ _ ?_ htodo.2
          rintro p (hp | ⟨t, ht, hpt⟩)
          · exact P.dirs p hp
          · rw [hpt]; exact P.made t ht
        · intro y hy t ht
          exact P.dirs _ (hqpar y hy t ht)
        · intro y hy t ht
          have hy' : y ∈ s.queue ++ op :: r := by
            rcases List.mem_append.1 hy with hy | hy
            · exact List.mem_append_left _ hy
            · exact List.mem_append_right _ (List.mem_cons_of_mem _ hy)
          exact P.fresh _ (h.tgt_ne hopmem (hmem y hy') (hne y hy) ex ht) (hfresh y hy' t ht)
        · intro y hy
          apply hmem y
          rcases List.mem_append.1 hy with hy | hy
          · exact List.mem_append_left _ hy
          · exact List.mem_append_right _ (List.mem_cons_of_mem _ hy)
        · show (s.queue ++ r).Nodup
          rw [List.nodup_append]
          exact ⟨hnd'.1, hnd''.2, fun a ha b hb => hnd'.2.2 a ha b (List.mem_cons_of_mem _ hb)⟩
      · next hsync =>
        cases hstep
        have hsync' : isSync op = false := by simpa using hsync
        refine ⟨rfl, hout, hbase, ?_, ?_, ?_, hkinds, ?_, ?_⟩
        · refine TodoOK.mono _ _ _ ?_ htodo.2
          rintro p (hp | ⟨t, ht, _⟩)
          · exact hp
          · rw [ht] at hsync'; cases hsync'
        · intro y hy t ht
          rcases List.mem_append.1 hy with hy | hy
          · exact hqpar y hy t ht
          · have : y = op := by simpa using hy
            subst this
            exact htodo.1 t ht
        · show ∀ y ∈ (s.queue ++ [op]) ++ r, _
          simpa using hfresh
        · show ∀ y ∈ (s.queue ++ [op]) ++ r, y ∈ ops
          simpa using hmem
        · show ((s.queue ++ [op]) ++ r).Nodup
          simpa using hnd
  | exec i =>
    simp only [L0.step] at hstep
    split at hstep
    · next a hq =>
      obtain ⟨qpre, qpost, hq1, hq2⟩ := eraseIdx_split s.queue i a hq
      rw [hq2] at hstep
      rw [hq1] at hqpar hfresh hmem hnd
      have hamem : a ∈ ops := hmem a (by simp)
      obtain ⟨rel, m, cp, hg, hl, ex, hlf⟩ := h.char a hamem
      have hpar : DirsOf s.fs (T ++ rel).dropLast := by
        have := hqpar a (by simp) (plainPath (T ++ rel)) (by rw [ex, headOp_target])
        rwa [plainPath_names] at this
      have hfr : s.fs.root.getAt (T ++ rel) = none := by
        have := hfresh a (by simp) (plainPath (T ++ rel)) (by rw [ex, headOp_target])
        rwa [plainPath_names] at this
      obtain ⟨g', hx, P⟩ := exec_dueD h c s.fs a rel m cp hg hl ex (hsrcAt hlf) hpar hfr
      rw [hx] at hstep
      cases hstep
      have hsub : ((qpre ++ qpost) ++ s.todo).Sublist ((qpre ++ a :: qpost) ++ s.todo) := by
        apply List.Sublist.append_right
        apply List.Sublist.append_left
        exact List.sublist_cons_self ..
      have hnd1 := (List.nodup_append.1 hnd).1
      have hnd2 := List.nodup_append.1 hnd1
      have hnd3 := List.nodup_cons.1 hnd2.2.1
      have hne : ∀ y ∈ (qpre ++ qpost) ++ s.todo, a ≠ y := by
        intro y hy hay
        subst hay
        rcases List.mem_append.1 hy with hy | hy
        · rcases List.mem_append.1 hy with hy | hy
          · exact hnd2.2.2 a hy a List.mem_cons_self rfl
          · exact hnd3.1 hy
        · exact (List.nodup_append.1 hnd).2.2 a (by simp) a hy rfl
      refine ⟨hok, fun q h1 h2 => (P.out q h1 h2).trans (hout q h1 h2), P.dirs _ hbase,
        TodoOK.mono _ _ _ P.dirs htodo, ?_, ?_, P.kinds hkinds, ?_, ?_⟩
      · intro y hy t ht
        have hy' : y ∈ qpre ++ a :: qpost := by
          rcases List.mem_append.1 hy with hy | hy
          · exact List.mem_append_left _ hy
          · exact List.mem_append_right _ (List.mem_cons_of_mem _ hy)
        exact P.dirs _ (hqpar y hy' t ht)
      · intro y hy t ht
        have hy' := hsub.subset hy
        exact P.fresh _ (h.tgt_ne hamem (hmem y hy') (hne y hy) ex ht) (hfresh y hy' t ht)
      · exact fun y hy => hmem y (hsub.subset hy)
      · exact hnd.sublist hsub
    · cases hstep

theorem DInv.run {fs0 : Fs} {E : Node} {T : List Name} {d : Nat} {ops : List Op} (h : DSpec fs0 E T d ops)
    (c : Cfg) : ∀ (ls : List Label) (s s' : St), DInv fs0 E T ops s → L0.run c s ls = some s' →
      DInv fs0 E T ops s' := by
  intro ls
  induction ls with
  | nil => intro s s' hinv hr; cases hr; exact hinv
  | cons l ls ih =>
    intro s s' hinv hr
    simp only [L0.run] at hr
    split at hr
    · next s1 hs1 => exact ih s1 s' (DInv.step h c s s1 l hinv hs1) hr
    · cases hr

/-! ## What the invariant gives at the moment an operation is handed over -/

theorem DInv.noLinkAbove {fs0 : Fs} {E : Node} {T : List Name} {ops : List Op} {s : St}
    (hinv : DInv fs0 E T ops s) {rel : List Name} {n : Node} (hg : E.getAt rel = some n) :
    NoLinkAbove s.fs.root (T ++ rel) := by
  intro p hp hne tg hgl
  by_cases hT : T <+: p
  · obtain ⟨s', hs'⟩ := hT
    subst hs'
    obtain ⟨u, hu⟩ := (List.prefix_append_right_inj T).1 hp
    subst hu
    have hu0 : u ≠ [] := by
      intro h0; apply hne; rw [h0, List.append_nil]
    obtain ⟨es, hes⟩ := getAt_proper_prefix_dir hg hu0
    rw [getAt_link_iff] at hgl
    rcases hinv.kinds s' _ hes with hk | hk
    · rw [hk] at hgl; cases hgl
    · rw [hk] at hgl; cases hgl
  · have hpT : p <+: T := by
      rcases List.prefix_or_prefix_of_prefix hp (List.prefix_append T rel) with h1 | h1
      · exact h1
      · exact absurd h1 hT
    have hpne : p ≠ T := fun e => hT (e ▸ List.prefix_refl _)
    obtain ⟨es, hes⟩ := hinv.base
    obtain ⟨es', hes'⟩ := L0.getAt_prefix_dir hes (prefix_dropLast_of_ne hpT hpne)
    rw [hes'] at hgl
    cases hgl

theorem DInv.plains {fs0 : Fs} {E : Node} {T : List Name} {d : Nat} {ops : List Op} {s : St}
    (h : DSpec fs0 E T d ops) (hinv : DInv fs0 E T ops s) : ∀ x ∈ ops, Plains s.fs x := by
  intro x hx
  obtain ⟨rel, m, cp, hg, hl, ex, hlf⟩ := h.char x hx
  refine ⟨?_, ?_⟩
  · intro t ht
    rw [ex, headOp_target] at ht
    have := Option.some.inj ht
    subst this
    rw [plainPath_names]
    refine ⟨hinv.noLinkAbove hg, ?_⟩
    intro hnl p hp tg hgl
    by_cases hpe : p = T ++ rel
    · subst hpe
      rw [getAt_link_iff] at hgl
      rcases hinv.kinds rel m hg with hk | hk
      · rw [hk] at hgl; cases hgl
      · rw [hk] at hgl
        rw [ex, headOp_isLinkOp] at hnl
        cases m <;> simp [Node.obs] at hgl
        cases hnl
    · exact hinv.noLinkAbove hg p hp hpe tg hgl
  · intro sp hs
    rw [ex] at hs
    obtain ⟨e, hmd, hml⟩ := headOp_srcOf _ _ _ _ hs
    subst e
    rw [plainPath_names]
    exact noLinkUpto_of_getAt (hinv.srcAt hlf hmd).1 hml

theorem DInv.goodAll {fs0 : Fs} {E : Node} {T : List Name} {d : Nat} {ops : List Op} {s : St}
    (h : DSpec fs0 E T d ops) (hinv : DInv fs0 E T ops s) (op : Op) (r : List Op)
    (htd : s.todo = op :: r) : GoodAllD ops s.fs op := by
  refine ⟨?_, hinv.plains h⟩
  have hopmem : op ∈ ops := hinv.mem op (by rw [htd]; simp)
  obtain ⟨rel, m, cp, hg, hl, ex, hlf⟩ := h.char op hopmem
  have htgt : opTarget op = some (plainPath (T ++ rel)) := by rw [ex, headOp_target]
  have htodo := hinv.todo
  rw [htd] at htodo
  refine ⟨?_, ⟨plainPath (T ++ rel), htgt, ?_, ?_, ?_, ?_⟩, ?_⟩
  · obtain ⟨es, hes⟩ := hinv.base
    obtain ⟨es', hes'⟩ := L0.getAt_prefix_dir hes List.nil_prefix
    simp only [getAt_nil, Option.some.injEq] at hes'
    rw [hes']; rfl
  · refine ⟨rfl, rfl, (plainPath_namesOnly _).2.2, ?_⟩
    rw [plainPath_names]
    intro p hp tg hgl
    by_cases hpe : p = T ++ rel
    · subst hpe
      have := hinv.fresh op (by rw [htd]; simp) _ htgt
      rw [plainPath_names] at this
      rw [this] at hgl
      cases hgl
    · exact hinv.noLinkAbove hg p hp hpe tg hgl
  · rw [plainPath_names]
    intro h0
    exact h.tne (List.append_eq_nil_iff.1 h0).1
  · rw [plainPath_names]
    simp only [List.length_append]
    have := h.lenT
    omega
  · exact htodo.1 _ htgt
  · intro sp hs
    rw [ex] at hs
    obtain ⟨e, hmd, hml⟩ := headOp_srcOf _ _ _ _ hs
    subst e
    have hsm : s.fs.root.getAt cp = some m := (hinv.srcAt hlf hmd).1
    refine ⟨⟨rfl, rfl, (plainPath_namesOnly _).2.2, ?_⟩, ?_⟩
    · rw [plainPath_names]; exact noLinkUpto_of_getAt hsm hml
    · rw [plainPath_names]; exact ⟨m, hsm⟩

/-! ## The set-up of the `-L` copy onto a fresh target -/

theorem deref_setup (fs : Fs) (c : Cfg) (hd : c.dereference = true) (hn : c.noClobber = false)
    (src tb : RPath) (s : SNode) (fuel : Nat)
    (hwf : FsEq fs fs)
    (hsrc : AbsNames src)
    (hder : derefS fs (fuel + 1) src.names [] = some s)
    (htb : PlainTarget fs tb) (hne : tb.names ≠ []) (habs : fs.root.getAt tb.names = none)
    (hpar : ∃ es, fs.root.getAt tb.names.dropLast = some (.dir es))
    (hlen : tb.names.length + fuel < 255) :
    walkEntry fs c none src tb (fuel + 1) [] [] = opsOfS s tb.names ∧
    DSpec fs s.erase tb.names (fuel + 1) (opsOfS s tb.names) ∧
    (opsOfS s tb.names).Nodup ∧
    DInv fs s.erase tb.names (opsOfS s tb.names) (L0.init fs (opsOfS s tb.names)) := by
  have htbE := plainTarget_eq fs tb htb
  have hsrcE := absNames_eq hsrc
  obtain ⟨pes, hpes⟩ := hpar
  have hroot : fs.root.isLink = false := root_not_link_of_dir hpes
  have hshape := walk_shape_deref fs c hd hn hroot src.names tb.names (fuel + 1) [] [] s (by simpa using hder)
  rw [← htbE, ← hsrcE] at hshape
  simp only [List.append_nil] at hshape
  obtain ⟨hcop, hsrcin⟩ := derefS_good fs hroot hwf.2.1 (fuel + 1) src.names [] s hder
  obtain ⟨haway, _⟩ := deref_reads_away fs src.names tb s (fuel + 1) hwf hroot hder hne habs ⟨pes, hpes⟩
  have hspec : DSpec fs s.erase tb.names (fuel + 1) (opsOfS s tb.names) := by
    refine ⟨?_, opsOfS_tgt_nodup _ s hcop _, hne, by omega⟩
    intro x hx
    obtain ⟨rel, m, cp, hg, hl, ex, hlf⟩ := mem_opsOfS (fuel + 1) s hcop tb.names x hx
    refine ⟨rel, m, cp, hg, hl, ex, ?_⟩
    intro hm
    have hmem := hlf hm
    obtain ⟨h1, _, h3⟩ := hsrcin _ hmem
    obtain ⟨u1, u2⟩ := haway _ hmem
    exact ⟨h1, h3, u2, u1⟩
  have htodo : TodoOK (DirsOf fs) (opsOfS s tb.names) :=
    todoOK_opsOfS (fuel + 1) s hcop tb.names (DirsOf fs) ⟨pes, hpes⟩
  exact ⟨hshape, hspec, nodup_of_nodup_map opTarget hspec.tnd, DInv.init hspec ⟨pes, hpes⟩ habs htodo⟩

end Xcp
