import XcpProofs.Overlay
/-! # Lemmas for `Clash`

The operations that FAIL on an existing plain target (a regular file's `create` and a special file's `unlink` on a
directory, `symlink` on anything that exists, `create_dir_all` on a regular file), and the induction over the source
tree next to the destination node: a destination of directories and regular files that is not `Compatible` with
the source makes some operation of the walk fail, whatever follows. -/
namespace Xcp

/-- nothing but directories and regular files at or below the node (path-wise form of `Node.plainTree`) -/
def PlainBelow (x : Node) : Prop := ∀ q y, x.getAt q = some y → y.isLink = false ∧ y.isSpecial = false

theorem PlainBelow.child {des : Entries} (h : PlainBelow (.dir des)) {m : Name} {y : Node}
    (hy : entGet des m = some y) : PlainBelow y := by
  intro q z hz
  apply h (m :: q) z
  rw [getAt_dir_cons, hy]
  exact hz

theorem PlainBelow.cases {x : Node} (h : PlainBelow x) : (∃ k, x = .file k) ∨ ∃ des, x = .dir des := by
  have h0 := h [] x (by simp)
  cases x with
  | file k => exact .inl ⟨k, rfl⟩
  | dir des => exact .inr ⟨des, rfl⟩
  | link t => simp [Node.isLink] at h0
  | special k d => simp [Node.isSpecial] at h0

/-! ## A failing operation ends the run -/

theorem execOps_cons_none (g : Fs) (c : Cfg) (op : Op) (r : List Op) (h : execOp g c op = none) :
    (execOps g c (op :: r)).exit = .err := by
  simp [execOps, h]

/-! ## The operations that fail on an existing plain target -/

/-- `File::create` on a directory: EISDIR -/
theorem execOp_copy_onto_dir (g : Fs) (c : Cfg) (sn tn : List Name) (es : Entries)
    (ht : g.root.getAt tn = some (.dir es)) (hlt : tn.length < 256) :
    execOp g c (.copy (plainPath sn) (plainPath tn)) = none := by
  have hr := resolve_plain_found g tn true _ hlt ht
    (fun p hp _ tg => noLinkUpto_of_getAt ht rfl p hp tg)
  simp only [execOp]
  cases Fs.contentOf g (plainPath sn) with
  | none => rfl
  | some k =>
    simp only
    split
    · rfl
    · simp [Fs.createFile, hr, ht, Except.toOption]

/-- `symlink` on anything that exists: EEXIST -/
theorem execOp_link_onto (g : Fs) (c : Cfg) (text : RPath) (tn : List Name) (x : Node)
    (ht : g.root.getAt tn = some x) (hlt : tn.length < 256) :
    execOp g c (.link text (plainPath tn)) = none := by
  have hr := resolve_plain_found g tn false _ hlt ht
    (fun p hp hor tg => noLinkAbove_of_getAt ht p hp (hor.elim id (fun h => by cases h)) tg)
  simp [execOp, Fs.symlink, hr, Except.toOption]

/-- a special file onto a directory: the `unlink` fails (EISDIR) -/
theorem execOp_special_onto_dir (g : Fs) (c : Cfg) (sn tn : List Name) (es : Entries)
    (ht : g.root.getAt tn = some (.dir es)) (hlt : tn.length < 256) :
    execOp g c (.special (plainPath sn) (plainPath tn)) = none := by
  have htt := stat_plain g tn _ hlt ht (noLinkUpto_of_getAt ht rfl)
  have hr := resolve_plain_found g tn false _ hlt ht
    (fun p hp _ tg => noLinkUpto_of_getAt ht rfl p hp tg)
  have hu : g.unlink (plainPath tn) = .error .EISDIR := by simp [Fs.unlink, hr, ht]
  simp only [execOp]
  split
  · simp only [Fs.exists, htt, Option.isSome_some, if_true, hu]
    split
    · rfl
    · split <;> rfl
  · rfl

/-- `create_dir_all` on a regular file: EEXIST, and it is not a directory -/
theorem execOp_mkdir_onto_file (g : Fs) (c : Cfg) (tn : List Name) (k : Nat)
    (ht : g.root.getAt tn = some (.file k)) (hne : tn ≠ []) (hlt : tn.length < 256) :
    execOp g c (.mkdir (plainPath tn)) = none := by
  have hl : NoLinkUpto g.root tn := noLinkUpto_of_getAt ht rfl
  have hma : g.mkdirAll (plainPath tn) = .error .EEXIST := by
    unfold Fs.mkdirAll
    split
    · rename_i he
      cases tn with
      | nil => exact absurd rfl hne
      | cons a b => simp [plainPath] at he
    · simp only [plainPath, ← List.map_reverse]
      cases hrev : tn.reverse with
      | nil =>
        have : tn = [] := by simpa using hrev
        exact absurd this hne
      | cons n rest =>
        have hns : (n :: rest).reverse = tn := by rw [← hrev, List.reverse_reverse]
        have hpp : (⟨true, (Comp.name n :: rest.map .name).reverse, false⟩ : RPath) = plainPath tn := by
          rw [← hns]; simp [plainPath]
        simp only [List.map_cons, Fs.mkdirAllAux]
        rw [hpp]
        have hr := resolve_plain_found g tn false _ hlt ht (fun p hp _ tg => hl p hp tg)
        have hs := stat_plain g tn _ hlt ht hl
        have hm : g.mkdir (plainPath tn) = .error .EEXIST := by simp [Fs.mkdir, hr]
        have hd : g.isDir (plainPath tn) = false := by simp [Fs.isDir, hs, Node.isDir]
        rw [hm]
        simp [hd]
  simp [execOp, hma, Except.toOption]

/-! ## The clash, by induction over the source tree -/

/-- a file, link or special file onto a clashing place made of directories and regular files -/
theorem exec_clash_leaf (c : Cfg) (n : Node) (hnd : n.isDir = false)
    (g : Fs) (sn tn : List Name) (x : Node) (rest : List Op)
    (ht : g.root.getAt tn = some x) (hpl : PlainBelow x) (hc : ¬ Compatible (some x) n)
    (hlt : tn.length < 256) :
    (execOps g c (opsOf n sn tn ++ rest)).exit = .err := by
  cases n with
  | dir es => cases hnd
  | link t =>
    simp only [opsOf, List.cons_append, List.nil_append]
    exact execOps_cons_none _ _ _ _ (execOp_link_onto g c t tn x ht hlt)
  | file k =>
    rcases hpl.cases with ⟨k', rfl⟩ | ⟨des, rfl⟩
    · exact absurd (by simp [Compatible, Node.compatible]) hc
    · simp only [opsOf, List.cons_append, List.nil_append]
      exact execOps_cons_none _ _ _ _ (execOp_copy_onto_dir g c sn tn des ht hlt)
  | special k dv =>
    rcases hpl.cases with ⟨k', rfl⟩ | ⟨des, rfl⟩
    · exact absurd (by simp [Compatible, Node.compatible]) hc
    · simp only [opsOf, List.cons_append, List.nil_append]
      exact execOps_cons_none _ _ _ _ (execOp_special_onto_dir g c sn tn des ht hlt)

theorem compatibleL_cons (des : Entries) (m : Name) (ch : Node) (r : List (Name × Node)) :
    compatibleL des ((m, ch) :: r) = (Node.compatible (entGet des m) ch && compatibleL des r) := by
  simp [compatibleL]

/-- running the operations of a copyable subtree found at `sn`, towards a place `tn` that holds a tree of
directories and regular files NOT compatible with it: some operation fails, so the run (whatever follows) does not
exit ok -/
theorem exec_clash (c : Cfg) (hn : c.noClobber = false) :
    ∀ (d : Nat) (n : Node), n.Copyable d →
      ∀ (g : Fs) (sn tn : List Name) (x : Node) (rest : List Op),
      g.root.getAt sn = some n → g.root.getAt tn = some x → tn ≠ [] → x.WF → PlainBelow x →
      ¬ Compatible (some x) n →
      ¬ sn <+: tn → ¬ tn <+: sn → sn.length + d < 256 → tn.length + d < 256 →
      (execOps g c (opsOf n sn tn ++ rest)).exit = .err := by
  intro d
  induction d with
  | zero =>
    intro n hcop g sn tn x rest _ ht _ _ hpl hc _ _ _ hl2
    have hnd : n.isDir = false := by
      cases n <;> simp [Node.Copyable] at hcop <;> rfl
    exact exec_clash_leaf c n hnd g sn tn x rest ht hpl hc (by omega)
  | succ d ih =>
    intro n hcop g sn tn x rest hs ht htne hw hpl hc h1 h2 hl1 hl2
    cases hnd : n.isDir with
    | false => exact exec_clash_leaf c n hnd g sn tn x rest ht hpl hc (by omega)
    | true =>
      cases n <;> simp [Node.isDir] at hnd
      rename_i es
      obtain ⟨d', hd', hndp, hch⟩ := copyable_dir hcop
      have hd'' : d' = d := by omega
      subst hd''
      rcases hpl.cases with ⟨k', rfl⟩ | ⟨des, rfl⟩
      · -- a directory onto a regular file
        simp only [opsOf, List.cons_append]
        exact execOps_cons_none _ _ _ _ (execOp_mkdir_onto_file g c tn k' ht htne (by omega))
      · -- a directory onto a directory: some child clashes
        have hcl : compatibleL des es = false := by
          cases hh : compatibleL des es with
          | false => rfl
          | true => exact absurd (by simpa [Compatible, Node.compatible] using hh) hc
        have hwx := hw
        rw [WF_dir] at hwx
        simp only [opsOf, List.cons_append]
        rw [execOps_cons_some _ _ _ _ _ (execOp_mkdir_over g c tn des ht (by omega))]
        have hassoc : ∀ a b : List Op, (a ++ b) ++ rest = a ++ (b ++ rest) :=
          fun a b => List.append_assoc a b rest
        have key : ∀ (post acc : Entries), (acc.map (·.1)).Nodup → (post.map (·.1)).Nodup →
            (∀ e ∈ post, e ∈ es) → (∀ e ∈ post, entGet acc e.1 = entGet des e.1) →
            compatibleL des post = false →
            (execOps { g with root := g.root.setAt tn (.dir acc) } c (opsOfL post sn tn ++ rest)).exit = .err := by
          intro post
          induction post with
          | nil => intro acc _ _ _ _ hf; simp [compatibleL] at hf
          | cons e post' ihp =>
            intro acc hna hnp hsub hag hf
            obtain ⟨m, ch⟩ := e
            have hmem : (m, ch) ∈ es := hsub _ List.mem_cons_self
            obtain ⟨u1, u2, u3, u4⟩ := unrel_child h1 h2 m
            simp only [List.map_cons, List.nodup_cons] at hnp
            have hs' : (g.root.setAt tn (.dir acc)).getAt (sn ++ [m]) = some ch := by
              rw [getAt_setAt_unrelated _ _ _ _ u1 u2, Node.getAt_append, hs]
              simp [getAt_dir_cons, entGet_of_mem es hndp (m, ch) hmem]
            have hp' : (g.root.setAt tn (.dir acc)).getAt tn = some (.dir acc) :=
              getAt_setAt_exists _ _ _ _ ht
            have hda : (g.root.setAt tn (.dir acc)).getAt (tn ++ [m]) = entGet acc m :=
              getAt_child _ _ m _ hp'
            have hag0 : entGet acc m = entGet des m := hag (m, ch) List.mem_cons_self
            have hls : (sn ++ [m]).length + d' < 256 := by
              simp only [List.length_append, List.length_cons, List.length_nil]; omega
            have hlt : (tn ++ [m]).length + d' < 256 := by
              simp only [List.length_append, List.length_cons, List.length_nil]; omega
            rw [opsOfL, hassoc]
            by_cases hcm : Compatible (entGet des m) ch
            · -- this child is an overlay step; a later one clashes
              have step := exec_overlay c hn d' ch (hch _ hmem) { g with root := g.root.setAt tn (.dir acc) }
                (sn ++ [m]) tn m acc (opsOfL post' sn tn ++ rest) hs' hp' hna
                (by intro y hy; rw [hda, hag0] at hy; exact hwx.2 m y hy)
                (by rw [hda, hag0]; exact hcm)
                u3 u4 hls (by omega)
              rw [step]
              show (execOps { g with root := (placeAt (g.root.setAt tn (.dir acc)) (tn ++ [m])
                ((g.root.setAt tn (.dir acc)).getAt (tn ++ [m])) ch) } c (opsOfL post' sn tn ++ rest)).exit = _
              rw [placeAt_child _ tn m acc _ ch hp', setAt_setAt_same]
              apply ihp
              · exact nodup_keys_entPut _ _ _ hna
              · exact hnp.2
              · exact fun e he => hsub e (List.mem_cons_of_mem _ he)
              · intro e he
                have hne : m ≠ e.1 := by
                  intro h
                  apply hnp.1
                  rw [h]
                  exact List.mem_map.2 ⟨e, he, rfl⟩
                rw [entGet_entPut_ne _ _ _ _ hne]
                exact hag e (List.mem_cons_of_mem _ he)
              · rw [compatibleL_cons] at hf
                have hcm' : Node.compatible (entGet des m) ch = true := hcm
                rw [hcm'] at hf
                simpa using hf
            · -- this child clashes
              cases hy : entGet des m with
              | none => rw [hy] at hcm; exact absurd (compatible_none ch) hcm
              | some y =>
                rw [hy] at hcm
                exact ih ch (hch _ hmem) { g with root := g.root.setAt tn (.dir acc) }
                  (sn ++ [m]) (tn ++ [m]) y (opsOfL post' sn tn ++ rest) hs'
                  (by rw [hda, hag0, hy]) (by simp) (hwx.2 m y hy) (hpl.child hy) hcm u3 u4 hls hlt
        have h0 : execOps g c (opsOfL es sn tn ++ rest) =
            execOps { g with root := g.root.setAt tn (.dir des) } c (opsOfL es sn tn ++ rest) := by
          rw [setAt_same _ _ _ ht]
        rw [h0]
        exact key es des hwx.1 hndp (fun _ h => h) (fun _ _ => rfl) hcl

end Xcp
