import XcpProofs.GiTree
import XcpProofs.NoClobberTree
import XcpProofs.GiConcLemmas
/-! # `--gitignore`, fresh destination, EVERY interleaving

The sequential theorem `mirror_fresh_gitignore` (the destination receives the source tree minus what the patterns
exclude) composed with the refinement theorem of the concurrent model `L0`: the operations the walker emits with
patterns in force are those of the pruned tree, reading from the places of the unpruned source tree; no interleaving
can make one of them fail, and every complete run ends with the pruned tree at the target
(`gitignore_fresh_concurrent_ok`).  With `--no-clobber` as well, every operation of every interleaving is executed on
a target that does not exist at that moment, so no existing entry is altered (`gitignore_noclobber_any_interleaving`,
the counterpart of `noclobber_tree_any_interleaving` with patterns). -/
namespace Xcp

open L0

/-- with `--gitignore` patterns `ps` in force: no interleaving can make an operation of a copy onto a fresh target
fail, and every complete run ends with the pruned source tree at the target -/
theorem gitignore_fresh_concurrent_ok (fs : Fs) (c : Cfg) (hd : c.dereference = false) (hn : c.noClobber = false)
    (ps : List Gi.Pattern)
    (src tb : RPath) (srcNode : Node) (fuel : Nat)
    (hwf : FsEq fs fs) (hroot : fs.root.isDir = true)
    (hsrc : PlainTarget fs src) (hsn : fs.root.getAt src.names = some srcNode)
    (hcop : srcNode.Copyable fuel)
    (htb : PlainTarget fs tb) (hne : tb.names ≠ []) (habs : fs.root.getAt tb.names = none)
    (hpar : ∃ es, fs.root.getAt tb.names.dropLast = some (.dir es))
    (hun1 : ¬ src.names <+: tb.names) (hun2 : ¬ tb.names <+: src.names)
    (hlen : src.names.length + fuel < 200 ∧ tb.names.length + fuel < 200)
    (ls : List Label) (st : St)
    (hrun : run c (init fs (walkEntry fs c (some ps) src tb (fuel + 1) [] [])) ls = some st) :
    st.failed = false ∧
    (final st = true → FsEq st.fs { fs with root := fs.root.setAt tb.names (Node.prune ps [] srcNode) }) := by
  obtain ⟨fs', hex, heq⟩ := mirror_fresh_gitignore fs c hd hn ps src tb srcNode fuel hwf hroot hsrc hsn hcop htb hne
    habs hpar hun1 hun2 hlen
  obtain ⟨hshape, hspec, hnd, hinit⟩ := gi_setup fs c hd ps src tb srcNode fuel hsrc hsn hcop htb hne habs hpar
    hun1 hun2 hlen
  rw [hshape] at hrun hex
  have hok : st.failed = false := (DInv.run hspec c ls _ st hinit hrun).ok
  refine ⟨hok, fun hfin => ?_⟩
  have hand : ∀ (ls : List Label) (s' : St) (op : Op) (r : List Op),
      run c (init fs (opsOf (Node.prune ps [] srcNode) src.names tb.names)) ls = some s' →
      s'.failed = false → s'.todo = op :: r → isSync op = false →
      GoodAllD (opsOf (Node.prune ps [] srcNode) src.names tb.names) s'.fs op := by
    intro ls s' op r hr _ htd _
    exact (DInv.run hspec c ls _ s' hinit hr).goodAll hspec op r htd
  obtain ⟨f, hf, hfe⟩ := fs_run_refines_sequentialD c fs _ hwf hnd hspec.pairIndep hand ls st hrun hfin hok
  rw [execOps_seqExec c _ fs fs' hex] at hf
  injection hf with hf
  subst hf
  exact hfe.symm.trans heq

/-- `--gitignore` and `--no-clobber` together: in EVERY reachable state of the concurrent model, whichever operation
completes next — and whichever directory the walker creates next — is executed on a target that does not exist at
that moment, and every entry that existed initially is still kept -/
theorem gitignore_noclobber_any_interleaving (fs : Fs) (c : Cfg) (hd : c.dereference = false)
    (hn : c.noClobber = true) (ps : List Gi.Pattern)
    (src tb : RPath) (srcNode : Node) (fuel : Nat)
    (hwf : FsEq fs fs) (hroot : fs.root.isDir = true)
    (hsrc : PlainTarget fs src) (hsn : fs.root.getAt src.names = some srcNode)
    (hcop : srcNode.Copyable fuel)
    (htb : PlainTarget fs tb) (hne : tb.names ≠ []) (habs : fs.root.getAt tb.names = none)
    (hpar : ∃ es, fs.root.getAt tb.names.dropLast = some (.dir es))
    (hun1 : ¬ src.names <+: tb.names) (hun2 : ¬ tb.names <+: src.names)
    (hlen : src.names.length + fuel < 200 ∧ tb.names.length + fuel < 200)
    (ls : List Label) (st : St)
    (hrun : run c (init fs (walkEntry fs c (some ps) src tb (fuel + 1) [] [])) ls = some st) :
    Preserved fs.root st.fs.root ∧
    (∀ op ∈ st.queue, ∀ t, opTarget op = some t → st.fs.lexists t = false) ∧
    (∀ op r, st.todo = op :: r → ∀ t, opTarget op = some t → st.fs.lexists t = false) := by
  have _ := hn
  have _ := hwf
  have _ := hroot
  obtain ⟨hshape, hspec, _, hinit⟩ := gi_setup fs c hd ps src tb srcNode fuel hsrc hsn hcop htb hne habs hpar
    hun1 hun2 hlen
  rw [hshape] at hrun
  obtain ⟨hinv, hpres⟩ := DInv.run_preserved hspec c ls _ st hinit hrun
  refine ⟨hpres, ?_, ?_⟩
  · intro op hop t ht
    exact hinv.pending_fresh hspec op (List.mem_append_left _ hop) t ht
  · intro op r htd t ht
    exact hinv.pending_fresh hspec op (List.mem_append_right _ (by rw [htd]; simp)) t ht

/-- … and no operation of such a run fails, with or without `--no-clobber` -/
theorem gitignore_fresh_never_fails (fs : Fs) (c : Cfg) (hd : c.dereference = false) (ps : List Gi.Pattern)
    (src tb : RPath) (srcNode : Node) (fuel : Nat)
    (hsrc : PlainTarget fs src) (hsn : fs.root.getAt src.names = some srcNode)
    (hcop : srcNode.Copyable fuel)
    (htb : PlainTarget fs tb) (hne : tb.names ≠ []) (habs : fs.root.getAt tb.names = none)
    (hpar : ∃ es, fs.root.getAt tb.names.dropLast = some (.dir es))
    (hun1 : ¬ src.names <+: tb.names) (hun2 : ¬ tb.names <+: src.names)
    (hlen : src.names.length + fuel < 200 ∧ tb.names.length + fuel < 200)
    (ls : List Label) (st : St)
    (hrun : run c (init fs (walkEntry fs c (some ps) src tb (fuel + 1) [] [])) ls = some st) :
    st.failed = false := by
  obtain ⟨hshape, hspec, _, hinit⟩ := gi_setup fs c hd ps src tb srcNode fuel hsrc hsn hcop htb hne habs hpar
    hun1 hun2 hlen
  rw [hshape] at hrun
  exact (DInv.run hspec c ls _ st hinit hrun).ok

end Xcp
