import XcpProofs.WalkMore
import XcpProofs.L0FsLemmas
/-! # Lemmas for the mirror theorem (fresh destination)

Exact tree algebra (`setAt` below a place just set), resolution of a plain path whose last component is missing,
the exact effect of each operation on a fresh plain target, the structural description `opsOf` of the operations a
walk emits for a subtree, and one-step unfoldings of `walkEntry` on plain paths. -/
namespace Xcp

/-! ## Entry lists -/

theorem entSet_entSet_same (es : Entries) (n : Name) (v w : Node) :
    entSet (entSet es n v) n w = entSet es n w := by
  induction es with
  | nil => simp [entSet]
  | cons kv r ih =>
    obtain ⟨k, x⟩ := kv
    by_cases hk : k = n
    · simp [entSet, hk]
    · simp [entSet, hk, ih]

theorem entSet_fresh (es : Entries) (n : Name) (v : Node) (h : n ∉ es.map (·.1)) :
    entSet es n v = es ++ [(n, v)] := by
  induction es with
  | nil => rfl
  | cons kv r ih =>
    obtain ⟨k, x⟩ := kv
    simp only [List.map_cons, List.mem_cons, not_or] at h
    have hk : ¬ k = n := fun e => h.1 e.symm
    simp [entSet, hk, ih h.2]

theorem entGet_of_mem (es : Entries) (h : (es.map (·.1)).Nodup) (e : Name × Node) (he : e ∈ es) :
    entGet es e.1 = some e.2 := by
  induction es with
  | nil => cases he
  | cons kv r ih =>
    obtain ⟨k, x⟩ := kv
    simp only [List.map_cons, List.nodup_cons] at h
    cases he with
    | head => simp [entGet]
    | tail _ hm =>
      have hk : ¬ k = e.1 := by
        intro hk
        apply h.1
        rw [hk]
        exact List.mem_map.2 ⟨e, hm, rfl⟩
      simp only [entGet, hk, if_false]
      exact ih h.2 hm

/-! ## Exact tree algebra -/

/-- setting below a place that was just set is setting inside the value written -/
theorem setAt_setAt_below (v w : Node) (s : List Name) : ∀ (t : List Name) (r : Node),
    (r.setAt t v).setAt (t ++ s) w = r.setAt t (v.setAt s w) := by
  intro t
  induction t with
  | nil => intro r; simp
  | cons n t' ih =>
    intro r
    cases hd : r.isDir with
    | false =>
      rw [setAt_nondir _ _ _ _ hd, List.cons_append, setAt_nondir _ _ _ _ hd, setAt_nondir _ _ _ _ hd]
    | true =>
      cases r <;> simp [Node.isDir] at hd
      rename_i es
      cases t' with
      | nil =>
        rw [setAt_dir_single, setAt_dir_single]
        cases s with
        | nil => simp [setAt_dir_single, entSet_entSet_same]
        | cons m s' =>
          simp only [List.cons_append, List.nil_append]
          rw [setAt_dir_cons, entGet_entSet_self]
          simp [entSet_entSet_same]
      | cons m' t'' =>
        rw [setAt_dir_cons, setAt_dir_cons]
        cases hc : entGet es n with
        | none =>
          simp only [List.cons_append]
          rw [setAt_dir_cons, hc]
        | some c =>
          simp only [List.cons_append]
          rw [setAt_dir_cons, entGet_entSet_self]
          simp only [entSet_entSet_same]
          have := ih c
          simp only [List.cons_append] at this
          rw [this]

/-- adding a new name to a directory just written -/
theorem setAt_dir_push (r : Node) (t : List Name) (pre : Entries) (m : Name) (ch : Node)
    (hm : m ∉ pre.map (·.1)) :
    (r.setAt t (.dir pre)).setAt (t ++ [m]) ch = r.setAt t (.dir (pre ++ [(m, ch)])) := by
  rw [setAt_setAt_below, setAt_dir_single, entSet_fresh _ _ _ hm]

/-! ## Links and existing paths -/

theorem noLinkAbove_of_getAt {r : Node} {ns : List Name} {x : Node} (h : r.getAt ns = some x) :
    NoLinkAbove r ns := by
  intro p hp hne tg hg
  obtain ⟨s, hs⟩ := hp
  subst hs
  rw [Node.getAt_append, hg] at h
  cases s with
  | nil => exact hne (by simp)
  | cons a s' => simp [getAt_nondir _ _ _ (rfl : (Node.link tg).isDir = false)] at h

theorem noLinkUpto_of_getAt {r : Node} {ns : List Name} {x : Node} (h : r.getAt ns = some x)
    (hx : x.isLink = false) : NoLinkUpto r ns := by
  intro p hp tg hg
  by_cases hpe : p = ns
  · subst hpe
    rw [h] at hg
    injection hg with hg
    subst hg
    cases hx
  · exact noLinkAbove_of_getAt h p hp hpe tg hg

/-! ## A plain path whose last component is missing -/

@[simp] theorem plainPath_trail (ns : List Name) : (plainPath ns).trail = false := rfl
@[simp] theorem plainPath_abs (ns : List Name) : (plainPath ns).abs = true := rfl

theorem walkPath_plain_missing (root : Node) (fl : Bool) (n : Name) :
    ∀ (ns : List Name) (fuel : Nat) (cur : List Name) (es : Entries), ns.length < fuel →
      root.getAt (cur ++ ns) = some (.dir es) → root.getAt (cur ++ ns ++ [n]) = none →
      walkPath root fl fuel cur ((ns ++ [n]).map .name) = .missing (cur ++ ns) n := by
  intro ns
  induction ns with
  | nil =>
    intro fuel cur es hf _ hn
    cases fuel with
    | zero => cases hf
    | succ f =>
      simp only [List.append_nil] at hn
      simp [walkPath, hn]
  | cons a r ih =>
    intro fuel cur es hf hx hn
    cases fuel with
    | zero => cases hf
    | succ f =>
      have hf' : r.length < f := by simp only [List.length_cons] at hf; omega
      have hx' : root.getAt ((cur ++ [a]) ++ r) = some (.dir es) := by simpa using hx
      have hn' : root.getAt ((cur ++ [a]) ++ r ++ [n]) = none := by simpa using hn
      have hxb := hx'
      rw [Node.getAt_append] at hxb
      simp only [List.cons_append, List.map_cons, walkPath]
      cases hg : root.getAt (cur ++ [a]) with
      | none => simp [hg] at hxb
      | some y =>
        simp only [hg, Option.bind_some] at hxb
        have hyd : ∃ es', y = .dir es' := by
          cases r with
          | nil => simp only [getAt_nil, Option.some.injEq] at hxb; exact ⟨es, hxb⟩
          | cons m r' =>
            obtain ⟨es', _, hy, _, _⟩ := Node.getAt_cons_some hxb
            exact ⟨es', hy⟩
        obtain ⟨es', hy⟩ := hyd
        subst hy
        have := ih f (cur ++ [a]) es hf' hx' hn'
        simpa using this

theorem resolve_plain_missing (g : Fs) (par : List Name) (n : Name) (fl : Bool) (es : Entries)
    (hlen : par.length < 256) (hp : g.root.getAt par = some (.dir es))
    (hn : g.root.getAt (par ++ [n]) = none) :
    g.resolve (plainPath (par ++ [n])) fl = .missing par n := by
  have hw := walkPath_plain_missing g.root fl n par resolveFuel [] es hlen (by simpa using hp) (by simpa using hn)
  simp only [List.nil_append, List.map_append, List.map_cons, List.map_nil] at hw
  simp [Fs.resolve, plainPath, hw]

theorem stat_none_of_missing (g : Fs) (p : RPath) (par : List Name) (n : Name)
    (h : g.resolve p true = .missing par n) : g.stat p = none := by
  simp [Fs.stat, h]

/-- nothing at a plain path, and no link above it: `lstat` finds nothing -/
theorem lexists_false_of_absent (g : Fs) (ns : List Name) (hl : NoLinkAbove g.root ns)
    (h : g.root.getAt ns = none) : g.lexists (plainPath ns) = false := by
  rcases resolve_plain_nofollow g ns hl with hr | ⟨par, n, hr, _⟩ | ⟨e, hr⟩ <;> simp [Fs.lexists, Fs.lstat, hr, h]

/-! ## The exact effect of each operation on a fresh plain target -/

theorem execOp_copy_fresh (g : Fs) (c : Cfg) (sn par : List Name) (nm : Name) (k : Nat) (es : Entries)
    (hs : g.root.getAt sn = some (.file k)) (hls : sn.length < 256) (hlt : par.length < 256)
    (hp : g.root.getAt par = some (.dir es)) (hn : g.root.getAt (par ++ [nm]) = none) :
    execOp g c (.copy (plainPath sn) (plainPath (par ++ [nm]))) =
      some { g with root := g.root.setAt (par ++ [nm]) (.file k) } := by
  have hst := stat_plain g sn _ hls hs (noLinkUpto_of_getAt hs rfl)
  have hr := resolve_plain_missing g par nm true es hlt hp hn
  have hnone := stat_none_of_missing g _ par nm hr
  simp [execOp, Fs.contentOf, hst, Fs.exists, hnone, Fs.createFile, hr, Except.toOption]

theorem execOp_link_fresh (g : Fs) (c : Cfg) (text : RPath) (par : List Name) (nm : Name) (es : Entries)
    (hlt : par.length < 256)
    (hp : g.root.getAt par = some (.dir es)) (hn : g.root.getAt (par ++ [nm]) = none) :
    execOp g c (.link text (plainPath (par ++ [nm]))) =
      some { g with root := g.root.setAt (par ++ [nm]) (.link text) } := by
  have hr := resolve_plain_missing g par nm false es hlt hp hn
  simp [execOp, Fs.symlink, hr, Except.toOption]

theorem execOp_special_fresh (g : Fs) (c : Cfg) (sn par : List Name) (nm : Name) (k : FileKind) (d : Nat)
    (es : Entries)
    (hs : g.root.getAt sn = some (.special k d)) (hls : sn.length < 256) (hlt : par.length < 256)
    (hp : g.root.getAt par = some (.dir es)) (hn : g.root.getAt (par ++ [nm]) = none) :
    execOp g c (.special (plainPath sn) (plainPath (par ++ [nm]))) =
      some { g with root := g.root.setAt (par ++ [nm]) (.special k d) } := by
  have hst := stat_plain g sn _ hls hs (noLinkUpto_of_getAt hs rfl)
  have hr := resolve_plain_missing g par nm true es hlt hp hn
  have hr' := resolve_plain_missing g par nm false es hlt hp hn
  have hnone := stat_none_of_missing g _ par nm hr
  simp [execOp, hst, Fs.exists, hnone, Fs.mknod, hr', Except.toOption]

theorem mkdirAll_of_mkdir_ok (g : Fs) (p : RPath) (g' : Fs) (hne : p.comps ≠ []) (ht : p.trail = false)
    (h : g.mkdir p = .ok g') : g.mkdirAll p = .ok g' := by
  unfold Fs.mkdirAll
  have he : p.comps.isEmpty = false := by
    cases hc : p.comps with
    | nil => exact absurd hc hne
    | cons a b => rfl
  rw [he]
  simp only [Bool.false_eq_true, if_false]
  cases hrev : p.comps.reverse with
  | nil =>
    have : p.comps = [] := by simpa using hrev
    exact absurd this hne
  | cons c rest =>
    have hpp : (⟨p.abs, (c :: rest).reverse, false⟩ : RPath) = p := by
      rw [← hrev, List.reverse_reverse, ← ht]
    simp only [Fs.mkdirAllAux]
    rw [hpp, h]

theorem execOp_mkdir_fresh (g : Fs) (c : Cfg) (par : List Name) (nm : Name) (es : Entries)
    (hlt : par.length < 256)
    (hp : g.root.getAt par = some (.dir es)) (hn : g.root.getAt (par ++ [nm]) = none) :
    execOp g c (.mkdir (plainPath (par ++ [nm]))) =
      some { g with root := g.root.setAt (par ++ [nm]) (.dir []) } := by
  have hr := resolve_plain_missing g par nm false es hlt hp hn
  have hm : g.mkdir (plainPath (par ++ [nm])) = .ok { g with root := g.root.setAt (par ++ [nm]) (.dir []) } := by
    simp [Fs.mkdir, hr]
  simp only [execOp]
  rw [mkdirAll_of_mkdir_ok g _ _ (by simp [plainPath]) rfl hm]
  rfl

/-! ## The operations of a walk over a subtree, structurally -/

mutual
/-- the operations the walk emits for the subtree `n` found at the plain source path `sn`, to be placed at the
plain target path `tn`: the entry itself, then its children in directory order -/
def opsOf : Node → List Name → List Name → List Op
  | .file _, sn, tn => [.copy (plainPath sn) (plainPath tn)]
  | .link t, _, tn => [.link t (plainPath tn)]
  | .special _ _, sn, tn => [.special (plainPath sn) (plainPath tn)]
  | .dir es, sn, tn => .mkdir (plainPath tn) :: opsOfL es sn tn
def opsOfL : List (Name × Node) → List Name → List Name → List Op
  | [], _, _ => []
  | (m, ch) :: r, sn, tn => opsOf ch (sn ++ [m]) (tn ++ [m]) ++ opsOfL r sn tn
end

/-! ## `walkEntry` on plain paths, one step -/

theorem relJoin_plain (ns rel : List Name) : relJoin (plainPath ns) rel = plainPath (ns ++ rel) := by
  cases rel with
  | nil => simp [relJoin]
  | cons a r => simp [relJoin, plainPath]

theorem walkEntry_file (fs : Fs) (c : Cfg) (hd : c.dereference = false) (src tb : RPath) (rel : List Name)
    (hn : c.noClobber = false ∨ fs.lexists (relJoin tb rel) = false)
    (f : Nat) (anc : List (List Name)) (cp : List Name) (k : Nat)
    (hl : fs.lstat (relJoin src rel) = some (cp, .file k)) :
    walkEntry fs c none src tb (f + 1) rel anc = [.copy (relJoin src rel) (relJoin tb rel)] := by
  rcases hn with hn | hn <;> simp [walkEntry, hd, hn, hl, Node.kind, classifyKind, Node.isLink]

theorem walkEntry_special (fs : Fs) (c : Cfg) (hd : c.dereference = false) (src tb : RPath) (rel : List Name)
    (hn : c.noClobber = false ∨ fs.lexists (relJoin tb rel) = false)
    (f : Nat) (anc : List (List Name)) (cp : List Name) (k : FileKind) (d : Nat)
    (hk : k = .socket ∨ k = .chr ∨ k = .fifo)
    (hl : fs.lstat (relJoin src rel) = some (cp, .special k d)) :
    walkEntry fs c none src tb (f + 1) rel anc = [.special (relJoin src rel) (relJoin tb rel)] := by
  rcases hn with hn | hn <;> rcases hk with hk | hk | hk <;> subst hk <;>
    simp [walkEntry, hd, hn, hl, Node.kind, classifyKind, Node.isLink]

theorem walkEntry_link (fs : Fs) (c : Cfg) (hd : c.dereference = false) (src tb : RPath) (rel : List Name)
    (hn : c.noClobber = false ∨ fs.lexists (relJoin tb rel) = false)
    (f : Nat) (anc : List (List Name)) (cp : List Name) (t : RPath)
    (hrel : rel ≠ [])
    (hl : fs.lstat (relJoin src rel) = some (cp, .link t)) :
    walkEntry fs c none src tb (f + 1) rel anc = [.link t (relJoin tb rel)] := by
  rcases hn with hn | hn <;> simp [walkEntry, hd, hn, hl, Node.kind, classifyKind, Node.isLink, hrel]

theorem walkEntry_dir (fs : Fs) (c : Cfg) (hd : c.dereference = false) (src tb : RPath) (rel : List Name)
    (hn : c.noClobber = false ∨ fs.lexists (relJoin tb rel) = false)
    (f : Nat) (anc : List (List Name)) (cp : List Name) (es es' : Entries)
    (hl : fs.lstat (relJoin src rel) = some (cp, .dir es)) (hg : fs.root.getAt cp = some (.dir es')) :
    walkEntry fs c none src tb (f + 1) rel anc =
      .mkdir (relJoin tb rel) ::
        (es'.map (·.1)).flatMap fun n => walkEntry fs c none src tb f (rel ++ [n]) (cp :: anc) := by
  rcases hn with hn | hn <;> simp [walkEntry, hd, hn, hl, hg, Node.kind, classifyKind, Node.isLink]

end Xcp
