import XcpProofs.Mirror
import XcpProofs.GiTreeLemmas
/-! # `--gitignore`, tree level: the destination is exactly the source tree minus the excluded entries

`walkEntry` with `gi = some ps` emits, for a copyable source tree, exactly the operations of the PRUNED tree
(`walk_shape_gi`), and executing them into a fresh destination leaves exactly the pruned tree there
(`mirror_fresh_gitignore`).

About the `isDir` flag.  The walker tests an entry with `giIsDir fs c epath`: the entry's own type as `lstat` reports
it, a symbolic link counting as a directory only with `--dereference` (and then only if it leads to one).  All
theorems here have `c.dereference = false`, so the flag of an entry is `Node.isDir` of its node
(`giIsDir_of_lstat`) and the pruned tree `Node.prune ps rel n` is a function of the source tree alone: no
file-system argument, no restriction on links.  The hypotheses on excluded entries are stated both ways where it
matters (`Node.isDir` of the node in the tree; `giIsDir` as the walker computes it). -/
namespace Xcp

/-! ## Shape of the walk with patterns -/

/-- the non-directory cases of `walk_shape_gi` (any fuel) -/
theorem walk_leaf_gi (fs : Fs) (c : Cfg) (ps : List Gi.Pattern) (hd : c.dereference = false) (sn0 tn0 : List Name)
    (hn : c.noClobber = false ∨ ∀ rel, fs.lexists (relJoin (plainPath tn0) rel) = false)
    (d f : Nat) (n : Node) (hc : n.Copyable d) (hnd : n.isDir = false) (rel : List Name) (anc : List (List Name))
    (hg : fs.root.getAt (sn0 ++ rel) = some n) (hlk : n.isLink = true → rel ≠ [])
    (hlen : sn0.length + rel.length + d < 256)
    (hk : GiPass ps rel n) :
    walkEntry fs c (some ps) (plainPath sn0) (plainPath tn0) (f + 1) rel anc = opsOf n (sn0 ++ rel) (tn0 ++ rel) := by
  have hn' : c.noClobber = false ∨ fs.lexists (relJoin (plainPath tn0) rel) = false := hn.imp id (fun h => h rel)
  have hls := lstat_plain fs (sn0 ++ rel) n (by simp only [List.length_append]; omega) hg (noLinkAbove_of_getAt hg)
  rw [← relJoin_plain] at hls
  cases n with
  | file k => rw [walkEntry_file_gi fs c ps hd _ _ _ hn' _ _ _ k hk hls]; simp [opsOf, relJoin_plain]
  | link t => rw [walkEntry_link_gi fs c ps hd _ _ _ hn' _ _ _ t (hlk rfl) hk hls]; simp [opsOf, relJoin_plain]
  | special k dv =>
    rw [walkEntry_special_gi fs c ps hd _ _ _ hn' _ _ _ k dv (by simpa [Node.Copyable] using hc) hk hls]
    simp [opsOf, relJoin_plain]
  | dir es => simp [Node.isDir] at hnd

/-- the walk with patterns `ps` over a plain source designating a copyable subtree emits exactly the operations of
the pruned subtree — for the root (`rel = []`) always, below the root for an entry the patterns keep. -/
theorem walk_shape_gi (fs : Fs) (c : Cfg) (ps : List Gi.Pattern) (hd : c.dereference = false) (sn0 tn0 : List Name)
    (hn : c.noClobber = false ∨ ∀ rel, fs.lexists (relJoin (plainPath tn0) rel) = false) :
    ∀ (d : Nat) (n : Node), n.Copyable d → ∀ (rel : List Name) (anc : List (List Name)),
      fs.root.getAt (sn0 ++ rel) = some n → (n.isLink = true → rel ≠ []) → sn0.length + rel.length + d < 256 →
      (rel = [] ∨ Gi.keeps ps rel n.isDir = true) →
      walkEntry fs c (some ps) (plainPath sn0) (plainPath tn0) (d + 1) rel anc =
        opsOf (Node.prune ps rel n) (sn0 ++ rel) (tn0 ++ rel) := by
  intro d
  induction d with
  | zero =>
    intro n hc rel anc hg hlk hlen hk
    have hnd : n.isDir = false := by
      cases n with
      | dir es => simp [Node.Copyable] at hc
      | _ => rfl
    rw [prune_nondir _ _ _ hnd]
    exact walk_leaf_gi fs c ps hd sn0 tn0 hn 0 0 n hc hnd rel anc hg hlk hlen hk
  | succ d ih =>
    intro n hc rel anc hg hlk hlen hk
    cases hnd : n.isDir with
    | false =>
      rw [prune_nondir _ _ _ hnd]
      exact walk_leaf_gi fs c ps hd sn0 tn0 hn (d + 1) (d + 1) n hc hnd rel anc hg hlk hlen hk
    | true =>
      cases n <;> simp [Node.isDir] at hnd
      rename_i es
      have hn' : c.noClobber = false ∨ fs.lexists (relJoin (plainPath tn0) rel) = false := hn.imp id (fun h => h rel)
      have hls := lstat_plain fs (sn0 ++ rel) _ (by simp only [List.length_append]; omega) hg (noLinkAbove_of_getAt hg)
      rw [← relJoin_plain] at hls
      obtain ⟨d', hd', hndp, hch⟩ := copyable_dir hc
      have hd'' : d' = d := by omega
      subst hd''
      rw [walkEntry_dir_gi fs c ps hd _ _ _ hn' _ _ _ es es hk hls hg]
      simp only [Node.prune, opsOf, relJoin_plain]
      congr 1
      -- the children, one by one: kept ones give their pruned operations, excluded ones nothing
      have key : ∀ (l : List (Name × Node)), (∀ e ∈ l, e ∈ es) →
          ((l.map (·.1)).flatMap fun m =>
            walkEntry fs c (some ps) (plainPath sn0) (plainPath tn0) (d' + 1) (rel ++ [m]) ((sn0 ++ rel) :: anc)) =
          opsOfL (pruneL ps rel l) (sn0 ++ rel) (tn0 ++ rel) := by
        intro l
        induction l with
        | nil => intro _; simp [pruneL, opsOfL]
        | cons e r ihl =>
          intro hsub
          obtain ⟨m, ch⟩ := e
          have hmem : (m, ch) ∈ es := hsub _ List.mem_cons_self
          have hget : fs.root.getAt (sn0 ++ (rel ++ [m])) = some ch := by
            rw [← List.append_assoc, Node.getAt_append, hg]
            simp [getAt_dir_cons, entGet_of_mem es hndp (m, ch) hmem]
          have ihr := ihl (fun e he => hsub e (List.mem_cons_of_mem _ he))
          simp only [List.map_cons, List.flatMap_cons]
          rw [ihr]
          cases hkp : Gi.keeps ps (rel ++ [m]) ch.isDir with
          | true =>
            have := ih ch (hch _ hmem) (rel ++ [m]) ((sn0 ++ rel) :: anc) hget (fun _ => by simp)
              (by simp only [List.length_append, List.length_cons, List.length_nil]; omega) (.inr hkp)
            rw [this, pruneL_cons_keep _ _ _ _ _ hkp]
            simp [opsOfL, List.append_assoc]
          | false =>
            have hls' := lstat_plain fs (sn0 ++ (rel ++ [m])) ch
              (by simp only [List.length_append, List.length_cons, List.length_nil]; omega) hget
              (noLinkAbove_of_getAt hget)
            rw [← relJoin_plain] at hls'
            rw [walkEntry_excluded_gi fs c ps hd _ _ _ _ _ _ ch (by simp) hkp hls', pruneL_cons_drop _ _ _ _ _ hkp]
            simp
      exact key es (fun _ h => h)

/-! ## The mirror theorem with patterns -/

/-- MIRROR with `--gitignore` (fresh destination).  Same hypotheses as `mirror_fresh`, any pattern list `ps`.  The
sequential execution of the walk's operations succeeds and the resulting tree is the old one with the PRUNED source
tree placed at `tb` (up to the order of directory entries): the source tree minus exactly the entries the walker's
test excludes (with everything below them); nothing else is touched. -/
theorem mirror_fresh_gitignore (fs : Fs) (c : Cfg) (hd : c.dereference = false) (hn : c.noClobber = false)
    (ps : List Gi.Pattern)
    (src tb : RPath) (srcNode : Node) (fuel : Nat)
    (hwf : FsEq fs fs) (hroot : fs.root.isDir = true)
    (hsrc : PlainTarget fs src) (hsn : fs.root.getAt src.names = some srcNode)
    (hcop : srcNode.Copyable fuel)
    (htb : PlainTarget fs tb) (hne : tb.names ≠ []) (habs : fs.root.getAt tb.names = none)
    (hpar : ∃ es, fs.root.getAt tb.names.dropLast = some (.dir es))
    (hun1 : ¬ src.names <+: tb.names) (hun2 : ¬ tb.names <+: src.names)
    (hlen : src.names.length + fuel < 200 ∧ tb.names.length + fuel < 200) :
    ∃ fs', execOps fs c (walkEntry fs c (some ps) src tb (fuel + 1) [] []) = ⟨.ok, fs'⟩ ∧
      FsEq fs' { fs with root := fs.root.setAt tb.names (Node.prune ps [] srcNode) } := by
  have _ := hroot
  have hsrcE := plainTarget_eq fs src hsrc
  have htbE := plainTarget_eq fs tb htb
  have hnl : srcNode.isLink = false := by
    cases srcNode with
    | link t => exact absurd hsn (hsrc.2.2.2 src.names (List.prefix_refl _) t)
    | _ => rfl
  obtain ⟨pes, hpes⟩ := hpar
  rcases List.eq_nil_or_concat tb.names with h0 | ⟨par, nm, h0⟩
  · exact absurd h0 hne
  simp only [List.concat_eq_append] at h0
  rw [h0, List.dropLast_concat] at hpes
  rw [h0] at habs hun1 hun2
  have hlt : par.length + 1 + fuel < 256 := by
    have := hlen.2
    rw [h0] at this
    simp only [List.length_append, List.length_cons, List.length_nil] at this
    omega
  -- the shape of the walk
  have hshape := walk_shape_gi fs c ps hd src.names tb.names (.inl hn) fuel srcNode hcop [] []
    (by simpa using hsn) (fun h => by rw [hnl] at h; cases h) (by simp only [List.length_nil]; omega) (.inl rfl)
  rw [← hsrcE, ← htbE] at hshape
  simp only [List.append_nil] at hshape
  -- its execution: the copy operations of the pruned tree find their sources in the unpruned one
  have hexec := exec_opsOf_sub c fuel _ (copyable_prune ps fuel srcNode hcop [])
    fs src.names par nm pes []
    (by
      intro rel x hx hxd
      rw [Node.getAt_append, hsn]
      exact getAt_prune_leaf ps rel fuel srcNode [] x hcop hx hxd)
    hpes habs hun1 hun2 (by omega) hlt
  rw [List.append_nil] at hexec
  refine ⟨{ fs with root := fs.root.setAt tb.names (Node.prune ps [] srcNode) }, ?_, ?_⟩
  · rw [hshape, h0, hexec]
    rfl
  · have hsw : srcNode.WF := by
      intro q es hq
      apply hwf.2.1 (src.names ++ q) es
      rw [Node.getAt_append, hsn]
      exact hq
    have hpw := prune_WF ps fuel srcNode [] hcop hsw
    exact ⟨rfl, setAt_WF _ hpw _ _ hwf.2.1, setAt_WF _ hpw _ _ hwf.2.1, SameObs.refl _⟩

/-! ## Corollaries -/

/-- (a), general: an entry of the source tree (at any depth: `rel ++ [m]` below the source root) that the patterns
exclude is absent from the destination, with everything below it — even entries that a later negated pattern would
re-include. -/
theorem excluded_entry_absent (fs : Fs) (c : Cfg) (hd : c.dereference = false) (hn : c.noClobber = false)
    (ps : List Gi.Pattern)
    (src tb : RPath) (srcNode : Node) (fuel : Nat)
    (hwf : FsEq fs fs) (hroot : fs.root.isDir = true)
    (hsrc : PlainTarget fs src) (hsn : fs.root.getAt src.names = some srcNode)
    (hcop : srcNode.Copyable fuel)
    (htb : PlainTarget fs tb) (hne : tb.names ≠ []) (habs : fs.root.getAt tb.names = none)
    (hpar : ∃ es, fs.root.getAt tb.names.dropLast = some (.dir es))
    (hun1 : ¬ src.names <+: tb.names) (hun2 : ¬ tb.names <+: src.names)
    (hlen : src.names.length + fuel < 200 ∧ tb.names.length + fuel < 200)
    (rel : List Name) (m : Name) (ch : Node) (below : List Name)
    (hch : srcNode.getAt (rel ++ [m]) = some ch)
    (hx : Gi.keeps ps (rel ++ [m]) ch.isDir = false) :
    ∃ fs', execOps fs c (walkEntry fs c (some ps) src tb (fuel + 1) [] []) = ⟨.ok, fs'⟩ ∧
      fs'.root.getAt (tb.names ++ (rel ++ [m]) ++ below) = none := by
  obtain ⟨fs', hex, heq⟩ := mirror_fresh_gitignore fs c hd hn ps src tb srcNode fuel hwf hroot hsrc hsn hcop htb
    hne habs hpar hun1 hun2 hlen
  refine ⟨fs', hex, ?_⟩
  have hso := heq.2.2.2 (tb.names ++ (rel ++ [m]) ++ below)
  -- the place in the reference tree
  obtain ⟨pes, hpes⟩ := hpar
  rcases List.eq_nil_or_concat tb.names with h0 | ⟨par, nm, h0⟩
  · exact absurd h0 hne
  simp only [List.concat_eq_append] at h0
  rw [h0, List.dropLast_concat] at hpes
  have hnone : (Node.prune ps [] srcNode).getAt (rel ++ [m] ++ below) = none :=
    getAt_prune_excluded ps fuel srcNode hcop [] rel m ch below hch (by simpa using hx)
  have href : (fs.root.setAt tb.names (Node.prune ps [] srcNode)).getAt
      (tb.names ++ (rel ++ [m]) ++ below) = none := by
    rw [List.append_assoc, Node.getAt_append, h0, getAt_setAt_child _ nm par fs.root pes hpes]
    exact hnone
  simp only [obsAt, href, Option.map_none] at hso
  cases hg : fs'.root.getAt (tb.names ++ (rel ++ [m]) ++ below) with
  | none => rfl
  | some x => rw [hg] at hso; simp at hso

/-- (a), as asked, with the flag as the walker computes it (`giIsDir`): a child `m` of the source root that the
patterns exclude is not at the destination -/
theorem excluded_child_absent (fs : Fs) (c : Cfg) (hd : c.dereference = false) (hn : c.noClobber = false)
    (ps : List Gi.Pattern)
    (src tb : RPath) (srcNode : Node) (fuel : Nat)
    (hwf : FsEq fs fs) (hroot : fs.root.isDir = true)
    (hsrc : PlainTarget fs src) (hsn : fs.root.getAt src.names = some srcNode)
    (hcop : srcNode.Copyable fuel)
    (htb : PlainTarget fs tb) (hne : tb.names ≠ []) (habs : fs.root.getAt tb.names = none)
    (hpar : ∃ es, fs.root.getAt tb.names.dropLast = some (.dir es))
    (hun1 : ¬ src.names <+: tb.names) (hun2 : ¬ tb.names <+: src.names)
    (hlen : src.names.length + fuel < 200 ∧ tb.names.length + fuel < 200)
    (m : Name) (ch : Node) (hch : srcNode.getAt [m] = some ch)
    (hx : Gi.keeps ps [m] (giIsDir fs c (relJoin src [m])) = false) :
    ∃ fs', execOps fs c (walkEntry fs c (some ps) src tb (fuel + 1) [] []) = ⟨.ok, fs'⟩ ∧
      fs'.root.getAt (tb.names ++ [m]) = none ∧ obsAt fs'.root (tb.names ++ [m]) = none := by
  -- the walker's flag for `m` is the type of the node `ch`
  have hsrcE := plainTarget_eq fs src hsrc
  have hget : fs.root.getAt (src.names ++ [m]) = some ch := by rw [Node.getAt_append, hsn]; exact hch
  have hls := lstat_plain fs (src.names ++ [m]) ch
    (by simp only [List.length_append, List.length_cons, List.length_nil]; omega) hget (noLinkAbove_of_getAt hget)
  rw [← relJoin_plain, ← hsrcE] at hls
  rw [giIsDir_of_lstat fs c hd _ _ _ hls] at hx
  obtain ⟨fs', hex, hno⟩ := excluded_entry_absent fs c hd hn ps src tb srcNode fuel hwf hroot hsrc hsn hcop htb hne
    habs hpar hun1 hun2 hlen [] m ch [] (by simpa using hch) (by simpa using hx)
  have hno' : fs'.root.getAt (tb.names ++ [m]) = none := by simpa using hno
  exact ⟨fs', hex, hno', by simp [obsAt, hno']⟩

/-- the converse: a child of the source root that the patterns keep IS at the destination, as the same kind of
object (pruned in turn if it is a directory) -/
theorem kept_child_present (fs : Fs) (c : Cfg) (hd : c.dereference = false) (hn : c.noClobber = false)
    (ps : List Gi.Pattern)
    (src tb : RPath) (srcNode : Node) (fuel : Nat)
    (hwf : FsEq fs fs) (hroot : fs.root.isDir = true)
    (hsrc : PlainTarget fs src) (hsn : fs.root.getAt src.names = some srcNode)
    (hcop : srcNode.Copyable fuel)
    (htb : PlainTarget fs tb) (hne : tb.names ≠ []) (habs : fs.root.getAt tb.names = none)
    (hpar : ∃ es, fs.root.getAt tb.names.dropLast = some (.dir es))
    (hun1 : ¬ src.names <+: tb.names) (hun2 : ¬ tb.names <+: src.names)
    (hlen : src.names.length + fuel < 200 ∧ tb.names.length + fuel < 200)
    (m : Name) (ch : Node) (hch : srcNode.getAt [m] = some ch)
    (hk : Gi.keeps ps [m] ch.isDir = true) :
    ∃ fs', execOps fs c (walkEntry fs c (some ps) src tb (fuel + 1) [] []) = ⟨.ok, fs'⟩ ∧
      obsAt fs'.root (tb.names ++ [m]) = some (Node.prune ps [m] ch).obs ∧
      (Node.prune ps [m] ch).obs = ch.obs := by
  obtain ⟨fs', hex, heq⟩ := mirror_fresh_gitignore fs c hd hn ps src tb srcNode fuel hwf hroot hsrc hsn hcop htb
    hne habs hpar hun1 hun2 hlen
  refine ⟨fs', hex, ?_, ?_⟩
  · rw [heq.2.2.2 (tb.names ++ [m])]
    obtain ⟨pes, hpes⟩ := hpar
    rcases List.eq_nil_or_concat tb.names with h0 | ⟨par, nm, h0⟩
    · exact absurd h0 hne
    simp only [List.concat_eq_append] at h0
    rw [h0, List.dropLast_concat] at hpes
    obtain ⟨es, c0, he, hg, hcc⟩ := Node.getAt_cons_some hch
    simp only [getAt_nil, Option.some.injEq] at hcc
    subst hcc; subst he
    obtain ⟨_, _, hnd, _⟩ := copyable_dir hcop
    simp only [obsAt]
    rw [Node.getAt_append, h0, getAt_setAt_child _ nm par fs.root pes hpes]
    simp only [Option.bind_some, Node.prune, getAt_dir_cons]
    rw [entGet_pruneL_of ps [] es hnd m c0 hg (by simpa using hk)]
    simp
  · cases ch <;> simp [Node.prune, Node.obs]

/-- (b) with no pattern lines nothing is pruned … -/
theorem prune_nil' (rel : List Name) (n : Node) : Node.prune [] rel n = n := prune_nil n rel

/-- … so `--gitignore` with an empty (or missing) .gitignore mirrors the whole source tree, as without the option -/
theorem mirror_fresh_gitignore_nil (fs : Fs) (c : Cfg) (hd : c.dereference = false) (hn : c.noClobber = false)
    (src tb : RPath) (srcNode : Node) (fuel : Nat)
    (hwf : FsEq fs fs) (hroot : fs.root.isDir = true)
    (hsrc : PlainTarget fs src) (hsn : fs.root.getAt src.names = some srcNode)
    (hcop : srcNode.Copyable fuel)
    (htb : PlainTarget fs tb) (hne : tb.names ≠ []) (habs : fs.root.getAt tb.names = none)
    (hpar : ∃ es, fs.root.getAt tb.names.dropLast = some (.dir es))
    (hun1 : ¬ src.names <+: tb.names) (hun2 : ¬ tb.names <+: src.names)
    (hlen : src.names.length + fuel < 200 ∧ tb.names.length + fuel < 200) :
    ∃ fs', execOps fs c (walkEntry fs c (some []) src tb (fuel + 1) [] []) = ⟨.ok, fs'⟩ ∧
      FsEq fs' { fs with root := fs.root.setAt tb.names srcNode } := by
  have h := mirror_fresh_gitignore fs c hd hn [] src tb srcNode fuel hwf hroot hsrc hsn hcop htb hne habs hpar
    hun1 hun2 hlen
  rw [prune_nil] at h
  exact h

end Xcp
