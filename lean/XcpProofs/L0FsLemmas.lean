import XcpProofs.WalkMore
import XcpProofs.L0Refine
/-! # The namespace model up to the order of directory entries

`Node` equality is structural, so two insertions of new names into one directory in different orders give
different trees.  Everything the model ever looks at is the *observation* of a path: what kind of object is there,
and its payload unless it is a directory.  `FsEq` relates two file systems with the same observations (and no
duplicate names in any directory); path resolution and every mutating call respect it.  The second half of the file
has the *local* versions used for commutation: an operation on a plain target only reads the observations at the
prefixes of its target and source, and only changes those at and below its target. -/
namespace Xcp

/-! ## Observations -/

inductive ONode
  | file (c : Nat)
  | dir
  | link (t : RPath)
  | special (k : FileKind) (d : Nat)

def Node.obs : Node → ONode
  | .file c => .file c
  | .dir _ => .dir
  | .link t => .link t
  | .special k d => .special k d

def obsAt (r : Node) (q : List Name) : Option ONode := (r.getAt q).map Node.obs

def SameObs (r r' : Node) : Prop := ∀ q, obsAt r q = obsAt r' q

/-- no directory lists a name twice -/
def Node.WF (r : Node) : Prop := ∀ q es, r.getAt q = some (.dir es) → (es.map (·.1)).Nodup

/-- the same tree up to the order of directory entries; a partial equivalence (`FsEq f f` = well-formed) -/
def FsEq (f g : Fs) : Prop := f.cwd = g.cwd ∧ f.root.WF ∧ g.root.WF ∧ SameObs f.root g.root

theorem obs_rel {a b : Option Node} (h : a.map Node.obs = b.map Node.obs) :
    (a = none ∧ b = none) ∨ (∃ es es', a = some (.dir es) ∧ b = some (.dir es')) ∨
    (∃ n, n.isDir = false ∧ a = some n ∧ b = some n) := by
  cases a with
  | none => cases b with
    | none => exact .inl ⟨rfl, rfl⟩
    | some y => simp at h
  | some x => cases b with
    | none => simp at h
    | some y =>
      simp only [Option.map_some, Option.some.injEq] at h
      cases x <;> cases y <;> simp only [Node.obs, reduceCtorEq] at h
      · injection h with h; subst h; exact .inr (.inr ⟨_, rfl, rfl, rfl⟩)
      · exact .inr (.inl ⟨_, _, rfl, rfl⟩)
      · injection h with h; subst h; exact .inr (.inr ⟨_, rfl, rfl, rfl⟩)
      · injection h with h1 h2; subst h1; subst h2; exact .inr (.inr ⟨_, rfl, rfl, rfl⟩)

theorem SameObs.refl (r : Node) : SameObs r r := fun _ => rfl
theorem SameObs.symm {r r' : Node} (h : SameObs r r') : SameObs r' r := fun q => (h q).symm
theorem SameObs.trans {a b c : Node} (h1 : SameObs a b) (h2 : SameObs b c) : SameObs a c :=
  fun q => (h1 q).trans (h2 q)

theorem FsEq.symm {f g : Fs} (h : FsEq f g) : FsEq g f := ⟨h.1.symm, h.2.2.1, h.2.1, h.2.2.2.symm⟩
theorem FsEq.trans {f g h : Fs} (h1 : FsEq f g) (h2 : FsEq g h) : FsEq f h :=
  ⟨h1.1.trans h2.1, h1.2.1, h2.2.2.1, h1.2.2.2.trans h2.2.2.2⟩

theorem obsAt_nil (r : Node) : obsAt r [] = some r.obs := by simp [obsAt]

theorem obsAt_dir_cons (es : Entries) (n : Name) (q : List Name) :
    obsAt (.dir es) (n :: q) = (entGet es n).bind fun c => obsAt c q := by
  simp only [obsAt, getAt_dir_cons]
  cases entGet es n <;> rfl

theorem obsAt_nondir (nd : Node) (n : Name) (q : List Name) (h : nd.isDir = false) :
    obsAt nd (n :: q) = none := by
  simp [obsAt, getAt_nondir _ _ _ h]

theorem obs_isDir {a b : Node} (h : a.obs = b.obs) : a.isDir = b.isDir := by
  cases a <;> cases b <;> simp [Node.obs] at h <;> rfl

/-- children of directories with the same observations have the same observations -/
theorem SameObs.child {es es' : Entries} (h : SameObs (.dir es) (.dir es')) (n : Name) :
    (entGet es n = none ∧ entGet es' n = none) ∨
    ∃ c c', entGet es n = some c ∧ entGet es' n = some c' ∧ SameObs c c' := by
  have h1 := h [n]
  simp only [obsAt_dir_cons] at h1
  cases hc : entGet es n with
  | none =>
    cases hc' : entGet es' n with
    | none => exact .inl ⟨rfl, rfl⟩
    | some c' => simp [hc, hc', obsAt_nil] at h1
  | some c =>
    cases hc' : entGet es' n with
    | none => simp [hc, hc', obsAt_nil] at h1
    | some c' =>
      refine .inr ⟨c, c', rfl, rfl, fun q => ?_⟩
      have := h (n :: q)
      simpa [obsAt_dir_cons, hc, hc'] using this

theorem SameObs.isDir {r r' : Node} (h : SameObs r r') : r.isDir = r'.isDir := by
  have := h []
  simp only [obsAt_nil, Option.some.injEq] at this
  exact obs_isDir this

/-! ## `setAt` respects observations -/

theorem setAt_sameObs (v : Node) : ∀ (q : List Name) (r r' : Node), SameObs r r' →
    SameObs (r.setAt q v) (r'.setAt q v) := by
  intro q
  induction q with
  | nil => intro r r' _; simp only [setAt_nil]; exact SameObs.refl _
  | cons n rest ih =>
    intro r r' h
    have hd := h.isDir
    cases hr : r.isDir with
    | false =>
      rw [setAt_nondir _ _ _ _ hr, setAt_nondir _ _ _ _ (hd ▸ hr)]; exact h
    | true =>
      have hr' : r'.isDir = true := hd ▸ hr
      cases r <;> simp [Node.isDir] at hr
      cases r' <;> simp [Node.isDir] at hr'
      rename_i es es'
      cases rest with
      | nil =>
        rw [setAt_dir_single, setAt_dir_single]
        intro p
        cases p with
        | nil => simp [obsAt_nil, Node.obs]
        | cons m p' =>
          simp only [obsAt_dir_cons, entGet_entSet]
          by_cases hnm : n = m
          · simp [hnm]
          · simp only [hnm, if_false]
            have := h (m :: p')
            simpa [obsAt_dir_cons] using this
      | cons m' r'' =>
        rw [setAt_dir_cons, setAt_dir_cons]
        rcases h.child n with ⟨h1, h2⟩ | ⟨c, c', h1, h2, hcc⟩
        · rw [h1, h2]; exact h
        · rw [h1, h2]
          have ihc := ih c c' hcc
          intro p
          cases p with
          | nil => simp [obsAt_nil, Node.obs]
          | cons m p' =>
            simp only [obsAt_dir_cons, entGet_entSet]
            by_cases hnm : n = m
            · simp only [hnm, if_true, Option.bind_some]
              exact ihc p'
            · simp only [hnm, if_false]
              have := h (m :: p')
              simpa [obsAt_dir_cons] using this

/-! ## Well-formedness -/

theorem WF_dir (es : Entries) :
    (Node.dir es).WF ↔ (es.map (·.1)).Nodup ∧ ∀ n c, entGet es n = some c → c.WF := by
  constructor
  · intro h
    refine ⟨h [] es (by simp), ?_⟩
    intro n c hc q es' hq
    apply h (n :: q) es'
    rw [getAt_dir_cons, hc]; exact hq
  · rintro ⟨h1, h2⟩ q es' hq
    cases q with
    | nil => simp only [getAt_nil, Option.some.injEq, Node.dir.injEq] at hq; subst hq; exact h1
    | cons n q' =>
      rw [getAt_dir_cons] at hq
      cases hc : entGet es n with
      | none => simp [hc] at hq
      | some c => rw [hc] at hq; exact h2 n c hc q' es' hq

theorem WF_nondir (r : Node) (h : r.isDir = false) : r.WF := by
  intro q es hq
  cases q with
  | nil => simp only [getAt_nil, Option.some.injEq] at hq; subst hq; cases h
  | cons n q' => rw [getAt_nondir _ _ _ h] at hq; cases hq

theorem WF_emptyDir : (Node.dir []).WF := by
  rw [WF_dir]; exact ⟨List.nodup_nil, fun n c h => by simp [entGet] at h⟩

theorem entGet_none_of_not_mem (es : Entries) (n : Name) (h : n ∉ es.map (·.1)) : entGet es n = none := by
  induction es with
  | nil => rfl
  | cons kv r ih =>
    obtain ⟨k, w⟩ := kv
    simp only [List.map_cons, List.mem_cons, not_or] at h
    simp only [entGet]
    rw [if_neg (fun hk => h.1 hk.symm)]
    exact ih h.2

theorem keys_entSet (es : Entries) (n : Name) (v : Node) :
    (entSet es n v).map (·.1) = if n ∈ es.map (·.1) then es.map (·.1) else es.map (·.1) ++ [n] := by
  induction es with
  | nil => simp [entSet]
  | cons kv r ih =>
    obtain ⟨k, w⟩ := kv
    by_cases hk : k = n
    · subst hk; simp [entSet]
    · have hk' : ¬ n = k := fun h => hk h.symm
      simp only [entSet, hk, if_false, List.map_cons, ih, List.mem_cons, hk', false_or]
      split <;> simp

theorem nodup_keys_entSet (es : Entries) (n : Name) (v : Node) (h : (es.map (·.1)).Nodup) :
    ((entSet es n v).map (·.1)).Nodup := by
  rw [keys_entSet]
  split
  · exact h
  · rename_i hn
    rw [List.nodup_append]
    refine ⟨h, by simp, ?_⟩
    intro a ha b hb
    simp only [List.mem_singleton] at hb
    subst hb
    intro hab; subst hab; exact hn ha

theorem keys_entDel_sublist (es : Entries) (n : Name) : ((entDel es n).map (·.1)).Sublist (es.map (·.1)) := by
  induction es with
  | nil => simp [entDel]
  | cons kv r ih =>
    obtain ⟨k, w⟩ := kv
    simp only [entDel]
    split
    · simp
    · simp only [List.map_cons]; exact ih.cons_cons _

theorem entGet_entDel_self (es : Entries) (n : Name) (h : (es.map (·.1)).Nodup) :
    entGet (entDel es n) n = none := by
  induction es with
  | nil => rfl
  | cons kv r ih =>
    obtain ⟨k, w⟩ := kv
    simp only [List.map_cons, List.nodup_cons] at h
    simp only [entDel]
    split
    · rename_i hk
      subst hk
      exact entGet_none_of_not_mem _ _ h.1
    · rename_i hk
      simp only [entGet, hk, if_false]
      exact ih h.2

theorem WF_entSet (es : Entries) (n : Name) (x : Node) (h : (Node.dir es).WF) (hx : x.WF) :
    (Node.dir (entSet es n x)).WF := by
  rw [WF_dir] at h ⊢
  refine ⟨nodup_keys_entSet _ _ _ h.1, ?_⟩
  intro m c hc
  rw [entGet_entSet] at hc
  split at hc
  · simp only [Option.some.injEq] at hc; subst hc; exact hx
  · exact h.2 m c hc

theorem setAt_WF (v : Node) (hv : v.WF) : ∀ (q : List Name) (r : Node), r.WF → (r.setAt q v).WF := by
  intro q
  induction q with
  | nil => intro r _; simpa using hv
  | cons n rest ih =>
    intro r h
    cases hr : r.isDir with
    | false => rw [setAt_nondir _ _ _ _ hr]; exact h
    | true =>
      cases r <;> simp [Node.isDir] at hr
      rename_i es
      cases rest with
      | nil => rw [setAt_dir_single]; exact WF_entSet _ _ _ h hv
      | cons m' r'' =>
        rw [setAt_dir_cons]
        cases hc : entGet es n with
        | none => exact h
        | some c => exact WF_entSet _ _ _ h (ih c (((WF_dir es).1 h).2 n c hc))

theorem delAt_WF : ∀ (q : List Name) (r : Node), r.WF → (r.delAt q).WF := by
  intro q
  induction q with
  | nil => intro r h; simpa using h
  | cons n rest ih =>
    intro r h
    cases hr : r.isDir with
    | false => rw [delAt_nondir _ _ _ hr]; exact h
    | true =>
      cases r <;> simp [Node.isDir] at hr
      rename_i es
      cases rest with
      | nil =>
        rw [delAt_dir_single]
        rw [WF_dir] at h ⊢
        refine ⟨h.1.sublist (keys_entDel_sublist es n), ?_⟩
        intro m c hc
        by_cases hnm : n = m
        · subst hnm; rw [entGet_entDel_self _ _ h.1] at hc; cases hc
        · rw [entGet_entDel_ne _ _ _ hnm] at hc; exact h.2 m c hc
      | cons m' r'' =>
        rw [delAt_dir_cons]
        cases hc : entGet es n with
        | none => exact h
        | some c => exact WF_entSet _ _ _ h (ih c (((WF_dir es).1 h).2 n c hc))

/-- after `delAt` nothing is at the place (no duplicate names) -/
theorem getAt_delAt_self : ∀ (q : List Name) (r : Node), r.WF → q ≠ [] → (r.delAt q).getAt q = none := by
  intro q
  induction q with
  | nil => intro r _ h; exact absurd rfl h
  | cons n rest ih =>
    intro r h _
    cases hr : r.isDir with
    | false => rw [delAt_nondir _ _ _ hr]; exact getAt_nondir _ _ _ hr
    | true =>
      cases r <;> simp [Node.isDir] at hr
      rename_i es
      cases rest with
      | nil =>
        rw [delAt_dir_single, getAt_dir_cons, entGet_entDel_self _ _ ((WF_dir es).1 h).1]; rfl
      | cons m' r'' =>
        rw [delAt_dir_cons]
        cases hc : entGet es n with
        | none => simp [getAt_dir_cons, hc]
        | some c =>
          simp only [getAt_dir_cons, entGet_entSet_self, Option.bind_some]
          exact ih c (((WF_dir es).1 h).2 n c hc) (by simp)

theorem delAt_sameObs : ∀ (q : List Name) (r r' : Node), r.WF → r'.WF → SameObs r r' →
    SameObs (r.delAt q) (r'.delAt q) := by
  intro q
  induction q with
  | nil => intro r r' _ _ h; simpa using h
  | cons n rest ih =>
    intro r r' hw hw' h
    have hd := h.isDir
    cases hr : r.isDir with
    | false =>
      rw [delAt_nondir _ _ _ hr, delAt_nondir _ _ _ (hd ▸ hr)]; exact h
    | true =>
      have hr' : r'.isDir = true := hd ▸ hr
      cases r <;> simp [Node.isDir] at hr
      cases r' <;> simp [Node.isDir] at hr'
      rename_i es es'
      cases rest with
      | nil =>
        rw [delAt_dir_single, delAt_dir_single]
        intro p
        cases p with
        | nil => simp [obsAt_nil, Node.obs]
        | cons m p' =>
          simp only [obsAt_dir_cons]
          by_cases hnm : n = m
          · subst hnm
            rw [entGet_entDel_self _ _ ((WF_dir es).1 hw).1, entGet_entDel_self _ _ ((WF_dir es').1 hw').1]
          · rw [entGet_entDel_ne _ _ _ hnm, entGet_entDel_ne _ _ _ hnm]
            have := h (m :: p')
            simpa [obsAt_dir_cons] using this
      | cons m' r'' =>
        rw [delAt_dir_cons, delAt_dir_cons]
        rcases h.child n with ⟨h1, h2⟩ | ⟨c, c', h1, h2, hcc⟩
        · rw [h1, h2]; exact h
        · rw [h1, h2]
          have ihc := ih c c' (((WF_dir es).1 hw).2 n c h1) (((WF_dir es').1 hw').2 n c' h2) hcc
          intro p
          cases p with
          | nil => simp [obsAt_nil, Node.obs]
          | cons m p' =>
            simp only [obsAt_dir_cons, entGet_entSet]
            by_cases hnm : n = m
            · simp only [hnm, if_true, Option.bind_some]
              exact ihc p'
            · simp only [hnm, if_false]
              have := h (m :: p')
              simpa [obsAt_dir_cons] using this

/-! ## Path resolution only looks at observations -/

theorem walkPath_obs {r r' : Node} (h : SameObs r r') (fl : Bool) :
    ∀ (fuel : Nat) (cur : List Name) (cs : List Comp), walkPath r fl fuel cur cs = walkPath r' fl fuel cur cs := by
  intro fuel
  induction fuel with
  | zero => intro cur cs; rfl
  | succ f ih =>
    intro cur cs
    cases cs with
    | nil => rfl
    | cons c rest =>
      cases c with
      | cur => simp only [walkPath]; exact ih _ _
      | parent => simp only [walkPath]; exact ih _ _
      | name n =>
        simp only [walkPath]
        rcases obs_rel (h (cur ++ [n])) with ⟨ha, hb⟩ | ⟨es, es', ha, hb⟩ | ⟨x, hx, ha, hb⟩
        · rw [ha, hb]
        · rw [ha, hb]; exact ih _ _
        · rw [ha, hb]
          cases x with
          | dir es => cases hx
          | link t => simp only [ih]
          | file k => rfl
          | special k d => rfl

theorem resolve_obs {f f' : Fs} (hc : f.cwd = f'.cwd) (h : SameObs f.root f'.root) (p : RPath) (fl : Bool) :
    f.resolve p fl = f'.resolve p fl := by
  unfold Fs.resolve
  rw [walkPath_obs h, hc]
  split
  · rfl
  · split
    · rename_i q _
      split
      · rcases obs_rel (h q) with ⟨ha, hb⟩ | ⟨es, es', ha, hb⟩ | ⟨x, hx, ha, hb⟩
        · rw [ha, hb]
        · rw [ha, hb]
        · rw [ha, hb]
      · rfl
    · rfl

/-! ## What the calls read: the resolution and the observation of the object found -/

def resObs (f : Fs) : Res → Option ONode
  | .found q => obsAt f.root q
  | _ => none

/-- `stat`, observed -/
def ostatOf : Res → Option ONode → Option (List Name × ONode)
  | .found c, o => o.map (c, ·)
  | _, _ => none

def Fs.ostat (f : Fs) (p : RPath) : Option (List Name × ONode) :=
  ostatOf (f.resolve p true) (resObs f (f.resolve p true))

theorem ostat_eq (f : Fs) (p : RPath) : f.ostat p = (f.stat p).map fun x => (x.1, x.2.obs) := by
  unfold Fs.ostat Fs.stat
  cases f.resolve p true with
  | found c => simp only [ostatOf, resObs, obsAt]; cases f.root.getAt c <;> rfl
  | missing par n => rfl
  | err e => rfl

theorem exists_ostat (f : Fs) (p : RPath) : f.exists p = (f.ostat p).isSome := by
  rw [ostat_eq, Fs.exists]; cases f.stat p <;> rfl

theorem isDir_ostat (f : Fs) (p : RPath) :
    f.isDir p = match f.ostat p with | some (_, .dir) => true | _ => false := by
  rw [ostat_eq, Fs.isDir]
  cases f.stat p with
  | none => rfl
  | some x => obtain ⟨c, n⟩ := x; cases n <;> rfl

theorem sameFile_ostat (f : Fs) (a b : RPath) :
    f.sameFile a b = match f.ostat a, f.ostat b with
      | some (x, _), some (y, _) => decide (x = y)
      | _, _ => false := by
  rw [ostat_eq, ostat_eq, Fs.sameFile]
  cases f.stat a <;> cases f.stat b <;> rfl

theorem contentOf_ostat (f : Fs) (p : RPath) :
    f.contentOf p = match f.ostat p with | some (_, .file c) => some c | _ => none := by
  rw [ostat_eq, Fs.contentOf]
  cases f.stat p with
  | none => rfl
  | some x => obtain ⟨c, n⟩ := x; cases n <;> rfl

/-! ## The calls as actions -/

inductive Act
  | err (e : Errno)
  | keep
  | set (q : List Name) (v : Node)
  | del (q : List Name)

def Act.run (f : Fs) : Act → Except Errno Fs
  | .err e => .error e
  | .keep => .ok f
  | .set q v => .ok { f with root := f.root.setAt q v }
  | .del q => .ok { f with root := f.root.delAt q }

def createAct (trail : Bool) (c : Nat) : Res → Option ONode → Act
  | .found q, some (.file _) => .set q (.file c)
  | .found _, some .dir => .err .EISDIR
  | .found _, some (.special _ _) => .keep
  | .found _, _ => .err .ENOENT
  | .missing par n, _ => if trail then .err .EISDIR else .set (par ++ [n]) (.file c)
  | .err e, _ => .err e

def mkAct (v : Node) : Res → Act
  | .found _ => .err .EEXIST
  | .missing par n => .set (par ++ [n]) v
  | .err e => .err e

def unlinkAct : Res → Option ONode → Act
  | .found _, some .dir => .err .EISDIR
  | .found q, some _ => if q.isEmpty then .err .EISDIR else .del q
  | .found _, none => .err .ENOENT
  | .missing _ _, _ => .err .ENOENT
  | .err e, _ => .err e

theorem createFile_eq (f : Fs) (p : RPath) (c : Nat) :
    f.createFile p c = (createAct p.trail c (f.resolve p true) (resObs f (f.resolve p true))).run f := by
  unfold Fs.createFile
  cases f.resolve p true with
  | found q =>
    simp only [resObs, obsAt]
    cases f.root.getAt q with
    | none => rfl
    | some x => cases x <;> rfl
  | missing par n => simp only [createAct]; split <;> rfl
  | err e => rfl

theorem mkdir_eq (f : Fs) (p : RPath) : f.mkdir p = (mkAct (.dir []) (f.resolve p false)).run f := by
  unfold Fs.mkdir
  cases f.resolve p false <;> rfl

theorem symlink_eq (f : Fs) (tg p : RPath) : f.symlink tg p = (mkAct (.link tg) (f.resolve p false)).run f := by
  unfold Fs.symlink
  cases f.resolve p false <;> rfl

theorem mknod_eq (f : Fs) (p : RPath) (k : FileKind) (d : Nat) :
    f.mknod p k d = (mkAct (.special k d) (f.resolve p false)).run f := by
  unfold Fs.mknod
  cases f.resolve p false <;> rfl

theorem unlink_eq (f : Fs) (p : RPath) :
    f.unlink p = (unlinkAct (f.resolve p false) (resObs f (f.resolve p false))).run f := by
  unfold Fs.unlink
  cases f.resolve p false with
  | found q =>
    simp only [resObs, obsAt]
    cases f.root.getAt q with
    | none => rfl
    | some x => cases x <;> simp only [Option.map_some, Node.obs, unlinkAct] <;> (try split) <;> rfl
  | missing par n => rfl
  | err e => rfl

/-- `E` lifted to results of calls: the same error, or related results -/
def ExRel (Q : Fs → Fs → Prop) : Except Errno Fs → Except Errno Fs → Prop
  | .error e, .error e' => e = e'
  | .ok a, .ok b => Q a b
  | _, _ => False

/-- the values the calls write -/
def Act.simple : Act → Prop
  | .set _ v => v.WF
  | _ => True

theorem Act.run_cong {f f' : Fs} (h : FsEq f f') (A : Act) (hA : A.simple) : ExRel FsEq (A.run f) (A.run f') := by
  obtain ⟨hc, hw, hw', ho⟩ := h
  cases A with
  | err e => exact rfl
  | keep => exact ⟨hc, hw, hw', ho⟩
  | set q v => exact ⟨hc, setAt_WF v hA q _ hw, setAt_WF v hA q _ hw', setAt_sameObs v q _ _ ho⟩
  | del q => exact ⟨hc, delAt_WF q _ hw, delAt_WF q _ hw', delAt_sameObs q _ _ hw hw' ho⟩

theorem createAct_simple (t : Bool) (c : Nat) (r : Res) (o : Option ONode) : (createAct t c r o).simple := by
  unfold createAct
  split <;> try trivial
  · exact WF_nondir _ rfl
  · split
    · trivial
    · exact WF_nondir _ rfl

theorem mkAct_simple (v : Node) (hv : v.WF) (r : Res) : (mkAct v r).simple := by
  cases r <;> first | trivial | exact hv

theorem unlinkAct_simple (r : Res) (o : Option ONode) : (unlinkAct r o).simple := by
  unfold unlinkAct
  split <;> try trivial
  split <;> trivial

theorem FsEq.resolve {f f' : Fs} (h : FsEq f f') (p : RPath) (fl : Bool) : f.resolve p fl = f'.resolve p fl :=
  resolve_obs h.1 h.2.2.2 p fl

theorem FsEq.resObs {f f' : Fs} (h : FsEq f f') (r : Res) : resObs f r = resObs f' r := by
  cases r with
  | found q => exact h.2.2.2 q
  | missing par n => rfl
  | err e => rfl

theorem FsEq.ostat {f f' : Fs} (h : FsEq f f') (p : RPath) : f.ostat p = f'.ostat p := by
  unfold Fs.ostat
  rw [h.resolve, h.resObs]

theorem FsEq.isDir {f f' : Fs} (h : FsEq f f') (p : RPath) : f.isDir p = f'.isDir p := by
  rw [isDir_ostat, isDir_ostat, h.ostat]

theorem createFile_cong {f f' : Fs} (h : FsEq f f') (p : RPath) (c : Nat) :
    ExRel FsEq (f.createFile p c) (f'.createFile p c) := by
  rw [createFile_eq, createFile_eq, ← h.resolve, ← h.resObs]
  exact Act.run_cong h _ (createAct_simple ..)

theorem mkdir_cong {f f' : Fs} (h : FsEq f f') (p : RPath) : ExRel FsEq (f.mkdir p) (f'.mkdir p) := by
  rw [mkdir_eq, mkdir_eq, ← h.resolve]
  exact Act.run_cong h _ (mkAct_simple _ WF_emptyDir _)

theorem symlink_cong {f f' : Fs} (h : FsEq f f') (tg p : RPath) :
    ExRel FsEq (f.symlink tg p) (f'.symlink tg p) := by
  rw [symlink_eq, symlink_eq, ← h.resolve]
  exact Act.run_cong h _ (mkAct_simple _ (WF_nondir _ rfl) _)

theorem mknod_cong {f f' : Fs} (h : FsEq f f') (p : RPath) (k : FileKind) (d : Nat) :
    ExRel FsEq (f.mknod p k d) (f'.mknod p k d) := by
  rw [mknod_eq, mknod_eq, ← h.resolve]
  exact Act.run_cong h _ (mkAct_simple _ (WF_nondir _ rfl) _)

theorem unlink_cong {f f' : Fs} (h : FsEq f f') (p : RPath) : ExRel FsEq (f.unlink p) (f'.unlink p) := by
  rw [unlink_eq, unlink_eq, ← h.resolve, ← h.resObs]
  exact Act.run_cong h _ (unlinkAct_simple ..)

/-- `create_dir_all` respects any relation that `mkdir` and `is_dir` respect on the paths it visits -/
theorem mkdirAllAux_rel (Q : Fs → Fs → Prop) (abs : Bool) (P : List Comp → Prop)
    (hP : ∀ c rest, P (c :: rest) → P rest)
    (hmk : ∀ f f' c rest, P (c :: rest) → Q f f' →
      ExRel Q (f.mkdir ⟨abs, (c :: rest).reverse, false⟩) (f'.mkdir ⟨abs, (c :: rest).reverse, false⟩))
    (hdir : ∀ f f' c rest, P (c :: rest) → Q f f' →
      f.isDir ⟨abs, (c :: rest).reverse, false⟩ = f'.isDir ⟨abs, (c :: rest).reverse, false⟩) :
    ∀ (rev : List Comp) (f f' : Fs), P rev → Q f f' →
      ExRel Q (Fs.mkdirAllAux f abs rev) (Fs.mkdirAllAux f' abs rev) := by
  intro rev
  induction rev with
  | nil => intro f f' _ h; exact h
  | cons c rest ih =>
    intro f f' hp h
    have h1 := hmk f f' c rest hp h
    have h2 := hdir f f' c rest hp h
    simp only [Fs.mkdirAllAux]
    cases hm : f.mkdir ⟨abs, (c :: rest).reverse, false⟩ with
    | ok f1 =>
      cases hm' : f'.mkdir ⟨abs, (c :: rest).reverse, false⟩ with
      | ok f1' => rw [hm, hm'] at h1; exact h1
      | error e' => rw [hm, hm'] at h1; exact h1.elim
    | error e =>
      cases hm' : f'.mkdir ⟨abs, (c :: rest).reverse, false⟩ with
      | ok f1' => rw [hm, hm'] at h1; exact h1.elim
      | error e' =>
        rw [hm, hm'] at h1
        have he : e = e' := h1
        subst he
        by_cases hen : e = .ENOENT
        · subst hen
          simp only
          have h3 := ih f f' (hP c rest hp) h
          cases hr : Fs.mkdirAllAux f abs rest with
          | error e1 =>
            cases hr' : Fs.mkdirAllAux f' abs rest with
            | error e1' => rw [hr, hr'] at h3; exact h3
            | ok g' => rw [hr, hr'] at h3; exact h3.elim
          | ok g =>
            cases hr' : Fs.mkdirAllAux f' abs rest with
            | error e1' => rw [hr, hr'] at h3; exact h3.elim
            | ok g' =>
              rw [hr, hr'] at h3
              have h4 := hmk g g' c rest hp h3
              have h5 := hdir g g' c rest hp h3
              simp only
              cases hg : g.mkdir ⟨abs, (c :: rest).reverse, false⟩ with
              | ok g1 =>
                cases hg' : g'.mkdir ⟨abs, (c :: rest).reverse, false⟩ with
                | ok g1' => rw [hg, hg'] at h4; exact h4
                | error e' => rw [hg, hg'] at h4; exact h4.elim
              | error e2 =>
                cases hg' : g'.mkdir ⟨abs, (c :: rest).reverse, false⟩ with
                | ok g1' => rw [hg, hg'] at h4; exact h4.elim
                | error e2' =>
                  rw [hg, hg'] at h4
                  have he : e2 = e2' := h4
                  subst he
                  simp only [h5]
                  split
                  · exact h3
                  · exact rfl
        · cases e <;> first
            | exact absurd rfl hen
            | (simp only [h2]; split
               · exact h
               · exact rfl)

theorem mkdirAll_cong {f f' : Fs} (h : FsEq f f') (p : RPath) : ExRel FsEq (f.mkdirAll p) (f'.mkdirAll p) := by
  unfold Fs.mkdirAll
  split
  · exact h
  · exact mkdirAllAux_rel FsEq p.abs (fun _ => True) (fun _ _ _ => trivial)
      (fun f f' c rest _ h => mkdir_cong h _) (fun f f' c rest _ h => h.isDir _) _ f f' trivial h

theorem ExRel.toOption {Q : Fs → Fs → Prop} {x y : Except Errno Fs} (h : ExRel Q x y) :
    L0.ORel Q x.toOption y.toOption := by
  cases x <;> cases y <;> simp only [ExRel] at h <;> simp only [Except.toOption, L0.ORel]
  exact h

def srcOf : Op → Option RPath
  | .copy s _ => some s
  | .special s _ => some s
  | _ => none

theorem exists_congr {f f' : Fs} {p : RPath} (h : f.ostat p = f'.ostat p) : f.exists p = f'.exists p := by
  rw [exists_ostat, exists_ostat, h]

theorem isDir_congr {f f' : Fs} {p : RPath} (h : f.ostat p = f'.ostat p) : f.isDir p = f'.isDir p := by
  rw [isDir_ostat, isDir_ostat, h]

theorem contentOf_congr {f f' : Fs} {p : RPath} (h : f.ostat p = f'.ostat p) :
    f.contentOf p = f'.contentOf p := by
  rw [contentOf_ostat, contentOf_ostat, h]

theorem sameFile_congr {f f' : Fs} {a b : RPath} (ha : f.ostat a = f'.ostat a) (hb : f.ostat b = f'.ostat b) :
    f.sameFile a b = f'.sameFile a b := by
  rw [sameFile_ostat, sameFile_ostat, ha, hb]

/-- the special file a path resolves to -/
def Fs.specialOf (f : Fs) (p : RPath) : Option (FileKind × Nat) :=
  match f.stat p with
  | some (_, .special k d) => some (k, d)
  | _ => none

theorem specialOf_ostat (f : Fs) (p : RPath) :
    f.specialOf p = match f.ostat p with | some (_, .special k d) => some (k, d) | _ => none := by
  rw [ostat_eq, Fs.specialOf]
  cases f.stat p with
  | none => rfl
  | some x => obtain ⟨c, n⟩ := x; cases n <;> rfl

theorem specialOf_congr {f f' : Fs} {p : RPath} (h : f.ostat p = f'.ostat p) :
    f.specialOf p = f'.specialOf p := by
  rw [specialOf_ostat, specialOf_ostat, h]

theorem execOp_special_eq (f : Fs) (c : Cfg) (s t : RPath) :
    execOp f c (.special s t) =
      match f.specialOf s with
      | some (k, rdev) =>
        if f.exists t then
          if c.noClobber then none
          else if f.sameFile s t then none
          else match f.unlink t with
            | .ok fs1 => (fs1.mknod t k rdev).toOption
            | .error _ => none
        else (f.mknod t k rdev).toOption
      | none => none := by
  simp only [execOp, Fs.specialOf]
  cases f.stat s with
  | none => rfl
  | some x => obtain ⟨q, n⟩ := x; cases n <;> rfl

/-- two executions of one operation are related as soon as what the operation reads is the same and the calls it
makes are related -/
theorem execOp_rel (Q : Fs → Fs → Prop) (f f' : Fs) (c : Cfg) (op : Op)
    (hsrc : ∀ s, srcOf op = some s → f.ostat s = f'.ostat s)
    (htgt : ∀ t, opTarget op = some t → srcOf op ≠ none → f.ostat t = f'.ostat t)
    (hmkdir : ∀ t, op = .mkdir t → ExRel Q (f.mkdirAll t) (f'.mkdirAll t))
    (hcopy : ∀ s t content, op = .copy s t → ExRel Q (f.createFile t content) (f'.createFile t content))
    (hlink : ∀ tx t, op = .link tx t → ExRel Q (f.symlink tx t) (f'.symlink tx t))
    (hspecial : ∀ s t k d, op = .special s t → ExRel Q (f.mknod t k d) (f'.mknod t k d) ∧
      ExRel (fun g g' => ExRel Q (g.mknod t k d) (g'.mknod t k d)) (f.unlink t) (f'.unlink t)) :
    L0.ORel Q (execOp f c op) (execOp f' c op) := by
  cases op with
  | fail => trivial
  | mkdir t => exact (hmkdir t rfl).toOption
  | link tx t => exact (hlink tx t rfl).toOption
  | copy s t =>
    have h1 := hsrc s rfl
    have h2 := htgt t rfl (by simp [srcOf])
    simp only [execOp, ← contentOf_congr h1, ← exists_congr h2, ← sameFile_congr h1 h2]
    cases f.contentOf s with
    | none => trivial
    | some content =>
      simp only
      split
      · trivial
      · exact (hcopy s t content rfl).toOption
  | special s t =>
    have h1 := hsrc s rfl
    have h2 := htgt t rfl (by simp [srcOf])
    rw [execOp_special_eq, execOp_special_eq, ← specialOf_congr h1, ← exists_congr h2, ← sameFile_congr h1 h2]
    cases f.specialOf s with
    | none => trivial
    | some kd =>
      obtain ⟨k, d⟩ := kd
      obtain ⟨h3, h4⟩ := hspecial s t k d rfl
      simp only
      split
      · split
        · trivial
        · split
          · trivial
          · cases hu : f.unlink t with
            | error e =>
              cases hu' : f'.unlink t with
              | error e' => trivial
              | ok g' => rw [hu, hu'] at h4; exact h4.elim
            | ok g =>
              cases hu' : f'.unlink t with
              | error e' => rw [hu, hu'] at h4; exact h4.elim
              | ok g' =>
                rw [hu, hu'] at h4
                exact ExRel.toOption h4
      · exact h3.toOption

/-- every operation respects `FsEq` -/
theorem execOp_cong {f f' : Fs} (h : FsEq f f') (c : Cfg) (op : Op) :
    L0.ORel FsEq (execOp f c op) (execOp f' c op) := by
  apply execOp_rel FsEq f f' c op (fun s _ => h.ostat s) (fun t _ _ => h.ostat t)
    (fun t _ => mkdirAll_cong h t) (fun s t content _ => createFile_cong h t content)
    (fun tx t _ => symlink_cong h tx t)
  intro s t k d _
  refine ⟨mknod_cong h t k d, ?_⟩
  have := unlink_cong h t
  cases hu : f.unlink t with
  | error e =>
    cases hu' : f'.unlink t with
    | error e' => rw [hu, hu'] at this; exact this
    | ok g' => rw [hu, hu'] at this; exact this.elim
  | ok g =>
    cases hu' : f'.unlink t with
    | error e' => rw [hu, hu'] at this; exact this.elim
    | ok g' => rw [hu, hu'] at this; exact mknod_cong this t k d

/-! ## Local reasoning: an operation on a plain target reads the prefixes of its target and source only -/

theorem prefix_antisymm {p q : List Name} (h1 : p <+: q) (h2 : q <+: p) : p = q :=
  h1.eq_of_length (Nat.le_antisymm h1.length_le h2.length_le)

/-- the two trees show the same at every prefix of `ns` -/
def AgreeUpto (r r' : Node) (ns : List Name) : Prop := ∀ p, p <+: ns → obsAt r' p = obsAt r p

theorem getAt_link_iff (r : Node) (q : List Name) (tg : RPath) :
    r.getAt q = some (.link tg) ↔ obsAt r q = some (.link tg) := by
  unfold obsAt
  cases r.getAt q with
  | none => simp
  | some x => cases x <;> simp [Node.obs]

theorem getAt_dir_of_obs {r : Node} {q : List Name} (h : obsAt r q = some .dir) :
    ∃ es, r.getAt q = some (.dir es) := by
  unfold obsAt at h
  cases hg : r.getAt q with
  | none => simp [hg] at h
  | some x => cases x <;> simp [hg, Node.obs] at h; exact ⟨_, rfl⟩

theorem obsAt_dir {r : Node} {q : List Name} {es : Entries} (h : r.getAt q = some (.dir es)) :
    obsAt r q = some .dir := by
  simp [obsAt, h, Node.obs]

theorem getAt_of_obs_leaf {r : Node} {q : List Name} {x : Node} (hx : x.isDir = false)
    (h : obsAt r q = some x.obs) : r.getAt q = some x := by
  unfold obsAt at h
  cases hg : r.getAt q with
  | none => simp [hg] at h
  | some y =>
    simp only [hg, Option.map_some, Option.some.injEq] at h
    cases x <;> cases y <;> simp [Node.obs, Node.isDir] at h hx <;> simp [h]

theorem getAt_isSome_iff (r : Node) (q : List Name) : (r.getAt q).isSome = (obsAt r q).isSome := by
  unfold obsAt; cases r.getAt q <;> rfl

theorem AgreeUpto.refl (r : Node) (ns : List Name) : AgreeUpto r r ns := fun _ _ => rfl

theorem AgreeUpto.prefix {r r' : Node} {ns p : List Name} (h : AgreeUpto r r' ns) (hp : p <+: ns) :
    AgreeUpto r r' p := fun q hq => h q (hq.trans hp)

theorem AgreeUpto.noLinkUpto {r r' : Node} {ns : List Name} (h : AgreeUpto r r' ns) (hl : NoLinkUpto r ns) :
    NoLinkUpto r' ns := by
  intro p hp tg hg
  rw [getAt_link_iff, h p hp, ← getAt_link_iff] at hg
  exact hl p hp tg hg

theorem AgreeUpto.noLinkAbove {r r' : Node} {ns : List Name} (h : AgreeUpto r r' ns) (hl : NoLinkAbove r ns) :
    NoLinkAbove r' ns := by
  intro p hp hne tg hg
  rw [getAt_link_iff, h p hp, ← getAt_link_iff] at hg
  exact hl p hp hne tg hg

theorem AgreeUpto.isDir {r r' : Node} {ns : List Name} (h : AgreeUpto r r' ns) : r'.isDir = r.isDir := by
  have := h [] List.nil_prefix
  simp only [obsAt_nil, Option.some.injEq] at this
  exact obs_isDir this

theorem walkPath_local (r r' : Node) (fl : Bool) :
    ∀ (fuel : Nat) (cur ns : List Name),
      (∀ p, p <+: ns → p ≠ [] → obsAt r' (cur ++ p) = obsAt r (cur ++ p)) →
      (∀ p, p <+: ns → p ≠ [] → (p ≠ ns ∨ fl = true) → ∀ tg, r.getAt (cur ++ p) ≠ some (.link tg)) →
      walkPath r' fl fuel cur (ns.map .name) = walkPath r fl fuel cur (ns.map .name) := by
  intro fuel
  induction fuel with
  | zero => intro cur ns _ _; rfl
  | succ f ih =>
    intro cur ns hag hl
    cases ns with
    | nil => rfl
    | cons n rest =>
      simp only [List.map_cons, walkPath]
      have h1 := hag [n] (List.cons_prefix_cons.2 ⟨rfl, List.nil_prefix⟩) (by simp)
      rcases obs_rel h1 with ⟨ha, hb⟩ | ⟨es, es', ha, hb⟩ | ⟨x, hx, ha, hb⟩
      · rw [ha, hb]
      · rw [ha, hb]
        simp only
        apply ih (cur ++ [n]) rest
        · intro p hp hne
          have := hag (n :: p) (List.cons_prefix_cons.2 ⟨rfl, hp⟩) (by simp)
          simpa using this
        · intro p hp hne hor tg
          have := hl (n :: p) (List.cons_prefix_cons.2 ⟨rfl, hp⟩) (by simp)
            (hor.elim (fun h => .inl (by simpa using h)) .inr) tg
          simpa using this
      · rw [ha, hb]
        cases x with
        | dir es => cases hx
        | file k => rfl
        | special k d => rfl
        | link t =>
          cases rest with
          | nil =>
            cases fl with
            | false => simp
            | true => exact absurd hb (hl [n] (List.prefix_refl _) (by simp) (.inr rfl) t)
          | cons m r'' =>
            exact absurd hb (hl [n] (List.cons_prefix_cons.2 ⟨rfl, List.nil_prefix⟩) (by simp) (.inl (by simp)) t)

theorem resolve_local (f f' : Fs) (ns : List Name) (fl : Bool) (hag : AgreeUpto f.root f'.root ns)
    (hl : ∀ p, p <+: ns → (p ≠ ns ∨ fl = true) → ∀ tg, f.root.getAt p ≠ some (.link tg)) :
    f'.resolve (plainPath ns) fl = f.resolve (plainPath ns) fl := by
  have hw := walkPath_local f.root f'.root fl resolveFuel [] ns
    (by intro p hp _; simpa using hag p hp) (by intro p hp _ hor tg; simpa using hl p hp hor tg)
  simp [Fs.resolve, plainPath, hw]

theorem resolve_local_nofollow (f f' : Fs) (ns : List Name) (hag : AgreeUpto f.root f'.root ns)
    (hl : NoLinkAbove f.root ns) : f'.resolve (plainPath ns) false = f.resolve (plainPath ns) false :=
  resolve_local f f' ns false hag fun p hp hor tg => hl p hp (hor.elim id (fun h => by cases h)) tg

theorem resolve_local_follow (f f' : Fs) (ns : List Name) (hag : AgreeUpto f.root f'.root ns)
    (hl : NoLinkUpto f.root ns) : f'.resolve (plainPath ns) true = f.resolve (plainPath ns) true :=
  resolve_local f f' ns true hag fun p hp _ tg => hl p hp tg

/-- the shapes a resolution of `plainPath ns` can have -/
def PlainRes (ns : List Name) (res : Res) : Prop :=
  res = .found ns ∨ (∃ par n, res = .missing par n ∧ par ++ [n] = ns) ∨ ∃ e, res = .err e

theorem plainRes_nofollow (f : Fs) (ns : List Name) (hl : NoLinkAbove f.root ns) :
    PlainRes ns (f.resolve (plainPath ns) false) := by
  rcases resolve_plain_nofollow f ns hl with h | ⟨par, n, h, hpn⟩ | ⟨e, h⟩
  · exact .inl h
  · exact .inr (.inl ⟨par, n, h, hpn⟩)
  · exact .inr (.inr ⟨e, h⟩)

theorem plainRes_follow (f : Fs) (ns : List Name) (hl : NoLinkUpto f.root ns) :
    PlainRes ns (f.resolve (plainPath ns) true) := by
  rcases resolve_plain_follow f ns hl with h | ⟨par, n, h, hpn⟩ | ⟨e, h⟩
  · exact .inl h
  · exact .inr (.inl ⟨par, n, h, hpn⟩)
  · exact .inr (.inr ⟨e, h⟩)

theorem resObs_local (f f' : Fs) (ns : List Name) (hag : AgreeUpto f.root f'.root ns) (res : Res)
    (hres : PlainRes ns res) : resObs f' res = resObs f res := by
  rcases hres with h | ⟨par, n, h, _⟩ | ⟨e, h⟩
  · subst h; exact hag ns (List.prefix_refl _)
  · subst h; rfl
  · subst h; rfl

theorem ostat_local (f f' : Fs) (ns : List Name) (hag : AgreeUpto f.root f'.root ns) (hl : NoLinkUpto f.root ns) :
    f.ostat (plainPath ns) = f'.ostat (plainPath ns) := by
  unfold Fs.ostat
  rw [resolve_local_follow f f' ns hag hl, resObs_local f f' ns hag _ (plainRes_follow f ns hl)]

/-! ## What an effective update looks like from outside -/

/-- `r1` is `r` with whatever was at `ns` replaced by an object without children, observed as `w` -/
structure ReplacedAt (r r1 : Node) (ns : List Name) (w : ONode) : Prop where
  out : ∀ q, ¬ ns <+: q → obsAt r1 q = obsAt r q
  here : obsAt r1 ns = some w
  below : ∀ s, s ≠ [] → obsAt r1 (ns ++ s) = none

theorem obs_of_dirOrSame {a b : Option Node} (h : DirOrSame a b) : b.map Node.obs = a.map Node.obs := by
  rcases h with h | ⟨es, es', ha, hb⟩
  · rw [h]
  · rw [ha, hb]; rfl

theorem setAt_out (r : Node) (ns q : List Name) (v : Node) (h : ¬ ns <+: q) :
    obsAt (r.setAt ns v) q = obsAt r q := by
  unfold obsAt
  by_cases hq : q <+: ns
  · have hne : q ≠ ns := fun e => h (e ▸ List.prefix_refl _)
    exact obs_of_dirOrSame (getAt_setAt_ancestor r ns q v hq hne)
  · rw [getAt_setAt_unrelated r ns q v h hq]

theorem delAt_out (r : Node) (ns q : List Name) (h : ¬ ns <+: q) :
    obsAt (r.delAt ns) q = obsAt r q := by
  unfold obsAt
  by_cases hq : q <+: ns
  · have hne : q ≠ ns := fun e => h (e ▸ List.prefix_refl _)
    exact obs_of_dirOrSame (getAt_delAt_ancestor r ns q hq hne)
  · rw [getAt_delAt_unrelated r ns q h hq]

def ParentDir (r : Node) (ns : List Name) : Prop := ∃ es, r.getAt ns.dropLast = some (.dir es)

/-- an object without children -/
def LeafLike (v : Node) : Prop := ∀ s, s ≠ [] → v.getAt s = none

theorem leafLike_nondir (v : Node) (h : v.isDir = false) : LeafLike v := by
  intro s hs
  cases s with
  | nil => exact absurd rfl hs
  | cons a s' => exact getAt_nondir _ _ _ h

theorem leafLike_emptyDir : LeafLike (.dir []) := by
  intro s hs
  cases s with
  | nil => exact absurd rfl hs
  | cons a s' => simp [getAt_dir_cons, entGet]

theorem getAt_setAt_eff (r : Node) (ns : List Name) (v : Node) (hns : ns ≠ []) (hp : ParentDir r ns) :
    (r.setAt ns v).getAt ns = some v := by
  rcases List.eq_nil_or_concat ns with h | ⟨par, n, h⟩
  · exact absurd h hns
  · subst h
    obtain ⟨es, hes⟩ := hp
    simp only [List.concat_eq_append, List.dropLast_concat] at hes ⊢
    exact getAt_setAt_child v n par r es hes

theorem replacedAt_of_here {r r1 : Node} {ns : List Name} {v : Node} (hv : LeafLike v)
    (hout : ∀ q, ¬ ns <+: q → obsAt r1 q = obsAt r q) (hg : r1.getAt ns = some v) : ReplacedAt r r1 ns v.obs := by
  refine ⟨hout, by simp [obsAt, hg], ?_⟩
  intro s hs
  simp [obsAt, Node.getAt_append, hg, hv s hs]

theorem replacedAt_setAt (r : Node) (ns : List Name) (v : Node) (hns : ns ≠ []) (hp : ParentDir r ns)
    (hv : LeafLike v) : ReplacedAt r (r.setAt ns v) ns v.obs :=
  replacedAt_of_here hv (fun q h => setAt_out r ns q v h) (getAt_setAt_eff r ns v hns hp)

theorem replacedAt_keep (r : Node) (ns : List Name) (x : Node) (hx : r.getAt ns = some x) (hv : LeafLike x) :
    ReplacedAt r r ns x.obs :=
  replacedAt_of_here hv (fun _ _ => rfl) hx

theorem parentDir_delAt (r : Node) (ns : List Name) (hns : ns ≠ []) (hp : ParentDir r ns) :
    ParentDir (r.delAt ns) ns := by
  obtain ⟨es, hes⟩ := hp
  have hne : ns.dropLast ≠ ns := by
    intro h
    have := congrArg List.length h
    simp only [List.length_dropLast] at this
    have : 0 < ns.length := List.length_pos_iff.2 hns
    omega
  rcases getAt_delAt_ancestor r ns ns.dropLast (List.dropLast_prefix ns) hne with h | ⟨e1, e2, _, h2⟩
  · exact ⟨es, by rw [h, hes]⟩
  · exact ⟨e2, h2⟩

theorem replacedAt_reset (r : Node) (ns : List Name) (v : Node) (hns : ns ≠ []) (hp : ParentDir r ns)
    (hv : LeafLike v) : ReplacedAt r ((r.delAt ns).setAt ns v) ns v.obs :=
  replacedAt_of_here hv (fun q h => (setAt_out _ ns q v h).trans (delAt_out r ns q h))
    (getAt_setAt_eff _ ns v hns (parentDir_delAt r ns hns hp))

theorem parentDir_of_getAt (r : Node) (ns : List Name) (x : Node) (hns : ns ≠ []) (h : r.getAt ns = some x) :
    ParentDir r ns := by
  rcases List.eq_nil_or_concat ns with h0 | ⟨par, n, h0⟩
  · exact absurd h0 hns
  · subst h0
    simp only [List.concat_eq_append] at h
    simp only [ParentDir, List.concat_eq_append, List.dropLast_concat]
    rw [Node.getAt_append] at h
    cases hy : r.getAt par with
    | none => simp [hy] at h
    | some y =>
      simp only [hy, Option.bind_some] at h
      obtain ⟨es, _, hyd, _, _⟩ := Node.getAt_cons_some h
      subst hyd
      exact ⟨es, rfl⟩

theorem parentDir_of_missing (f : Fs) (p : RPath) (fl : Bool) (par : List Name) (n : Name)
    (hroot : f.root.isDir = true) (hp : p.abs = true) (h : f.resolve p fl = .missing par n) :
    ParentDir f.root (par ++ [n]) := by
  simp only [ParentDir, List.dropLast_concat]
  exact (resolve_missing_good f p fl par n hp h).dir hroot

theorem AgreeUpto.parentDir {r r' : Node} {ns : List Name} (h : AgreeUpto r r' ns) (hp : ParentDir r ns) :
    ParentDir r' ns := by
  obtain ⟨es, hes⟩ := hp
  have := h ns.dropLast (List.dropLast_prefix ns)
  rw [obsAt_dir hes] at this
  exact getAt_dir_of_obs this

/-- both results are the respective input with the object at `ns` replaced by the same thing -/
def LocalQ (W : ONode → Prop) (f f' : Fs) (ns : List Name) (g g' : Fs) : Prop :=
  ∃ w, W w ∧ ReplacedAt f.root g.root ns w ∧ ReplacedAt f'.root g'.root ns w

theorem localQ_set (W : ONode → Prop) (f f' : Fs) (ns : List Name) (v : Node) (hns : ns ≠ [])
    (hp : ParentDir f.root ns) (hag : AgreeUpto f.root f'.root ns) (hv : LeafLike v) (hW : W v.obs) :
    LocalQ W f f' ns { f with root := f.root.setAt ns v } { f' with root := f'.root.setAt ns v } :=
  ⟨v.obs, hW, replacedAt_setAt _ _ _ hns hp hv, replacedAt_setAt _ _ _ hns (hag.parentDir hp) hv⟩

theorem mk_local (W : ONode → Prop) (f f' : Fs) (ns : List Name) (v : Node) (hns : ns ≠ [])
    (hroot : f.root.isDir = true) (hag : AgreeUpto f.root f'.root ns) (hl : NoLinkAbove f.root ns)
    (hv : LeafLike v) (hW : W v.obs) :
    ExRel (LocalQ W f f' ns) ((mkAct v (f.resolve (plainPath ns) false)).run f)
      ((mkAct v (f'.resolve (plainPath ns) false)).run f') := by
  rw [resolve_local_nofollow f f' ns hag hl]
  rcases plainRes_nofollow f ns hl with hr | ⟨par, n, hr, hpn⟩ | ⟨e, hr⟩
  · rw [hr]; exact rfl
  · have hp := parentDir_of_missing f _ false par n hroot rfl hr
    rw [hr]
    simp only [mkAct, Act.run, ExRel]
    rw [hpn] at hp ⊢
    exact localQ_set W f f' ns v hns hp hag hv hW
  · rw [hr]; exact rfl

theorem createFile_local (W : ONode → Prop) (f f' : Fs) (ns : List Name) (c : Nat) (hns : ns ≠ [])
    (hroot : f.root.isDir = true) (hag : AgreeUpto f.root f'.root ns) (hl : NoLinkUpto f.root ns)
    (hWf : W (.file c)) (hWs : ∀ k d, W (.special k d)) :
    ExRel (LocalQ W f f' ns) (f.createFile (plainPath ns) c) (f'.createFile (plainPath ns) c) := by
  rw [createFile_eq, createFile_eq, resolve_local_follow f f' ns hag hl,
    resObs_local f f' ns hag _ (plainRes_follow f ns hl)]
  rcases plainRes_follow f ns hl with hr | ⟨par, n, hr, hpn⟩ | ⟨e, hr⟩
  · rw [hr]
    simp only [resObs, obsAt]
    cases hg : f.root.getAt ns with
    | none => exact rfl
    | some x =>
      cases x with
      | file k =>
        simp only [Option.map_some, Node.obs, createAct, Act.run, ExRel]
        exact localQ_set W f f' ns (.file c) hns (parentDir_of_getAt _ _ _ hns hg) hag
          (leafLike_nondir _ rfl) hWf
      | dir es => exact rfl
      | link t => exact rfl
      | special k d =>
        simp only [Option.map_some, Node.obs, createAct, Act.run, ExRel]
        have hg' : f'.root.getAt ns = some (.special k d) := by
          apply getAt_of_obs_leaf rfl
          rw [hag ns (List.prefix_refl _)]
          simp [obsAt, hg]
        exact ⟨_, hWs k d, replacedAt_keep _ _ _ hg (leafLike_nondir _ rfl),
          replacedAt_keep _ _ _ hg' (leafLike_nondir _ rfl)⟩
  · have hp := parentDir_of_missing f _ true par n hroot rfl hr
    rw [hr]
    simp only [plainPath, createAct, Bool.false_eq_true, if_false, Act.run, ExRel]
    rw [hpn] at hp ⊢
    exact localQ_set W f f' ns (.file c) hns hp hag (leafLike_nondir _ rfl) hWf
  · rw [hr]; exact rfl

theorem agreeUpto_delAt (r r' : Node) (ns : List Name) (hns : ns ≠ []) (hw : r.WF) (hw' : r'.WF)
    (hag : AgreeUpto r r' ns) : AgreeUpto (r.delAt ns) (r'.delAt ns) ns := by
  intro p hp
  by_cases hpe : p = ns
  · subst hpe
    simp [obsAt, getAt_delAt_self p r hw hns, getAt_delAt_self p r' hw' hns]
  · have : ¬ ns <+: p := fun h => hpe (prefix_antisymm hp h)
    rw [delAt_out _ _ _ this, delAt_out _ _ _ this]
    exact hag p hp

theorem unlink_mknod_local (W : ONode → Prop) (f f' : Fs) (ns : List Name) (k : FileKind) (d : Nat)
    (hns : ns ≠ []) (hw : f.root.WF) (hw' : f'.root.WF)
    (hag : AgreeUpto f.root f'.root ns) (hl : NoLinkAbove f.root ns) (hW : W (.special k d)) :
    ExRel (fun g g' => ExRel (LocalQ W f f' ns) (g.mknod (plainPath ns) k d) (g'.mknod (plainPath ns) k d))
      (f.unlink (plainPath ns)) (f'.unlink (plainPath ns)) := by
  rw [unlink_eq, unlink_eq, resolve_local_nofollow f f' ns hag hl,
    resObs_local f f' ns hag _ (plainRes_nofollow f ns hl)]
  rcases plainRes_nofollow f ns hl with hr | ⟨par, n, hr, hpn⟩ | ⟨e, hr⟩
  · rw [hr]
    simp only [resObs, obsAt]
    have hne : ns.isEmpty = false := by cases ns <;> simp at hns ⊢
    have key : ∀ x, f.root.getAt ns = some x →
        ExRel (LocalQ W f f' ns)
          (({ f with root := f.root.delAt ns } : Fs).mknod (plainPath ns) k d)
          (({ f' with root := f'.root.delAt ns } : Fs).mknod (plainPath ns) k d) := by
      intro x hg
      have hp := parentDir_of_getAt _ _ _ hns hg
      have hag1 : AgreeUpto (f.root.delAt ns) (f'.root.delAt ns) ns := agreeUpto_delAt _ _ _ hns hw hw' hag
      have hl1 : NoLinkAbove (f.root.delAt ns) ns := (delAt_ancKept _ _).noLinkAbove hl
      rw [mknod_eq, mknod_eq]
      rw [resolve_local_nofollow { f with root := f.root.delAt ns } { f' with root := f'.root.delAt ns } ns hag1 hl1]
      rcases plainRes_nofollow { f with root := f.root.delAt ns } ns hl1 with hr1 | ⟨par, n, hr1, hpn⟩ | ⟨e, hr1⟩
      · rw [hr1]; exact rfl
      · rw [hr1]
        simp only [mkAct, Act.run, ExRel]
        rw [hpn]
        exact ⟨_, hW, replacedAt_reset _ _ _ hns hp (leafLike_nondir _ rfl),
          replacedAt_reset _ _ _ hns (hag.parentDir hp) (leafLike_nondir _ rfl)⟩
      · rw [hr1]; exact rfl
    cases hg : f.root.getAt ns with
    | none => exact rfl
    | some x =>
      cases x with
      | dir es => exact rfl
      | file c => simp only [Option.map_some, Node.obs, unlinkAct, hne, Act.run, ExRel]; exact key _ hg
      | link t => simp only [Option.map_some, Node.obs, unlinkAct, hne, Act.run, ExRel]; exact key _ hg
      | special k' d' => simp only [Option.map_some, Node.obs, unlinkAct, hne, Act.run, ExRel]; exact key _ hg
  · rw [hr]; exact rfl
  · rw [hr]; exact rfl

/-! ## One operation, locally -/

def isLinkOp : Op → Bool
  | .link _ _ => true
  | _ => false

/-- what is needed of a state for the operation to act at the place its target spells: `ns` -/
structure OpPlain (f : Fs) (x : Op) (ns : List Name) : Prop where
  tgt : opTarget x = some (plainPath ns)
  above : NoLinkAbove f.root ns
  upto : isLinkOp x = false → NoLinkUpto f.root ns
  src : ∀ s, srcOf x = some s → s = plainPath s.names ∧ NoLinkUpto f.root s.names

/-- the written object is a link only if the operation creates links -/
def WOf (x : Op) (w : ONode) : Prop := isLinkOp x = false → ∀ t, w ≠ .link t

/-- an operation (not `mkdir`) on a plain target, run in two states that show the same at the prefixes of its
target and of its source: both fail, or both succeed, replacing the object at the target by the same thing -/
theorem execOp_local (f f' : Fs) (c : Cfg) (x : Op) (ns : List Name) (hp : OpPlain f x ns) (hns : ns ≠ [])
    (hroot : f.root.isDir = true) (hw : f.root.WF) (hw' : f'.root.WF) (hnm : ∀ t, x ≠ .mkdir t)
    (hag : AgreeUpto f.root f'.root ns) (hags : ∀ s, srcOf x = some s → AgreeUpto f.root f'.root s.names) :
    L0.ORel (LocalQ (WOf x) f f' ns) (execOp f c x) (execOp f' c x) := by
  apply execOp_rel
  · intro s hs
    obtain ⟨h1, h2⟩ := hp.src s hs
    rw [h1]
    exact ostat_local f f' _ (hags s hs) h2
  · intro t ht hsrc
    have hnl : isLinkOp x = false := by cases x <;> simp [srcOf] at hsrc <;> rfl
    have : t = plainPath ns := by
      have := hp.tgt; rw [ht] at this; exact Option.some.inj this
    rw [this]
    exact ostat_local f f' _ hag (hp.upto hnl)
  · intro t ht; exact absurd ht (hnm t)
  · intro s t content hx
    subst hx
    have : t = plainPath ns := Option.some.inj hp.tgt
    subst this
    exact createFile_local _ f f' ns content hns hroot hag (hp.upto rfl)
      (fun _ t h => by cases h) (fun k d _ t h => by cases h)
  · intro tx t hx
    subst hx
    have : t = plainPath ns := Option.some.inj hp.tgt
    subst this
    rw [symlink_eq, symlink_eq]
    exact mk_local _ f f' ns _ hns hroot hag hp.above (leafLike_nondir _ rfl) (fun h => by cases h)
  · intro s t k d hx
    subst hx
    have : t = plainPath ns := Option.some.inj hp.tgt
    subst this
    refine ⟨?_, ?_⟩
    · rw [mknod_eq, mknod_eq]
      exact mk_local _ f f' ns _ hns hroot hag hp.above (leafLike_nondir _ rfl) (fun _ t h => by cases h)
    · exact unlink_mknod_local _ f f' ns k d hns hw hw' hag hp.above (fun _ t h => by cases h)

/-! ## `mkdir`, locally -/

/-- what `create_dir_all ns` may change: places at prefixes of `ns` where nothing was now hold a directory -/
def MkFrame (r r1 : Node) (ns : List Name) : Prop :=
  ∀ q, obsAt r1 q = obsAt r q ∨ (q <+: ns ∧ obsAt r q = none ∧ obsAt r1 q = some .dir)

theorem MkFrame.refl (r : Node) (ns : List Name) : MkFrame r r ns := fun _ => .inl rfl

theorem MkFrame.trans {a b c : Node} {ns : List Name} (h1 : MkFrame a b ns) (h2 : MkFrame b c ns) :
    MkFrame a c ns := by
  intro q
  rcases h2 q with h | ⟨hq, hb, hc⟩
  · rcases h1 q with h' | ⟨hq', ha, hb'⟩
    · exact .inl (h.trans h')
    · exact .inr ⟨hq', ha, h.trans hb'⟩
  · rcases h1 q with h' | ⟨hq', ha, hb'⟩
    · exact .inr ⟨hq, h' ▸ hb, hc⟩
    · rw [hb] at hb'; cases hb'

theorem mkFrame_of_replaced {r r1 : Node} {p ns : List Name} (hp : p <+: ns) (hnone : r.getAt p = none)
    (h : ReplacedAt r r1 p .dir) : MkFrame r r1 ns := by
  intro q
  by_cases hq : p <+: q
  · obtain ⟨s, hs⟩ := hq
    subst hs
    by_cases hs : s = []
    · subst hs
      rw [List.append_nil]
      exact .inr ⟨hp, by simp [obsAt, hnone], h.here⟩
    · left
      rw [h.below s hs]
      simp [obsAt, getAt_append_none _ _ _ hnone]
  · exact .inl (h.out q hq)

/-- what the steps of `create_dir_all ns` maintain, in two states run side by side -/
structure MkInv (f f' : Fs) (ns : List Name) (g g' : Fs) : Prop where
  root : g.root.isDir = true
  nolink : NoLinkUpto g.root ns
  agree : AgreeUpto g.root g'.root ns
  frame : MkFrame f.root g.root ns
  frame' : MkFrame f'.root g'.root ns

theorem mkdir_step_local (f f' : Fs) (ns p : List Name) (hp : p <+: ns) (g g' : Fs) (h : MkInv f f' ns g g') :
    ExRel (MkInv f f' ns) (g.mkdir (plainPath p)) (g'.mkdir (plainPath p)) := by
  have hagp := h.agree.prefix hp
  have hlp : NoLinkAbove g.root p := (h.nolink.prefix hp).above
  rw [mkdir_eq, mkdir_eq, resolve_local_nofollow g g' p hagp hlp]
  rcases plainRes_nofollow g p hlp with hr | ⟨par, n, hr, hpn⟩ | ⟨e, hr⟩
  · rw [hr]; exact rfl
  · have hpd := parentDir_of_missing g _ false par n h.root rfl hr
    have hnone := resolve_missing _ _ _ _ _ hr
    rw [hr]
    simp only [mkAct, Act.run, ExRel]
    rw [hpn] at hpd hnone ⊢
    have hpne : p ≠ [] := by rw [← hpn]; simp
    have hnone' : g'.root.getAt p = none := by
      have := hagp p (List.prefix_refl _)
      simp only [obsAt, hnone, Option.map_none, Option.map_eq_none_iff] at this
      exact this
    have R1 := replacedAt_setAt g.root p (.dir []) hpne hpd leafLike_emptyDir
    have R2 := replacedAt_setAt g'.root p (.dir []) hpne (hagp.parentDir hpd) leafLike_emptyDir
    have hcase : ∀ q, (¬ p <+: q) ∨ q = p ∨ ∃ s, s ≠ [] ∧ q = p ++ s := by
      intro q
      by_cases hq : p <+: q
      · obtain ⟨s, hs⟩ := hq
        by_cases hs0 : s = []
        · right; left; rw [← hs, hs0, List.append_nil]
        · right; right; exact ⟨s, hs0, hs.symm⟩
      · exact .inl hq
    refine ⟨?_, ?_, ?_, h.frame.trans (mkFrame_of_replaced hp hnone R1),
      h.frame'.trans (mkFrame_of_replaced hp hnone' R2)⟩
    · obtain ⟨a, b, hab⟩ : ∃ a b, p = a :: b := by
        cases p with
        | nil => exact absurd rfl hpne
        | cons a b => exact ⟨a, b, rfl⟩
      rw [hab]
      exact setAt_isDir _ _ _ _ h.root
    · intro q hq tg hg
      rw [getAt_link_iff] at hg
      rcases hcase q with hc | hc | ⟨s, hs, hc⟩
      · rw [R1.out q hc, ← getAt_link_iff] at hg; exact h.nolink q hq tg hg
      · subst hc; rw [R1.here] at hg; cases hg
      · subst hc; rw [R1.below s hs] at hg; cases hg
    · intro q hq
      rcases hcase q with hc | hc | ⟨s, hs, hc⟩
      · rw [R1.out q hc, R2.out q hc]; exact h.agree q hq
      · subst hc; rw [R1.here, R2.here]
      · subst hc; rw [R1.below s hs, R2.below s hs]
  · rw [hr]; exact rfl

theorem execOp_mkdir_local (f f' : Fs) (c : Cfg) (ns : List Name) (hroot : f.root.isDir = true)
    (hl : NoLinkUpto f.root ns) (hag : AgreeUpto f.root f'.root ns) :
    L0.ORel (MkInv f f' ns) (execOp f c (.mkdir (plainPath ns))) (execOp f' c (.mkdir (plainPath ns))) := by
  have h0 : MkInv f f' ns f f' := ⟨hroot, hl, hag, MkFrame.refl _ _, MkFrame.refl _ _⟩
  apply ExRel.toOption
  unfold Fs.mkdirAll
  split
  · exact h0
  · have hpp : ∀ (c : Comp) (rest : List Comp) (rn : List Name), c :: rest = rn.map .name →
        (⟨true, (c :: rest).reverse, false⟩ : RPath) = plainPath rn.reverse := by
      intro c rest rn h
      rw [h]; simp [plainPath]
    refine mkdirAllAux_rel (MkInv f f' ns) true (fun rev => ∃ rn : List Name, rev = rn.map .name ∧ rn.reverse <+: ns)
      ?_ ?_ ?_ _ f f' ⟨ns.reverse, by simp [plainPath], by simp⟩ h0
    · rintro c rest ⟨rn, h1, h2⟩
      cases rn with
      | nil => simp at h1
      | cons a rn' =>
        simp only [List.map_cons, List.cons.injEq] at h1
        refine ⟨rn', h1.2, ?_⟩
        rw [List.reverse_cons] at h2
        exact (List.prefix_append _ _).trans h2
    · rintro g g' c rest ⟨rn, h1, h2⟩ hq
      rw [hpp c rest rn h1]
      exact mkdir_step_local f f' ns _ h2 g g' hq
    · rintro g g' c rest ⟨rn, h1, h2⟩ hq
      rw [hpp c rest rn h1]
      exact isDir_congr (ostat_local g g' _ (hq.agree.prefix h2) (hq.nolink.prefix h2))

/-- `create_dir_all` of an existing directory changes nothing -/
theorem mkdirAll_existing_dir (f : Fs) (ns : List Name) (es : Entries) (hlen : ns.length < 256)
    (hg : f.root.getAt ns = some (.dir es)) (hl : NoLinkUpto f.root ns) :
    f.mkdirAll (plainPath ns) = .ok f := by
  unfold Fs.mkdirAll
  split
  · rfl
  · simp only [plainPath, ← List.map_reverse]
    cases hrev : ns.reverse with
    | nil => rfl
    | cons n rest =>
      have hns : (n :: rest).reverse = ns := by rw [← hrev, List.reverse_reverse]
      have hpp : (⟨true, (Comp.name n :: rest.map .name).reverse, false⟩ : RPath) = plainPath ns := by
        rw [← hns]; simp [plainPath]
      simp only [List.map_cons, Fs.mkdirAllAux]
      rw [hpp]
      have hr := resolve_plain_found f ns false _ hlen hg (fun p hp _ tg => hl p hp tg)
      have hs := stat_plain f ns _ hlen hg hl
      have hm : f.mkdir (plainPath ns) = .error .EEXIST := by simp [Fs.mkdir, hr]
      have hd : f.isDir (plainPath ns) = true := by simp [Fs.isDir, hs, Node.isDir]
      rw [hm]
      simp [hd]

/-! ## Commutation of effects on unrelated places -/

theorem not_both_prefix {p q x : List Name} (h1 : ¬ p <+: q) (h2 : ¬ q <+: p) (hp : p <+: x) (hq : q <+: x) :
    False := by
  rcases List.prefix_or_prefix_of_prefix hp hq with h | h
  · exact h1 h
  · exact h2 h

theorem ReplacedAt.at_below {r r1 r' r1' : Node} {ns : List Name} {w : ONode} (h : ReplacedAt r r1 ns w)
    (h' : ReplacedAt r' r1' ns w) (q : List Name) (hq : ns <+: q) : obsAt r1 q = obsAt r1' q := by
  obtain ⟨s, hs⟩ := hq
  subst hs
  by_cases hs : s = []
  · subst hs; rw [List.append_nil, h.here, h'.here]
  · rw [h.below s hs, h'.below s hs]

/-- two replacements at unrelated places, done in either order -/
theorem replacedAt_comm {r ra rb rab rba : Node} {ta tb : List Name} {wa wb : ONode}
    (h1 : ¬ ta <+: tb) (h2 : ¬ tb <+: ta)
    (A1 : ReplacedAt r ra ta wa) (A2 : ReplacedAt rb rba ta wa)
    (B1 : ReplacedAt r rb tb wb) (B2 : ReplacedAt ra rab tb wb) : SameObs rab rba := by
  intro q
  by_cases hb : tb <+: q
  · have ha : ¬ ta <+: q := fun ha => not_both_prefix h1 h2 ha hb
    rw [A2.out q ha]
    exact B2.at_below B1 q hb
  · rw [B2.out q hb]
    by_cases ha : ta <+: q
    · exact A1.at_below A2 q ha
    · rw [A1.out q ha, A2.out q ha, B1.out q hb]

/-- a replacement and a `create_dir_all` at unrelated places, done in either order -/
theorem mkFrame_comm {r ra rb rab rba : Node} {ta tb : List Name} {wa : ONode}
    (h1 : ¬ ta <+: tb)
    (A1 : ReplacedAt r ra ta wa) (A2 : ReplacedAt rb rba ta wa)
    (M1 : MkFrame r rb tb) (M2 : MkFrame ra rab tb) (hag : AgreeUpto rb rab tb) : SameObs rab rba := by
  intro q
  by_cases ha : ta <+: q
  · have hq : ¬ q <+: tb := fun hq => h1 (ha.trans hq)
    rcases M2 q with h | ⟨hq', _, _⟩
    · rw [h]; exact A1.at_below A2 q ha
    · exact absurd hq' hq
  · rw [A2.out q ha]
    by_cases hq : q <+: tb
    · exact hag q hq
    · rcases M2 q with h | ⟨hq', _, _⟩
      · rcases M1 q with h' | ⟨hq', _, _⟩
        · rw [h, h', A1.out q ha]
        · exact absurd hq' hq
      · exact absurd hq' hq

end Xcp
