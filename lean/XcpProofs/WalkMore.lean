import XcpProofs.WalkerLemmas
import XcpProofs.FsDefs
import XcpProofs.FsFrame
/-! # What each operation leaves at a plain target; the first operation of a walk entry (C02)

`plainPath ns` (FsFrame) is the absolute path spelled by the names `ns`.  On a path with no symbolic link at
or above it the kernel's walk ends exactly at `ns` (given fuel: `ns.length < resolveFuel`), and a creating
call that found the last component missing did so below an existing directory, so that `setAt` really
inserts.  -/
namespace Xcp

/-! ## Tree algebra: reading back what `setAt` wrote -/

theorem getAt_setAt_child (v : Node) (n : Name) :
    ∀ (par : List Name) (root : Node) (es : Entries), root.getAt par = some (.dir es) →
      (root.setAt (par ++ [n]) v).getAt (par ++ [n]) = some v := by
  intro par
  induction par with
  | nil =>
    intro root es h
    simp only [getAt_nil, Option.some.injEq] at h
    subst h
    simp [setAt_dir_single, getAt_dir_cons, entGet_entSet_self]
  | cons m r ih =>
    intro root es h
    obtain ⟨es', c, hroot, hget, hc⟩ := Node.getAt_cons_some h
    subst hroot
    rw [List.cons_append]
    cases hrn : r ++ [n] with
    | nil => simp at hrn
    | cons a b =>
      rw [setAt_dir_cons, hget]
      simp only [getAt_dir_cons, entGet_entSet_self, Option.bind_some]
      rw [← hrn]
      exact ih c es hc

theorem getAt_setAt_exists (root : Node) (p : List Name) (v x : Node) (h : root.getAt p = some x) :
    (root.setAt p v).getAt p = some v := by
  rcases List.eq_nil_or_concat p with hp | ⟨par, n, hp⟩
  · subst hp; simp
  · subst hp
    simp only [List.concat_eq_append] at h ⊢
    rw [Node.getAt_append] at h
    cases hy : root.getAt par with
    | none => simp [hy] at h
    | some y =>
      simp only [hy, Option.bind_some] at h
      obtain ⟨es, _, hyd, _, _⟩ := Node.getAt_cons_some h
      subst hyd
      exact getAt_setAt_child v n par root es hy

theorem setAt_isDir (root : Node) (n : Name) (r : List Name) (v : Node) (h : root.isDir = true) :
    (root.setAt (n :: r) v).isDir = true := by
  cases root <;> simp [Node.isDir] at h
  rename_i es
  cases r with
  | nil => simp [setAt_dir_single, Node.isDir]
  | cons m r' =>
    rw [setAt_dir_cons]
    cases entGet es n <;> simp [Node.isDir]

theorem delAt_isDir (root : Node) (p : List Name) (h : root.isDir = true) : (root.delAt p).isDir = true := by
  cases root <;> simp [Node.isDir] at h
  rename_i es
  cases p with
  | nil => simp [Node.isDir]
  | cons n r =>
    cases r with
    | nil => simp [delAt_dir_single, Node.isDir]
    | cons m r' =>
      rw [delAt_dir_cons]
      cases entGet es n <;> simp [Node.isDir]

theorem Preserved.isDir {r r' : Node} (h : Preserved r r') (hd : r.isDir = true) : r'.isDir = true := by
  cases r <;> simp [Node.isDir] at hd
  have := h []
  simp only [getAt_nil, Kept] at this
  obtain ⟨es', he⟩ := this
  simp only [Option.some.injEq] at he
  rw [he]; rfl

/-- writing a non-link at `ns` keeps the path free of links -/
theorem NoLinkUpto.setAt {root : Node} {ns : List Name} (hl : NoLinkAbove root ns) (v : Node)
    (hv : v.isLink = false) (hg : (root.setAt ns v).getAt ns = some v) : NoLinkUpto (root.setAt ns v) ns := by
  intro q hq tg
  by_cases hqe : q = ns
  · subst hqe
    rw [hg]
    intro hh
    simp only [Option.some.injEq] at hh
    subst hh
    cases hv
  · exact (setAt_ancKept root ns v).noLinkAbove hl q hq hqe tg

/-! ## Path resolution of plain paths: success, given fuel -/

theorem walkPath_plain_found (root : Node) (fl : Bool) :
    ∀ (ns : List Name) (fuel : Nat) (cur : List Name) (x : Node), ns.length < fuel →
      root.getAt (cur ++ ns) = some x →
      (∀ p, p <+: ns → p ≠ [] → (p ≠ ns ∨ fl = true) → ∀ tg, root.getAt (cur ++ p) ≠ some (.link tg)) →
      walkPath root fl fuel cur (ns.map .name) = .found (cur ++ ns) := by
  intro ns
  induction ns with
  | nil =>
    intro fuel cur x hf _ _
    cases fuel with
    | zero => cases hf
    | succ f => simp [walkPath]
  | cons n r ih =>
    intro fuel cur x hf hx h
    cases fuel with
    | zero => cases hf
    | succ f =>
      have hf' : r.length < f := by simp only [List.length_cons] at hf; omega
      have hx' : root.getAt ((cur ++ [n]) ++ r) = some x := by simpa using hx
      have hrec : ∀ p, p <+: r → p ≠ [] → (p ≠ r ∨ fl = true) →
          ∀ tg, root.getAt ((cur ++ [n]) ++ p) ≠ some (.link tg) := by
        intro p hp hne hor tg
        have := h (n :: p) (List.cons_prefix_cons.2 ⟨rfl, hp⟩) (by simp)
          (hor.elim (fun h => .inl (by simpa using h)) .inr) tg
        simpa using this
      simp only [List.map_cons, walkPath]
      have hxb := hx'
      rw [Node.getAt_append] at hxb
      cases hg : root.getAt (cur ++ [n]) with
      | none => simp [hg] at hxb
      | some nd =>
        simp only [hg, Option.bind_some] at hxb
        cases nd with
        | file k =>
          cases r with
          | nil => simp
          | cons m r' => simp [Node.getAt] at hxb
        | special k d =>
          cases r with
          | nil => simp
          | cons m r' => simp [Node.getAt] at hxb
        | dir es =>
          have := ih f (cur ++ [n]) x hf' hx' hrec
          simpa using this
        | link t =>
          cases r with
          | nil =>
            cases fl with
            | false => simp
            | true => exact absurd hg (h [n] (List.prefix_refl _) (by simp) (.inr rfl) t)
          | cons m r' =>
            exact absurd hg (h [n] (List.cons_prefix_cons.2 ⟨rfl, List.nil_prefix⟩) (by simp) (.inl (by simp)) t)

theorem resolve_plain_found (fs : Fs) (ns : List Name) (fl : Bool) (x : Node) (hlen : ns.length < 256)
    (hx : fs.root.getAt ns = some x)
    (h : ∀ p, p <+: ns → (p ≠ ns ∨ fl = true) → ∀ tg, fs.root.getAt p ≠ some (.link tg)) :
    fs.resolve (plainPath ns) fl = .found ns := by
  have hw := walkPath_plain_found fs.root fl ns resolveFuel [] x hlen (by simpa using hx) (by
    intro p hp _ hor tg
    simpa using h p hp hor tg)
  simp only [List.nil_append] at hw
  simp [Fs.resolve, plainPath, hw]

/-- `stat` of a plain path at which something is -/
theorem stat_plain (fs : Fs) (ns : List Name) (x : Node) (hlen : ns.length < 256)
    (hx : fs.root.getAt ns = some x) (hl : NoLinkUpto fs.root ns) : fs.stat (plainPath ns) = some (ns, x) := by
  have hr := resolve_plain_found fs ns true x hlen hx (fun p hp _ tg => hl p hp tg)
  simp [Fs.stat, hr, hx]

/-- `lstat` of a plain path at which something is (possibly a link) -/
theorem lstat_plain (fs : Fs) (ns : List Name) (x : Node) (hlen : ns.length < 256)
    (hx : fs.root.getAt ns = some x) (hl : NoLinkAbove fs.root ns) : fs.lstat (plainPath ns) = some (ns, x) := by
  have hr := resolve_plain_found fs ns false x hlen hx
    (fun p hp hor tg => hl p hp (hor.elim id (fun h => by cases h)) tg)
  simp [Fs.lstat, hr, hx]

/-- "last component missing" is only answered below the root or below an existing directory -/
theorem walkPath_missing_good (root : Node) (fl : Bool) :
    ∀ (fuel : Nat) (cur : List Name) (cs : List Comp) (par : List Name) (n : Name), GoodCur root cur →
      walkPath root fl fuel cur cs = .missing par n → GoodCur root par := by
  intro fuel
  induction fuel with
  | zero => intro cur cs par n _ h; simp [walkPath] at h
  | succ f ih =>
    intro cur cs par n hg h
    cases cs with
    | nil => simp [walkPath] at h
    | cons c r =>
      cases c with
      | cur => simp only [walkPath] at h; exact ih _ _ _ _ hg h
      | parent => simp only [walkPath] at h; exact ih _ _ _ _ hg.dropLast h
      | name m =>
        simp only [walkPath] at h
        split at h
        · split at h
          · cases h; exact hg
          · cases h
        · split at h
          · cases h
          · refine ih _ _ _ _ ?_ h
            split
            · exact .inl rfl
            · exact hg
        · rename_i es hnode
          exact ih _ _ _ _ (.inr ⟨es, hnode⟩) h
        · split at h <;> cases h

theorem resolve_missing_good (fs : Fs) (p : RPath) (fl : Bool) (par : List Name) (n : Name)
    (hp : p.abs = true) (h : fs.resolve p fl = .missing par n) : GoodCur fs.root par := by
  unfold Fs.resolve at h
  split at h
  · cases h
  · split at h
    · split at h
      · split at h <;> cases h
      · cases h
    · refine walkPath_missing_good _ _ _ _ _ _ _ ?_ h
      first
        | exact .inl rfl
        | (rw [if_pos hp]; exact .inl rfl)

theorem GoodCur.dir {root : Node} {cur : List Name} (h : GoodCur root cur) (hroot : root.isDir = true) :
    ∃ es, root.getAt cur = some (.dir es) := by
  rcases h with h | h
  · subst h
    cases root <;> simp [Node.isDir] at hroot
    exact ⟨_, getAt_nil _⟩
  · exact h

/-- a creating call that found the last component of a plain path missing really inserts there -/
theorem setAt_missing_getAt (fs : Fs) (ns par : List Name) (n : Name) (v : Node) (fl : Bool)
    (hroot : fs.root.isDir = true) (hr : fs.resolve (plainPath ns) fl = .missing par n) (hpn : par ++ [n] = ns) :
    (fs.root.setAt ns v).getAt ns = some v := by
  obtain ⟨es, hes⟩ := (resolve_missing_good fs (plainPath ns) fl par n rfl hr).dir hroot
  subst hpn
  exact getAt_setAt_child v n par fs.root es hes

/-! ## What each mutating call leaves at a plain path -/

theorem mkdir_plain_isDir (fs fs' : Fs) (ns : List Name) (hroot : fs.root.isDir = true) (hlen : ns.length < 256)
    (hl : NoLinkUpto fs.root ns) (h : fs.mkdir (plainPath ns) = .ok fs') : fs'.isDir (plainPath ns) = true := by
  unfold Fs.mkdir at h
  rcases resolve_plain_nofollow fs ns hl.above with hr | ⟨par, n, hr, hpn⟩ | ⟨e, hr⟩
  · rw [hr] at h; cases h
  · have hg := setAt_missing_getAt fs ns par n (.dir []) false hroot hr hpn
    rw [hr] at h
    cases h
    rw [hpn]
    have hl' := NoLinkUpto.setAt hl.above (.dir []) rfl hg
    have hs := stat_plain { fs with root := fs.root.setAt ns (.dir []) } ns (.dir []) hlen hg hl'
    simp [Fs.isDir, hs, Node.isDir]
  · rw [hr] at h; cases h

theorem mkdirAll_plain_isDir (fs fs' : Fs) (ns : List Name) (hroot : fs.root.isDir = true)
    (hlen : ns.length < 256) (hl : NoLinkUpto fs.root ns) (h : fs.mkdirAll (plainPath ns) = .ok fs') :
    fs'.isDir (plainPath ns) = true := by
  have hnil : ∀ fs0 : Fs, fs0.root.isDir = true → fs0.isDir (plainPath []) = true := by
    intro fs0 h0
    have := stat_plain fs0 [] fs0.root (by decide) (by simp) (by
      intro q hq tg
      rw [List.prefix_nil.1 hq]
      simp only [getAt_nil]
      intro hh; injection hh with hh; rw [hh] at h0; cases h0)
    simp [Fs.isDir, this, h0]
  unfold Fs.mkdirAll at h
  split at h
  · rename_i he
    cases h
    have : ns = [] := by simpa [plainPath] using he
    subst this
    exact hnil fs hroot
  · simp only [plainPath, ← List.map_reverse] at h
    cases hrev : ns.reverse with
    | nil =>
      have : ns = [] := by simpa using hrev
      subst this
      simp only [List.reverse_nil, List.map_nil, Fs.mkdirAllAux] at h
      cases h
      exact hnil fs hroot
    | cons n rest =>
      have hns : (n :: rest).reverse = ns := by rw [← hrev, List.reverse_reverse]
      rw [hrev] at h
      have hpp : (⟨true, (Comp.name n :: rest.map .name).reverse, false⟩ : RPath) = plainPath ns := by
        rw [← hns]; simp [plainPath]
      have hp' : rest.reverse <+: ns := by
        rw [← hns, List.reverse_cons]
        exact List.prefix_append _ _
      simp only [List.map_cons, Fs.mkdirAllAux] at h
      rw [hpp] at h
      split at h
      · rename_i fs1 hm
        cases h
        exact mkdir_plain_isDir _ _ _ hroot hlen hl hm
      · split at h
        · rename_i fs1 h1
          obtain ⟨_, l1⟩ := mkdirAllAux_plain ns rest fs fs1 hp' hl h1
          have hroot1 := (mkdirAllAux_preserved _ _ _ _ h1).isDir hroot
          split at h
          · rename_i fs2 h2
            cases h
            exact mkdir_plain_isDir _ _ _ hroot1 hlen l1 h2
          · split at h
            · rename_i hd
              cases h; exact hd
            · cases h
        · cases h
      · split at h
        · rename_i hd
          cases h; exact hd
        · cases h

theorem symlink_plain_lstat (fs fs' : Fs) (tg : RPath) (ns : List Name) (hroot : fs.root.isDir = true)
    (hlen : ns.length < 256) (hl : NoLinkAbove fs.root ns) (h : fs.symlink tg (plainPath ns) = .ok fs') :
    fs'.lstat (plainPath ns) = some (ns, .link tg) := by
  unfold Fs.symlink at h
  rcases resolve_plain_nofollow fs ns hl with hr | ⟨par, n, hr, hpn⟩ | ⟨e, hr⟩
  · rw [hr] at h; cases h
  · have hg := setAt_missing_getAt fs ns par n (.link tg) false hroot hr hpn
    rw [hr] at h
    cases h
    rw [hpn]
    exact lstat_plain { fs with root := fs.root.setAt ns (.link tg) } ns _ hlen hg
      ((setAt_ancKept _ _ _).noLinkAbove hl)
  · rw [hr] at h; cases h

theorem mknod_plain_lstat (fs fs' : Fs) (ns : List Name) (k : FileKind) (d : Nat) (hroot : fs.root.isDir = true)
    (hlen : ns.length < 256) (hl : NoLinkAbove fs.root ns) (h : fs.mknod (plainPath ns) k d = .ok fs') :
    fs'.lstat (plainPath ns) = some (ns, .special k d) := by
  unfold Fs.mknod at h
  rcases resolve_plain_nofollow fs ns hl with hr | ⟨par, n, hr, hpn⟩ | ⟨e, hr⟩
  · rw [hr] at h; cases h
  · have hg := setAt_missing_getAt fs ns par n (.special k d) false hroot hr hpn
    rw [hr] at h
    cases h
    rw [hpn]
    exact lstat_plain { fs with root := fs.root.setAt ns (.special k d) } ns _ hlen hg
      ((setAt_ancKept _ _ _).noLinkAbove hl)
  · rw [hr] at h; cases h

/-- `File::create` + copy on a plain path that is not an existing special file: a regular file with the
content written -/
theorem createFile_plain_stat (fs fs' : Fs) (ns : List Name) (c : Nat) (hroot : fs.root.isDir = true)
    (hlen : ns.length < 256) (hl : NoLinkUpto fs.root ns)
    (hsp : ∀ k d, fs.root.getAt ns ≠ some (.special k d))
    (h : fs.createFile (plainPath ns) c = .ok fs') : fs'.stat (plainPath ns) = some (ns, .file c) := by
  have key : ∀ (hg : (fs.root.setAt ns (.file c)).getAt ns = some (.file c)),
      ({ fs with root := fs.root.setAt ns (.file c) } : Fs).stat (plainPath ns) = some (ns, .file c) :=
    fun hg => stat_plain _ ns _ hlen hg (NoLinkUpto.setAt hl.above (.file c) rfl hg)
  unfold Fs.createFile at h
  rcases resolve_plain_follow fs ns hl with hr | ⟨par, n, hr, hpn⟩ | ⟨e, hr⟩
  · rw [hr] at h
    simp only at h
    split at h
    · rename_i k hk
      cases h
      exact key (getAt_setAt_exists _ _ _ _ hk)
    · cases h
    · rename_i k d hk
      exact absurd hk (hsp k d)
    · cases h
  · have hg := setAt_missing_getAt fs ns par n (.file c) true hroot hr hpn
    rw [hr] at h
    simp only [plainPath] at h
    cases h
    rw [hpn]
    exact key hg
  · rw [hr] at h; cases h

/-! ## The operations -/

theorem execOp_copy_plain (fs fs' : Fs) (c : Cfg) (s t : RPath) (ns : List Name) (ht : t = plainPath ns)
    (hroot : fs.root.isDir = true) (hlen : ns.length < 256) (hl : NoLinkUpto fs.root ns)
    (hsp : ∀ k d, fs.root.getAt ns ≠ some (.special k d))
    (h : execOp fs c (.copy s t) = some fs') :
    fs'.contentOf t = fs.contentOf s ∧ fs.contentOf s ≠ none := by
  subst ht
  simp only [execOp] at h
  cases hc : fs.contentOf s with
  | none => simp [hc] at h
  | some content =>
    simp only [hc] at h
    split at h
    · cases h
    · have hs := createFile_plain_stat fs fs' ns content hroot hlen hl hsp (toOption_eq_some h)
      exact ⟨by simp [Fs.contentOf, hs], by simp⟩

theorem execOp_link_plain (fs fs' : Fs) (c : Cfg) (text t : RPath) (ns : List Name) (ht : t = plainPath ns)
    (hroot : fs.root.isDir = true) (hlen : ns.length < 256) (hl : NoLinkAbove fs.root ns)
    (h : execOp fs c (.link text t) = some fs') : fs'.lstat t = some (ns, .link text) := by
  subst ht
  exact symlink_plain_lstat fs fs' text ns hroot hlen hl (toOption_eq_some h)

theorem execOp_mkdir_plain (fs fs' : Fs) (c : Cfg) (t : RPath) (ns : List Name) (ht : t = plainPath ns)
    (hroot : fs.root.isDir = true) (hlen : ns.length < 256) (hl : NoLinkUpto fs.root ns)
    (h : execOp fs c (.mkdir t) = some fs') : fs'.isDir t = true := by
  subst ht
  exact mkdirAll_plain_isDir fs fs' ns hroot hlen hl (toOption_eq_some h)

theorem execOp_special_plain (fs fs' : Fs) (c : Cfg) (s t : RPath) (ns cs : List Name) (k : FileKind) (rdev : Nat)
    (ht : t = plainPath ns) (hroot : fs.root.isDir = true) (hlen : ns.length < 256) (hl : NoLinkAbove fs.root ns)
    (hs : fs.stat s = some (cs, .special k rdev))
    (h : execOp fs c (.special s t) = some fs') : fs'.lstat t = some (ns, .special k rdev) := by
  subst ht
  simp only [execOp, hs] at h
  split at h
  · split at h
    · cases h
    · split at h
      · cases h
      · split at h
        · rename_i fs1 hu
          have h1 := unlink_plain _ _ _ hl hu
          subst h1
          exact mknod_plain_lstat _ fs' ns k rdev (delAt_isDir _ _ hroot) hlen
            ((delAt_ancKept _ _).noLinkAbove hl) (toOption_eq_some h)
        · cases h
  · exact mknod_plain_lstat fs fs' ns k rdev hroot hlen hl (toOption_eq_some h)

/-! ## The first operation of a walk entry -/

/-- without dereference, gitignore and no-clobber, the first thing `walkEntry` emits for an entry that `lstat`
finds is the operation for the entry itself -/
theorem walkEntry_head (fs : Fs) (c : Cfg) (hd : c.dereference = false) (hn : c.noClobber = false)
    (src tb : RPath) (fuel : Nat) (rel : List Name) (anc : List (List Name)) (cp : List Name) (n : Node)
    (hl : fs.lstat (relJoin src rel) = some (cp, n)) :
    (walkEntry fs c none src tb (fuel + 1) rel anc).head? =
      (hereOps n (relJoin src rel) (relJoin tb rel)).head? := by
  cases n with
  | file k =>
    simp [walkEntry, hd, hn, hl, hereOps, Node.kind, classifyKind, Node.isLink]
  | dir es =>
    simp [walkEntry, hd, hn, hl, hereOps, Node.kind, classifyKind, Node.isLink]
    repeat' split
    all_goals simp
  | link t =>
    simp [walkEntry, hd, hn, hl, hereOps, Node.kind, classifyKind, Node.isLink]
    repeat' split
    all_goals simp
  | special k d =>
    cases k <;> simp [walkEntry, hd, hn, hl, hereOps, Node.kind, classifyKind, Node.isLink]

/-! ## Running a list of operations -/

/-- every operation of the list succeeds when run in sequence -/
def AllSucceed (c : Cfg) : Fs → List Op → Prop
  | _, [] => True
  | fs, op :: r => ∃ fs', execOp fs c op = some fs' ∧ AllSucceed c fs' r

theorem execOps_ok_iff (c : Cfg) : ∀ (ops : List Op) (fs : Fs),
    (execOps fs c ops).exit = .ok ↔ AllSucceed c fs ops := by
  intro ops
  induction ops with
  | nil => intro fs; simp [execOps, AllSucceed]
  | cons op r ih =>
    intro fs
    simp only [execOps, AllSucceed]
    cases he : execOp fs c op with
    | none => simp
    | some fs' => simp [ih fs']

theorem execOps_ok_no_fail (c : Cfg) : ∀ (ops : List Op) (fs : Fs),
    (execOps fs c ops).exit = .ok → ∀ op ∈ ops, op ≠ .fail := by
  intro ops
  induction ops with
  | nil => intro fs _ op hop; cases hop
  | cons o r ih =>
    intro fs h op hop
    simp only [execOps] at h
    cases he : execOp fs c o with
    | none => simp [he] at h
    | some fs' =>
      simp only [he] at h
      cases hop with
      | head => intro hf; subst hf; simp [execOp] at he
      | tail _ hm => exact ih fs' h op hm

end Xcp
