import XcpProofs.DerefTreeLemmas
/-! # `--dereference`, tree level: the destination is the source tree seen through its symbolic links

With `c.dereference = true` (`xcp -r -L`) the walker follows every symbolic link.  `derefS fs fuel path anc`
(XcpProofs.DerefTreeLemmas) computes, from `lstat`/`stat` of the spelled paths alone, the tree an observer sees from
`path` when every link is followed — a link to a regular file (anywhere: inside or outside the source, relative
or absolute text, through chains of links) is that file, a link to a directory is that directory, seen through its
own links in turn — together with the canonical path of every node (`SNode`).  It is `none` when something does not
resolve (dangling link, chain of links longer than the resolution fuel), when a link leads back to a directory
being listed (walkdir's loop check), when a node is of an unsupported kind, or when the tree is deeper than the fuel.

* `walk_shape_deref`: when `derefS` succeeds, the walk emits exactly `opsOfS` of the sourced tree: the operations
  `opsOf` of the dereferenced tree `s.erase`, copy and special operations reading from the canonical paths
  (`opsOfS_dropSrc`).
* `mirror_fresh_deref`: executing them into a fresh plain target leaves exactly `s.erase` there, nothing else changes.
* `no_link_in_destination`: nothing at or below the target is a symbolic link.
* `walk_fails_of_no_tree` / `run_fails_of_no_tree`: conversely, when `derefS` answers `none` the walk contains the
  failure marker and the run exits non-zero.
* General case on the source `Node`: `Derefs fs loc n m` (the node `n` at the canonical place `loc` with every link
  replaced by what it leads to, recursively, directories included), `derefS_derefs` (the tree `derefS` computes is
  that), `Derefs.unique`, and `mirror_fresh_deref_replaced`.
* Restricted case on the source `Node`: `derefNode` (a structural function), `Node.LinksToFiles` (the trees it
  covers: every link leads to a regular or special file), `derefNode_isSome_iff`, `derefS_of_derefNode`,
  `mirror_fresh_deref_node`, `mirror_fresh_deref_links_to_files`; `derefNode_derefs` (it agrees with `Derefs`).
* `DerefExample`: a concrete instance (links to files, a chain, an absolute link, a link to a directory outside the
  source holding a link back into it), and a loop that makes the run fail.

The source may itself be a symbolic link, or lie below symbolic links: `src` only has to be absolute and spelled
with names.  No hypothesis relates sources and destination: in this model the whole walk is computed against the
initial state, in which the destination does not exist, so every canonical path the operations read from exists
there and is automatically neither at/below the fresh target nor above it (`deref_reads_away`).  For the real,
interleaved walker the model is adequate when, in addition, no directory the walk lists (`SNode.dirs`: the source
directories and the directories reached through links) is the target's parent or above it:
`∀ dc ∈ s.dirs, ¬ dc <+: tb.names` (for a link-free source this is `¬ src.names <+: tb.names` of `mirror_fresh`). -/
namespace Xcp

/-! ## Shape of the walk -/

/-- a root below which some directory exists is not a symbolic link -/
theorem root_not_link_of_dir {r : Node} {p : List Name} {es : Entries} (h : r.getAt p = some (.dir es)) :
    r.isLink = false := by
  cases p with
  | nil =>
    simp only [getAt_nil, Option.some.injEq] at h
    rw [h]; rfl
  | cons a q =>
    obtain ⟨es', _, he, _, _⟩ := Node.getAt_cons_some h
    rw [he]; rfl


/-- when the tree seen through the links exists (`derefS … = some s`), the dereferencing walk emits exactly its
operations -/
theorem walk_shape_deref (fs : Fs) (c : Cfg) (hd : c.dereference = true) (hn : c.noClobber = false)
    (hroot : fs.root.isLink = false) (sn0 tn0 : List Name) :
    ∀ (fuel : Nat) (rel : List Name) (anc : List (List Name)) (s : SNode),
      derefS fs fuel (sn0 ++ rel) anc = some s →
      walkEntry fs c none (plainPath sn0) (plainPath tn0) fuel rel anc = opsOfS s (tn0 ++ rel) := by
  intro fuel
  induction fuel with
  | zero => intro rel anc s h; simp [derefS] at h
  | succ f ih =>
    intro rel anc s h
    obtain ⟨lcp, lnode, cp, node, hl, hs, hcase⟩ := derefS_succ_some h
    obtain ⟨_, hg, _, hcan, hl2, _⟩ := stat_canon fs hroot _ cp node hs
    have hsa := seenAs_of fs _ lcp cp lnode node hl hs
    rw [← relJoin_plain] at hl hs hcan
    rcases hcase with ⟨k, hnode, hs'⟩ | ⟨k, d, hnode, hk, hs'⟩ | ⟨es, ss, hnode, hloop, hcol, hs'⟩
    · subst hnode; subst hs'
      rw [walkEntry_deref_file fs c hd hn _ _ _ _ _ lcp cp lnode k _ hsa hl hs hcan hl2]
      simp [opsOfS, relJoin_plain]
    · subst hnode; subst hs'
      rw [walkEntry_deref_special fs c hd hn _ _ _ _ _ lcp cp lnode k d _ hsa ((okSpecial_iff k).1 hk) hl hs hcan hl2]
      simp [opsOfS, relJoin_plain]
    · subst hnode; subst hs'
      rw [walkEntry_deref_dir fs c hd hn _ _ _ _ _ lcp cp lnode es _ hsa hl hs hcan hl2 hg hloop]
      simp only [opsOfS, relJoin_plain]
      congr 1
      -- the children, one by one
      have key : ∀ (names : List Name) (ss : List (Name × SNode)),
          collect (fun m => (derefS fs f (sn0 ++ rel ++ [m]) (cp :: anc)).map fun x => (m, x)) names = some ss →
          (names.flatMap fun m =>
            walkEntry fs c none (plainPath sn0) (plainPath tn0) f (rel ++ [m]) (cp :: anc)) =
          opsOfSL ss (tn0 ++ rel) := by
        intro names
        induction names with
        | nil =>
          intro ss hc
          simp only [collect, Option.some.injEq] at hc
          subst hc
          simp [opsOfSL]
        | cons a r ihl =>
          intro ss hc
          obtain ⟨b, bs, h1, h2, h3⟩ := collect_cons_some hc
          subst h3
          have h1' : (derefS fs f (sn0 ++ rel ++ [a]) (cp :: anc)).map (fun x => (a, x)) = some b := h1
          cases hda : derefS fs f (sn0 ++ rel ++ [a]) (cp :: anc) with
          | none => rw [hda] at h1'; cases h1'
          | some x =>
            rw [hda] at h1'
            simp only [Option.map_some, Option.some.injEq] at h1'
            subst h1'
            have := ih (rel ++ [a]) (cp :: anc) x (by rw [← List.append_assoc]; exact hda)
            simp only [List.flatMap_cons, opsOfSL]
            rw [this, ihl bs h2]
            simp [List.append_assoc]
      exact key _ ss hcol

/-- forget where a copy or special operation reads from -/
def Op.dropSrc : Op → Op
  | .copy _ t => .copy ⟨false, [], false⟩ t
  | .special _ t => .special ⟨false, [], false⟩ t
  | o => o

mutual
/-- `opsOfS s` is `opsOf` of the dereferenced tree `s.erase` (from any source place `sn`), up to the paths the copy
and special operations read from: same operations, same targets, same order; no link operation -/
theorem opsOfS_dropSrc : ∀ (s : SNode) (sn tn : List Name),
    (opsOfS s tn).map Op.dropSrc = (opsOf s.erase sn tn).map Op.dropSrc
  | .file _ _, _, _ => by simp [opsOfS, SNode.erase, opsOf, Op.dropSrc]
  | .special _ _ _, _, _ => by simp [opsOfS, SNode.erase, opsOf, Op.dropSrc]
  | .dir _ es, sn, tn => by
    simp only [opsOfS, SNode.erase, opsOf, List.map_cons, Op.dropSrc]
    rw [opsOfSL_dropSrc es sn tn]
theorem opsOfSL_dropSrc : ∀ (es : List (Name × SNode)) (sn tn : List Name),
    (opsOfSL es tn).map Op.dropSrc = (opsOfL (eraseL es) sn tn).map Op.dropSrc
  | [], _, _ => by simp [opsOfSL, eraseL, opsOfL]
  | (m, ch) :: r, sn, tn => by
    simp only [opsOfSL, eraseL, opsOfL, List.map_append]
    rw [opsOfS_dropSrc ch (sn ++ [m]) (tn ++ [m]), opsOfSL_dropSrc r sn tn]
end

/-! ## The mirror theorem with `--dereference` -/

/-- MIRROR with `--dereference` (fresh destination), for a source given by its names `sn` (absolute path
`plainPath sn`; it may be, or lie below, a symbolic link).  `s` is the tree seen from the source through all links.
The target base `tb` is a plain path that does not exist, whose parent is a directory.  Then the sequential
execution of the walk's operations succeeds and the resulting tree is the old one with the dereferenced tree
`s.erase` placed at `tb` (up to the order of directory entries). -/
theorem mirror_fresh_deref_names (fs : Fs) (c : Cfg) (hd : c.dereference = true) (hn : c.noClobber = false)
    (sn : List Name) (tb : RPath) (s : SNode) (fuel : Nat)
    (hwf : FsEq fs fs)
    (hder : derefS fs (fuel + 1) sn [] = some s)
    (htb : PlainTarget fs tb) (hne : tb.names ≠ []) (habs : fs.root.getAt tb.names = none)
    (hpar : ∃ es, fs.root.getAt tb.names.dropLast = some (.dir es))
    (hlen : tb.names.length + fuel < 255) :
    ∃ fs', execOps fs c (walkEntry fs c none (plainPath sn) tb (fuel + 1) [] []) = ⟨.ok, fs'⟩ ∧
      FsEq fs' { fs with root := fs.root.setAt tb.names s.erase } := by
  have htbE := plainTarget_eq fs tb htb
  obtain ⟨pes, hpes⟩ := hpar
  rcases List.eq_nil_or_concat tb.names with h0 | ⟨par, nm, h0⟩
  · exact absurd h0 hne
  simp only [List.concat_eq_append] at h0
  rw [h0, List.dropLast_concat] at hpes
  rw [h0] at habs
  -- the root is a directory
  have hroot : fs.root.isLink = false := root_not_link_of_dir hpes
  have hlt : par.length + 1 + (fuel + 1) < 256 := by
    rw [h0] at hlen
    simp only [List.length_append, List.length_cons, List.length_nil] at hlen
    omega
  -- the shape of the walk
  have hshape := walk_shape_deref fs c hd hn hroot sn tb.names (fuel + 1) [] [] s (by simpa using hder)
  rw [← htbE] at hshape
  simp only [List.append_nil] at hshape
  -- its execution
  obtain ⟨hcop, hsrcin⟩ := derefS_good fs hroot hwf.2.1 (fuel + 1) sn [] s hder
  have hexec := exec_opsOfS c (fuel + 1) s hcop fs par nm pes [] hsrcin hpes habs hlt
  rw [List.append_nil] at hexec
  refine ⟨{ fs with root := fs.root.setAt tb.names s.erase }, ?_, ?_⟩
  · rw [hshape, h0, hexec]
    rfl
  · have hsw : s.erase.WF := copyable_WF _ _ hcop
    exact ⟨rfl, setAt_WF _ hsw _ _ hwf.2.1, setAt_WF _ hsw _ _ hwf.2.1, SameObs.refl _⟩

/-- What the run reads is out of the way of what it writes, for free: every canonical path an operation reads from
is neither at/below the fresh target nor above it, and no directory the walk lists is at or below the target.  (What
is NOT implied, and is the side condition under which computing the whole walk against the initial state is adequate
for the real, interleaved walker: `∀ dc ∈ s.dirs, ¬ dc <+: tb.names` — the destination is not created inside a
directory the walk lists.) -/
theorem deref_reads_away (fs : Fs) (sn : List Name) (tb : RPath) (s : SNode) (fuel : Nat)
    (hwf : FsEq fs fs) (hroot : fs.root.isLink = false)
    (hder : derefS fs fuel sn [] = some s)
    (hne : tb.names ≠ []) (habs : fs.root.getAt tb.names = none)
    (hpar : ∃ es, fs.root.getAt tb.names.dropLast = some (.dir es)) :
    (∀ l ∈ s.leaves, ¬ tb.names <+: l.1 ∧ ¬ l.1 <+: tb.names) ∧ (∀ dc ∈ s.dirs, ¬ tb.names <+: dc) := by
  obtain ⟨pes, hpes⟩ := hpar
  rcases List.eq_nil_or_concat tb.names with h0 | ⟨par, nm, h0⟩
  · exact absurd h0 hne
  simp only [List.concat_eq_append] at h0
  rw [h0, List.dropLast_concat] at hpes
  rw [h0] at habs ⊢
  constructor
  · intro l hl
    obtain ⟨h1, h2, _⟩ := (derefS_good fs hroot hwf.2.1 fuel sn [] s hder).2 l hl
    exact src_unrel h1 h2 hpes habs
  · intro dc hdc hp
    obtain ⟨es, hes⟩ := derefS_dirs_exist fs hroot fuel sn [] s hder dc hdc
    obtain ⟨q, hq⟩ := hp
    rw [← hq, getAt_append_none _ _ _ habs] at hes
    cases hes

/-- an absolute path spelled with names only (no `.`, `..`, trailing slash); nothing is asked about links -/
def AbsNames (p : RPath) : Prop := p.abs = true ∧ p.trail = false ∧ ∀ c ∈ p.comps, ∃ n, c = .name n

theorem absNames_eq {p : RPath} (h : AbsNames p) : p = plainPath p.names := by
  obtain ⟨ha, ht, hc⟩ := h
  cases p with
  | mk abs comps trail =>
    simp only at ha ht hc
    subst ha; subst ht
    simp only [plainPath]
    rw [← comps_eq_map_names true false comps hc]

/-- MIRROR with `--dereference` (fresh destination), the source an `RPath`: absolute, spelled with names only, no
trailing slash (`AbsNames`) — symbolic links at it or above it are allowed and followed. -/
theorem mirror_fresh_deref (fs : Fs) (c : Cfg) (hd : c.dereference = true) (hn : c.noClobber = false)
    (src tb : RPath) (s : SNode) (fuel : Nat)
    (hwf : FsEq fs fs)
    (hsrc : AbsNames src)
    (hder : derefS fs (fuel + 1) src.names [] = some s)
    (htb : PlainTarget fs tb) (hne : tb.names ≠ []) (habs : fs.root.getAt tb.names = none)
    (hpar : ∃ es, fs.root.getAt tb.names.dropLast = some (.dir es))
    (hlen : tb.names.length + fuel < 255) :
    ∃ fs', execOps fs c (walkEntry fs c none src tb (fuel + 1) [] []) = ⟨.ok, fs'⟩ ∧
      FsEq fs' { fs with root := fs.root.setAt tb.names s.erase } := by
  have h := mirror_fresh_deref_names fs c hd hn src.names tb s fuel hwf hder htb hne habs hpar hlen
  rw [← absNames_eq hsrc] at h
  exact h

/-- no symbolic link at or below the destination: after the run, whatever is found at `tb` or at any path below it
is not a symbolic link -/
theorem no_link_in_destination (fs : Fs) (c : Cfg) (hd : c.dereference = true) (hn : c.noClobber = false)
    (src tb : RPath) (s : SNode) (fuel : Nat)
    (hwf : FsEq fs fs)
    (hsrc : AbsNames src)
    (hder : derefS fs (fuel + 1) src.names [] = some s)
    (htb : PlainTarget fs tb) (hne : tb.names ≠ []) (habs : fs.root.getAt tb.names = none)
    (hpar : ∃ es, fs.root.getAt tb.names.dropLast = some (.dir es))
    (hlen : tb.names.length + fuel < 255) :
    ∃ fs', execOps fs c (walkEntry fs c none src tb (fuel + 1) [] []) = ⟨.ok, fs'⟩ ∧
      ∀ q x, fs'.root.getAt (tb.names ++ q) = some x → x.isLink = false := by
  obtain ⟨fs', hex, heq⟩ := mirror_fresh_deref fs c hd hn src tb s fuel hwf hsrc hder htb hne habs hpar hlen
  refine ⟨fs', hex, ?_⟩
  intro q x hx
  cases x with
  | link t =>
    exfalso
    -- the same place in the reference tree would hold a link
    have hso := heq.2.2.2 (tb.names ++ q)
    have hl1 : obsAt fs'.root (tb.names ++ q) = some (.link t) := (getAt_link_iff _ _ _).1 hx
    rw [hl1] at hso
    have hl2 := (getAt_link_iff _ _ t).2 hso.symm
    obtain ⟨pes, hpes⟩ := hpar
    rcases List.eq_nil_or_concat tb.names with h0 | ⟨par, nm, h0⟩
    · exact absurd h0 hne
    simp only [List.concat_eq_append] at h0
    rw [h0, List.dropLast_concat] at hpes
    simp only at hl2
    rw [Node.getAt_append, h0, getAt_setAt_child _ nm par fs.root pes hpes] at hl2
    have := erase_getAt_not_link q s _ hl2
    cases this
  | _ => rfl

/-! ## The restricted case as a function of the source `Node`: every link leads to a file

For a source tree `n` found at a plain place `loc` (so: no link above it; `n` itself may be a link) in which every
symbolic link — wherever it points: inside or outside the tree, relative or absolute text, through any chain of
links — ends at a regular file or a special file, the walk never descends through a link, there is no loop to
detect, and the dereferenced tree is the structural function `derefNode` of `n`: each link replaced by the file
`stat` finds at the link's own place. -/

mutual
/-- `n`, found at the place `loc`, with every symbolic link replaced by the regular (or special) file it leads to;
`none` if some link does not resolve, leads to a special file of a kind xcp does not copy, or leads to a directory
(the case this restricted form does not cover) -/
def derefNode (fs : Fs) : Node → List Name → Option Node
  | .file k, _ => some (.file k)
  | .special k d, _ => some (.special k d)
  | .dir es, loc => (derefNodeL fs es loc).map .dir
  | .link _, loc =>
    match fs.stat (plainPath loc) with
    | some (_, .file k) => some (.file k)
    | some (_, .special k d) => if okSpecial k then some (.special k d) else none
    | _ => none
def derefNodeL (fs : Fs) : List (Name × Node) → List Name → Option (List (Name × Node))
  | [], _ => some []
  | (m, ch) :: r, loc =>
    match derefNode fs ch (loc ++ [m]), derefNodeL fs r loc with
    | some x, some xs => some ((m, x) :: xs)
    | _, _ => none
end

theorem derefNodeL_cons_some {fs : Fs} {m : Name} {ch : Node} {r : List (Name × Node)} {loc : List Name}
    {ml : List (Name × Node)} (h : derefNodeL fs ((m, ch) :: r) loc = some ml) :
    ∃ x xs, derefNode fs ch (loc ++ [m]) = some x ∧ derefNodeL fs r loc = some xs ∧ ml = (m, x) :: xs := by
  simp only [derefNodeL] at h
  split at h
  · rename_i x xs h1 h2
    injection h with h
    exact ⟨x, xs, h1, h2, h.symm⟩
  · cases h

mutual
/-- the trees the restricted form covers: every symbolic link of `n` (found at `loc`), at any depth, resolves
(`stat` at the link's own place succeeds: not dangling, no endless chain) to something that is not a directory
(and, if a special file, of a kind xcp copies) -/
def Node.LinksToFiles (fs : Fs) : Node → List Name → Prop
  | .link _, loc => ∃ cp x, fs.stat (plainPath loc) = some (cp, x) ∧ x.isDir = false ∧
      ∀ k d, x = .special k d → okSpecial k = true
  | .dir es, loc => LinksToFilesL fs es loc
  | .file _, _ => True
  | .special _ _, _ => True
def LinksToFilesL (fs : Fs) : List (Name × Node) → List Name → Prop
  | [], _ => True
  | (m, ch) :: r, loc => ch.LinksToFiles fs (loc ++ [m]) ∧ LinksToFilesL fs r loc
end

mutual
/-- `derefNode` is defined exactly on the trees all of whose links lead to files -/
theorem derefNode_isSome_iff (fs : Fs) (hroot : fs.root.isLink = false) : ∀ (n : Node) (loc : List Name),
    (∃ m, derefNode fs n loc = some m) ↔ n.LinksToFiles fs loc
  | .file k, loc => by simp [derefNode, Node.LinksToFiles]
  | .special k d, loc => by simp [derefNode, Node.LinksToFiles]
  | .link t, loc => by
    simp only [derefNode, Node.LinksToFiles]
    constructor
    · rintro ⟨m, h⟩
      split at h
      · rename_i cp k hs; exact ⟨cp, _, hs, rfl, fun _ _ he => by cases he⟩
      · rename_i cp k d hs
        split at h
        · rename_i hk
          exact ⟨cp, _, hs, rfl, fun k' d' he => by injection he with e1 _; subst e1; exact hk⟩
        · cases h
      · cases h
    · rintro ⟨cp, x, hs, hx, hsp⟩
      have hnl := (stat_canon fs hroot loc cp x hs).1
      cases x with
      | file k => exact ⟨.file k, by simp [hs]⟩
      | special k d => exact ⟨.special k d, by simp [hs, hsp k d rfl]⟩
      | dir es => cases hx
      | link t' => cases hnl
  | .dir es, loc => by
    simp only [derefNode, Node.LinksToFiles]
    rw [← derefNodeL_isSome_iff fs hroot es loc]
    constructor
    · rintro ⟨m, h⟩
      cases hml : derefNodeL fs es loc with
      | none => simp [hml] at h
      | some ml => exact ⟨ml, rfl⟩
    · rintro ⟨ml, h⟩
      exact ⟨.dir ml, by simp [h]⟩
theorem derefNodeL_isSome_iff (fs : Fs) (hroot : fs.root.isLink = false) :
    ∀ (es : List (Name × Node)) (loc : List Name),
    (∃ ml, derefNodeL fs es loc = some ml) ↔ LinksToFilesL fs es loc
  | [], loc => by simp [derefNodeL, LinksToFilesL]
  | (j, c) :: r, loc => by
    simp only [LinksToFilesL]
    rw [← derefNode_isSome_iff fs hroot c (loc ++ [j]), ← derefNodeL_isSome_iff fs hroot r loc]
    constructor
    · rintro ⟨ml, h⟩
      obtain ⟨x, xs, h1, h2, _⟩ := derefNodeL_cons_some h
      exact ⟨⟨x, h1⟩, ⟨xs, h2⟩⟩
    · rintro ⟨⟨x, h1⟩, ⟨xs, h2⟩⟩
      exact ⟨(j, x) :: xs, by simp [derefNodeL, h1, h2]⟩
end

/-- in the restricted case the tree seen through the links is `derefNode` of the source node -/
theorem derefS_of_derefNode (fs : Fs) :
    ∀ (d : Nat) (n m : Node) (loc : List Name) (anc : List (List Name)),
      fs.root.getAt loc = some n → n.Copyable d → derefNode fs n loc = some m → m.Copyable d →
      loc.length + d < 256 →
      ∃ s, derefS fs (d + 1) loc anc = some s ∧ s.erase = m := by
  -- the entries that are not directories, at any depth budget
  have leaf : ∀ (f : Nat) (n m : Node) (d : Nat) (loc : List Name) (anc : List (List Name)),
      fs.root.getAt loc = some n → n.isDir = false → derefNode fs n loc = some m → m.Copyable d →
      loc.length < 256 → ∃ s, derefS fs (f + 1) loc anc = some s ∧ s.erase = m := by
    intro f n m d loc anc hg hnd hdn hmc hlen
    have hl := lstat_plain fs loc n hlen hg (noLinkAbove_of_getAt hg)
    cases n with
    | dir es => simp [Node.isDir] at hnd
    | file k =>
      have hs := stat_of_lstat_nonlink fs loc loc _ hl rfl
      simp only [derefNode, Option.some.injEq] at hdn
      subst hdn
      exact ⟨.file loc k, by simp [derefS, hl, hs], rfl⟩
    | special k dv =>
      have hs := stat_of_lstat_nonlink fs loc loc _ hl rfl
      simp only [derefNode, Option.some.injEq] at hdn
      subst hdn
      have hk : okSpecial k = true := (okSpecial_iff k).2 (by simpa [Node.Copyable] using hmc)
      exact ⟨.special loc k dv, by simp [derefS, hl, hs, hk], rfl⟩
    | link t =>
      simp only [derefNode] at hdn
      split at hdn
      · rename_i cp k hs
        injection hdn with hdn
        subst hdn
        exact ⟨.file cp k, by simp [derefS, hl, hs], rfl⟩
      · rename_i cp k dv hs
        split at hdn
        · rename_i hk
          injection hdn with hdn
          subst hdn
          exact ⟨.special cp k dv, by simp [derefS, hl, hs, hk], rfl⟩
        · cases hdn
      · cases hdn
  intro d
  induction d with
  | zero =>
    intro n m loc anc hg hc hdn hmc hlen
    have hnd : n.isDir = false := by
      cases n with
      | dir es => simp [Node.Copyable] at hc
      | _ => rfl
    exact leaf 0 n m 0 loc anc hg hnd hdn hmc (by omega)
  | succ d ih =>
    intro n m loc anc hg hc hdn hmc hlen
    cases hnd : n.isDir with
    | false => exact leaf (d + 1) n m (d + 1) loc anc hg hnd hdn hmc (by omega)
    | true =>
      cases n <;> simp [Node.isDir] at hnd
      rename_i es
      obtain ⟨d', hd', hndp, hch⟩ := copyable_dir hc
      have hd'' : d' = d := by omega
      subst hd''
      have hl := lstat_plain fs loc _ (by omega) hg (noLinkAbove_of_getAt hg)
      have hs := stat_of_lstat_nonlink fs loc loc _ hl rfl
      simp only [derefNode] at hdn
      cases hml : derefNodeL fs es loc with
      | none => simp [hml] at hdn
      | some ml =>
        simp only [hml, Option.map_some, Option.some.injEq] at hdn
        subst hdn
        obtain ⟨d2, hd2, _, hmch⟩ := copyable_dir hmc
        have hd2' : d2 = d' := by omega
        subst hd2'
        -- the children, one by one
        have key : ∀ (l : List (Name × Node)) (ml' : List (Name × Node)), (∀ e ∈ l, e ∈ es) →
            (∀ e ∈ ml', e.2.Copyable d2) → derefNodeL fs l loc = some ml' →
            ∃ ss, collect (fun k => (derefS fs (d2 + 1) (loc ++ [k]) (loc :: anc)).map fun x => (k, x))
                (l.map (·.1)) = some ss ∧ eraseL ss = ml' := by
          intro l
          induction l with
          | nil =>
            intro ml' _ _ h
            simp only [derefNodeL, Option.some.injEq] at h
            subst h
            exact ⟨[], by simp [collect], by simp [eraseL]⟩
          | cons e r ihl =>
            intro ml' hsub hcm h
            obtain ⟨k, ch⟩ := e
            obtain ⟨x, xs, h1, h2, h3⟩ := derefNodeL_cons_some h
            subst h3
            have hmem : (k, ch) ∈ es := hsub _ List.mem_cons_self
            have hget : fs.root.getAt (loc ++ [k]) = some ch := by
              rw [Node.getAt_append, hg]
              simp [getAt_dir_cons, entGet_of_mem es hndp (k, ch) hmem]
            obtain ⟨sc, hsc, hse⟩ := ih ch x (loc ++ [k]) (loc :: anc) hget (hch _ hmem) h1
              (hcm (k, x) List.mem_cons_self)
              (by simp only [List.length_append, List.length_cons, List.length_nil]; omega)
            obtain ⟨ss, hss, hes⟩ := ihl xs (fun e he => hsub e (List.mem_cons_of_mem _ he))
              (fun e he => hcm e (List.mem_cons_of_mem _ he)) h2
            refine ⟨(k, sc) :: ss, ?_, by simp [eraseL, hse, hes]⟩
            simp only [List.map_cons, collect, hsc, Option.map_some]
            rw [hss]
        obtain ⟨ss, hss, hes⟩ := key es ml (fun _ h => h) hmch hml
        refine ⟨.dir loc ss, ?_, by simp [SNode.erase, hes]⟩
        rw [derefS_dir hl hs (by simp [Node.isLink]), hss]
        rfl

theorem derefNodeL_names (fs : Fs) : ∀ (es : List (Name × Node)) (loc : List Name) (ml : List (Name × Node)),
    derefNodeL fs es loc = some ml → ml.map (·.1) = es.map (·.1)
  | [], loc, ml, h => by
    simp only [derefNodeL, Option.some.injEq] at h
    subst h; rfl
  | (j, c) :: r, loc, ml, h => by
    obtain ⟨x, xs, _, h2, h3⟩ := derefNodeL_cons_some h
    subst h3
    simp [derefNodeL_names fs r loc xs h2]

mutual
/-- replacing links by the files they lead to keeps a tree copyable (kinds, names, depth) -/
theorem derefNode_copyable (fs : Fs) : ∀ (n : Node) (d : Nat) (loc : List Name) (m : Node),
    n.Copyable d → derefNode fs n loc = some m → m.Copyable d
  | .file k, d, loc, m, _, h => by
    simp only [derefNode, Option.some.injEq] at h
    subst h; simp [Node.Copyable]
  | .special k dv, d, loc, m, hc, h => by
    simp only [derefNode, Option.some.injEq] at h
    subst h; exact hc
  | .link t, d, loc, m, _, h => by
    simp only [derefNode] at h
    split at h
    · injection h with h
      subst h; simp [Node.Copyable]
    · rename_i cp k dv hs
      split at h
      · rename_i hk
        injection h with h
        subst h
        simpa [Node.Copyable] using (okSpecial_iff k).1 hk
      · cases h
    · cases h
  | .dir es, d, loc, m, hc, h => by
    cases d with
    | zero => simp [Node.Copyable] at hc
    | succ d' =>
      simp only [Node.Copyable] at hc
      simp only [derefNode] at h
      cases hml : derefNodeL fs es loc with
      | none => simp [hml] at h
      | some ml =>
        simp only [hml, Option.map_some, Option.some.injEq] at h
        subst h
        simp only [Node.Copyable]
        exact ⟨by rw [derefNodeL_names fs es loc ml hml]; exact hc.1,
          derefNodeL_copyable fs es d' loc ml hc.2 hml⟩
theorem derefNodeL_copyable (fs : Fs) : ∀ (es : List (Name × Node)) (d : Nat) (loc : List Name)
    (ml : List (Name × Node)),
    Node.Copyable.CopyableL es d → derefNodeL fs es loc = some ml → Node.Copyable.CopyableL ml d
  | [], d, loc, ml, _, h => by
    simp only [derefNodeL, Option.some.injEq] at h
    subst h; simp [Node.Copyable.CopyableL]
  | (j, c) :: r, d, loc, ml, hc, h => by
    obtain ⟨x, xs, h1, h2, h3⟩ := derefNodeL_cons_some h
    subst h3
    simp only [Node.Copyable.CopyableL] at hc ⊢
    exact ⟨derefNode_copyable fs c d (loc ++ [j]) x hc.1 h1, derefNodeL_copyable fs r d loc xs hc.2 h2⟩
end

/-- MIRROR with `--dereference`, restricted case, in terms of the source node: the source is a plain place holding
the copyable tree `srcNode` all of whose links lead to files (`derefNode … = some m`); the destination receives
`m`: `srcNode` with every link replaced by the file it leads to. -/
theorem mirror_fresh_deref_node (fs : Fs) (c : Cfg) (hd : c.dereference = true) (hn : c.noClobber = false)
    (src tb : RPath) (srcNode m : Node) (fuel : Nat)
    (hwf : FsEq fs fs)
    (hsrc : AbsNames src) (hsn : fs.root.getAt src.names = some srcNode)
    (hcop : srcNode.Copyable fuel)
    (hder : derefNode fs srcNode src.names = some m)
    (htb : PlainTarget fs tb) (hne : tb.names ≠ []) (habs : fs.root.getAt tb.names = none)
    (hpar : ∃ es, fs.root.getAt tb.names.dropLast = some (.dir es))
    (hlen : src.names.length + fuel < 255 ∧ tb.names.length + fuel < 255) :
    ∃ fs', execOps fs c (walkEntry fs c none src tb (fuel + 1) [] []) = ⟨.ok, fs'⟩ ∧
      FsEq fs' { fs with root := fs.root.setAt tb.names m } ∧
      ∀ q x, fs'.root.getAt (tb.names ++ q) = some x → x.isLink = false := by
  have hmc := derefNode_copyable fs srcNode fuel src.names m hcop hder
  obtain ⟨s, hs, hse⟩ := derefS_of_derefNode fs fuel srcNode m src.names [] hsn hcop hder hmc (by omega)
  obtain ⟨fs', hex, heq⟩ := mirror_fresh_deref fs c hd hn src tb s fuel hwf hsrc hs htb hne habs hpar hlen.2
  obtain ⟨fs'', hex', hnl⟩ := no_link_in_destination fs c hd hn src tb s fuel hwf hsrc hs htb hne habs hpar hlen.2
  rw [hex] at hex'
  injection hex' with _ hfs
  subst hfs
  rw [hse] at heq
  exact ⟨fs', hex, heq, hnl⟩

/-! ## The general case in terms of the source `Node`: every link replaced by what it leads to

`derefS` is defined from `lstat`/`stat` of spelled paths (which go THROUGH the links being followed).  `Derefs` is
the structural reading on canonical places: a file or special node stays, a directory has the same names and
every entry dereferenced at its own place, a symbolic link is replaced by what `stat` finds at the link's place,
dereferenced in turn at the CANONICAL place found.  Whenever `derefS` succeeds the two agree. -/

/-- `Derefs fs loc n m`: `m` is the node `n`, found at the canonical place `loc`, with every symbolic link — at any
depth, and again inside the directories links lead to — replaced by what it points to. -/
inductive Derefs (fs : Fs) : List Name → Node → Node → Prop
  | file (loc : List Name) (k : Nat) : Derefs fs loc (.file k) (.file k)
  | special (loc : List Name) (k : FileKind) (d : Nat) : Derefs fs loc (.special k d) (.special k d)
  | dir (loc : List Name) (es es' : List (Name × Node)) :
      es'.map (·.1) = es.map (·.1) →
      (∀ k ch x, entGet es k = some ch → entGet es' k = some x → Derefs fs (loc ++ [k]) ch x) →
      Derefs fs loc (.dir es) (.dir es')
  | link (loc : List Name) (t : RPath) (cp : List Name) (x m : Node) :
      fs.stat (plainPath loc) = some (cp, x) → Derefs fs cp x m → Derefs fs loc (.link t) m

theorem derefS_some_lstat {fs : Fs} {f : Nat} {path : List Name} {anc : List (List Name)} {s : SNode}
    (h : derefS fs f path anc = some s) : ∃ lc lx, fs.lstat (plainPath path) = some (lc, lx) := by
  cases f with
  | zero => simp [derefS] at h
  | succ g =>
    obtain ⟨lc, lx, _, _, hl, _, _⟩ := derefS_succ_some h
    exact ⟨lc, lx, hl⟩

/-- the tree seen through the links from `path` is the node `lstat` finds there, dereferenced -/
theorem derefS_derefs (fs : Fs) (hroot : fs.root.isLink = false) :
    ∀ (fuel : Nat) (path : List Name) (anc : List (List Name)) (s : SNode) (loc : List Name) (n : Node),
      derefS fs fuel path anc = some s → fs.lstat (plainPath path) = some (loc, n) →
      Derefs fs loc n s.erase := by
  intro fuel
  induction fuel with
  | zero => intro path anc s loc n h; simp [derefS] at h
  | succ f ih =>
    intro path anc s loc n h hl
    obtain ⟨lcp, lnode, cp, node, hl', hs, hcase⟩ := derefS_succ_some h
    rw [hl] at hl'
    injection hl' with hl'
    injection hl' with e1 e2
    subst e1; subst e2
    -- what `stat` found, dereferenced at its canonical place
    have core : Derefs fs cp node s.erase := by
      rcases hcase with ⟨k, hnode, hs'⟩ | ⟨k, d, hnode, _, hs'⟩ | ⟨es, ss, hnode, _, hcol, hs'⟩
      · subst hnode; subst hs'
        exact Derefs.file cp k
      · subst hnode; subst hs'
        exact Derefs.special cp k d
      · subst hnode; subst hs'
        obtain ⟨hnames, hch⟩ := derefS_children fs f path (cp :: anc) _ ss hcol
        simp only [SNode.erase]
        refine Derefs.dir cp es (eraseL ss) (by rw [eraseL_names, hnames]) ?_
        intro k ch x hek hex
        obtain ⟨chs, hmem, hx⟩ := mem_eraseL ss (k, x) (entGet_mem_gi hex)
        simp only at hx
        subst hx
        have hd := hch (k, chs) hmem
        simp only at hd
        obtain ⟨lc, lx, hlx⟩ := derefS_some_lstat hd
        obtain ⟨hlc, hget⟩ := lstat_child fs path cp lc k es lx hs hlx
        rw [hek] at hget
        injection hget with hget
        subst hget; subst hlc
        exact ih _ _ _ _ _ hd hlx
    rcases seenAs_of fs path loc cp n node hl hs with hsa | ⟨t, hsa⟩
    · subst hsa
      have hnl : n.isLink = false := (stat_canon fs hroot path cp n hs).1
      have := stat_of_lstat_nonlink fs path loc n hl hnl
      rw [hs] at this
      injection this with this
      injection this with e1 _
      subst e1
      exact core
    · subst hsa
      exact Derefs.link loc t cp node _ (stat_at_link_place fs hroot path loc cp t node hl hs) core

/-! ### `Derefs` determines the result -/

theorem entGet_of_key {es : Entries} {k : Name} (h : k ∈ es.map (·.1)) : ∃ x, entGet es k = some x := by
  induction es with
  | nil => cases h
  | cons kv r ih =>
    obtain ⟨j, w⟩ := kv
    by_cases hj : j = k
    · exact ⟨w, by simp [entGet, hj]⟩
    · simp only [List.map_cons, List.mem_cons] at h
      rcases h with h | h
      · exact absurd h.symm hj
      · obtain ⟨x, hx⟩ := ih h
        exact ⟨x, by simp [entGet, hj, hx]⟩

theorem key_of_entGet {es : Entries} {k : Name} {x : Node} (h : entGet es k = some x) : k ∈ es.map (·.1) :=
  List.mem_map.2 ⟨(k, x), entGet_mem_gi h, rfl⟩

/-- two entry lists with the same names in the same order, none twice, and equal values under every name, are equal -/
theorem entries_ext : ∀ (l1 l2 : Entries), l1.map (·.1) = l2.map (·.1) → (l1.map (·.1)).Nodup →
    (∀ k x1 x2, entGet l1 k = some x1 → entGet l2 k = some x2 → x1 = x2) → l1 = l2 := by
  intro l1
  induction l1 with
  | nil =>
    intro l2 hk _ _
    cases l2 with
    | nil => rfl
    | cons a b => simp at hk
  | cons e1 r1 ih =>
    intro l2 hk hnd hv
    cases l2 with
    | nil => simp at hk
    | cons e2 r2 =>
      obtain ⟨k1, x1⟩ := e1
      obtain ⟨k2, x2⟩ := e2
      simp only [List.map_cons, List.cons.injEq] at hk
      obtain ⟨hk1, hkr⟩ := hk
      subst hk1
      simp only [List.map_cons, List.nodup_cons] at hnd
      have hx : x1 = x2 := hv k1 x1 x2 (by simp [entGet]) (by simp [entGet])
      subst hx
      have := ih r2 hkr hnd.2 (by
        intro k y1 y2 h1 h2
        have hne : ¬ k1 = k := by
          intro he
          subst he
          exact hnd.1 (key_of_entGet h1)
        exact hv k y1 y2 (by simp [entGet, hne, h1]) (by simp [entGet, hne, h2]))
      rw [this]

/-- in a file system whose directories list no name twice, `Derefs` is a partial function of the place -/
theorem Derefs.unique {fs : Fs} (hwf : fs.root.WF) {loc : List Name} {n m : Node} (h : Derefs fs loc n m) :
    ∀ m', fs.root.getAt loc = some n → Derefs fs loc n m' → m = m' := by
  induction h with
  | file loc k => intro m' _ h'; cases h'; rfl
  | special loc k d => intro m' _ h'; cases h'; rfl
  | dir loc es es1 hnames _ ih =>
    intro m' hg h'
    cases h' with
    | dir _ _ es2 hnames2 hch2 =>
      have hnd : (es.map (·.1)).Nodup := hwf loc es hg
      congr 1
      refine entries_ext es1 es2 (by rw [hnames, hnames2]) (by rw [hnames]; exact hnd) ?_
      intro k x1 x2 h1 h2
      obtain ⟨ch, hek⟩ := entGet_of_key (es := es) (by rw [← hnames]; exact key_of_entGet h1)
      have hgc : fs.root.getAt (loc ++ [k]) = some ch := by
        rw [Node.getAt_append, hg]
        simp [getAt_dir_cons, hek]
      exact ih k ch x1 hek h1 x2 hgc (hch2 k ch x2 hek h2)
  | link loc t cp x m hs _ ih =>
    intro m' _ h'
    cases h' with
    | link _ _ cp' x' _ hs' hd' =>
      rw [hs] at hs'
      injection hs' with hs'
      injection hs' with e1 e2
      subst e1; subst e2
      exact ih m' (stat_some hs).2 hd'

mutual
/-- the restricted structural function agrees with the general relation -/
theorem derefNode_derefs (fs : Fs) : ∀ (n : Node) (loc : List Name) (m : Node),
    derefNode fs n loc = some m → Derefs fs loc n m
  | .file k, loc, m, h => by
    simp only [derefNode, Option.some.injEq] at h
    subst h
    exact Derefs.file loc k
  | .special k d, loc, m, h => by
    simp only [derefNode, Option.some.injEq] at h
    subst h
    exact Derefs.special loc k d
  | .link t, loc, m, h => by
    simp only [derefNode] at h
    split at h
    · rename_i cp k hs
      injection h with h
      subst h
      exact Derefs.link loc t cp _ _ hs (Derefs.file cp k)
    · rename_i cp k d hs
      split at h
      · injection h with h
        subst h
        exact Derefs.link loc t cp _ _ hs (Derefs.special cp k d)
      · cases h
    · cases h
  | .dir es, loc, m, h => by
    simp only [derefNode] at h
    cases hml : derefNodeL fs es loc with
    | none => simp [hml] at h
    | some ml =>
      simp only [hml, Option.map_some, Option.some.injEq] at h
      subst h
      obtain ⟨h1, h2⟩ := derefNodeL_derefs fs es loc ml hml
      exact Derefs.dir loc es ml h1 h2
theorem derefNodeL_derefs (fs : Fs) : ∀ (es : List (Name × Node)) (loc : List Name) (ml : List (Name × Node)),
    derefNodeL fs es loc = some ml →
    ml.map (·.1) = es.map (·.1) ∧
      ∀ k ch x, entGet es k = some ch → entGet ml k = some x → Derefs fs (loc ++ [k]) ch x
  | [], loc, ml, h => by
    simp only [derefNodeL, Option.some.injEq] at h
    subst h
    exact ⟨rfl, fun k ch x hk => by simp [entGet] at hk⟩
  | (j, c) :: r, loc, ml, h => by
    obtain ⟨x, xs, h1, h2, h3⟩ := derefNodeL_cons_some h
    subst h3
    obtain ⟨i1, i2⟩ := derefNodeL_derefs fs r loc xs h2
    refine ⟨by simp [i1], ?_⟩
    intro k ch y hk hy
    by_cases hj : j = k
    · subst hj
      simp only [entGet, if_true, Option.some.injEq] at hk hy
      subst hk; subst hy
      exact derefNode_derefs fs c (loc ++ [j]) x h1
    · simp only [entGet, hj, if_false] at hk hy
      exact i2 k ch y hk hy
end

/-- MIRROR with `--dereference`, general case, in terms of the source node: `src` designates (`lstat`) the node
`srcNode` at the canonical place `loc`; the tree seen through the links exists.  The run succeeds and the
destination receives a tree `m` that is `srcNode` with every symbolic link replaced by what it leads to
(`Derefs`); nothing at or below the destination is a symbolic link. -/
theorem mirror_fresh_deref_replaced (fs : Fs) (c : Cfg) (hd : c.dereference = true) (hn : c.noClobber = false)
    (src tb : RPath) (s : SNode) (fuel : Nat) (loc : List Name) (srcNode : Node)
    (hwf : FsEq fs fs)
    (hsrc : AbsNames src) (hsl : fs.lstat src = some (loc, srcNode))
    (hder : derefS fs (fuel + 1) src.names [] = some s)
    (htb : PlainTarget fs tb) (hne : tb.names ≠ []) (habs : fs.root.getAt tb.names = none)
    (hpar : ∃ es, fs.root.getAt tb.names.dropLast = some (.dir es))
    (hlen : tb.names.length + fuel < 255) :
    ∃ fs' m, execOps fs c (walkEntry fs c none src tb (fuel + 1) [] []) = ⟨.ok, fs'⟩ ∧
      Derefs fs loc srcNode m ∧
      FsEq fs' { fs with root := fs.root.setAt tb.names m } ∧
      ∀ q x, fs'.root.getAt (tb.names ++ q) = some x → x.isLink = false := by
  obtain ⟨fs', hex, heq⟩ := mirror_fresh_deref fs c hd hn src tb s fuel hwf hsrc hder htb hne habs hpar hlen
  obtain ⟨fs'', hex', hnl⟩ := no_link_in_destination fs c hd hn src tb s fuel hwf hsrc hder htb hne habs hpar hlen
  rw [hex] at hex'
  injection hex' with _ hfs
  subst hfs
  have hroot : fs.root.isLink = false := by
    obtain ⟨pes, hpes⟩ := hpar
    exact root_not_link_of_dir hpes
  rw [absNames_eq hsrc] at hsl
  exact ⟨fs', s.erase, hex, derefS_derefs fs hroot _ _ _ s loc srcNode hder hsl, heq, hnl⟩

/-- MIRROR with `--dereference`, restricted case, from the predicate: a copyable source tree at a plain place, all of
whose links lead to files (`Node.LinksToFiles`).  The run succeeds; the destination receives `derefNode` of the
source — every link replaced by the file it leads to — and holds no symbolic link. -/
theorem mirror_fresh_deref_links_to_files (fs : Fs) (c : Cfg) (hd : c.dereference = true)
    (hn : c.noClobber = false) (src tb : RPath) (srcNode : Node) (fuel : Nat)
    (hwf : FsEq fs fs)
    (hsrc : AbsNames src) (hsn : fs.root.getAt src.names = some srcNode)
    (hcop : srcNode.Copyable fuel) (hltf : srcNode.LinksToFiles fs src.names)
    (htb : PlainTarget fs tb) (hne : tb.names ≠ []) (habs : fs.root.getAt tb.names = none)
    (hpar : ∃ es, fs.root.getAt tb.names.dropLast = some (.dir es))
    (hlen : src.names.length + fuel < 255 ∧ tb.names.length + fuel < 255) :
    ∃ fs' m, derefNode fs srcNode src.names = some m ∧
      execOps fs c (walkEntry fs c none src tb (fuel + 1) [] []) = ⟨.ok, fs'⟩ ∧
      FsEq fs' { fs with root := fs.root.setAt tb.names m } ∧
      ∀ q x, fs'.root.getAt (tb.names ++ q) = some x → x.isLink = false := by
  have hroot : fs.root.isLink = false := by
    obtain ⟨pes, hpes⟩ := hpar
    exact root_not_link_of_dir hpes
  obtain ⟨m, hm⟩ := (derefNode_isSome_iff fs hroot srcNode src.names).2 hltf
  obtain ⟨fs', h1, h2, h3⟩ := mirror_fresh_deref_node fs c hd hn src tb srcNode m fuel hwf hsrc hsn hcop hm htb hne
    habs hpar hlen
  exact ⟨fs', m, hm, h1, h2, h3⟩

/-! ## Completeness: no tree, no copy

`derefS` answers `none` exactly for the reasons the walker gives up: when the tree seen through the links does
not exist the walk contains the failure marker and the run exits non-zero.  (For file-system values in which
special nodes carry a special kind; `Node.special .dir 0` is not a thing.) -/

/-- special nodes carry a kind that is not the kind of a regular file, a directory or a symbolic link -/
def SpecialKindsOk (r : Node) : Prop :=
  ∀ q k d, r.getAt q = some (.special k d) → k ≠ .file ∧ k ≠ .dir ∧ k ≠ .symlink

/-- a copyable tree (special nodes of kind socket, character device or fifo only) qualifies -/
theorem copyable_specialKindsOk : ∀ (d : Nat) (n : Node), n.Copyable d → SpecialKindsOk n := by
  have key : ∀ (q : List Name) (d : Nat) (n : Node) (k : FileKind) (dv : Nat), n.Copyable d →
      n.getAt q = some (.special k dv) → k = .socket ∨ k = .chr ∨ k = .fifo := by
    intro q
    induction q with
    | nil =>
      intro d n k dv hc h
      simp only [getAt_nil, Option.some.injEq] at h
      subst h
      simpa [Node.Copyable] using hc
    | cons a r ih =>
      intro d n k dv hc h
      obtain ⟨es0, c0, he0, hg0, hc0⟩ := Node.getAt_cons_some h
      subst he0
      obtain ⟨d', _, _, hch0⟩ := copyable_dir hc
      exact ih d' c0 k dv (hch0 _ (entGet_mem_gi hg0)) hc0
  intro d n hc q k dv hq
  rcases key q d n k dv hc hq with h | h | h <;> subst h <;> simp

theorem walk_fails_of_no_tree (fs : Fs) (c : Cfg) (hd : c.dereference = true) (hn : c.noClobber = false)
    (hroot : fs.root.isLink = false) (hsk : SpecialKindsOk fs.root) (sn0 tn0 : List Name) :
    ∀ (fuel : Nat) (rel : List Name) (anc : List (List Name)),
      derefS fs fuel (sn0 ++ rel) anc = none →
      Op.fail ∈ walkEntry fs c none (plainPath sn0) (plainPath tn0) fuel rel anc := by
  intro fuel
  induction fuel with
  | zero => intro rel anc _; simp [walkEntry]
  | succ f ih =>
    intro rel anc h
    cases hl : fs.lstat (plainPath (sn0 ++ rel)) with
    | none =>
      rw [← relJoin_plain] at hl
      rw [walkEntry_lstat_none fs c none _ _ _ _ _ hl]
      exact List.mem_singleton.2 rfl
    | some pr =>
      obtain ⟨lcp, lnode⟩ := pr
      cases hs : fs.stat (plainPath (sn0 ++ rel)) with
      | none =>
        cases hk : lnode.isLink with
        | false =>
          rw [stat_of_lstat_nonlink fs _ lcp lnode hl hk] at hs
          cases hs
        | true =>
          cases lnode <;> simp [Node.isLink] at hk
          rw [← relJoin_plain] at hl hs
          rw [walkEntry_deref_dangling fs c hd _ _ _ _ _ lcp _ hl hs]
          exact List.mem_singleton.2 rfl
      | some pr2 =>
        obtain ⟨cp, node⟩ := pr2
        obtain ⟨hnl, hg, _, hcan, hl2, _⟩ := stat_canon fs hroot _ cp node hs
        have hsa := seenAs_of fs _ lcp cp lnode node hl hs
        cases node with
        | file k =>
          rw [derefS] at h
          simp only [hl, hs] at h
          cases h
        | link t => cases hnl
        | special k d =>
          rw [derefS] at h
          simp only [hl, hs] at h
          cases hk : okSpecial k with
          | true => simp [hk] at h
          | false =>
            obtain ⟨k1, k2, k3⟩ := hsk cp k d hg
            have hk' : k = .blk ∨ k = .other := by
              cases k <;> simp [okSpecial] at hk <;> simp at k1 k2 k3 ⊢
            rw [← relJoin_plain] at hl hs hcan
            rw [walkEntry_deref_unsupported fs c hd hn _ _ _ _ _ lcp cp lnode k d _ hsa hk' hl hs hcan hl2]
            exact List.mem_singleton.2 rfl
        | dir es =>
          cases hloop : (lnode.isLink && anc.contains cp) with
          | true =>
            simp only [Bool.and_eq_true] at hloop
            obtain ⟨h1, h2⟩ := hloop
            cases lnode <;> simp [Node.isLink] at h1
            rw [← relJoin_plain] at hl hs hcan
            rw [walkEntry_deref_loop fs c hd hn _ _ _ _ _ lcp cp _ es _ hl hs hcan hl2
              (List.contains_iff_mem.1 h2)]
            exact List.mem_singleton.2 rfl
          | false =>
            rw [derefS_dir hl hs hloop] at h
            cases hcol : collect (fun m => (derefS fs f (sn0 ++ rel ++ [m]) (cp :: anc)).map fun x => (m, x))
                (es.map (·.1)) with
            | some ss => rw [hcol] at h; exact absurd h (by simp)
            | none =>
              obtain ⟨m, hm, hfm⟩ := collect_none hcol
              have hdm : derefS fs f (sn0 ++ (rel ++ [m])) (cp :: anc) = none := by
                rw [← List.append_assoc]
                cases hx : derefS fs f (sn0 ++ rel ++ [m]) (cp :: anc) with
                | none => rfl
                | some x =>
                  have hfm' : (derefS fs f (sn0 ++ rel ++ [m]) (cp :: anc)).map (fun x => (m, x)) = none := hfm
                  rw [hx] at hfm'
                  exact absurd hfm' (by simp)
              have := ih (rel ++ [m]) (cp :: anc) hdm
              rw [← relJoin_plain] at hl hs hcan
              rw [walkEntry_deref_dir fs c hd hn _ _ _ _ _ lcp cp lnode es _ hsa hl hs hcan hl2 hg hloop]
              exact List.mem_cons_of_mem _ (List.mem_flatMap.2 ⟨m, hm, this⟩)

/-- … so the run exits non-zero -/
theorem run_fails_of_no_tree (fs : Fs) (c : Cfg) (hd : c.dereference = true) (hn : c.noClobber = false)
    (hroot : fs.root.isLink = false) (hsk : SpecialKindsOk fs.root) (src tb : RPath)
    (hsrc : AbsNames src) (htb : AbsNames tb) (fuel : Nat)
    (h : derefS fs fuel src.names [] = none) :
    (execOps fs c (walkEntry fs c none src tb fuel [] [])).exit = .err := by
  have hf := walk_fails_of_no_tree fs c hd hn hroot hsk src.names tb.names fuel [] [] (by simpa using h)
  rw [← absNames_eq hsrc, ← absNames_eq htb] at hf
  cases he : (execOps fs c (walkEntry fs c none src tb fuel [] [])).exit with
  | err => rfl
  | ok => exact absurd rfl (execOps_ok_no_fail c _ fs he _ hf)

/-! ## Non-vacuity: a concrete instance

`/S` = { file `a`; `l` → `a`; `m` → `/O/f` (absolute, outside the source); `d` → `../O` (a directory outside the
source, itself holding a link `g/u` → `../../S/a` back into the source); `c` → `./l` (a chain of two links) },
`/O` = { file `f`; directory `g` = { file `h`; `u` } }, and an empty directory `/T`.  Source `/S`, target `/T/S`. -/
namespace DerefExample

def nS : Name := [83]
def nO : Name := [79]
def nT : Name := [84]

def srcN : Node := .dir [
  ([97], .file 1),
  ([108], .link ⟨false, [.name [97]], false⟩),
  ([109], .link ⟨true, [.name nO, .name [102]], false⟩),
  ([100], .link ⟨false, [.parent, .name nO], false⟩),
  ([99], .link ⟨false, [.cur, .name [108]], false⟩)]

def exRoot : Node := .dir [
  (nS, srcN),
  (nO, .dir [([102], .file 2),
             ([103], .dir [([104], .file 3),
                           ([117], .link ⟨false, [.parent, .parent, .name nS, .name [97]], false⟩)])]),
  (nT, .dir [])]

def exFs : Fs := ⟨exRoot, []⟩
def exCfg : Cfg := { dereference := true }

/-- the tree seen through the links, with the canonical path of every node -/
def exS : SNode := .dir [nS] [
  ([97], .file [nS, [97]] 1),
  ([108], .file [nS, [97]] 1),
  ([109], .file [nO, [102]] 2),
  ([100], .dir [nO] [([102], .file [nO, [102]] 2),
                     ([103], .dir [nO, [103]] [([104], .file [nO, [103], [104]] 3),
                                               ([117], .file [nS, [97]] 1)])]),
  ([99], .file [nS, [97]] 1)]

/-- what arrives at the destination: no link left, every link replaced by a copy of what it leads to -/
def exDest : Node := .dir [
  ([97], .file 1), ([108], .file 1), ([109], .file 2),
  ([100], .dir [([102], .file 2), ([103], .dir [([104], .file 3), ([117], .file 1)])]),
  ([99], .file 1)]

theorem exS_computed : derefS exFs 4 [nS] [] = some exS := by rfl

theorem exS_erase : exS.erase = exDest := by rfl

theorem exFs_wf : FsEq exFs exFs := by
  have h : exRoot.Copyable 4 := by
    simp [exRoot, srcN, Node.Copyable, Node.Copyable.CopyableL, nS, nO, nT]
  exact ⟨rfl, copyable_WF 4 _ h, copyable_WF 4 _ h, SameObs.refl _⟩

theorem ex_names (ns : List Name) : (plainPath ns).names = ns := by
  induction ns with
  | nil => rfl
  | cons a r ih =>
    simp only [RPath.names, plainPath, List.map_cons, List.filterMap_cons] at ih ⊢
    rw [ih]

theorem ex_absNames (ns : List Name) : AbsNames (plainPath ns) :=
  ⟨rfl, rfl, fun c hc => by
    obtain ⟨n, _, hn⟩ := List.mem_map.1 hc
    exact ⟨n, hn.symm⟩⟩

theorem ex_target_plain : PlainTarget exFs (plainPath [nT, nS]) := by
  refine ⟨rfl, rfl, (ex_absNames _).2.2, ?_⟩
  rw [ex_names]
  intro p hp tg hg
  have hT : exFs.root.getAt [nT] = some (.dir []) := by rfl
  rcases List.prefix_concat_iff.1 (show p <+: [nT] ++ [nS] from hp) with h | h
  · rw [h] at hg
    have : exFs.root.getAt ([nT] ++ [nS]) = none := by rfl
    rw [this] at hg
    cases hg
  · exact noLinkUpto_of_getAt hT rfl p h tg hg

/-- the general theorem applied to the instance: the run succeeds, `/T/S` receives `exDest`, which is the source
node with every link replaced by what it leads to, and holds no symbolic link -/
theorem example_run :
    ∃ fs', execOps exFs exCfg (walkEntry exFs exCfg none (plainPath [nS]) (plainPath [nT, nS]) 4 [] []) = ⟨.ok, fs'⟩ ∧
      Derefs exFs [nS] srcN exDest ∧
      FsEq fs' { exFs with root := exFs.root.setAt [nT, nS] exDest } ∧
      ∀ q x, fs'.root.getAt ([nT, nS] ++ q) = some x → x.isLink = false := by
  have h := mirror_fresh_deref_replaced exFs exCfg rfl rfl (plainPath [nS]) (plainPath [nT, nS]) exS 3 [nS] srcN
    exFs_wf (ex_absNames _) (by rfl) (by rw [ex_names]; exact exS_computed) ex_target_plain
    (by rw [ex_names]; simp) (by rw [ex_names]; rfl) (by rw [ex_names]; exact ⟨[], by rfl⟩)
    (by rw [ex_names]; decide)
  obtain ⟨fs', m, h1, h2, h3, h4⟩ := h
  have hm : m = exDest := by
    have hd : Derefs exFs [nS] srcN exS.erase :=
      derefS_derefs exFs rfl 4 [nS] [] exS [nS] srcN exS_computed (by rfl)
    rw [← exS_erase]
    exact (Derefs.unique exFs_wf.2.1 h2 _ (by rfl) hd)
  subst hm
  rw [ex_names] at h3 h4
  exact ⟨fs', h1, h2, h3, h4⟩

/-- a link that leads back to a directory being listed: there is no tree, and the run fails -/
def loopRoot : Node := .dir [
  (nS, .dir [([97], .file 1), ([108], .link ⟨false, [.parent, .name nS], false⟩)]),
  (nT, .dir [])]

theorem loop_has_no_tree : derefS ⟨loopRoot, []⟩ 6 [nS] [] = none := by rfl

theorem loop_run_fails :
    (execOps ⟨loopRoot, []⟩ exCfg
      (walkEntry ⟨loopRoot, []⟩ exCfg none (plainPath [nS]) (plainPath [nT, nS]) 6 [] [])).exit = .err :=
  run_fails_of_no_tree ⟨loopRoot, []⟩ exCfg rfl rfl rfl
    (copyable_specialKindsOk 3 _ (by
      simp [loopRoot, Node.Copyable, Node.Copyable.CopyableL, nS, nT]))
    (plainPath [nS]) (plainPath [nT, nS]) (ex_absNames _) (ex_absNames _) 6
    (by rw [ex_names]; exact loop_has_no_tree)

end DerefExample

end Xcp
