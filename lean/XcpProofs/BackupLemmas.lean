import XcpModel.Backup
/-! Numbered backups: the recogniser accepts exactly `<base>.~N~`; the chosen name is fresh and its number
exceeds every existing one; histories of copies never lose or modify a version. -/
namespace Xcp

/-- `decimal` produces ASCII digits whose value is `n` -/
theorem decimal_spec (n : Nat) : decimal n ≠ [] ∧ (decimal n).all isDigit = true ∧ digitsVal (decimal n) = n := by
  sorry

/-- exact characterisation of the recogniser -/
theorem isNumBackup_iff (base cand : Name) (n : Nat) :
    isNumBackup base cand = some n ↔
      ∃ ds : List UInt8, ds ≠ [] ∧ ds.all isDigit = true ∧ cand = base ++ [46, 126] ++ ds ++ [126] ∧
        digitsVal ds = n ∧ n < 2^64 := by
  sorry

/-- round trip: the name xcp generates is recognised with its own number -/
theorem isNumBackup_backupName (base : Name) (n : Nat) (h : n < 2^64) :
    isNumBackup base (backupName base n) = some n := by
  sorry

/-- a name is a backup of at most one number … -/
theorem backupName_inj (base : Name) (n m : Nat) (h : backupName base n = backupName base m) : n = m := by
  sorry

/-- … and a generated backup name is never the file's own name -/
theorem backupName_ne (base : Name) (n : Nat) : backupName base n ≠ base := by
  sorry

/-- the number chosen exceeds every recognised number in the directory -/
theorem nextBackupNum_greater (dir : List Name) (base : Name) (N : Nat) (h : nextBackupNum dir base = some N) :
    ∀ c ∈ dir, ∀ m, isNumBackup base c = some m → m < N := by
  sorry

/-- the name chosen is not present in the directory -/
theorem nextBackupNum_fresh (dir : List Name) (base : Name) (N : Nat) (h : nextBackupNum dir base = some N) :
    backupName base N ∉ dir := by
  sorry

end Xcp
