import XcpModel.Backup
/-! Numbered backups: the recogniser accepts exactly `<base>.~N~`; the chosen name is fresh and its number
exceeds every existing one; histories of copies never lose or modify a version. -/
namespace Xcp

/-! ## Digits -/

theorem isDigit_iff (b : UInt8) : isDigit b = true ↔ 48 ≤ b.toNat ∧ b.toNat ≤ 57 := by
  simp [isDigit, UInt8.le_iff_toNat_le]

theorem isDigit_ne_tilde (b : UInt8) (h : isDigit b = true) : b ≠ 126 := by
  intro e; subst e; revert h; decide

theorem digitsVal_append_single (ds : List UInt8) (d : UInt8) :
    digitsVal (ds ++ [d]) = digitsVal ds * 10 + (d.toNat - 48) := by
  simp [digitsVal, List.foldl_append]

theorem toNat_ofNat_digit (k : Nat) (h : k < 10) : (UInt8.ofNat (48 + k)).toNat = 48 + k := by
  rw [UInt8.toNat_ofNat']; omega

theorem digitsRev_spec : ∀ (f n : Nat), n < f →
    digitsRev f n ≠ [] ∧ (digitsRev f n).all isDigit = true ∧ digitsVal (digitsRev f n).reverse = n := by
  intro f
  induction f with
  | zero => intro n h; omega
  | succ f ih =>
    intro n h
    unfold digitsRev
    by_cases h10 : n < 10
    · rw [if_pos h10]
      refine ⟨by simp, ?_, ?_⟩
      · simp only [List.all_cons, List.all_nil, Bool.and_true]
        rw [isDigit_iff, toNat_ofNat_digit n h10]; omega
      · have := digitsVal_append_single [] (UInt8.ofNat (48 + n))
        simp only [List.nil_append] at this
        simp only [List.reverse_cons, List.reverse_nil, List.nil_append]
        rw [this, toNat_ofNat_digit n h10]; simp [digitsVal]
    · rw [if_neg h10]
      have hlt : n / 10 < f := by omega
      obtain ⟨_, h2, h3⟩ := ih (n / 10) hlt
      refine ⟨by simp, ?_, ?_⟩
      · simp only [List.all_cons, h2, Bool.and_true]
        rw [isDigit_iff, toNat_ofNat_digit (n % 10) (by omega)]; omega
      · rw [List.reverse_cons, digitsVal_append_single, h3, toNat_ofNat_digit (n % 10) (by omega)]
        omega

/-- `decimal` produces ASCII digits whose value is `n` -/
theorem decimal_spec (n : Nat) : decimal n ≠ [] ∧ (decimal n).all isDigit = true ∧ digitsVal (decimal n) = n := by
  obtain ⟨h1, h2, h3⟩ := digitsRev_spec (n + 1) n (by omega)
  refine ⟨?_, ?_, h3⟩
  · simpa [decimal] using h1
  · simpa [decimal] using h2

/-! ## The recogniser -/

theorem stripPrefix_eq_some (base cand r : Name) : stripPrefix base cand = some r ↔ cand = base ++ r := by
  induction base generalizing cand with
  | nil => simp [stripPrefix, eq_comm]
  | cons b bs ih =>
    cases cand with
    | nil => simp [stripPrefix]
    | cons c cs =>
      simp only [stripPrefix]
      by_cases h : b = c
      · subst h; simp [ih]
      · simp [h]; intro e; exact absurd e.symm h

theorem stripPrefix_append (base r : Name) : stripPrefix base (base ++ r) = some r :=
  (stripPrefix_eq_some base _ r).2 rfl

theorem parseTilde_wrap (ds : List UInt8) :
    parseTilde (126 :: (ds ++ [126])) =
      if (ds ≠ [] && ds.all isDigit && digitsVal ds < 2^64) = true then some (digitsVal ds) else none := by
  simp [parseTilde]

theorem parseTilde_shape (ext : List UInt8) (n : Nat) (h : parseTilde ext = some n) :
    ∃ ds, ext = 126 :: (ds ++ [126]) := by
  unfold parseTilde at h
  split at h
  · split at h
    · rename_i rest _ dsr heq
      refine ⟨dsr.reverse, ?_⟩
      have := congrArg List.reverse heq
      simp at this
      simp [this]
    · cases h
  · cases h

theorem parseTilde_eq_some (ext : List UInt8) (n : Nat) :
    parseTilde ext = some n ↔
      ∃ ds : List UInt8, ds ≠ [] ∧ ds.all isDigit = true ∧ ext = 126 :: (ds ++ [126]) ∧
        digitsVal ds = n ∧ n < 2^64 := by
  constructor
  · intro h
    obtain ⟨ds, rfl⟩ := parseTilde_shape ext n h
    rw [parseTilde_wrap] at h
    split at h
    · rename_i hc
      simp only [Bool.and_eq_true, decide_eq_true_eq] at hc
      cases h
      exact ⟨ds, hc.1.1, hc.1.2, rfl, rfl, hc.2⟩
    · cases h
  · rintro ⟨ds, h1, h2, rfl, rfl, h5⟩
    rw [parseTilde_wrap, if_pos]
    simp [h1, h2, h5]

/-- exact characterisation of the recogniser -/
theorem isNumBackup_iff (base cand : Name) (n : Nat) :
    isNumBackup base cand = some n ↔
      ∃ ds : List UInt8, ds ≠ [] ∧ ds.all isDigit = true ∧ cand = base ++ [46, 126] ++ ds ++ [126] ∧
        digitsVal ds = n ∧ n < 2^64 := by
  constructor
  · intro h
    unfold isNumBackup at h
    split at h
    · rename_i ext hsp
      rw [stripPrefix_eq_some] at hsp
      obtain ⟨ds, h1, h2, rfl, h4, h5⟩ := (parseTilde_eq_some ext n).1 h
      exact ⟨ds, h1, h2, by simp [hsp], h4, h5⟩
    · cases h
  · rintro ⟨ds, h1, h2, rfl, h4, h5⟩
    have hsp : stripPrefix base (base ++ [46, 126] ++ ds ++ [126]) = some (46 :: 126 :: (ds ++ [126])) := by
      rw [stripPrefix_eq_some]; simp
    unfold isNumBackup
    rw [hsp]
    exact (parseTilde_eq_some _ n).2 ⟨ds, h1, h2, rfl, h4, h5⟩

/-- round trip: the name xcp generates is recognised with its own number -/
theorem isNumBackup_backupName (base : Name) (n : Nat) (h : n < 2^64) :
    isNumBackup base (backupName base n) = some n := by
  obtain ⟨h1, h2, h3⟩ := decimal_spec n
  exact (isNumBackup_iff base _ n).2 ⟨decimal n, h1, h2, rfl, h3, h⟩

/-- a name is a backup of at most one number … -/
theorem backupName_inj (base : Name) (n m : Nat) (h : backupName base n = backupName base m) : n = m := by
  have hd : decimal n = decimal m := by simpa [backupName] using h
  have := congrArg digitsVal hd
  rwa [(decimal_spec n).2.2, (decimal_spec m).2.2] at this

/-- … and a generated backup name is never the file's own name -/
theorem backupName_ne (base : Name) (n : Nat) : backupName base n ≠ base := by
  intro h
  have := congrArg List.length h
  simp [backupName] at this

theorem le_maxList (l : List Nat) (m : Nat) (h : m ∈ l) : m ≤ maxList l := by
  induction l with
  | nil => cases h
  | cons x r ih =>
    simp only [maxList]
    rcases List.mem_cons.1 h with rfl | h'
    · omega
    · have := ih h'; omega

theorem nextBackupNum_eq_some (dir : List Name) (base : Name) (N : Nat) (h : nextBackupNum dir base = some N) :
    N = maxList (backupNums dir base) + 1 ∧ N < 2^64 := by
  unfold nextBackupNum at h
  simp only at h
  split at h
  · cases h; exact ⟨rfl, by assumption⟩
  · cases h

/-- the number chosen exceeds every recognised number in the directory -/
theorem nextBackupNum_greater (dir : List Name) (base : Name) (N : Nat) (h : nextBackupNum dir base = some N) :
    ∀ c ∈ dir, ∀ m, isNumBackup base c = some m → m < N := by
  intro c hc m hm
  obtain ⟨rfl, _⟩ := nextBackupNum_eq_some dir base N h
  have : m ∈ backupNums dir base := List.mem_filterMap.2 ⟨c, hc, hm⟩
  have := le_maxList _ _ this
  omega

/-- the name chosen is not present in the directory -/
theorem nextBackupNum_fresh (dir : List Name) (base : Name) (N : Nat) (h : nextBackupNum dir base = some N) :
    backupName base N ∉ dir := by
  intro hin
  have hN := (nextBackupNum_eq_some dir base N h).2
  have := nextBackupNum_greater dir base N h _ hin N (isNumBackup_backupName base N hN)
  omega

/-! ## The directory as a finite map -/

theorem Dir.get_erase (d : Dir) (a k : Name) : (d.erase a).get k = if k = a then none else d.get k := by
  induction d with
  | nil => simp [Dir.erase, Dir.get]
  | cons kv r ih =>
    obtain ⟨k', v⟩ := kv
    unfold Dir.erase at ih ⊢
    by_cases hk : k' = a
    · subst hk
      simp only [List.filter_cons, ne_eq, not_true_eq_false, decide_false, Bool.false_eq_true, if_false, ih, Dir.get]
      by_cases hka : k = k'
      · subst hka; simp
      · have : ¬ k' = k := fun e => hka e.symm
        simp [hka, this]
    · simp only [List.filter_cons, ne_eq, hk, not_false_eq_true, decide_true, if_true, Dir.get, ih]
      by_cases hkk : k' = k
      · subst hkk; simp [hk]
      · simp [hkk]

theorem Dir.get_set (d : Dir) (n : Name) (v : List UInt8) (k : Name) :
    (d.set n v).get k = if k = n then some v else d.get k := by
  unfold Dir.set
  simp only [Dir.get, Dir.get_erase]
  by_cases h : n = k
  · subst h; simp
  · have : ¬ k = n := fun e => h e.symm
    simp [h, this]

theorem Dir.rename_of_none (d : Dir) (a b : Name) (h : d.get a = none) : d.rename a b = d := by
  simp [Dir.rename, h]

theorem Dir.get_rename (d : Dir) (a b k : Name) (v : List UInt8) (h : d.get a = some v) :
    (d.rename a b).get k = if k = b then some v else if k = a then none else d.get k := by
  simp only [Dir.rename, h, Dir.get_set, Dir.get_erase]

theorem Dir.get_eq_none_iff (d : Dir) (k : Name) : d.get k = none ↔ k ∉ d.names := by
  induction d with
  | nil => simp [Dir.get, Dir.names]
  | cons kv r ih =>
    obtain ⟨k', v⟩ := kv
    unfold Dir.names at ih ⊢
    simp only [Dir.get, List.map_cons, List.mem_cons, not_or]
    by_cases h : k' = k
    · subst h; simp
    · have : ¬ k = k' := fun e => h e.symm
      simp [h, this, ih]

theorem Dir.mem_names_iff (d : Dir) (k : Name) : k ∈ d.names ↔ ∃ v, d.get k = some v := by
  have := Dir.get_eq_none_iff d k
  cases hg : d.get k with
  | none => simp [hg] at this; simp [this]
  | some v => simp [hg] at this; simp [this]

theorem Dir.names_erase_sublist (d : Dir) (a : Name) : List.Sublist (d.erase a).names d.names := by
  unfold Dir.erase Dir.names
  exact List.Sublist.map _ List.filter_sublist

theorem Dir.nodup_erase (d : Dir) (a : Name) (h : d.names.Nodup) : (d.erase a).names.Nodup :=
  List.Nodup.sublist (Dir.names_erase_sublist d a) h

theorem Dir.nodup_set (d : Dir) (n : Name) (v : List UInt8) (h : d.names.Nodup) : (d.set n v).names.Nodup := by
  have h1 : n ∉ (d.erase n).names := by
    rw [← Dir.get_eq_none_iff, Dir.get_erase]; simp
  have h2 := Dir.nodup_erase d n h
  unfold Dir.set Dir.names at *
  simp only [List.map_cons, List.nodup_cons]
  exact ⟨h1, h2⟩

theorem Dir.nodup_rename (d : Dir) (a b : Name) (h : d.names.Nodup) : (d.rename a b).names.Nodup := by
  unfold Dir.rename
  split
  · exact Dir.nodup_set _ _ _ (Dir.nodup_erase _ _ h)
  · exact h

theorem Dir.nodup_step (d : Dir) (s : BStep) (h : d.names.Nodup) : (d.step s).names.Nodup := by
  cases s with
  | rename a b => exact Dir.nodup_rename d a b h
  | createTrunc n => exact Dir.nodup_set d n [] h
  | fill n c => exact Dir.nodup_set d n c h

theorem runSteps_nodup (l : List BStep) (d : Dir) (h : d.names.Nodup) : (runSteps d l).names.Nodup := by
  induction l generalizing d with
  | nil => exact h
  | cons s l ih => exact ih (d.step s) (Dir.nodup_step d s h)

/-- `copyOnce` keeps the keys of the directory distinct -/
theorem copyOnce_nodup (d : Dir) (op : BackupMode × Name × List UInt8) (h : d.names.Nodup) :
    (copyOnce d op).names.Nodup := by
  unfold copyOnce
  split
  · exact runSteps_nodup _ d h
  · exact h

theorem runHistory_nodup (h : List (BackupMode × Name × List UInt8)) (d : Dir) (hd : d.names.Nodup) :
    (runHistory d h).names.Nodup := by
  induction h generalizing d with
  | nil => exact hd
  | cons op h ih => exact ih (copyOnce d op) (copyOnce_nodup d op hd)

/-! ## One copy -/

theorem needsBackup_get {d : Dir} {mode : BackupMode} {name : Name}
    (h : needsBackup mode (d.get name).isSome d.names name = true) : ∃ old, d.get name = some old := by
  cases hg : d.get name with
  | some old => exact ⟨old, rfl⟩
  | none => cases mode <;> simp [needsBackup, hg] at h

theorem copySteps_backup {d : Dir} {mode : BackupMode} {name : Name} (new : List UInt8) {N : Nat}
    (h : needsBackup mode (d.get name).isSome d.names name = true) (hN : nextBackupNum d.names name = some N) :
    copySteps d mode name new = some [.rename name (backupName name N), .createTrunc name, .fill name new] := by
  simp [copySteps, h, hN]

theorem copySteps_refused {d : Dir} {mode : BackupMode} {name : Name} (new : List UInt8)
    (h : needsBackup mode (d.get name).isSome d.names name = true) (hN : nextBackupNum d.names name = none) :
    copySteps d mode name new = none := by
  simp [copySteps, h, hN]

theorem copySteps_nobackup {d : Dir} {mode : BackupMode} {name : Name} (new : List UInt8)
    (h : needsBackup mode (d.get name).isSome d.names name = false) :
    copySteps d mode name new = some [.createTrunc name, .fill name new] := by
  simp [copySteps, h]

/-- every kill point of the three-step sequence with backup -/
theorem runSteps_backup_take (d : Dir) (name bn : Name) (old new : List UInt8) (hold : d.get name = some old)
    (hbn : bn ≠ name) (i : Nat) :
    let d' := runSteps d (List.take i [.rename name bn, .createTrunc name, .fill name new])
    (d'.get name = some old ∨ d'.get bn = some old) ∧
      (∀ k, k ≠ name → k ≠ bn → d'.get k = d.get k) := by
  have hnb : ¬ name = bn := fun e => hbn e.symm
  rcases i with _ | _ | _ | i
  · simp [runSteps, hold]
  · simp [runSteps, Dir.step, Dir.get_rename _ _ _ _ _ hold]
    intro k h1 h2; simp [h1, h2]
  · simp [runSteps, Dir.step, Dir.get_rename _ _ _ _ _ hold, Dir.get_set, hbn]
    intro k h1 h2; simp [h1, h2]
  · simp [runSteps, Dir.step, Dir.get_rename _ _ _ _ _ hold, Dir.get_set, hbn]
    intro k h1 h2; simp [h1, h2]

theorem runSteps_backup (d : Dir) (name bn : Name) (old new : List UInt8) (hold : d.get name = some old)
    (hbn : bn ≠ name) (k : Name) :
    (runSteps d [.rename name bn, .createTrunc name, .fill name new]).get k =
      if k = name then some new else if k = bn then some old else d.get k := by
  simp only [runSteps, List.foldl, Dir.step, Dir.get_rename _ _ _ _ _ hold, Dir.get_set]
  by_cases h1 : k = name <;> by_cases h2 : k = bn <;> simp [h1, h2, hbn]

theorem runSteps_nobackup (d : Dir) (name : Name) (new : List UInt8) (k : Name) :
    (runSteps d [.createTrunc name, .fill name new]).get k = if k = name then some new else d.get k := by
  simp only [runSteps, List.foldl, Dir.step, Dir.get_set]
  by_cases h1 : k = name <;> simp [h1]

/-- a copy that takes a backup: the new content under `name`, the old under the fresh backup name, rest untouched -/
theorem copyOnce_backup_get {d : Dir} {mode : BackupMode} {name : Name} {old : List UInt8} (new : List UInt8) {N : Nat}
    (h : needsBackup mode (d.get name).isSome d.names name = true) (hN : nextBackupNum d.names name = some N)
    (hold : d.get name = some old) (k : Name) :
    (copyOnce d (mode, name, new)).get k =
      if k = name then some new else if k = backupName name N then some old else d.get k := by
  simp only [copyOnce, copySteps_backup new h hN]
  exact runSteps_backup d name _ old new hold (backupName_ne name N) k

/-- a copy that takes no backup -/
theorem copyOnce_nobackup_get {d : Dir} {mode : BackupMode} {name : Name} (new : List UInt8)
    (h : needsBackup mode (d.get name).isSome d.names name = false) (k : Name) :
    (copyOnce d (mode, name, new)).get k = if k = name then some new else d.get k := by
  simp only [copyOnce, copySteps_nobackup new h]
  exact runSteps_nobackup d name new k

/-- a refused copy (backup number overflow) -/
theorem copyOnce_refused {d : Dir} {mode : BackupMode} {name : Name} (new : List UInt8)
    (h : needsBackup mode (d.get name).isSome d.names name = true) (hN : nextBackupNum d.names name = none) :
    copyOnce d (mode, name, new) = d := by
  simp only [copyOnce, copySteps_refused new h hN]

/-- the backup name chosen is absent from the directory, so the `rename` overwrites nothing -/
theorem backup_target_absent {d : Dir} {name : Name} {N : Nat} (hN : nextBackupNum d.names name = some N) :
    d.get (backupName name N) = none :=
  (Dir.get_eq_none_iff d _).2 (nextBackupNum_fresh d.names name N hN)

/-- with distinct keys, the entries of the list are exactly the `get` view -/
theorem Dir.mem_iff_get (d : Dir) (h : d.names.Nodup) (k : Name) (v : List UInt8) :
    (k, v) ∈ d ↔ d.get k = some v := by
  induction d with
  | nil => simp [Dir.get]
  | cons kv r ih =>
    obtain ⟨k', v'⟩ := kv
    have hnd : k' ∉ Dir.names r ∧ (Dir.names r).Nodup := by
      simpa [Dir.names, List.nodup_cons] using h
    have ih := ih hnd.2
    simp only [List.mem_cons, Prod.mk.injEq, Dir.get]
    by_cases hk : k' = k
    · subst hk
      have : (k', v) ∉ r := by
        intro hm
        exact hnd.1 (List.mem_map.2 ⟨(k', v), hm, rfl⟩)
      simp [this, eq_comm]
    · have : ¬ k = k' := fun e => hk e.symm
      simp [hk, this, ih]

/-! ## History theorems -/

/-- (H1) one copy never modifies, replaces or removes an entry other than its own target; in particular the
backup name it renames to is fresh (`backup_target_absent`), so no existing `name.~m~` is overwritten. -/
theorem copyOnce_preserves_others (d : Dir) (op : BackupMode × Name × List UInt8) (k : Name) (v : List UInt8)
    (hk : d.get k = some v) (hne : k ≠ op.2.1) : (copyOnce d op).get k = some v := by
  obtain ⟨mode, name, new⟩ := op
  simp only at hne
  cases hb : needsBackup mode (d.get name).isSome d.names name with
  | false => rw [copyOnce_nobackup_get new hb]; simp [hne, hk]
  | true =>
    cases hN : nextBackupNum d.names name with
    | none => rw [copyOnce_refused new hb hN]; exact hk
    | some N =>
      obtain ⟨old, hold⟩ := needsBackup_get hb
      have hkb : k ≠ backupName name N := by
        intro e; rw [e, backup_target_absent hN] at hk; cases hk
      rw [copyOnce_backup_get new hb hN hold]; simp [hne, hkb, hk]

/-- (H1, entry view) the same for list entries of a directory with distinct keys -/
theorem copyOnce_preserves_other_entries (d : Dir) (hd : d.names.Nodup) (op : BackupMode × Name × List UInt8)
    (k : Name) (v : List UInt8) (hk : (k, v) ∈ d) (hne : k ≠ op.2.1) : (k, v) ∈ copyOnce d op := by
  rw [Dir.mem_iff_get _ (copyOnce_nodup d op hd)]
  exact copyOnce_preserves_others d op k v ((Dir.mem_iff_get d hd k v).1 hk) hne

/-- (H1, corollary) existing numbered backups of the target are never touched -/
theorem copyOnce_backups_untouched (d : Dir) (mode : BackupMode) (name new : List UInt8) (m : Nat) (v : List UInt8)
    (hk : d.get (backupName name m) = some v) : (copyOnce d (mode, name, new)).get (backupName name m) = some v :=
  copyOnce_preserves_others d _ _ v hk (backupName_ne name m)

/-- (H1, converse) nothing appears except under the target name and (when a backup is taken) the fresh backup name -/
theorem copyOnce_get_elsewhere (d : Dir) (mode : BackupMode) (name new : List UInt8) (k : Name)
    (hne : k ≠ name) (hnb : ∀ N, nextBackupNum d.names name = some N → k ≠ backupName name N) :
    (copyOnce d (mode, name, new)).get k = d.get k := by
  cases hb : needsBackup mode (d.get name).isSome d.names name with
  | false => rw [copyOnce_nobackup_get new hb]; simp [hne]
  | true =>
    cases hN : nextBackupNum d.names name with
    | none => rw [copyOnce_refused new hb hN]
    | some N =>
      obtain ⟨old, hold⟩ := needsBackup_get hb
      rw [copyOnce_backup_get new hb hN hold]; simp [hne, hnb N hN]

/-- (H2) numbered mode: the new content is installed, the old content survives under a backup name that did not
exist before and whose number exceeds every backup number present before; everything else is unchanged. -/
theorem copyOnce_numbered_keeps_old (d : Dir) (name old new : List UInt8) (N : Nat)
    (hold : d.get name = some old) (hN : nextBackupNum d.names name = some N) :
    (copyOnce d (.numbered, name, new)).get name = some new ∧
    (copyOnce d (.numbered, name, new)).get (backupName name N) = some old ∧
    d.get (backupName name N) = none ∧
    (∀ c ∈ d.names, ∀ m, isNumBackup name c = some m → m < N) ∧
    (∀ k, k ≠ name → k ≠ backupName name N → (copyOnce d (.numbered, name, new)).get k = d.get k) := by
  have hb : needsBackup .numbered (d.get name).isSome d.names name = true := by simp [needsBackup, hold]
  refine ⟨?_, ?_, backup_target_absent hN, nextBackupNum_greater d.names name N hN, ?_⟩
  · rw [copyOnce_backup_get new hb hN hold]; simp
  · rw [copyOnce_backup_get new hb hN hold]; simp [backupName_ne]
  · intro k h1 h2; rw [copyOnce_backup_get new hb hN hold]; simp [h1, h2]

/-- (H3) auto mode: a backup of the old content is taken iff a numbered backup of the target already exists;
otherwise only the target changes. -/
theorem copyOnce_auto_iff (d : Dir) (name old new : List UInt8) (N : Nat)
    (hold : d.get name = some old) (hN : nextBackupNum d.names name = some N) :
    ((copyOnce d (.auto, name, new)).get (backupName name N) = some old ↔ hasBackup d.names name = true) ∧
    (copyOnce d (.auto, name, new)).get name = some new ∧
    (hasBackup d.names name = false → ∀ k, k ≠ name → (copyOnce d (.auto, name, new)).get k = d.get k) := by
  cases hh : hasBackup d.names name with
  | true =>
    have hb : needsBackup .auto (d.get name).isSome d.names name = true := by simp [needsBackup, hold, hh]
    refine ⟨?_, ?_, ?_⟩
    · rw [copyOnce_backup_get new hb hN hold]; simp [backupName_ne]
    · rw [copyOnce_backup_get new hb hN hold]; simp
    · intro h; cases h
  | false =>
    have hb : needsBackup .auto (d.get name).isSome d.names name = false := by simp [needsBackup, hh]
    refine ⟨?_, ?_, ?_⟩
    · rw [copyOnce_nobackup_get new hb]; simp [backupName_ne, backup_target_absent hN]
    · rw [copyOnce_nobackup_get new hb]; simp
    · intro _ k hk; rw [copyOnce_nobackup_get new hb]; simp [hk]

theorem prefix_backupName (k : Name) (N : Nat) : k <+: backupName k N := by
  unfold backupName
  rw [List.append_assoc, List.append_assoc]
  exact List.prefix_append _ _

/-- (H4, one step) the fate of an entry `(k, v)` under one copy: it stays where it is unless `k` is the target;
if `k` is the target and the mode asks for a backup, it moves to the fresh name `backupName k N`, or the copy is
refused (overflow) and nothing changes. -/
theorem copyOnce_entry_fate (d : Dir) (op : BackupMode × Name × List UInt8) (k : Name) (v : List UInt8)
    (hk : d.get k = some v) :
    (k ≠ op.2.1 → (copyOnce d op).get k = some v) ∧
    (k = op.2.1 → needsBackup op.1 true d.names k = true →
      (∀ N, nextBackupNum d.names k = some N →
        d.get (backupName k N) = none ∧ (copyOnce d op).get (backupName k N) = some v) ∧
      (nextBackupNum d.names k = none → copyOnce d op = d)) := by
  refine ⟨copyOnce_preserves_others d op k v hk, ?_⟩
  obtain ⟨mode, name, new⟩ := op
  rintro rfl hb
  have hb' : needsBackup mode (d.get k).isSome d.names k = true := by simpa [hk] using hb
  refine ⟨fun N hN => ⟨backup_target_absent hN, ?_⟩, fun hN => copyOnce_refused new hb' hN⟩
  rw [copyOnce_backup_get new hb' hN hk]; simp [backupName_ne]

/-- (H4, one step, existential form) if the copy does not destroy `k` without backup, the content `v` survives
under a name extending `k` -/
theorem copyOnce_keeps_version (d : Dir) (op : BackupMode × Name × List UInt8) (k : Name) (v : List UInt8)
    (hk : d.get k = some v) (hsafe : op.2.1 = k → needsBackup op.1 true d.names k = true) :
    ∃ k', k <+: k' ∧ (copyOnce d op).get k' = some v := by
  obtain ⟨h1, h2⟩ := copyOnce_entry_fate d op k v hk
  by_cases hkn : k = op.2.1
  · obtain ⟨h3, h4⟩ := h2 hkn (hsafe hkn.symm)
    cases hN : nextBackupNum d.names k with
    | none => exact ⟨k, List.prefix_refl k, by rw [h4 hN]; exact hk⟩
    | some N => exact ⟨backupName k N, prefix_backupName k N, (h3 N hN).2⟩
  · exact ⟨k, List.prefix_refl k, h1 hkn⟩

theorem runHistory_cons (d : Dir) (op : BackupMode × Name × List UInt8) (h : List (BackupMode × Name × List UInt8)) :
    runHistory d (op :: h) = runHistory (copyOnce d op) h := rfl

theorem runHistory_append (d : Dir) (h₁ h₂ : List (BackupMode × Name × List UInt8)) :
    runHistory d (h₁ ++ h₂) = runHistory (runHistory d h₁) h₂ := by
  simp [runHistory, List.foldl_append]

/-- (H4a) an entry whose name is never the target of an operation survives any history unchanged -/
theorem runHistory_preserves_untargeted (h : List (BackupMode × Name × List UInt8)) (d : Dir) (k : Name)
    (v : List UInt8) (hk : d.get k = some v) (hne : ∀ op ∈ h, op.2.1 ≠ k) : (runHistory d h).get k = some v := by
  induction h generalizing d with
  | nil => exact hk
  | cons op h ih =>
    rw [runHistory_cons]
    refine ih _ (copyOnce_preserves_others d op k v hk ?_) (fun o ho => hne o (List.mem_cons_of_mem _ ho))
    exact fun e => hne op (List.mem_cons_self) e.symm

/-- (H4b) a version overwritten by an operation that takes a backup (`.numbered`, or `.auto` with an existing backup)
is kept under the backup name through the whole rest of the history, as long as no later operation targets
that backup name itself. `rest` is arbitrary, so this speaks about every later directory. -/
theorem runHistory_version_kept (pre rest : List (BackupMode × Name × List UInt8)) (d : Dir) (mode : BackupMode)
    (name new c : List UInt8) (N : Nat)
    (hc : (runHistory d pre).get name = some c)
    (hb : needsBackup mode true (runHistory d pre).names name = true)
    (hN : nextBackupNum (runHistory d pre).names name = some N)
    (hrest : ∀ op ∈ rest, op.2.1 ≠ backupName name N) :
    (runHistory d pre).get (backupName name N) = none ∧
    (runHistory d (pre ++ (mode, name, new) :: rest)).get (backupName name N) = some c := by
  refine ⟨backup_target_absent hN, ?_⟩
  rw [runHistory_append, runHistory_cons]
  refine runHistory_preserves_untargeted rest _ _ c ?_ hrest
  exact ((copyOnce_entry_fate _ (mode, name, new) name c hc).2 rfl hb).1 N hN |>.2

/-- (H4) histories never lose a version:
(a) entries never targeted are unchanged;
(b) whenever, after some prefix of the history, `name` holds `c` and the next operation overwrites `name` in numbered
mode without overflow, then `c` is found under the (until then absent) name `backupName name N` after every
continuation `rest` that does not target that backup name. -/
theorem history_never_loses (d : Dir) (h : List (BackupMode × Name × List UInt8)) :
    (∀ k v, d.get k = some v → (∀ op ∈ h, op.2.1 ≠ k) → (runHistory d h).get k = some v) ∧
    (∀ pre rest name new c N, h = pre ++ (BackupMode.numbered, name, new) :: rest →
      (runHistory d pre).get name = some c →
      nextBackupNum (runHistory d pre).names name = some N →
      (∀ op ∈ rest, op.2.1 ≠ backupName name N) →
      (runHistory d pre).get (backupName name N) = none ∧
      (runHistory d h).get (backupName name N) = some c ∧
      (∀ k ∈ (runHistory d pre).names, ∀ m, isNumBackup name k = some m → m < N)) := by
  refine ⟨fun k v hk hne => runHistory_preserves_untargeted h d k v hk hne, ?_⟩
  rintro pre rest name new c N rfl hc hN hrest
  obtain ⟨h1, h2⟩ := runHistory_version_kept pre rest d .numbered name new c N hc rfl hN hrest
  exact ⟨h1, h2, nextBackupNum_greater _ name N hN⟩

/-- (H4c) a history of numbered-mode copies never loses any content at all: whatever was stored under `k` is still
stored, under a name that extends `k` (by backup suffixes), after the whole history (overflowing copies are refused
and change nothing). -/
theorem runHistory_numbered_never_loses (h : List (BackupMode × Name × List UInt8)) (d : Dir)
    (hall : ∀ op ∈ h, op.1 = BackupMode.numbered) (k : Name) (v : List UInt8) (hk : d.get k = some v) :
    ∃ k', k <+: k' ∧ (runHistory d h).get k' = some v := by
  induction h generalizing d k with
  | nil => exact ⟨k, List.prefix_refl k, hk⟩
  | cons op h ih =>
    have hop : op.1 = BackupMode.numbered := hall op List.mem_cons_self
    obtain ⟨k₁, hp₁, hk₁⟩ := copyOnce_keeps_version d op k v hk (by intro _; rw [hop]; rfl)
    obtain ⟨k₂, hp₂, hk₂⟩ := ih (copyOnce d op) (fun o ho => hall o (List.mem_cons_of_mem _ ho)) k₁ hk₁
    exact ⟨k₂, List.IsPrefix.trans hp₁ hp₂, hk₂⟩

/-! ## Kill safety -/

theorem runSteps_nobackup_take (d : Dir) (name : Name) (new : List UInt8) (i : Nat) (k : Name) (hk : k ≠ name) :
    (runSteps d (List.take i [.createTrunc name, .fill name new])).get k = d.get k := by
  rcases i with _ | _ | i <;> simp [runSteps, Dir.step, Dir.get_set, hk]

/-- (H5) every kill point of one overwrite: `l.take i` are the steps performed before the kill.
When the mode requires a backup the old content exists, at every kill point, under the original name or under the
(fresh) backup name; in every mode all other existing entries are untouched at every kill point; and running all
steps is `copyOnce`. -/
theorem kill_safe (d : Dir) (mode : BackupMode) (name old new : List UInt8) (l : List BStep)
    (hold : d.get name = some old) (hl : copySteps d mode name new = some l) (i : Nat) :
    (needsBackup mode true d.names name = true →
      ∃ N, nextBackupNum d.names name = some N ∧ d.get (backupName name N) = none ∧
        ((runSteps d (l.take i)).get name = some old ∨
         (runSteps d (l.take i)).get (backupName name N) = some old)) ∧
    (∀ k v, k ≠ name → d.get k = some v → (runSteps d (l.take i)).get k = some v) ∧
    (l.length ≤ i → runSteps d (l.take i) = copyOnce d (mode, name, new)) := by
  have hend : l.length ≤ i → runSteps d (l.take i) = copyOnce d (mode, name, new) := by
    intro hi; rw [List.take_of_length_le hi]; simp [copyOnce, hl]
  cases hb : needsBackup mode (d.get name).isSome d.names name with
  | false =>
    rw [copySteps_nobackup new hb] at hl
    cases hl
    refine ⟨?_, ?_, hend⟩
    · intro h; simp [hold, h] at hb
    · intro k v hk hv; rw [runSteps_nobackup_take d name new i k hk]; exact hv
  | true =>
    cases hN : nextBackupNum d.names name with
    | none => rw [copySteps_refused new hb hN] at hl; cases hl
    | some N =>
      rw [copySteps_backup new hb hN] at hl
      cases hl
      obtain ⟨h1, h2⟩ := runSteps_backup_take d name (backupName name N) old new hold (backupName_ne name N) i
      refine ⟨fun _ => ⟨N, rfl, backup_target_absent hN, h1⟩, ?_, hend⟩
      intro k v hk hv
      have hkb : k ≠ backupName name N := by
        intro e; rw [e, backup_target_absent hN] at hv; cases hv
      rw [h2 k hk hkb]; exact hv

/-! ## Consecutive numbering: the overwrite after the one that took backup N takes N+1 -/

theorem maxList_le (l : List Nat) (b : Nat) (h : ∀ m ∈ l, m ≤ b) : maxList l ≤ b := by
  induction l with
  | nil => simp [maxList]
  | cons x r ih =>
    simp only [maxList]
    have h1 := h x (List.mem_cons_self ..)
    have h2 := ih (fun m hm => h m (List.mem_cons_of_mem _ hm))
    omega

theorem isNumBackup_self (name : Name) : isNumBackup name name = none := by
  cases h : isNumBackup name name with
  | none => rfl
  | some n =>
    obtain ⟨ds, _, _, he, _⟩ := (isNumBackup_iff name name n).1 h
    have := congrArg List.length he
    simp at this

theorem nextBackupNum_after_overwrite (d : Dir) (name old new : List UInt8) (N : Nat)
    (hold : d.get name = some old) (hN : nextBackupNum d.names name = some N) (hlt : N + 1 < 2^64) :
    nextBackupNum (copyOnce d (.numbered, name, new)).names name = some (N + 1) := by
  obtain ⟨_, h2, _, h4, h5⟩ := copyOnce_numbered_keeps_old d name old new N hold hN
  have hN64 := (nextBackupNum_eq_some _ _ _ hN).2
  have hmax : maxList (backupNums (copyOnce d (.numbered, name, new)).names name) = N := by
    apply Nat.le_antisymm
    · apply maxList_le
      intro m hm
      obtain ⟨c, hc, hcm⟩ := List.mem_filterMap.1 hm
      by_cases e1 : c = name
      · subst e1; rw [isNumBackup_self] at hcm; cases hcm
      by_cases e2 : c = backupName name N
      · subst e2; rw [isNumBackup_backupName name N hN64] at hcm; cases hcm; exact Nat.le_refl _
      obtain ⟨v, hv⟩ := (Dir.mem_names_iff _ c).1 hc
      rw [h5 c e1 e2] at hv
      have := h4 c ((Dir.mem_names_iff d c).2 ⟨v, hv⟩) m hcm
      omega
    · apply le_maxList
      exact List.mem_filterMap.2 ⟨backupName name N, (Dir.mem_names_iff _ _).2 ⟨old, h2⟩,
        isNumBackup_backupName name N hN64⟩
  unfold nextBackupNum
  simp only [hmax, hlt, if_true]

end Xcp
