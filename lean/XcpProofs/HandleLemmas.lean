import XcpModel.Handle
/-! # Lemmas about the `CopyHandle` model: xattr association lists, and the shape of per-file call lists -/
namespace Xcp

/-! ## xattr lists -/

theorem xaGet_filter_ne (l : List (Name × Bytes)) (k k' : Name) (h : ¬ k = k') :
    xaGet (l.filter (fun kv => kv.1 ≠ k)) k' = xaGet l k' := by
  induction l with
  | nil => rfl
  | cons a r ih =>
    obtain ⟨a1, a2⟩ := a
    simp only [ne_eq, decide_not] at ih
    by_cases ha : a1 = k
    · subst ha
      simp [xaGet, h, ih]
    · simp [ha, xaGet, ih]

theorem xaGet_xaSet (l : List (Name × Bytes)) (k k' : Name) (v : Bytes) :
    xaGet (xaSet l k v) k' = if k = k' then some v else xaGet l k' := by
  unfold xaSet
  by_cases h : k = k'
  · simp [xaGet, h]
  · simp only [xaGet, h, if_false]
    exact xaGet_filter_ne l k k' h

theorem xaGet_append_single (l : List (Name × Bytes)) (a : Name × Bytes) (k : Name) :
    xaGet (l ++ [a]) k =
      match xaGet l k with
      | some v => some v
      | none => if a.1 = k then some a.2 else none := by
  induction l with
  | nil => obtain ⟨a1, a2⟩ := a; simp [xaGet]
  | cons b t iht =>
    obtain ⟨b1, b2⟩ := b
    by_cases hb : b1 = k <;> simp [xaGet, hb, iht]

theorem xaGet_foldl (sx : List (Name × Bytes)) (acc : List (Name × Bytes)) (k : Name) :
    xaGet (sx.foldl (fun acc kv => xaSet acc kv.1 kv.2) acc) k =
      match xaGet sx.reverse k with
      | some v => some v
      | none => xaGet acc k := by
  induction sx generalizing acc with
  | nil => simp [xaGet]
  | cons a r ih =>
    simp only [List.foldl_cons, List.reverse_cons]
    rw [ih, xaGet_append_single, xaGet_xaSet]
    by_cases ha : a.1 = k <;> cases xaGet r.reverse k <;> simp [ha]

/-! ## call lists `replicate nd .data ++ fins.map .fin` -/

/-- projection used by `monitorFile` -/
def finOf : FCall → Option FStep
  | .fin s => some s
  | _ => none

/-- `monitorFile` on a list that starts as it must, with the projection named -/
theorem monitorFile_cons (c : Cfg) (len n : Nat) (rest : List FCall) :
    monitorFile c len (.create :: .truncate n :: rest) =
      (decide (n = len)
      && decide ((rest.filter isClone).length ≤ 1)
      && (c.reflink != .never || (rest.filter isClone).isEmpty)
      && (match rest with
          | .clone ok :: r2 => !(ok && r2.any isData) && !(r2.any isClone)
          | _ => (rest.filter isClone).isEmpty)
      && (rest.dropWhile (fun x => !isFin x)).all isFin
      && (dedupX (rest.filterMap finOf) == dedupX (finaliseSteps c))) := rfl

theorem filter_isClone_fins (fins : List FStep) : (fins.map FCall.fin).filter isClone = [] := by
  induction fins with
  | nil => rfl
  | cons s r ih => simp [isClone, ih]

theorem filter_isClone_tail (nd : Nat) (fins : List FStep) :
    (List.replicate nd FCall.data ++ fins.map FCall.fin).filter isClone = [] := by
  induction nd with
  | zero => simpa using filter_isClone_fins fins
  | succ n ih => simp [List.replicate_succ, isClone, ih]

theorem any_isClone_tail (nd : Nat) (fins : List FStep) :
    (List.replicate nd FCall.data ++ fins.map FCall.fin).any isClone = false := by
  have h := filter_isClone_tail nd fins
  rw [List.filter_eq_nil_iff] at h
  rw [List.any_eq_false]
  intro x hx; simpa using h x hx

theorem any_isData_fins (fins : List FStep) : (fins.map FCall.fin).any isData = false := by
  induction fins with
  | nil => rfl
  | cons s r ih => simp [isData, ih]

theorem filter_isData_fins (fins : List FStep) : (fins.map FCall.fin).filter isData = [] := by
  induction fins with
  | nil => rfl
  | cons s r ih => simp [isData, ih]

theorem filter_isData_tail (nd : Nat) (fins : List FStep) :
    ((List.replicate nd FCall.data ++ fins.map FCall.fin).filter isData).length = nd := by
  induction nd with
  | zero => simp [filter_isData_fins]
  | succ n ih =>
    have : (List.replicate (n + 1) FCall.data ++ fins.map FCall.fin).filter isData
        = FCall.data :: (List.replicate n FCall.data ++ fins.map FCall.fin).filter isData := rfl
    rw [this, List.length_cons, ih]

theorem all_isFin_fins (fins : List FStep) : (fins.map FCall.fin).all isFin = true := by
  induction fins with
  | nil => rfl
  | cons s r ih => simp [isFin, ih]

theorem dropWhile_fins (fins : List FStep) :
    (fins.map FCall.fin).dropWhile (fun x => !isFin x) = fins.map FCall.fin := by
  cases fins with
  | nil => rfl
  | cons s r => rfl

theorem dropWhile_tail (nd : Nat) (fins : List FStep) :
    (List.replicate nd FCall.data ++ fins.map FCall.fin).dropWhile (fun x => !isFin x)
      = fins.map FCall.fin := by
  induction nd with
  | zero => simpa using dropWhile_fins fins
  | succ n ih => exact ih

theorem filterMap_fins (fins : List FStep) : (fins.map FCall.fin).filterMap finOf = fins := by
  induction fins with
  | nil => rfl
  | cons s r ih => simp [finOf, ih]

theorem filterMap_tail (nd : Nat) (fins : List FStep) :
    (List.replicate nd FCall.data ++ fins.map FCall.fin).filterMap finOf = fins := by
  induction nd with
  | zero => simpa using filterMap_fins fins
  | succ n ih => exact ih

/-! ## `monitorFile` on the two shapes a program can have -/

/-- no clone request at all -/
theorem monitor_noclone (c : Cfg) (len : Nat) (rest : List FCall)
    (h1 : rest.filter isClone = [])
    (h2 : (rest.dropWhile (fun x => !isFin x)).all isFin = true)
    (h3 : dedupX (rest.filterMap finOf) = dedupX (finaliseSteps c)) :
    monitorFile c len (.create :: .truncate len :: rest) = true := by
  rw [monitorFile_cons, h1, h2, h3]
  cases rest with
  | nil => simp
  | cons x r => cases x <;> first | (exfalso; simp [isClone] at h1; done) | simp

/-- one clone request, first -/
theorem monitor_clone (c : Cfg) (len : Nat) (b : Bool) (r2 : List FCall)
    (hne : c.reflink ≠ .never)
    (h1 : r2.filter isClone = [])
    (hd : b = true → r2.any isData = false)
    (h2 : (r2.dropWhile (fun x => !isFin x)).all isFin = true)
    (h3 : dedupX (r2.filterMap finOf) = dedupX (finaliseSteps c)) :
    monitorFile c len (.create :: .truncate len :: .clone b :: r2) = true := by
  have hany : r2.any isClone = false := by
    rw [List.filter_eq_nil_iff] at h1
    rw [List.any_eq_false]
    intro x hx; simpa using h1 x hx
  have hdd : (b && r2.any isData) = false := by
    cases b
    · rfl
    · simp [hd rfl]
  have hf : (FCall.clone b :: r2).filter isClone = [FCall.clone b] := by
    simp [List.filter_cons, isClone, h1]
  have hdw : (FCall.clone b :: r2).dropWhile (fun x => !isFin x) = r2.dropWhile (fun x => !isFin x) := rfl
  have hfm : (FCall.clone b :: r2).filterMap finOf = r2.filterMap finOf := rfl
  rw [monitorFile_cons, hf, hdw, hfm, h2, h3]
  simp [hany, hdd, hne]

/-- `monitorFile` accepts `create, truncate len, [clone b]?, data × nd, finalise…` provided the clone is
absent under `never` and a successful clone is followed by no data call. -/
theorem monitor_shape (c : Cfg) (len : Nat) (cl : Option Bool) (nd : Nat)
    (hnever : c.reflink = .never → cl = none)
    (hok : cl = some true → nd = 0) :
    monitorFile c len
      (.create :: .truncate len ::
        ((match cl with | none => [] | some b => [FCall.clone b]) ++
          List.replicate nd FCall.data ++ (finaliseSteps c).map FCall.fin)) = true := by
  cases cl with
  | none =>
    simp only [List.nil_append]
    apply monitor_noclone
    · exact filter_isClone_tail _ _
    · rw [dropWhile_tail]; exact all_isFin_fins _
    · rw [filterMap_tail]
  | some b =>
    simp only [List.cons_append, List.nil_append]
    apply monitor_clone
    · intro hn; cases hnever hn
    · exact filter_isClone_tail _ _
    · intro hb
      subst hb
      rw [hok rfl]
      simpa using any_isData_fins _
    · rw [dropWhile_tail]; exact all_isFin_fins _
    · rw [filterMap_tail]

end Xcp
