import XcpProofs.GiTreeLemmas
/-! # Lemmas for the tree-level `--dereference` theorem

Path resolution: `stat` of an absolute path yields a canonical, link-free path whose `lstat` is the node itself
(with the exact fuel bound: a file may sit 256 names deep, a directory 255); the *sourced tree* `SNode` (the tree
the dereferencing walk sees, every node carrying the canonical path it is read from), `derefS` (its computation
from `lstat`/`stat` of the spelled paths), the operation list `opsOfS`, one-step unfoldings of `walkEntry` with
`dereference = true`, and the execution theorem `exec_opsOfS`. -/
namespace Xcp

/-! ## Resolution of absolute name-only paths -/

theorem resolve_plainPath (fs : Fs) (ns : List Name) (fl : Bool) :
    fs.resolve (plainPath ns) fl = walkPath fs.root fl resolveFuel [] (ns.map .name) := by
  simp only [Fs.resolve, plainPath, Bool.not_true, Bool.and_false, Bool.false_eq_true, if_false, if_true,
    Bool.or_false]
  split <;> simp_all

theorem stat_some {fs : Fs} {p : RPath} {c : List Name} {n : Node} (h : fs.stat p = some (c, n)) :
    fs.resolve p true = .found c ∧ fs.root.getAt c = some n := by
  unfold Fs.stat at h
  split at h
  · rename_i c0 hr
    cases hg : fs.root.getAt c0 with
    | none => simp [hg] at h
    | some y =>
      simp only [hg, Option.map_some, Option.some.injEq, Prod.mk.injEq] at h
      obtain ⟨h1, h2⟩ := h
      subst h1; subst h2
      exact ⟨hr, hg⟩
  · cases h

theorem lstat_some {fs : Fs} {p : RPath} {c : List Name} {n : Node} (h : fs.lstat p = some (c, n)) :
    fs.resolve p false = .found c ∧ fs.root.getAt c = some n := by
  unfold Fs.lstat at h
  split at h
  · rename_i c0 hr
    cases hg : fs.root.getAt c0 with
    | none => simp [hg] at h
    | some y =>
      simp only [hg, Option.map_some, Option.some.injEq, Prod.mk.injEq] at h
      obtain ⟨h1, h2⟩ := h
      subst h1; subst h2
      exact ⟨hr, hg⟩
  · cases h

/-- the fuel a successful walk has used bounds the depth of what it found: one unit per name of the canonical
path, and one more to stop at a directory -/
theorem walkPath_found_bound (root : Node) (fl : Bool) :
    ∀ (fuel : Nat) (cur : List Name) (cs : List Comp) (c : List Name) (x : Node),
      walkPath root fl fuel cur cs = .found c → root.getAt c = some x →
      c.length + (if x.isDir then 1 else 0) ≤ cur.length + fuel := by
  intro fuel
  induction fuel with
  | zero => intro cur cs c x h; simp [walkPath] at h
  | succ f ih =>
    intro cur cs c x h hx
    have hδ : (if x.isDir then 1 else 0) ≤ 1 := by split <;> omega
    match cs with
    | [] =>
      simp only [walkPath, Res.found.injEq] at h
      subst h
      omega
    | .cur :: r =>
      simp only [walkPath] at h
      have := ih cur r c x h hx
      omega
    | .parent :: r =>
      simp only [walkPath] at h
      have := ih _ r c x h hx
      have hl : cur.dropLast.length ≤ cur.length := by simp
      omega
    | .name n :: r =>
      simp only [walkPath] at h
      split at h
      · split at h <;> cases h
      · rename_i t hnode
        split at h
        · simp only [Res.found.injEq] at h
          subst h
          rw [hnode] at hx
          injection hx with hx
          subst hx
          simp [Node.isDir]
        · have := ih _ _ c x h hx
          have hl : (if t.abs then [] else cur).length ≤ cur.length := by split <;> simp
          omega
      · rename_i es hnode
        have := ih _ r c x h hx
        simp only [List.length_append, List.length_cons, List.length_nil] at this
        omega
      · rename_i y hnl hnd hnode
        split at h
        · simp only [Res.found.injEq] at h
          subst h
          rw [hnode] at hx
          injection hx with hx
          subst hx
          have : y.isDir = false := by
            cases y with
            | dir es => exact absurd rfl (hnd es)
            | _ => rfl
          simp [this]
        · cases h

/-- a walk that ends at something which is not a symbolic link ends there too when the last link is followed -/
theorem walkPath_follow_of_found (root : Node) (fl : Bool) :
    ∀ (fuel : Nat) (cur : List Name) (cs : List Comp) (c : List Name) (x : Node),
      walkPath root fl fuel cur cs = .found c → root.getAt c = some x → x.isLink = false →
      walkPath root true fuel cur cs = .found c := by
  intro fuel
  induction fuel with
  | zero => intro cur cs c x h; simp [walkPath] at h
  | succ f ih =>
    intro cur cs c x h hx hnl
    match cs with
    | [] => simpa [walkPath] using h
    | .cur :: r =>
      simp only [walkPath] at h ⊢
      exact ih cur r c x h hx hnl
    | .parent :: r =>
      simp only [walkPath] at h ⊢
      exact ih _ r c x h hx hnl
    | .name n :: r =>
      simp only [walkPath] at h ⊢
      cases hnode : root.getAt (cur ++ [n]) with
      | none => simpa [hnode] using h
      | some y =>
        simp only [hnode] at h ⊢
        cases y with
        | link t =>
          simp only [Bool.not_true, Bool.and_false, Bool.false_eq_true, if_false] at h ⊢
          split at h
          · simp only [Res.found.injEq] at h
            subst h
            rw [hnode] at hx
            injection hx with hx
            subst hx
            cases hnl
          · exact ih _ _ c x h hx hnl
        | dir es => exact ih _ r c x h hx hnl
        | file k => exact h
        | special k d => exact h

/-- `walkPath_plain_found` with the exact fuel: the names, plus one unit to stop at a directory -/
theorem walkPath_plain_found_le (root : Node) (fl : Bool) :
    ∀ (ns : List Name) (fuel : Nat) (cur : List Name) (x : Node), 0 < fuel →
      ns.length + (if x.isDir then 1 else 0) ≤ fuel →
      root.getAt (cur ++ ns) = some x →
      (∀ p, p <+: ns → p ≠ [] → (p ≠ ns ∨ fl = true) → ∀ tg, root.getAt (cur ++ p) ≠ some (.link tg)) →
      walkPath root fl fuel cur (ns.map .name) = .found (cur ++ ns) := by
  intro ns
  induction ns with
  | nil =>
    intro fuel cur x hpos _ _ _
    cases fuel with
    | zero => cases hpos
    | succ f => simp [walkPath]
  | cons n r ih =>
    intro fuel cur x hpos hf hx h
    cases fuel with
    | zero => cases hpos
    | succ f =>
      have hx' : root.getAt ((cur ++ [n]) ++ r) = some x := by simpa using hx
      have hrec : ∀ p, p <+: r → p ≠ [] → (p ≠ r ∨ fl = true) →
          ∀ tg, root.getAt ((cur ++ [n]) ++ p) ≠ some (.link tg) := by
        intro p hp hne hor tg
        have := h (n :: p) (List.cons_prefix_cons.2 ⟨rfl, hp⟩) (by simp)
          (hor.elim (fun h => .inl (by simpa using h)) .inr) tg
        simpa using this
      simp only [List.map_cons, walkPath]
      have hxb := hx'
      rw [Node.getAt_append] at hxb
      cases hg : root.getAt (cur ++ [n]) with
      | none => simp [hg] at hxb
      | some nd =>
        simp only [hg, Option.bind_some] at hxb
        cases nd with
        | file k =>
          cases r with
          | nil => simp
          | cons m r' => simp [Node.getAt] at hxb
        | special k d =>
          cases r with
          | nil => simp
          | cons m r' => simp [Node.getAt] at hxb
        | dir es =>
          have hf' : r.length + (if x.isDir then 1 else 0) ≤ f := by
            simp only [List.length_cons] at hf; omega
          have hpos' : 0 < f := by
            cases r with
            | nil =>
              simp only [getAt_nil, Option.some.injEq] at hxb
              subst hxb
              simp [Node.isDir] at hf'
              omega
            | cons m r' => simp only [List.length_cons] at hf'; omega
          have := ih f (cur ++ [n]) x hpos' hf' hx' hrec
          simpa using this
        | link t =>
          cases r with
          | nil =>
            cases fl with
            | false => simp
            | true => exact absurd hg (h [n] (List.prefix_refl _) (by simp) (.inr rfl) t)
          | cons m r' =>
            exact absurd hg (h [n] (List.cons_prefix_cons.2 ⟨rfl, List.nil_prefix⟩) (by simp) (.inl (by simp)) t)

theorem resolve_plain_found_le (fs : Fs) (ns : List Name) (fl : Bool) (x : Node)
    (hlen : ns.length + (if x.isDir then 1 else 0) ≤ 256)
    (hx : fs.root.getAt ns = some x)
    (h : ∀ p, p <+: ns → (p ≠ ns ∨ fl = true) → ∀ tg, fs.root.getAt p ≠ some (.link tg)) :
    fs.resolve (plainPath ns) fl = .found ns := by
  have hw := walkPath_plain_found_le fs.root fl ns resolveFuel [] x (by decide) hlen (by simpa using hx) (by
    intro p hp _ hor tg
    simpa using h p hp hor tg)
  simp only [List.nil_append] at hw
  rw [resolve_plainPath, hw]

/-- `stat` of a plain path at which something is, with the exact depth bound -/
theorem stat_plain_le (fs : Fs) (ns : List Name) (x : Node) (hlen : ns.length + (if x.isDir then 1 else 0) ≤ 256)
    (hx : fs.root.getAt ns = some x) (hl : NoLinkUpto fs.root ns) : fs.stat (plainPath ns) = some (ns, x) := by
  have hr := resolve_plain_found_le fs ns true x hlen hx (fun p hp _ tg => hl p hp tg)
  simp [Fs.stat, hr, hx]

theorem lstat_plain_le (fs : Fs) (ns : List Name) (x : Node) (hlen : ns.length + (if x.isDir then 1 else 0) ≤ 256)
    (hx : fs.root.getAt ns = some x) (hl : NoLinkAbove fs.root ns) : fs.lstat (plainPath ns) = some (ns, x) := by
  have hr := resolve_plain_found_le fs ns false x hlen hx
    (fun p hp hor tg => hl p hp (hor.elim id (fun h => by cases h)) tg)
  simp [Fs.lstat, hr, hx]

/-- what `stat` of an absolute name-only path finds: not a link; `canonicalize` gives the plain path of the place
found, and `lstat`/`stat` of that canonical path give back the very node -/
theorem stat_canon (fs : Fs) (hroot : fs.root.isLink = false) (ns c : List Name) (n : Node)
    (h : fs.stat (plainPath ns) = some (c, n)) :
    n.isLink = false ∧ fs.root.getAt c = some n ∧ c.length + (if n.isDir then 1 else 0) ≤ 256 ∧
    fs.canonicalize (plainPath ns) = .ok (plainPath c) ∧
    fs.lstat (plainPath c) = some (c, n) ∧ fs.stat (plainPath c) = some (c, n) := by
  obtain ⟨hr, hg⟩ := stat_some h
  have hw := hr
  rw [resolve_plainPath] at hw
  obtain ⟨n', hg', hnl⟩ := walkPath_follow_nonlink fs.root hroot _ _ _ c (.inl rfl) hw
  rw [hg] at hg'
  injection hg' with hg'
  subst hg'
  have hb := walkPath_found_bound fs.root true _ _ _ c n hw hg
  simp only [List.length_nil, Nat.zero_add] at hb
  have hb' : c.length + (if n.isDir then 1 else 0) ≤ 256 := hb
  refine ⟨hnl, hg, hb', ?_, ?_, ?_⟩
  · unfold Fs.canonicalize
    rw [hr]
    rfl
  · exact lstat_plain_le fs c n hb' hg (noLinkAbove_of_getAt hg)
  · exact stat_plain_le fs c n hb' hg (noLinkUpto_of_getAt hg hnl)

/-- an entry that is not a symbolic link: `stat` sees what `lstat` sees -/
theorem stat_of_lstat_nonlink (fs : Fs) (ns c : List Name) (n : Node)
    (h : fs.lstat (plainPath ns) = some (c, n)) (hnl : n.isLink = false) :
    fs.stat (plainPath ns) = some (c, n) := by
  obtain ⟨hr, hg⟩ := lstat_some h
  rw [resolve_plainPath] at hr
  have hw := walkPath_follow_of_found fs.root false _ _ _ c n hr hg hnl
  simp [Fs.stat, resolve_plainPath, hw, hg]

/-! ## Splitting a walk at a component boundary -/

theorem walkPath_found_pos {root : Node} {fl : Bool} {fuel : Nat} {cur : List Name} {cs : List Comp}
    {c : List Name} (h : walkPath root fl fuel cur cs = .found c) : 0 < fuel := by
  cases fuel with
  | zero => simp [walkPath] at h
  | succ f => omega

/-- more fuel does not change a successful walk -/
theorem walkPath_mono (root : Node) (fl : Bool) :
    ∀ (f1 : Nat) (cur : List Name) (cs : List Comp) (c : List Name) (f2 : Nat),
      walkPath root fl f1 cur cs = .found c → f1 ≤ f2 → walkPath root fl f2 cur cs = .found c := by
  intro f1
  induction f1 with
  | zero => intro cur cs c f2 h; simp [walkPath] at h
  | succ f ih =>
    intro cur cs c f2 h hle
    cases f2 with
    | zero => omega
    | succ g =>
      have hle' : f ≤ g := by omega
      match cs with
      | [] => simpa [walkPath] using h
      | .cur :: r =>
        simp only [walkPath] at h ⊢
        exact ih _ _ _ _ h hle'
      | .parent :: r =>
        simp only [walkPath] at h ⊢
        exact ih _ _ _ _ h hle'
      | .name n :: r =>
        simp only [walkPath] at h ⊢
        cases hnode : root.getAt (cur ++ [n]) with
        | none => simpa [hnode] using h
        | some y =>
          simp only [hnode] at h ⊢
          cases y with
          | link t =>
            simp only at h ⊢
            cases hb : (r.isEmpty && !fl) with
            | true => simpa [hb] using h
            | false =>
              simp only [hb, Bool.false_eq_true, if_false] at h ⊢
              exact ih _ _ _ _ h hle'
          | dir es => exact ih _ _ _ _ h hle'
          | file k => exact h
          | special k d => exact h

/-- A successful walk over `cs1 ++ cs2` (`cs2` not empty) passes through the place `c1` that `cs1` resolves to with all
links followed, and goes on from there over `cs2` with the fuel that is left. -/
theorem walkPath_split (root : Node) (fl : Bool) (cs2 : List Comp) (hne : cs2 ≠ []) :
    ∀ (fuel : Nat) (cur : List Name) (cs1 : List Comp) (c : List Name),
      walkPath root fl fuel cur (cs1 ++ cs2) = .found c →
      ∃ c1 f', walkPath root true fuel cur cs1 = .found c1 ∧ walkPath root fl f' c1 cs2 = .found c ∧
        f' + c1.length ≤ fuel + cur.length := by
  intro fuel
  induction fuel with
  | zero => intro cur cs1 c h; simp [walkPath] at h
  | succ f ih =>
    intro cur cs1 c h
    match cs1 with
    | [] =>
      exact ⟨cur, f + 1, by simp [walkPath], by simpa using h, Nat.le_refl _⟩
    | .cur :: r =>
      simp only [List.cons_append, walkPath] at h ⊢
      obtain ⟨c1, f', h1, h2, h3⟩ := ih cur r c h
      exact ⟨c1, f', h1, h2, by omega⟩
    | .parent :: r =>
      simp only [List.cons_append, walkPath] at h ⊢
      obtain ⟨c1, f', h1, h2, h3⟩ := ih _ r c h
      have hl : cur.dropLast.length ≤ cur.length := by simp
      exact ⟨c1, f', h1, h2, by omega⟩
    | .name n :: r =>
      have hre : (r ++ cs2).isEmpty = false := by
        cases r with
        | nil =>
          cases cs2 with
          | nil => exact absurd rfl hne
          | cons a b => rfl
        | cons a b => rfl
      simp only [List.cons_append, walkPath] at h ⊢
      cases hnode : root.getAt (cur ++ [n]) with
      | none => simp [hnode, hre] at h
      | some y =>
        simp only [hnode] at h ⊢
        cases y with
        | link t =>
          simp only [hre, Bool.false_and, Bool.false_eq_true, if_false, Bool.not_true, Bool.and_false] at h ⊢
          rw [← List.append_assoc] at h
          obtain ⟨c1, f', h1, h2, h3⟩ := ih _ _ c h
          have hl : (if t.abs then [] else cur).length ≤ cur.length := by split <;> simp
          exact ⟨c1, f', h1, h2, by omega⟩
        | dir es =>
          obtain ⟨c1, f', h1, h2, h3⟩ := ih _ r c h
          simp only [List.length_append, List.length_cons, List.length_nil] at h3
          exact ⟨c1, f', h1, h2, by omega⟩
        | file k => simp [hre] at h
        | special k d => simp [hre] at h

/-- the last step of a walk that does not follow a final link: one name below where it stands -/
theorem walkPath_last_nofollow (root : Node) (fuel : Nat) (cur : List Name) (m : Name) (c : List Name)
    (h : walkPath root false fuel cur [.name m] = .found c) : c = cur ++ [m] := by
  cases fuel with
  | zero => simp [walkPath] at h
  | succ f =>
    simp only [walkPath] at h
    cases hnode : root.getAt (cur ++ [m]) with
    | none => simp [hnode] at h
    | some y =>
      simp only [hnode] at h
      cases y with
      | link t => simpa using h.symm
      | dir es =>
        cases f with
        | zero => simp [walkPath] at h
        | succ g => simpa [walkPath] using h.symm
      | file k => simpa using h.symm
      | special k d => simpa using h.symm

/-- walking names that designate directories costs one unit each -/
theorem walkPath_through_dirs (root : Node) (fl : Bool) (rest : List Comp) :
    ∀ (ns : List Name) (fuel : Nat) (cur : List Name),
      (∀ p, p <+: ns → p ≠ [] → ∃ es, root.getAt (cur ++ p) = some (.dir es)) → ns.length ≤ fuel →
      walkPath root fl fuel cur (ns.map .name ++ rest) = walkPath root fl (fuel - ns.length) (cur ++ ns) rest := by
  intro ns
  induction ns with
  | nil => intro fuel cur _ _; simp
  | cons n r ih =>
    intro fuel cur hd hf
    cases fuel with
    | zero => simp at hf
    | succ f =>
      obtain ⟨es, hes⟩ := hd [n] (List.cons_prefix_cons.2 ⟨rfl, List.nil_prefix⟩) (by simp)
      simp only [List.map_cons, List.cons_append, walkPath, hes]
      have := ih f (cur ++ [n]) (by
        intro p hp hpne
        have := hd (n :: p) (List.cons_prefix_cons.2 ⟨rfl, hp⟩) (by simp)
        simpa using this) (by simp only [List.length_cons] at hf; omega)
      rw [this]
      simp [List.length_cons]

theorem getAt_prefix_dir {root : Node} {p s : List Name} {x : Node} (h : root.getAt (p ++ s) = some x)
    (hs : s ≠ []) : ∃ es, root.getAt p = some (.dir es) := by
  rw [Node.getAt_append] at h
  cases hp : root.getAt p with
  | none => simp [hp] at h
  | some y =>
    simp only [hp, Option.bind_some] at h
    cases s with
    | nil => exact absurd rfl hs
    | cons a s' =>
      obtain ⟨es, _, hy, _, _⟩ := Node.getAt_cons_some h
      exact ⟨es, by rw [hy]⟩

/-- the entry `m` seen through the spelled path `path/m` is the entry `m` of the directory `path` resolves to -/
theorem lstat_child (fs : Fs) (path cp lc : List Name) (m : Name) (es : Entries) (x : Node)
    (hs : fs.stat (plainPath path) = some (cp, .dir es))
    (hl : fs.lstat (plainPath (path ++ [m])) = some (lc, x)) :
    lc = cp ++ [m] ∧ entGet es m = some x := by
  obtain ⟨hr, hg⟩ := stat_some hs
  obtain ⟨hr2, hg2⟩ := lstat_some hl
  rw [resolve_plainPath] at hr hr2
  rw [List.map_append] at hr2
  obtain ⟨c1, f', h1, h2, _⟩ := walkPath_split fs.root false [.name m] (by simp) _ _ _ _ hr2
  rw [hr] at h1
  injection h1 with h1
  subst h1
  have hlc := walkPath_last_nofollow fs.root f' cp m lc h2
  subst hlc
  refine ⟨rfl, ?_⟩
  rw [Node.getAt_append, hg] at hg2
  simpa [getAt_dir_cons] using hg2

/-- a symbolic link reached through a spelled path leads where the link at its canonical place leads -/
theorem stat_at_link_place (fs : Fs) (hroot : fs.root.isLink = false) (path loc cp : List Name) (t : RPath)
    (node : Node)
    (hl : fs.lstat (plainPath path) = some (loc, .link t))
    (hs : fs.stat (plainPath path) = some (cp, node)) :
    fs.stat (plainPath loc) = some (cp, node) := by
  obtain ⟨hr, hg⟩ := stat_some hs
  obtain ⟨hr2, hg2⟩ := lstat_some hl
  rw [resolve_plainPath] at hr hr2
  rcases List.eq_nil_or_concat path with h0 | ⟨pre, last, h0⟩
  · subst h0
    simp only [List.map_nil, resolveFuel, walkPath, Res.found.injEq] at hr2
    subst hr2
    simp only [getAt_nil, Option.some.injEq] at hg2
    rw [hg2] at hroot
    cases hroot
  · simp only [List.concat_eq_append] at h0
    subst h0
    rw [List.map_append] at hr hr2
    obtain ⟨c1, f1, a1, a2, _⟩ := walkPath_split fs.root false [.name last] (by simp) _ _ _ _ hr2
    obtain ⟨c1', f2, b1, b2, b3⟩ := walkPath_split fs.root true [.name last] (by simp) _ _ _ _ hr
    rw [a1] at b1
    injection b1 with b1
    subst b1
    have hloc := walkPath_last_nofollow fs.root f1 c1 last loc a2
    subst hloc
    -- the canonical walk reaches `c1` for `c1.length` units of fuel, then does the same last step
    simp only [List.length_nil, Nat.add_zero] at b3
    have hthrough := walkPath_through_dirs fs.root true [.name last] c1 resolveFuel [] (by
      intro p hp hpne
      obtain ⟨s, hs'⟩ := hp
      have : fs.root.getAt (p ++ (s ++ [last])) = some (.link t) := by
        rw [← List.append_assoc, hs']; exact hg2
      simpa using getAt_prefix_dir this (by simp)) (by omega)
    simp only [List.nil_append] at hthrough
    have hw : walkPath fs.root true resolveFuel [] ((c1 ++ [last]).map .name) = .found cp := by
      rw [List.map_append]
      simp only [List.map_cons, List.map_nil]
      rw [hthrough]
      exact walkPath_mono fs.root true f2 c1 _ cp _ b2 (by omega)
    unfold Fs.stat
    rw [resolve_plainPath, hw]
    simp [hg]

/-! ## The sourced tree -/

/-- The tree a dereferencing walk sees: regular files, special files and directories only, every node with the
canonical (link-free) path of the object it stands for — for an entry that is not a symbolic link its own place,
for a symbolic link the place its chain of links ends at. -/
inductive SNode
  | file (src : List Name) (content : Nat)
  | special (src : List Name) (kind : FileKind) (rdev : Nat)
  | dir (src : List Name) (entries : List (Name × SNode))
deriving Repr

mutual
/-- forget where the nodes come from: the tree that is to appear at the destination -/
def SNode.erase : SNode → Node
  | .file _ k => .file k
  | .special _ k d => .special k d
  | .dir _ es => .dir (eraseL es)
def eraseL : List (Name × SNode) → List (Name × Node)
  | [] => []
  | (m, ch) :: r => (m, ch.erase) :: eraseL r
end

mutual
/-- the non-directory nodes with the canonical paths they are read from -/
def SNode.leaves : SNode → List (List Name × Node)
  | .file cp k => [(cp, .file k)]
  | .special cp k d => [(cp, .special k d)]
  | .dir _ es => leavesL es
def leavesL : List (Name × SNode) → List (List Name × Node)
  | [] => []
  | (_, ch) :: r => ch.leaves ++ leavesL r
end

mutual
/-- the canonical paths of the directories the walk lists -/
def SNode.dirs : SNode → List (List Name)
  | .file _ _ => []
  | .special _ _ _ => []
  | .dir cp es => cp :: dirsL es
def dirsL : List (Name × SNode) → List (List Name)
  | [] => []
  | (_, ch) :: r => ch.dirs ++ dirsL r
end

mutual
/-- the operations for a sourced tree to be placed at the plain target path `tn`: as `opsOf` of the erased tree,
the copy and special operations reading from the canonical paths -/
def opsOfS : SNode → List Name → List Op
  | .file cp _, tn => [.copy (plainPath cp) (plainPath tn)]
  | .special cp _ _, tn => [.special (plainPath cp) (plainPath tn)]
  | .dir _ es, tn => .mkdir (plainPath tn) :: opsOfSL es tn
def opsOfSL : List (Name × SNode) → List Name → List Op
  | [], _ => []
  | (m, ch) :: r, tn => opsOfS ch (tn ++ [m]) ++ opsOfSL r tn
end

theorem eraseL_names : ∀ (es : List (Name × SNode)), (eraseL es).map (·.1) = es.map (·.1)
  | [] => by simp [eraseL]
  | (m, ch) :: r => by simp [eraseL, eraseL_names r]

theorem eraseL_mem : ∀ (es : List (Name × SNode)) (m : Name) (ch : SNode), (m, ch) ∈ es →
    (m, ch.erase) ∈ eraseL es
  | [], _, _, h => by cases h
  | (k, x) :: r, m, ch, h => by
    simp only [eraseL]
    cases h with
    | head => exact List.mem_cons_self
    | tail _ h' => exact List.mem_cons_of_mem _ (eraseL_mem r m ch h')

theorem mem_eraseL : ∀ (es : List (Name × SNode)) (e : Name × Node), e ∈ eraseL es →
    ∃ ch, (e.1, ch) ∈ es ∧ e.2 = ch.erase
  | [], _, h => by simp [eraseL] at h
  | (k, x) :: r, e, h => by
    simp only [eraseL] at h
    cases h with
    | head => exact ⟨x, List.mem_cons_self, rfl⟩
    | tail _ h' =>
      obtain ⟨ch, h1, h2⟩ := mem_eraseL r e h'
      exact ⟨ch, List.mem_cons_of_mem _ h1, h2⟩

theorem leavesL_mem : ∀ (es : List (Name × SNode)) (m : Name) (ch : SNode), (m, ch) ∈ es →
    ∀ l ∈ ch.leaves, l ∈ leavesL es
  | [], _, _, h => by cases h
  | (k, x) :: r, m, ch, h => by
    intro l hl
    simp only [leavesL]
    cases h with
    | head => exact List.mem_append_left _ hl
    | tail _ h' => exact List.mem_append_right _ (leavesL_mem r m ch h' l hl)

theorem dirsL_mem : ∀ (es : List (Name × SNode)) (m : Name) (ch : SNode), (m, ch) ∈ es →
    ∀ l ∈ ch.dirs, l ∈ dirsL es
  | [], _, _, h => by cases h
  | (k, x) :: r, m, ch, h => by
    intro l hl
    simp only [dirsL]
    cases h with
    | head => exact List.mem_append_left _ hl
    | tail _ h' => exact List.mem_append_right _ (dirsL_mem r m ch h' l hl)

/-- the erased tree holds no symbolic link, at any depth -/
theorem erase_getAt_not_link : ∀ (q : List Name) (s : SNode) (x : Node), s.erase.getAt q = some x →
    x.isLink = false := by
  intro q
  induction q with
  | nil =>
    intro s x h
    simp only [getAt_nil, Option.some.injEq] at h
    subst h
    cases s <;> simp [SNode.erase, Node.isLink]
  | cons m r ih =>
    intro s x h
    obtain ⟨es, c, he, hg, hc⟩ := Node.getAt_cons_some h
    cases s with
    | file _ _ => simp [SNode.erase] at he
    | special _ _ _ => simp [SNode.erase] at he
    | dir cp ss =>
      simp only [SNode.erase, Node.dir.injEq] at he
      subst he
      obtain ⟨ch, _, h2⟩ := mem_eraseL ss (m, c) (entGet_mem_gi hg)
      simp only at h2
      subst h2
      exact ih ch x hc

/-- a copyable tree lists no name twice, at any depth -/
theorem copyable_WF : ∀ (d : Nat) (n : Node), n.Copyable d → n.WF := by
  have key : ∀ (q : List Name) (d : Nat) (n : Node) (es : Entries), n.Copyable d → n.getAt q = some (.dir es) →
      (es.map (·.1)).Nodup := by
    intro q
    induction q with
    | nil =>
      intro d n es hc h
      simp only [getAt_nil, Option.some.injEq] at h
      subst h
      obtain ⟨_, _, hnd, _⟩ := copyable_dir hc
      exact hnd
    | cons a r ih =>
      intro d n es hc h
      obtain ⟨es0, c0, he0, hg0, hc0⟩ := Node.getAt_cons_some h
      subst he0
      obtain ⟨d', _, _, hch0⟩ := copyable_dir hc
      exact ih d' c0 es (hch0 _ (entGet_mem_gi hg0)) hc0
  intro d n hc q es hq
  exact key q d n es hc hq

/-! ## Computing the sourced tree -/

/-- all results, or nothing -/
def collect {α β : Type} (f : α → Option β) : List α → Option (List β)
  | [] => some []
  | a :: r =>
    match f a, collect f r with
    | some b, some bs => some (b :: bs)
    | _, _ => none

theorem collect_cons_some {α β : Type} {f : α → Option β} {a : α} {r : List α} {l : List β}
    (h : collect f (a :: r) = some l) : ∃ b bs, f a = some b ∧ collect f r = some bs ∧ l = b :: bs := by
  simp only [collect] at h
  split at h
  · rename_i b bs h1 h2
    injection h with h
    exact ⟨b, bs, h1, h2, h.symm⟩
  · cases h

theorem collect_none {α β : Type} {f : α → Option β} : ∀ {l : List α}, collect f l = none → ∃ a ∈ l, f a = none
  | [], h => by simp [collect] at h
  | a :: r, h => by
    cases hfa : f a with
    | none => exact ⟨a, List.mem_cons_self, hfa⟩
    | some b =>
      cases hr : collect f r with
      | none =>
        obtain ⟨x, hx, hfx⟩ := collect_none hr
        exact ⟨x, List.mem_cons_of_mem _ hx, hfx⟩
      | some bs => simp [collect, hfa, hr] at h

def okSpecial (k : FileKind) : Bool :=
  match k with
  | .socket => true | .chr => true | .fifo => true | _ => false

theorem okSpecial_iff (k : FileKind) : okSpecial k = true ↔ (k = .socket ∨ k = .chr ∨ k = .fifo) := by
  cases k <;> simp [okSpecial]

/-- The tree seen from the absolute path spelled by the names `path` when every symbolic link is followed
(what `stat` reports there, and recursively at `path/m` for every entry `m` of a directory), with the canonical
path of every node.  `none`: the path does not resolve (missing, a dangling link, a chain of links that exhausts
the resolution fuel), something below it does not, a node is of a kind xcp does not copy (block device, unknown),
a symbolic link leads to a directory that is being listed already (`anc`: walkdir's loop check, only made for
links), or the tree is deeper than the fuel. -/
def derefS (fs : Fs) : (fuel : Nat) → (path : List Name) → (anc : List (List Name)) → Option SNode
  | 0, _, _ => none
  | f+1, path, anc =>
    match fs.lstat (plainPath path), fs.stat (plainPath path) with
    | some (_, lnode), some (cp, node) =>
      (match node with
      | .file k => some (.file cp k)
      | .special k d => if okSpecial k then some (.special cp k d) else none
      | .link _ => none
      | .dir es =>
        if lnode.isLink && anc.contains cp then none
        else (collect (fun m => (derefS fs f (path ++ [m]) (cp :: anc)).map fun x => (m, x)) (es.map (·.1))).map
          (SNode.dir cp))
    | _, _ => none

theorem derefS_children (fs : Fs) (f : Nat) (path : List Name) (anc : List (List Name)) :
    ∀ (names : List Name) (ss : List (Name × SNode)),
      collect (fun m => (derefS fs f (path ++ [m]) anc).map fun x => (m, x)) names = some ss →
      ss.map (·.1) = names ∧ ∀ e ∈ ss, derefS fs f (path ++ [e.1]) anc = some e.2 := by
  intro names
  induction names with
  | nil =>
    intro ss h
    simp only [collect, Option.some.injEq] at h
    subst h
    exact ⟨rfl, fun e he => by cases he⟩
  | cons a r ih =>
    intro ss h
    obtain ⟨b, bs, h1, h2, h3⟩ := collect_cons_some h
    subst h3
    obtain ⟨i1, i2⟩ := ih bs h2
    cases hd : derefS fs f (path ++ [a]) anc with
    | none => simp [hd] at h1
    | some x =>
      simp only [hd, Option.map_some, Option.some.injEq] at h1
      subst h1
      refine ⟨by simp [i1], ?_⟩
      intro e he
      cases he with
      | head => exact hd
      | tail _ he' => exact i2 e he'

/-- one step of `derefS` -/
theorem derefS_succ_some {fs : Fs} {f : Nat} {path : List Name} {anc : List (List Name)} {s : SNode}
    (h : derefS fs (f + 1) path anc = some s) :
    ∃ lcp lnode cp node, fs.lstat (plainPath path) = some (lcp, lnode) ∧
      fs.stat (plainPath path) = some (cp, node) ∧
      ((∃ k, node = .file k ∧ s = .file cp k) ∨
       (∃ k d, node = .special k d ∧ okSpecial k = true ∧ s = .special cp k d) ∨
       (∃ es ss, node = .dir es ∧ (lnode.isLink && anc.contains cp) = false ∧
          collect (fun m => (derefS fs f (path ++ [m]) (cp :: anc)).map fun x => (m, x)) (es.map (·.1)) = some ss ∧
          s = .dir cp ss)) := by
  simp only [derefS] at h
  split at h
  · rename_i lcp lnode cp node hl hs
    refine ⟨lcp, lnode, cp, node, hl, hs, ?_⟩
    split at h
    · rename_i k
      injection h with h
      exact .inl ⟨k, rfl, h.symm⟩
    · rename_i k d
      split at h
      · rename_i hk
        injection h with h
        exact .inr (.inl ⟨k, d, rfl, hk, h.symm⟩)
      · cases h
    · cases h
    · rename_i es
      split at h
      · cases h
      · rename_i hc
        cases hcol : collect (fun m => (derefS fs f (path ++ [m]) (cp :: anc)).map fun x => (m, x)) (es.map (·.1)) with
        | none => simp [hcol] at h
        | some ss =>
          simp only [hcol, Option.map_some, Option.some.injEq] at h
          exact .inr (.inr ⟨es, ss, rfl, by simpa using hc, hcol, h.symm⟩)
  · cases h

theorem derefS_dir {fs : Fs} {f : Nat} {path : List Name} {anc : List (List Name)} {lcp cp : List Name}
    {lnode : Node} {es : Entries}
    (hl : fs.lstat (plainPath path) = some (lcp, lnode)) (hs : fs.stat (plainPath path) = some (cp, .dir es))
    (hloop : (lnode.isLink && anc.contains cp) = false) :
    derefS fs (f + 1) path anc =
      (collect (fun m => (derefS fs f (path ++ [m]) (cp :: anc)).map fun x => (m, x)) (es.map (·.1))).map
        (SNode.dir cp) := by
  rw [derefS]
  simp only [hl, hs, hloop, Bool.false_eq_true, if_false]

/-! ## `walkEntry` with `--dereference`, one step -/

/-- what `lstat` saw is what `stat` saw, or a symbolic link -/
def SeenAs (lnode node : Node) : Prop := lnode = node ∨ ∃ t, lnode = .link t

theorem seenAs_of (fs : Fs) (ns lcp cp : List Name) (lnode node : Node)
    (hl : fs.lstat (plainPath ns) = some (lcp, lnode)) (hs : fs.stat (plainPath ns) = some (cp, node)) :
    SeenAs lnode node := by
  cases hk : lnode.isLink with
  | true =>
    cases lnode <;> simp [Node.isLink] at hk
    exact .inr ⟨_, rfl⟩
  | false =>
    have := stat_of_lstat_nonlink fs ns lcp lnode hl hk
    rw [hs] at this
    injection this with this
    injection this with _ h2
    exact .inl h2.symm

theorem walkEntry_deref_file (fs : Fs) (c : Cfg) (hd : c.dereference = true) (hn : c.noClobber = false)
    (src tb : RPath) (rel : List Name) (f : Nat) (anc : List (List Name)) (lcp cp : List Name)
    (lnode : Node) (k : Nat) (fromP : RPath) (hsa : SeenAs lnode (.file k))
    (hl : fs.lstat (relJoin src rel) = some (lcp, lnode))
    (hs : fs.stat (relJoin src rel) = some (cp, .file k))
    (hcan : fs.canonicalize (relJoin src rel) = .ok fromP)
    (hl2 : fs.lstat fromP = some (cp, .file k)) :
    walkEntry fs c none src tb (f + 1) rel anc = [.copy fromP (relJoin tb rel)] := by
  rcases hsa with hsa | ⟨t, hsa⟩ <;> subst hsa <;>
    simp [walkEntry, hd, hn, hl, hs, hcan, hl2, Node.kind, classifyKind, Node.isLink]

theorem walkEntry_deref_special (fs : Fs) (c : Cfg) (hd : c.dereference = true) (hn : c.noClobber = false)
    (src tb : RPath) (rel : List Name) (f : Nat) (anc : List (List Name)) (lcp cp : List Name)
    (lnode : Node) (k : FileKind) (d : Nat) (fromP : RPath) (hsa : SeenAs lnode (.special k d))
    (hk : k = .socket ∨ k = .chr ∨ k = .fifo)
    (hl : fs.lstat (relJoin src rel) = some (lcp, lnode))
    (hs : fs.stat (relJoin src rel) = some (cp, .special k d))
    (hcan : fs.canonicalize (relJoin src rel) = .ok fromP)
    (hl2 : fs.lstat fromP = some (cp, .special k d)) :
    walkEntry fs c none src tb (f + 1) rel anc = [.special fromP (relJoin tb rel)] := by
  rcases hsa with hsa | ⟨t, hsa⟩ <;> subst hsa <;> rcases hk with hk | hk | hk <;> subst hk <;>
    simp [walkEntry, hd, hn, hl, hs, hcan, hl2, Node.kind, classifyKind, Node.isLink]

theorem walkEntry_deref_dir (fs : Fs) (c : Cfg) (hd : c.dereference = true) (hn : c.noClobber = false)
    (src tb : RPath) (rel : List Name) (f : Nat) (anc : List (List Name)) (lcp cp : List Name)
    (lnode : Node) (es : Entries) (fromP : RPath) (hsa : SeenAs lnode (.dir es))
    (hl : fs.lstat (relJoin src rel) = some (lcp, lnode))
    (hs : fs.stat (relJoin src rel) = some (cp, .dir es))
    (hcan : fs.canonicalize (relJoin src rel) = .ok fromP)
    (hl2 : fs.lstat fromP = some (cp, .dir es))
    (hg : fs.root.getAt cp = some (.dir es))
    (hloop : (lnode.isLink && anc.contains cp) = false) :
    walkEntry fs c none src tb (f + 1) rel anc =
      .mkdir (relJoin tb rel) ::
        (es.map (·.1)).flatMap fun n => walkEntry fs c none src tb f (rel ++ [n]) (cp :: anc) := by
  rcases hsa with hsa | ⟨t, hsa⟩ <;> subst hsa
  · simp [walkEntry, hd, hn, hl, hcan, hl2, hg, Node.kind, classifyKind, Node.isLink]
  · simp only [Node.isLink, Bool.true_and] at hloop
    have hloop' : ¬ cp ∈ anc := by
      intro hm
      have : anc.contains cp = true := List.contains_iff_mem.2 hm
      rw [this] at hloop
      cases hloop
    simp [walkEntry, hd, hn, hl, hs, hcan, hl2, hg, hloop', Node.kind, classifyKind, Node.isLink]

theorem walkEntry_deref_unsupported (fs : Fs) (c : Cfg) (hd : c.dereference = true) (hn : c.noClobber = false)
    (src tb : RPath) (rel : List Name) (f : Nat) (anc : List (List Name)) (lcp cp : List Name)
    (lnode : Node) (k : FileKind) (d : Nat) (fromP : RPath) (hsa : SeenAs lnode (.special k d))
    (hk : k = .blk ∨ k = .other)
    (hl : fs.lstat (relJoin src rel) = some (lcp, lnode))
    (hs : fs.stat (relJoin src rel) = some (cp, .special k d))
    (hcan : fs.canonicalize (relJoin src rel) = .ok fromP)
    (hl2 : fs.lstat fromP = some (cp, .special k d)) :
    walkEntry fs c none src tb (f + 1) rel anc = [.fail] := by
  rcases hsa with hsa | ⟨t, hsa⟩ <;> subst hsa <;> rcases hk with hk | hk <;> subst hk <;>
    simp [walkEntry, hd, hn, hl, hs, hcan, hl2, Node.kind, classifyKind, Node.isLink]

theorem walkEntry_deref_loop (fs : Fs) (c : Cfg) (hd : c.dereference = true) (hn : c.noClobber = false)
    (src tb : RPath) (rel : List Name) (f : Nat) (anc : List (List Name)) (lcp cp : List Name)
    (t : RPath) (es : Entries) (fromP : RPath)
    (hl : fs.lstat (relJoin src rel) = some (lcp, .link t))
    (hs : fs.stat (relJoin src rel) = some (cp, .dir es))
    (hcan : fs.canonicalize (relJoin src rel) = .ok fromP)
    (hl2 : fs.lstat fromP = some (cp, .dir es))
    (hloop : cp ∈ anc) :
    walkEntry fs c none src tb (f + 1) rel anc = [.fail] := by
  simp [walkEntry, hd, hn, hl, hs, hcan, hl2, hloop, Node.isLink]

theorem walkEntry_deref_dangling (fs : Fs) (c : Cfg) (hd : c.dereference = true)
    (src tb : RPath) (rel : List Name) (f : Nat) (anc : List (List Name)) (lcp : List Name) (t : RPath)
    (hl : fs.lstat (relJoin src rel) = some (lcp, .link t))
    (hs : fs.stat (relJoin src rel) = none) :
    walkEntry fs c none src tb (f + 1) rel anc = [.fail] := by
  simp [walkEntry, hd, hl, hs, Node.isLink]

theorem walkEntry_lstat_none (fs : Fs) (c : Cfg) (gi : Ignore)
    (src tb : RPath) (rel : List Name) (f : Nat) (anc : List (List Name))
    (hl : fs.lstat (relJoin src rel) = none) :
    walkEntry fs c gi src tb (f + 1) rel anc = [.fail] := by
  simp [walkEntry, hl]

/-! ## Execution of the operations of a sourced tree -/

/-- every leaf of `s` is found in the tree `r` at the canonical path it names -/
def SrcIn (r : Node) (s : SNode) : Prop :=
  ∀ l ∈ s.leaves, r.getAt l.1 = some l.2 ∧ l.2.isDir = false ∧ l.1.length ≤ 256

/-- an existing non-directory is neither above nor below a place that does not exist under an existing directory -/
theorem src_unrel {r : Node} {cp par : List Name} {nm : Name} {x : Node} {pes : Entries}
    (hx : r.getAt cp = some x) (hxd : x.isDir = false)
    (hp : r.getAt par = some (.dir pes)) (hn : r.getAt (par ++ [nm]) = none) :
    ¬ par ++ [nm] <+: cp ∧ ¬ cp <+: par ++ [nm] := by
  constructor
  · rintro ⟨s, hs⟩
    rw [← hs, getAt_append_none _ _ _ hn] at hx
    cases hx
  · intro h
    rcases List.prefix_concat_iff.1 h with h | h
    · rw [h, hn] at hx
      cases hx
    · obtain ⟨s, hs⟩ := h
      rw [← hs, Node.getAt_append, hx] at hp
      cases s with
      | nil =>
        simp only [Option.bind_some, getAt_nil, Option.some.injEq] at hp
        subst hp
        cases hxd
      | cons a s' =>
        simp only [Option.bind_some] at hp
        rw [getAt_nondir _ _ _ hxd] at hp
        cases hp

theorem execOp_copy_fresh_le (g : Fs) (c : Cfg) (sn par : List Name) (nm : Name) (k : Nat) (es : Entries)
    (hs : g.root.getAt sn = some (.file k)) (hls : sn.length ≤ 256) (hlt : par.length < 256)
    (hp : g.root.getAt par = some (.dir es)) (hn : g.root.getAt (par ++ [nm]) = none) :
    execOp g c (.copy (plainPath sn) (plainPath (par ++ [nm]))) =
      some { g with root := g.root.setAt (par ++ [nm]) (.file k) } := by
  have hst := stat_plain_le g sn _ (by simpa [Node.isDir] using hls) hs (noLinkUpto_of_getAt hs rfl)
  have hr := resolve_plain_missing g par nm true es hlt hp hn
  have hnone := stat_none_of_missing g _ par nm hr
  simp [execOp, Fs.contentOf, hst, Fs.exists, hnone, Fs.createFile, hr, Except.toOption]

theorem execOp_special_fresh_le (g : Fs) (c : Cfg) (sn par : List Name) (nm : Name) (k : FileKind) (d : Nat)
    (es : Entries)
    (hs : g.root.getAt sn = some (.special k d)) (hls : sn.length ≤ 256) (hlt : par.length < 256)
    (hp : g.root.getAt par = some (.dir es)) (hn : g.root.getAt (par ++ [nm]) = none) :
    execOp g c (.special (plainPath sn) (plainPath (par ++ [nm]))) =
      some { g with root := g.root.setAt (par ++ [nm]) (.special k d) } := by
  have hst := stat_plain_le g sn _ (by simpa [Node.isDir] using hls) hs (noLinkUpto_of_getAt hs rfl)
  have hr := resolve_plain_missing g par nm true es hlt hp hn
  have hr' := resolve_plain_missing g par nm false es hlt hp hn
  have hnone := stat_none_of_missing g _ par nm hr
  simp [execOp, hst, Fs.exists, hnone, Fs.mknod, hr', Except.toOption]

/-- Running the operations of a sourced tree `s`, all of whose leaves are found in the state at their canonical
paths, towards a fresh place `par ++ [nm]` below an existing directory puts exactly the erased tree there.  (The
canonical sources are automatically out of the way: they exist, the destination does not.) -/
theorem exec_opsOfS (c : Cfg) :
    ∀ (d : Nat) (s : SNode), s.erase.Copyable d →
      ∀ (g : Fs) (par : List Name) (nm : Name) (pes : Entries) (rest : List Op),
      SrcIn g.root s →
      g.root.getAt par = some (.dir pes) → g.root.getAt (par ++ [nm]) = none →
      par.length + 1 + d < 256 →
      execOps g c (opsOfS s (par ++ [nm]) ++ rest) =
        execOps { g with root := g.root.setAt (par ++ [nm]) s.erase } c rest := by
  -- the leaves, at any depth budget
  have leaf : ∀ (s : SNode) (g : Fs) (par : List Name) (nm : Name) (pes : Entries) (rest : List Op),
      s.erase.isDir = false → SrcIn g.root s →
      g.root.getAt par = some (.dir pes) → g.root.getAt (par ++ [nm]) = none → par.length < 256 →
      execOps g c (opsOfS s (par ++ [nm]) ++ rest) =
        execOps { g with root := g.root.setAt (par ++ [nm]) s.erase } c rest := by
    intro s g par nm pes rest hnd hsrc hp hn hl
    cases s with
    | file cp k =>
      obtain ⟨hs, _, hlen⟩ := hsrc (cp, .file k) (by simp [SNode.leaves])
      simp only [opsOfS, SNode.erase, List.cons_append, List.nil_append]
      exact execOps_cons_some _ _ _ _ _ (execOp_copy_fresh_le g c cp par nm k pes hs hlen hl hp hn)
    | special cp k dv =>
      obtain ⟨hs, _, hlen⟩ := hsrc (cp, .special k dv) (by simp [SNode.leaves])
      simp only [opsOfS, SNode.erase, List.cons_append, List.nil_append]
      exact execOps_cons_some _ _ _ _ _ (execOp_special_fresh_le g c cp par nm k dv pes hs hlen hl hp hn)
    | dir cp es => simp [SNode.erase, Node.isDir] at hnd
  intro d
  induction d with
  | zero =>
    intro s hc g par nm pes rest hsrc hp hn hl
    have hnd : s.erase.isDir = false := by
      cases s with
      | dir cp es => simp [SNode.erase, Node.Copyable] at hc
      | _ => rfl
    exact leaf s g par nm pes rest hnd hsrc hp hn (by omega)
  | succ d ih =>
    intro s hc g par nm pes rest hsrc hp hn hl
    cases hnd : s.erase.isDir with
    | false => exact leaf s g par nm pes rest hnd hsrc hp hn (by omega)
    | true =>
      cases s with
      | file cp k => simp [SNode.erase, Node.isDir] at hnd
      | special cp k dv => simp [SNode.erase, Node.isDir] at hnd
      | dir cp es =>
        simp only [SNode.erase] at hc ⊢
        obtain ⟨d', hd', hndp, hch⟩ := copyable_dir hc
        have hd'' : d' = d := by omega
        subst hd''
        simp only [opsOfS, List.cons_append]
        rw [execOps_cons_some _ _ _ _ _ (execOp_mkdir_fresh g c par nm pes (by omega) hp hn)]
        -- the children, one after the other
        have key : ∀ (post : List (Name × SNode)) (pre : Entries),
            ((pre ++ eraseL post).map (·.1)).Nodup → (∀ e ∈ post, e ∈ es) →
            execOps { g with root := g.root.setAt (par ++ [nm]) (.dir pre) } c
                (opsOfSL post (par ++ [nm]) ++ rest) =
              execOps { g with root := g.root.setAt (par ++ [nm]) (.dir (pre ++ eraseL post)) } c rest := by
          intro post
          induction post with
          | nil => intro pre _ _; simp [opsOfSL, eraseL]
          | cons e post' ihp =>
            intro pre hnd' hsub
            obtain ⟨m, ch⟩ := e
            have hmem : (m, ch) ∈ es := hsub _ List.mem_cons_self
            have hm : m ∉ pre.map (·.1) := by
              intro hmm
              simp only [eraseL, List.map_append, List.map_cons] at hnd'
              exact (List.nodup_append.1 hnd').2.2 m hmm m List.mem_cons_self rfl
            -- the state before this child
            have hs' : SrcIn (g.root.setAt (par ++ [nm]) (.dir pre)) ch := by
              intro l hl'
              obtain ⟨h1, h2, h3⟩ := hsrc l (by
                simp only [SNode.leaves]
                exact leavesL_mem es m ch hmem l hl')
              obtain ⟨u1, u2⟩ := src_unrel h1 h2 hp hn
              exact ⟨by rw [getAt_setAt_unrelated _ _ _ _ u1 u2]; exact h1, h2, h3⟩
            have hp' : (g.root.setAt (par ++ [nm]) (.dir pre)).getAt (par ++ [nm]) = some (.dir pre) :=
              getAt_setAt_child _ nm par g.root pes hp
            have hn' : (g.root.setAt (par ++ [nm]) (.dir pre)).getAt (par ++ [nm] ++ [m]) = none := by
              rw [Node.getAt_append, hp']
              simp [getAt_dir_cons, entGet_none_of_not_mem pre m hm]
            have step := ih ch (hch _ (eraseL_mem es m ch hmem))
              { g with root := g.root.setAt (par ++ [nm]) (.dir pre) }
              (par ++ [nm]) m pre (opsOfSL post' (par ++ [nm]) ++ rest) hs' hp' hn'
              (by simp only [List.length_append, List.length_cons, List.length_nil]; omega)
            simp only [opsOfSL, List.append_assoc]
            simp only [List.append_assoc] at step
            rw [step]
            have e := setAt_dir_push g.root (par ++ [nm]) pre m ch.erase hm
            simp only [List.append_assoc] at e
            rw [e]
            have := ihp (pre ++ [(m, ch.erase)]) (by simpa [eraseL, List.append_assoc] using hnd')
              (fun e he => hsub e (List.mem_cons_of_mem _ he))
            simp only [List.append_assoc, List.singleton_append] at this
            simpa [eraseL] using this
        have := key es [] (by simpa using hndp) (fun _ h => h)
        simpa using this

/-! ## What a computed sourced tree is like -/

theorem copyableL_eraseL {ss : List (Name × SNode)} {d : Nat} (h : ∀ e ∈ ss, e.2.erase.Copyable d) :
    Node.Copyable.CopyableL (eraseL ss) d := by
  apply copyableL_of_mem_gi
  intro e he
  obtain ⟨ch, h1, h2⟩ := mem_eraseL ss e he
  rw [h2]
  exact h _ h1

/-- a computed sourced tree is copyable within the fuel (supported kinds, no name twice, depth), and its leaves
are where it says, at most 256 names deep -/
theorem derefS_good (fs : Fs) (hroot : fs.root.isLink = false) (hwf : fs.root.WF) :
    ∀ (fuel : Nat) (path : List Name) (anc : List (List Name)) (s : SNode),
      derefS fs fuel path anc = some s → s.erase.Copyable fuel ∧ SrcIn fs.root s := by
  intro fuel
  induction fuel with
  | zero => intro path anc s h; simp [derefS] at h
  | succ f ih =>
    intro path anc s h
    obtain ⟨lcp, lnode, cp, node, _, hs, hcase⟩ := derefS_succ_some h
    obtain ⟨_, hg, hb, _, _, _⟩ := stat_canon fs hroot path cp node hs
    rcases hcase with ⟨k, hnode, hs'⟩ | ⟨k, d, hnode, hk, hs'⟩ | ⟨es, ss, hnode, _, hcol, hs'⟩
    · subst hnode; subst hs'
      refine ⟨by simp [SNode.erase, Node.Copyable], ?_⟩
      intro l hl
      simp only [SNode.leaves, List.mem_singleton] at hl
      subst hl
      exact ⟨hg, rfl, by simpa [Node.isDir] using hb⟩
    · subst hnode; subst hs'
      refine ⟨by simpa [SNode.erase, Node.Copyable] using (okSpecial_iff k).1 hk, ?_⟩
      intro l hl
      simp only [SNode.leaves, List.mem_singleton] at hl
      subst hl
      exact ⟨hg, rfl, by simpa [Node.isDir] using hb⟩
    · subst hnode; subst hs'
      obtain ⟨hnames, hch⟩ := derefS_children fs f path (cp :: anc) _ ss hcol
      constructor
      · simp only [SNode.erase, Node.Copyable]
        refine ⟨?_, copyableL_eraseL (fun e he => (ih _ _ _ (hch e he)).1)⟩
        rw [eraseL_names, hnames]
        exact hwf cp es hg
      · intro l hl
        simp only [SNode.leaves] at hl
        -- the leaf belongs to one of the children
        have : ∀ (ss' : List (Name × SNode)), (∀ e ∈ ss', e ∈ ss) → l ∈ leavesL ss' →
            fs.root.getAt l.1 = some l.2 ∧ l.2.isDir = false ∧ l.1.length ≤ 256 := by
          intro ss'
          induction ss' with
          | nil => intro _ hl; simp [leavesL] at hl
          | cons e r ihr =>
            intro hsub hl
            obtain ⟨m, ch⟩ := e
            simp only [leavesL, List.mem_append] at hl
            rcases hl with hl | hl
            · exact (ih _ _ _ (hch _ (hsub _ List.mem_cons_self))).2 l hl
            · exact ihr (fun e he => hsub e (List.mem_cons_of_mem _ he)) hl
        exact this ss (fun _ h => h) hl

/-- every directory a computed sourced tree says the walk lists is a directory of the file system -/
theorem derefS_dirs_exist (fs : Fs) (hroot : fs.root.isLink = false) :
    ∀ (fuel : Nat) (path : List Name) (anc : List (List Name)) (s : SNode),
      derefS fs fuel path anc = some s → ∀ dc ∈ s.dirs, ∃ es, fs.root.getAt dc = some (.dir es) := by
  intro fuel
  induction fuel with
  | zero => intro path anc s h; simp [derefS] at h
  | succ f ih =>
    intro path anc s h
    obtain ⟨lcp, lnode, cp, node, _, hs, hcase⟩ := derefS_succ_some h
    obtain ⟨_, hg, _, _, _, _⟩ := stat_canon fs hroot path cp node hs
    rcases hcase with ⟨k, hnode, hs'⟩ | ⟨k, d, hnode, hk, hs'⟩ | ⟨es, ss, hnode, _, hcol, hs'⟩
    · subst hs'; intro dc hdc; simp [SNode.dirs] at hdc
    · subst hs'; intro dc hdc; simp [SNode.dirs] at hdc
    · subst hnode; subst hs'
      obtain ⟨_, hch⟩ := derefS_children fs f path (cp :: anc) _ ss hcol
      intro dc hdc
      simp only [SNode.dirs, List.mem_cons] at hdc
      rcases hdc with hdc | hdc
      · subst hdc; exact ⟨es, hg⟩
      · have : ∀ (ss' : List (Name × SNode)), (∀ e ∈ ss', e ∈ ss) → dc ∈ dirsL ss' →
            ∃ es, fs.root.getAt dc = some (.dir es) := by
          intro ss'
          induction ss' with
          | nil => intro _ hl; simp [dirsL] at hl
          | cons e r ihr =>
            intro hsub hl
            obtain ⟨m, ch⟩ := e
            simp only [dirsL, List.mem_append] at hl
            rcases hl with hl | hl
            · exact ih _ _ _ (hch _ (hsub _ List.mem_cons_self)) dc hl
            · exact ihr (fun e he => hsub e (List.mem_cons_of_mem _ he)) hl
        exact this ss (fun _ h => h) hdc

end Xcp
