import XcpProofs.ClashLemmas
import XcpProofs.ClashConcLemmas
import XcpProofs.MultiClashLemmas
import XcpProofs.DerefOverlayLemmas
/-! # Lemmas for `DerefClash`: `-L`, a destination that clashes with the tree seen through the links

`exec_clashS`: `exec_clash` (ClashLemmas) for the operations `opsOfS` of a sourced tree (reading from canonical places
out of the way of the target, `ReadsAway`), the compatible siblings before the clashing entry handled by
`exec_overlayS`.  For the concurrent form: every position of the dereferenced tree has its operation in `opsOfS`
(`opsOfS_has_op`), the initial `Plains` facts (`plains_initD`), and `clash_execD`, the `DSpec` version of `clash_exec`,
to be used with the list-generic `CInv.run_of`. -/
namespace Xcp

open L0

/-! ## Sequential -/

theorem exec_clashS (c : Cfg) (hn : c.noClobber = false) :
    ∀ (d : Nat) (s : SNode), s.erase.Copyable d →
      ∀ (g : Fs) (tn : List Name) (x : Node) (rest : List Op),
      SrcIn g.root s → ReadsAway s tn →
      g.root.getAt tn = some x → tn ≠ [] → x.WF → PlainBelow x →
      ¬ Compatible (some x) s.erase → tn.length + d < 256 →
      (execOps g c (opsOfS s tn ++ rest)).exit = .err := by
  have leaf : ∀ (s : SNode), s.erase.isDir = false → ∀ (g : Fs) (tn : List Name) (x : Node) (rest : List Op),
      g.root.getAt tn = some x → PlainBelow x → ¬ Compatible (some x) s.erase → tn.length < 256 →
      (execOps g c (opsOfS s tn ++ rest)).exit = .err := by
    intro s hnd g tn x rest ht hpl hc hlt
    cases s with
    | dir cp es => simp [SNode.erase, Node.isDir] at hnd
    | file cp k => exact exec_clash_leaf c (.file k) rfl g cp tn x rest ht hpl hc hlt
    | special cp k dv => exact exec_clash_leaf c (.special k dv) rfl g cp tn x rest ht hpl hc hlt
  intro d
  induction d with
  | zero =>
    intro s hcop g tn x rest _ _ ht _ _ hpl hc hl2
    have hnd : s.erase.isDir = false := by
      cases s with
      | dir cp es => simp [SNode.erase, Node.Copyable] at hcop
      | _ => rfl
    exact leaf s hnd g tn x rest ht hpl hc (by omega)
  | succ d ih =>
    intro s hcop g tn x rest hsrc haway ht htne hw hpl hc hl2
    cases hnd : s.erase.isDir with
    | false => exact leaf s hnd g tn x rest ht hpl hc (by omega)
    | true =>
      cases s with
      | file cp k => simp [SNode.erase, Node.isDir] at hnd
      | special cp k dv => simp [SNode.erase, Node.isDir] at hnd
      | dir cp es =>
        simp only [SNode.erase] at hcop hc
        obtain ⟨d', hd', hndp, hch⟩ := copyable_dir hcop
        have hd'' : d' = d := by omega
        subst hd''
        rw [eraseL_names] at hndp
        rcases hpl.cases with ⟨k', rfl⟩ | ⟨des, rfl⟩
        · simp only [opsOfS, List.cons_append]
          exact execOps_cons_none _ _ _ _ (execOp_mkdir_onto_file g c tn k' ht htne (by omega))
        · have hcl : compatibleL des (eraseL es) = false := by
            cases hh : compatibleL des (eraseL es) with
            | false => rfl
            | true => exact absurd (by simpa [Compatible, Node.compatible] using hh) hc
          have hwx := hw
          rw [WF_dir] at hwx
          simp only [opsOfS, List.cons_append]
          rw [execOps_cons_some _ _ _ _ _ (execOp_mkdir_over g c tn des ht (by omega))]
          have hassoc : ∀ a b : List Op, (a ++ b) ++ rest = a ++ (b ++ rest) :=
            fun a b => List.append_assoc a b rest
          have key : ∀ (post : List (Name × SNode)) (acc : Entries), (acc.map (·.1)).Nodup →
              (post.map (·.1)).Nodup →
              (∀ e ∈ post, e ∈ es) → (∀ e ∈ post, entGet acc e.1 = entGet des e.1) →
              compatibleL des (eraseL post) = false →
              (execOps { g with root := g.root.setAt tn (.dir acc) } c (opsOfSL post tn ++ rest)).exit = .err := by
            intro post
            induction post with
            | nil => intro acc _ _ _ _ hf; simp [compatibleL, eraseL] at hf
            | cons e post' ihp =>
              intro acc hna hnp hsub hag hf
              obtain ⟨m, ch⟩ := e
              have hmem : (m, ch) ∈ es := hsub _ List.mem_cons_self
              have hmemE := eraseL_mem es m ch hmem
              simp only [List.map_cons, List.nodup_cons] at hnp
              have hs' : SrcIn (g.root.setAt tn (.dir acc)) ch := by
                intro l hl
                have hlm : l ∈ (SNode.dir cp es).leaves := by
                  simp only [SNode.leaves]; exact leavesL_mem es m ch hmem l hl
                obtain ⟨a1, a2, a3⟩ := hsrc l hlm
                obtain ⟨u1, u2⟩ := haway l hlm
                exact ⟨by rw [getAt_setAt_unrelated _ _ _ _ u1 u2]; exact a1, a2, a3⟩
              have hp' : (g.root.setAt tn (.dir acc)).getAt tn = some (.dir acc) :=
                getAt_setAt_exists _ _ _ _ ht
              have hda : (g.root.setAt tn (.dir acc)).getAt (tn ++ [m]) = entGet acc m :=
                getAt_child _ _ m _ hp'
              have hag0 : entGet acc m = entGet des m := hag (m, ch) List.mem_cons_self
              have hlt : (tn ++ [m]).length + d' < 256 := by
                simp only [List.length_append, List.length_cons, List.length_nil]; omega
              rw [opsOfSL, hassoc]
              simp only [eraseL] at hf
              by_cases hcm : Compatible (entGet des m) ch.erase
              · have step := exec_overlayS c hn d' ch (hch _ hmemE) { g with root := g.root.setAt tn (.dir acc) }
                  tn m acc (opsOfSL post' tn ++ rest) hs' (haway.child hmem) hp' hna
                  (by intro y hy; rw [hda, hag0] at hy; exact hwx.2 m y hy)
                  (by rw [hda, hag0]; exact hcm)
                  (by omega)
                rw [step]
                show (execOps { g with root := (placeAt (g.root.setAt tn (.dir acc)) (tn ++ [m])
                  ((g.root.setAt tn (.dir acc)).getAt (tn ++ [m])) ch.erase) } c
                    (opsOfSL post' tn ++ rest)).exit = _
                rw [placeAt_child _ tn m acc _ ch.erase hp', setAt_setAt_same]
                apply ihp
                · exact nodup_keys_entPut _ _ _ hna
                · exact hnp.2
                · exact fun e he => hsub e (List.mem_cons_of_mem _ he)
                · intro e he
                  have hne : m ≠ e.1 := by
                    intro h
                    apply hnp.1
                    rw [h]
                    exact List.mem_map.2 ⟨e, he, rfl⟩
                  rw [entGet_entPut_ne _ _ _ _ hne]
                  exact hag e (List.mem_cons_of_mem _ he)
                · rw [compatibleL_cons] at hf
                  have hcm' : Node.compatible (entGet des m) ch.erase = true := hcm
                  rw [hcm'] at hf
                  simpa using hf
              · cases hy : entGet des m with
                | none => rw [hy] at hcm; exact absurd (compatible_none _) hcm
                | some y =>
                  rw [hy] at hcm
                  exact ih ch (hch _ hmemE) { g with root := g.root.setAt tn (.dir acc) }
                    (tn ++ [m]) y (opsOfSL post' tn ++ rest) hs' (haway.child hmem)
                    (by rw [hda, hag0, hy]) (by simp) (hwx.2 m y hy) (hpl.child hy) hcm hlt
          have h0 : execOps g c (opsOfSL es tn ++ rest) =
              execOps { g with root := g.root.setAt tn (.dir des) } c (opsOfSL es tn ++ rest) := by
            rw [setAt_same _ _ _ ht]
          rw [h0]
          exact key es des hwx.1 hndp (fun _ h => h) (fun _ _ => rfl) hcl

/-! ## Concurrent -/

theorem headOp_dropSrc (m : Node) (a b tn : List Name) :
    Op.dropSrc (headOp m a tn) = Op.dropSrc (headOp m b tn) := by
  cases m <;> rfl

/-- every position of the dereferenced tree has its entry operation in `opsOfS`, reading from some place -/
theorem opsOfS_has_op {fs0 : Fs} {d : Nat} {s : SNode} {T : List Name}
    (h : DSpec fs0 s.erase T d (opsOfS s T)) {rel : List Name} {m : Node} (hg : s.erase.getAt rel = some m) :
    ∃ cp, headOp m cp (T ++ rel) ∈ opsOfS s T := by
  have h1 := headOp_mem_opsOf rel s.erase m [] T hg
  have h2 : Op.dropSrc (headOp m ([] ++ rel) (T ++ rel)) ∈ (opsOfS s T).map Op.dropSrc := by
    rw [opsOfS_dropSrc s [] T]
    exact List.mem_map_of_mem h1
  obtain ⟨x, hx, hxe⟩ := List.mem_map.1 h2
  obtain ⟨rel', m', cp', hg', _, ex, _⟩ := h.char x hx
  have ht : opTarget x = some (plainPath (T ++ rel)) := by
    rw [← opTarget_dropSrc, hxe, opTarget_dropSrc, headOp_target]
  rw [ex, headOp_target] at ht
  have := List.append_cancel_left (plainPath_inj (Option.some.inj ht))
  subst this
  rw [hg] at hg'
  injection hg' with hg'
  subst hg'
  exact ⟨cp', ex ▸ hx⟩

/-- no symbolic link at or above any target or source, initially -/
theorem plains_initD {fs0 : Fs} {E : Node} {T : List Name} {d : Nat} {ops : List Op} (h : DSpec fs0 E T d ops)
    (x0 : Node) (hT : fs0.root.getAt T = some x0) (hlT : NoLinkUpto fs0.root T) (hpl : PlainBelow x0) :
    ∀ x ∈ ops, Plains fs0 x := by
  intro x hx
  obtain ⟨rel, m, cp, hg, hl, ex, hlf⟩ := h.char x hx
  have hup : NoLinkUpto fs0.root (T ++ rel) := by
    intro p hp tg hgl
    by_cases hT' : T <+: p
    · obtain ⟨q, hq⟩ := hT'
      subst hq
      rw [Node.getAt_append, hT] at hgl
      have := (hpl q _ hgl).1
      cases this
    · have hpT : p <+: T := by
        rcases List.prefix_or_prefix_of_prefix hp (List.prefix_append T rel) with h1 | h1
        · exact h1
        · exact absurd h1 hT'
      exact hlT p hpT tg hgl
  refine ⟨?_, ?_⟩
  · intro t ht
    rw [ex, headOp_target] at ht
    have := Option.some.inj ht
    subst this
    rw [plainPath_names]
    exact ⟨hup.above, fun _ => hup⟩
  · intro sp hs
    rw [ex] at hs
    obtain ⟨e, hmd, hml⟩ := headOp_srcOf _ _ _ _ hs
    subst e
    rw [plainPath_names]
    exact noLinkUpto_of_getAt (hlf hmd).1 hml

/-- `clash_exec` over `DSpec`: an operation of the list that SUCCEEDS in a state where the clashing place `T ++ rel0`
shows `w` is not the clashing operation, and leaves a state of the same kind -/
theorem clash_execD {fs0 : Fs} {E : Node} {T : List Name} {d : Nat} {ops : List Op} (h : DSpec fs0 E T d ops)
    (c : Cfg) {rel0 cp0 : List Name} {m0 : Node} {w : ONode} (hg0 : E.getAt rel0 = some m0) (hl0 : rel0.length ≤ d)
    (hbad : headOp m0 cp0 (T ++ rel0) ∈ ops)
    (hc : DirectClash w m0) (g g' : Fs) (x : Op) (hx : x ∈ ops) (hwf : FsEq g g) (hpl : ∀ y ∈ ops, Plains g y)
    (hk : obsAt g.root (T ++ rel0) = some w) (he : execOp g c x = some g') :
    x ≠ headOp m0 cp0 (T ++ rel0) ∧ FsEq g' g' ∧ (∀ y ∈ ops, Plains g' y) ∧
      obsAt g'.root (T ++ rel0) = some w := by
  have hpne : T ++ rel0 ≠ [] := fun h0 => h.tne (List.append_eq_nil_iff.1 h0).1
  have hplt : (T ++ rel0).length < 256 := by
    simp only [List.length_append]; have := h.lenT; omega
  have hxb : x ≠ headOp m0 cp0 (T ++ rel0) := by
    intro e
    rw [e, directClash_fails g c m0 _ _ w hc hk hpne hplt] at he
    cases he
  obtain ⟨rel, m, cp, hg, hl, ex, _⟩ := h.char x hx
  have htgt : opTarget x = some (plainPath (T ++ rel)) := by rw [ex, headOp_target]
  have htne : T ++ rel ≠ [] := fun h0 => h.tne (List.append_eq_nil_iff.1 h0).1
  have hroot : g.root.isDir = true := by
    cases hy : g.root.getAt (T ++ rel0) with
    | none => simp [obsAt, hy] at hk
    | some y =>
      have hy' : g.root.getAt ([] ++ (T ++ rel0)) = some y := by simpa using hy
      obtain ⟨es, hes⟩ := getAt_proper_prefix_dir hy' hpne
      simp only [getAt_nil, Option.some.injEq] at hes
      rw [hes]; rfl
  have hop : OpPlain g x (plainPath (T ++ rel)).names :=
    opPlain_of_plains htgt (plainPath_namesOnly _)
      (by
        intro s hs
        rw [ex] at hs
        obtain ⟨e, _, _⟩ := headOp_srcOf _ _ _ _ hs
        rw [e]; exact plainPath_namesOnly _)
      (hpl x hx)
  have hF : Frame g g' x (plainPath (T ++ rel)).names :=
    exec_frame c hop (by rw [plainPath_names]; exact htne) hroot hwf.2.1 he
  refine ⟨hxb, wf_exec hwf he, plains_transfer hx h.pairIndep htgt hF hpl, ?_⟩
  rw [plainPath_names] at hF
  cases hmd : m.isDir with
  | true =>
    cases m <;> simp [Node.isDir] at hmd
    rw [ex] at he
    have hP := mkdirAll_preserved _ _ _ (toOption_eq_some (by simpa [headOp, execOp] using he))
    have hK := hP (T ++ rel0)
    rcases hc.kind with hwd | ⟨k, hwk⟩
    · obtain ⟨es, hes⟩ := getAt_dir_of_obs (by rw [hk, hwd])
      rw [hes] at hK
      obtain ⟨es', hes'⟩ := hK
      rw [obsAt_dir hes', hwd]
    · have hf : g.root.getAt (T ++ rel0) = some (.file k) :=
        getAt_of_obs_leaf (x := .file k) rfl (by rw [hk, hwk]; rfl)
      rw [hf] at hK
      have hK' : g'.root.getAt (T ++ rel0) = some (.file k) := hK
      simp [obsAt, hK', Node.obs, hwk]
  | false =>
    rw [← hk]
    apply hF.out (T ++ rel0)
    · intro hp
      obtain ⟨s, hs⟩ := (List.prefix_append_right_inj T).1 hp
      by_cases hs0 : s = []
      · subst hs0
        rw [List.append_nil] at hs
        subst hs
        apply hxb
        apply eq_of_tgt_nodup h.tnd hx hbad
        rw [htgt, headOp_target]
      · rw [← hs] at hg0
        obtain ⟨es, hes⟩ := getAt_proper_prefix_dir hg0 hs0
        rw [hes] at hg
        injection hg with hg
        subst hg
        cases hmd
    · right
      rw [hk]
      exact fun hh => by cases hh

end Xcp
