import XcpProofs.MultiSource
import XcpProofs.DerefTree
import XcpProofs.MultiGiLemmas
/-! # Several sources with `--gitignore`: each source is filtered by the `.gitignore` at ITS OWN root

`xcp -r --gitignore s1 … sn DEST/` with `DEST` an existing directory.  `runSources` evaluates `parseIgnore` for every
source in the state left by the previous sources; each item `e` carries the pattern list `e.ps` in force for it:
`parseIgnore fs c texts e.path = some e.ps` in the INITIAL file system.  Under the hypotheses of `multi_overlay`, with
every target compatible with the PRUNED tree of its source, the run succeeds and the result is the initial tree with
each `DEST/bi` overlaid with `Node.prune psi [] ni`, in order.

One hypothesis is added with respect to `multi_overlay` (`hgl`): the `.gitignore` of a source is not a symbolic link.
Without it the statement is false: let `s2/.gitignore` be a link to `DEST/b1/f`, a file that the copy of `s1` rewrites;
then the pattern list in force for `s2` when the walker reaches it is not the one computed in the initial state.  With
it, the previous sources — which write below their own targets only, unrelated to every source path (`hun`) — cannot
change what `s/.gitignore` resolves to (`parseIgnore_placeAt`). -/
namespace Xcp

theorem multi_gitignore_overlay (fs : Fs) (c : Cfg) (texts : GiTexts) (dest : RPath) (items : List GiSrc) (fuel : Nat)
    (hd : c.dereference = false) (hn : c.noClobber = false) (hg : c.gitignore = true)
    (hnt : c.noTargetDir = false)
    (hwf : FsEq fs fs)
    (hdest : PlainTarget fs dest) (hdd : ∃ es, fs.root.getAt dest.names = some (.dir es))
    (hfuel : fuel < walkFuel)
    (hsrc : ∀ e ∈ items, PlainTarget fs e.path ∧ e.path.fileName = some e.base ∧
      fs.root.getAt e.path.names = some e.node ∧ e.node.Copyable fuel ∧ e.path.names.length + walkFuel < 256)
    (hps : ∀ e ∈ items, parseIgnore fs c texts e.path = some e.ps)
    (hgl : ∀ e ∈ items, ∀ tg, fs.root.getAt (e.path.names ++ [giName]) ≠ some (.link tg))
    (hnd : (items.map (·.base)).Nodup)
    (hun : ∀ e ∈ items, ∀ e' ∈ items,
      ¬ e.path.names <+: dest.names ++ [e'.base] ∧ ¬ dest.names ++ [e'.base] <+: e.path.names)
    (hcomp : ∀ e ∈ items, Compatible (fs.root.getAt (dest.names ++ [e.base])) (Node.prune e.ps [] e.node))
    (hlen : dest.names.length + 1 + walkFuel < 256) :
    ∃ fs', runSources fs c texts dest (items.map (·.path)) = ⟨.ok, fs'⟩ ∧
      FsEq fs' { fs with root := overlayAll fs.root dest.names (items.map GiSrc.pruned) fs.root } := by
  have _ := hg   -- implied by `hps` for a non-empty list; kept: this is the case C17 is about
  have hw : walkFuel = 64 := rfl
  rw [hw] at hfuel hlen
  have hde := plainTarget_eq fs dest hdest
  have h := runSources_gi_overlay_inv c texts hd hn hnt fs.root hwf.2.1 dest.names (by omega) items fs hwf hdd hnd
    (by
      intro e he
      obtain ⟨hp, hfn, hsn, hcop, hl⟩ := hsrc e he
      rw [hw] at hl
      refine ⟨plainTarget_eq fs e.path hp, hfn, hsn, ?_, copyable_mono hcop (by omega), by omega, hps e he, hgl e he⟩
      cases hnode : e.node with
      | link t => exact absurd (hnode ▸ hsn) (hp.2.2.2 _ (List.prefix_refl _) t)
      | _ => rfl)
    hun (fun _ _ => rfl) hcomp
  rw [← hde] at h
  exact h

/-- what the final tree holds: every target the overlay with the pruned tree of ITS source -/
theorem multi_gitignore_overlay_reads (fs : Fs) (c : Cfg) (texts : GiTexts) (dest : RPath) (items : List GiSrc)
    (fuel : Nat)
    (hd : c.dereference = false) (hn : c.noClobber = false) (hg : c.gitignore = true)
    (hnt : c.noTargetDir = false)
    (hwf : FsEq fs fs)
    (hdest : PlainTarget fs dest) (hdd : ∃ es, fs.root.getAt dest.names = some (.dir es))
    (hfuel : fuel < walkFuel)
    (hsrc : ∀ e ∈ items, PlainTarget fs e.path ∧ e.path.fileName = some e.base ∧
      fs.root.getAt e.path.names = some e.node ∧ e.node.Copyable fuel ∧ e.path.names.length + walkFuel < 256)
    (hps : ∀ e ∈ items, parseIgnore fs c texts e.path = some e.ps)
    (hgl : ∀ e ∈ items, ∀ tg, fs.root.getAt (e.path.names ++ [giName]) ≠ some (.link tg))
    (hnd : (items.map (·.base)).Nodup)
    (hun : ∀ e ∈ items, ∀ e' ∈ items,
      ¬ e.path.names <+: dest.names ++ [e'.base] ∧ ¬ dest.names ++ [e'.base] <+: e.path.names)
    (hcomp : ∀ e ∈ items, Compatible (fs.root.getAt (dest.names ++ [e.base])) (Node.prune e.ps [] e.node))
    (hlen : dest.names.length + 1 + walkFuel < 256) :
    ∃ fs', runSources fs c texts dest (items.map (·.path)) = ⟨.ok, fs'⟩ ∧
      ∀ e ∈ items, ∀ q, obsAt fs'.root (dest.names ++ [e.base] ++ q) =
        ((Node.overlay (fs.root.getAt (dest.names ++ [e.base])) (Node.prune e.ps [] e.node)).getAt q).map Node.obs := by
  obtain ⟨fs', hrun, heq⟩ := multi_gitignore_overlay fs c texts dest items fuel hd hn hg hnt hwf hdest hdd hfuel hsrc
    hps hgl hnd hun hcomp hlen
  refine ⟨fs', hrun, ?_⟩
  intro e he q
  rw [heq.2.2.2 (dest.names ++ [e.base] ++ q)]
  simp only [obsAt]
  rw [Node.getAt_append]
  have := overlayAll_getAt_target fs.root dest.names (items.map GiSrc.pruned) fs.root
    (by rw [map_pruned_base]; exact hnd) hdd e.pruned (List.mem_map_of_mem he)
  rw [show dest.names ++ [e.base] = dest.names ++ [e.pruned.base] from rfl, this]
  rfl

/-! ## The per-source reading, on an instance

`/A` = { `.gitignore` (content 10: the line `x`), `x`, `y` }, `/B` = { `.gitignore` (content 11: the line `y`), `x`,
`y` }, and an empty directory `/D`; the run is `xcp -r --gitignore /A /B /D`.  The name `x` is excluded by the first
source's file only: it is absent under `/D/A` and present under `/D/B`; `y` the other way round. -/
namespace MultiGiExample

def nA : Name := [65]
def nB : Name := [66]
def nD : Name := [68]
def nx : Name := [120]
def ny : Name := [121]

def nodeA : Node := .dir [(giName, .file 10), (nx, .file 1), (ny, .file 2)]
def nodeB : Node := .dir [(giName, .file 11), (nx, .file 3), (ny, .file 4)]
def rootN : Node := .dir [(nA, nodeA), (nB, nodeB), (nD, .dir [])]
def fs0 : Fs := ⟨rootN, []⟩
def c0 : Cfg := { gitignore := true }
/-- the texts of the two `.gitignore` files: `x⏎` and `y⏎` -/
def texts0 : GiTexts := [(10, [120, 10]), (11, [121, 10])]
def psA : List Gi.Pattern := Gi.parse [120, 10]
def psB : List Gi.Pattern := Gi.parse [121, 10]
def itemA : GiSrc := ⟨plainPath [nA], nA, nodeA, psA⟩
def itemB : GiSrc := ⟨plainPath [nB], nB, nodeB, psB⟩
def items0 : List GiSrc := [itemA, itemB]

theorem parseA : parseIgnore fs0 c0 texts0 (plainPath [nA]) = some psA := by rfl
theorem parseB : parseIgnore fs0 c0 texts0 (plainPath [nB]) = some psB := by rfl

theorem prunedA : Node.prune psA [] nodeA = .dir [(giName, .file 10), (ny, .file 2)] := by rfl
theorem prunedB : Node.prune psB [] nodeB = .dir [(giName, .file 11), (nx, .file 3)] := by rfl

theorem fs0_wf : FsEq fs0 fs0 := by
  have h : rootN.Copyable 3 := by
    simp [rootN, nodeA, nodeB, Node.Copyable, Node.Copyable.CopyableL, nA, nB, nD, nx, ny, giName]
  exact ⟨rfl, copyable_WF 3 _ h, copyable_WF 3 _ h, SameObs.refl _⟩

theorem namesOnly (ns : List Name) : ∀ c ∈ (plainPath ns).comps, ∃ n, c = .name n := by
  intro c hc
  simp only [plainPath, List.mem_map] at hc
  obtain ⟨n, _, hn⟩ := hc
  exact ⟨n, hn.symm⟩

theorem plain_of_get (ns : List Name) (x : Node) (h : fs0.root.getAt (plainPath ns).names = some x)
    (hx : x.isLink = false) : PlainTarget fs0 (plainPath ns) :=
  ⟨rfl, rfl, namesOnly _, noLinkUpto_of_getAt h hx⟩

/-- the run succeeds; `x` is not under `/D/A` but is under `/D/B`; `y` is under `/D/A` but not under `/D/B` -/
theorem example_run :
    ∃ fs', runSources fs0 c0 texts0 (plainPath [nD]) [plainPath [nA], plainPath [nB]] = ⟨.ok, fs'⟩ ∧
      obsAt fs'.root [nD, nA, nx] = none ∧ obsAt fs'.root [nD, nB, nx] = some (.file 3) ∧
      obsAt fs'.root [nD, nA, ny] = some (.file 2) ∧ obsAt fs'.root [nD, nB, ny] = none := by
  have h := multi_gitignore_overlay_reads fs0 c0 texts0 (plainPath [nD]) items0 2 rfl rfl rfl rfl fs0_wf
    (plain_of_get [nD] (.dir []) (by rfl) rfl) ⟨[], by rfl⟩ (by decide)
    (by
      intro e he
      simp only [items0, List.mem_cons, List.not_mem_nil, or_false] at he
      rcases he with rfl | rfl
      · exact ⟨plain_of_get [nA] nodeA (by rfl) rfl, by rfl, by rfl,
          by simp [itemA, nodeA, Node.Copyable, Node.Copyable.CopyableL, nx, ny, giName], by decide⟩
      · exact ⟨plain_of_get [nB] nodeB (by rfl) rfl, by rfl, by rfl,
          by simp [itemB, nodeB, Node.Copyable, Node.Copyable.CopyableL, nx, ny, giName], by decide⟩)
    (by
      intro e he
      simp only [items0, List.mem_cons, List.not_mem_nil, or_false] at he
      rcases he with rfl | rfl
      · exact parseA
      · exact parseB)
    (by
      intro e he tg
      simp only [items0, List.mem_cons, List.not_mem_nil, or_false] at he
      rcases he with rfl | rfl
      · intro h; have : fs0.root.getAt ([nA] ++ [giName]) = some (.file 10) := by rfl
        rw [show itemA.path.names = [nA] from rfl, this] at h; cases h
      · intro h; have : fs0.root.getAt ([nB] ++ [giName]) = some (.file 11) := by rfl
        rw [show itemB.path.names = [nB] from rfl, this] at h; cases h)
    (by decide)
    (by
      intro e he e' he'
      simp only [items0, List.mem_cons, List.not_mem_nil, or_false] at he he'
      rcases he with rfl | rfl <;> rcases he' with rfl | rfl <;> decide)
    (by
      intro e he
      simp only [items0, List.mem_cons, List.not_mem_nil, or_false] at he
      rcases he with rfl | rfl
      · have : fs0.root.getAt ((plainPath [nD]).names ++ [itemA.base]) = none := by rfl
        rw [this]; exact compatible_none _
      · have : fs0.root.getAt ((plainPath [nD]).names ++ [itemB.base]) = none := by rfl
        rw [this]; exact compatible_none _)
    (by decide)
  obtain ⟨fs', hrun, hread⟩ := h
  refine ⟨fs', hrun, ?_, ?_, ?_, ?_⟩
  · have := hread itemA (by simp [items0]) [nx]
    rw [show (plainPath [nD]).names ++ [itemA.base] ++ [nx] = [nD, nA, nx] from rfl] at this
    rw [this]; rfl
  · have := hread itemB (by simp [items0]) [nx]
    rw [show (plainPath [nD]).names ++ [itemB.base] ++ [nx] = [nD, nB, nx] from rfl] at this
    rw [this]; rfl
  · have := hread itemA (by simp [items0]) [ny]
    rw [show (plainPath [nD]).names ++ [itemA.base] ++ [ny] = [nD, nA, ny] from rfl] at this
    rw [this]; rfl
  · have := hread itemB (by simp [items0]) [ny]
    rw [show (plainPath [nD]).names ++ [itemB.base] ++ [ny] = [nD, nB, ny] from rfl] at this
    rw [this]; rfl

end MultiGiExample

end Xcp
