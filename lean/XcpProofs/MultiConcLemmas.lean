import XcpProofs.MultiSource
import XcpProofs.OverlayConcLemmas
/-! # Several sources into one existing directory, under every interleaving: lemmas

The walker goes through the sources one after the other while workers still complete operations of earlier sources,
so the operation list of the concurrent model is the CONCATENATION `allOps` of the per-source lists `opsOf`.  Static
facts (`MSpec`): every operation belongs to an item; targets of different items are below distinct siblings
`dn ++ [b]`, hence unrelated; every source is unrelated to every target — so the concatenation is duplicate-free,
pairwise independent, and can be walked in order (`TodoOK`).  Dynamic part: `MOInv`, the family version of `OInv`
(OverlayConcLemmas): an operation of one item changes the observation at its own target only (`OPost.frame`) and, at
the `getAt` level, nothing unrelated to its target (`execOp_plain`), so the source trees of ALL items stay exact.
Sequential part: `execAll_overlay_inv`, the fold of `exec_overlay` over the items (the `execOps` analogue of
`runSources_overlay_inv`). -/
namespace Xcp

open L0

/-! ## The concatenated operation list -/

/-- the operations of all sources, in argv order -/
def allOps (dn : List Name) (items : List CopySrc) : List Op :=
  items.flatMap fun e => opsOf e.node e.path.names (dn ++ [e.base])

theorem allOps_nil (dn : List Name) : allOps dn [] = [] := rfl

theorem allOps_cons (dn : List Name) (e : CopySrc) (r : List CopySrc) :
    allOps dn (e :: r) = opsOf e.node e.path.names (dn ++ [e.base]) ++ allOps dn r := by
  simp [allOps]

theorem mem_allOps {dn : List Name} {items : List CopySrc} {x : Op} :
    x ∈ allOps dn items ↔ ∃ e ∈ items, x ∈ opsOf e.node e.path.names (dn ++ [e.base]) :=
  List.mem_flatMap

theorem flatMap_congr_mem {α β : Type} {f g : α → List β} : ∀ (l : List α), (∀ a ∈ l, f a = g a) →
    l.flatMap f = l.flatMap g := by
  intro l
  induction l with
  | nil => intro _; rfl
  | cons a r ih =>
    intro h
    simp only [List.flatMap_cons]
    rw [h a List.mem_cons_self, ih (fun b hb => h b (List.mem_cons_of_mem _ hb))]

theorem base_inj : ∀ {items : List CopySrc}, (items.map (·.base)).Nodup → ∀ {e e' : CopySrc}, e ∈ items →
    e' ∈ items → e.base = e'.base → e = e' := by
  intro items
  induction items with
  | nil => intro _ e e' he; cases he
  | cons a r ih =>
    intro hnd e e' he he' hb
    simp only [List.map_cons, List.nodup_cons] at hnd
    cases he with
    | head =>
      cases he' with
      | head => rfl
      | tail _ hm' =>
        exfalso; apply hnd.1
        rw [hb]; exact List.mem_map.2 ⟨e', hm', rfl⟩
    | tail _ hm =>
      cases he' with
      | head =>
        exfalso; apply hnd.1
        rw [← hb]; exact List.mem_map.2 ⟨e, hm, rfl⟩
      | tail _ hm' => exact ih hnd.2 hm hm' hb

/-! ## Static facts -/

structure MSpec (items : List CopySrc) (dn : List Name) : Prop where
  cop : ∀ e ∈ items, e.node.Copyable 63
  spec : ∀ e ∈ items,
    OpsSpec e.node e.path.names (dn ++ [e.base]) 63 (opsOf e.node e.path.names (dn ++ [e.base]))
  un : ∀ e ∈ items, ∀ e' ∈ items, ¬ e.path.names <+: dn ++ [e'.base] ∧ ¬ dn ++ [e'.base] <+: e.path.names
  nd : (items.map (·.base)).Nodup

theorem MSpec.tail {e : CopySrc} {r : List CopySrc} {dn : List Name} (h : MSpec (e :: r) dn) : MSpec r dn where
  cop := fun a ha => h.cop a (List.mem_cons_of_mem _ ha)
  spec := fun a ha => h.spec a (List.mem_cons_of_mem _ ha)
  un := fun a ha b hb => h.un a (List.mem_cons_of_mem _ ha) b (List.mem_cons_of_mem _ hb)
  nd := by
    have := h.nd
    simp only [List.map_cons, List.nodup_cons] at this
    exact this.2

/-- every operation is the entry operation of a node of some item's tree -/
theorem MSpec.char {items : List CopySrc} {dn : List Name} (h : MSpec items dn) {x : Op}
    (hx : x ∈ allOps dn items) :
    ∃ e ∈ items, ∃ rel m, e.node.getAt rel = some m ∧ rel.length ≤ 63 ∧
      x = headOp m (e.path.names ++ rel) (dn ++ [e.base] ++ rel) := by
  obtain ⟨e, he, hxe⟩ := mem_allOps.1 hx
  obtain ⟨rel, m, hg, hl, ex⟩ := (h.spec e he).char x hxe
  exact ⟨e, he, rel, m, hg, hl, ex⟩

/-- a target determines its item and its position in the item's tree -/
theorem MSpec.tgt_eq_inv {items : List CopySrc} {dn : List Name} (h : MSpec items dn) {e e' : CopySrc}
    (he : e ∈ items) (he' : e' ∈ items) {rel rel' : List Name}
    (heq : dn ++ [e'.base] ++ rel' = dn ++ [e.base] ++ rel) : e' = e ∧ rel' = rel := by
  rw [List.append_assoc, List.append_assoc] at heq
  have := List.append_cancel_left heq
  simp only [List.cons_append, List.nil_append, List.cons.injEq] at this
  exact ⟨base_inj h.nd he' he this.1, this.2⟩

/-- distinct operations have distinct targets -/
theorem MSpec.tgt_ne {items : List CopySrc} {dn : List Name} (h : MSpec items dn) {x y : Op}
    (hy : y ∈ allOps dn items) (hxy : x ≠ y) {e : CopySrc} (he : e ∈ items)
    {rx : List Name} {mx : Node} (ex : x = headOp mx (e.path.names ++ rx) (dn ++ [e.base] ++ rx))
    (hgx : e.node.getAt rx = some mx) {t : RPath} (ht : opTarget y = some t) :
    t.names ≠ dn ++ [e.base] ++ rx := by
  obtain ⟨e', he', ry, my, hgy, _, ey⟩ := h.char hy
  rw [ey, headOp_target] at ht
  have := Option.some.inj ht
  subst this
  rw [plainPath_names]
  intro heq
  obtain ⟨h1, h2⟩ := h.tgt_eq_inv he he' heq
  subst h1; subst h2
  rw [hgx] at hgy
  injection hgy with hgy
  subst hgy
  exact hxy (ex.trans ey.symm)

theorem MSpec.nodup : ∀ {items : List CopySrc} {dn : List Name}, MSpec items dn → (allOps dn items).Nodup := by
  intro items
  induction items with
  | nil => intro dn _; simp [allOps_nil]
  | cons e r ih =>
    intro dn h
    rw [allOps_cons, List.nodup_append]
    refine ⟨opsOf_nodup 63 e.node (h.cop e List.mem_cons_self) _ _, ih h.tail, ?_⟩
    intro a ha b hb hab
    subst hab
    obtain ⟨rel, m, hg, _, ea⟩ := (h.spec e List.mem_cons_self).char a ha
    obtain ⟨e', he', hae'⟩ := mem_allOps.1 hb
    obtain ⟨rel', m', hg', _, ea'⟩ := (h.spec e' (List.mem_cons_of_mem _ he')).char a hae'
    have ht : opTarget a = some (plainPath (dn ++ [e.base] ++ rel)) := by rw [ea, headOp_target]
    rw [ea', headOp_target] at ht
    have heq := plainPath_inj (Option.some.inj ht)
    obtain ⟨h1, _⟩ := h.tgt_eq_inv List.mem_cons_self (List.mem_cons_of_mem _ he') heq
    subst h1
    have := h.nd
    simp only [List.map_cons, List.nodup_cons] at this
    exact this.1 (List.mem_map.2 ⟨e', he', rfl⟩)

theorem MSpec.pairIndep {items : List CopySrc} {dn : List Name} (h : MSpec items dn) :
    PairIndep (allOps dn items) := by
  intro x hx y hy hxy hsx
  obtain ⟨e, he, hxe⟩ := mem_allOps.1 hx
  obtain ⟨e', he', hye⟩ := mem_allOps.1 hy
  by_cases hb : e.base = e'.base
  · have := base_inj h.nd he he' hb
    subst this
    exact (h.spec e he).pairIndep x hxe y hye hxy hsx
  · obtain ⟨rx, mx, _, _, ex⟩ := (h.spec e he).char x hxe
    obtain ⟨ry, my, _, _, ey⟩ := (h.spec e' he').char y hye
    right
    refine ⟨plainPath (dn ++ [e.base] ++ rx), plainPath (dn ++ [e'.base] ++ ry), by rw [ex, headOp_target],
      by rw [ey, headOp_target], plainPath_namesOnly _, plainPath_namesOnly _, ?_, ?_, ?_⟩
    · left
      simp only [plainPath_names]
      exact unrel_append (sibling_unrel dn hb) (sibling_unrel dn (Ne.symm hb)) rx ry
    · intro s hs
      rw [ex] at hs
      obtain ⟨e1, _, _⟩ := headOp_srcOf _ _ _ _ hs
      subst e1
      simp only [plainPath_names]
      exact ⟨plainPath_namesOnly _, unrel_append (h.un e he e' he').1 (h.un e he e' he').2 _ _⟩
    · intro s hs
      rw [ey] at hs
      obtain ⟨e1, _, _⟩ := headOp_srcOf _ _ _ _ hs
      subst e1
      simp only [plainPath_names]
      exact ⟨plainPath_namesOnly _, unrel_append (h.un e' he' e he).1 (h.un e' he' e he).2 _ _⟩

/-- the concatenation can be walked in order as soon as `dn` is a directory -/
theorem todoOK_allOps (dn : List Name) : ∀ (items : List CopySrc), (∀ e ∈ items, e.node.Copyable 63) →
    ∀ D : List Name → Prop, D dn → TodoOK D (allOps dn items) := by
  intro items
  induction items with
  | nil => intro _ D _; rw [allOps_nil]; trivial
  | cons e r ih =>
    intro hc D hD
    rw [allOps_cons]
    apply todoOK_opsOf 63 e.node (hc e List.mem_cons_self) e.path.names (dn ++ [e.base]) D (allOps dn r)
    · rw [List.dropLast_concat]; exact hD
    · intro D' hsub
      exact ih (fun a ha => hc a (List.mem_cons_of_mem _ ha)) D' (hsub _ hD)

/-! ## The invariant of the concurrent runs -/

structure MOInv (fs0 : Fs) (items : List CopySrc) (dn : List Name) (s : St) : Prop where
  ok : s.failed = false
  wf : FsEq s.fs s.fs
  src : ∀ e ∈ items, s.fs.root.getAt e.path.names = some e.node
  base : DirsOf s.fs dn
  todo : TodoOK (DirsOf s.fs) s.todo
  qpar : ∀ x ∈ s.queue, ∀ t, opTarget x = some t → DirsOf s.fs t.names.dropLast
  pend : ∀ x ∈ s.queue ++ s.todo, ∀ t, opTarget x = some t → obsAt s.fs.root t.names = obsAt fs0.root t.names
  kinds : ∀ e ∈ items, ∀ rel n, e.node.getAt rel = some n →
    obsAt s.fs.root (dn ++ [e.base] ++ rel) = obsAt fs0.root (dn ++ [e.base] ++ rel) ∨
    obsAt s.fs.root (dn ++ [e.base] ++ rel) = some n.obs
  mem : ∀ x ∈ s.queue ++ s.todo, x ∈ allOps dn items
  nodup : (s.queue ++ s.todo).Nodup

/-- every initial target is head-compatible with its source tree, position by position -/
def MHead0 (fs0 : Fs) (items : List CopySrc) (dn : List Name) : Prop :=
  ∀ e ∈ items, Head0 fs0 e.node (dn ++ [e.base])

theorem MOInv.init {items : List CopySrc} {dn : List Name} (h : MSpec items dn)
    (fs : Fs) (hwf : FsEq fs fs) (hsn : ∀ e ∈ items, fs.root.getAt e.path.names = some e.node)
    (hdd : DirsOf fs dn) : MOInv fs items dn (L0.init fs (allOps dn items)) := by
  refine ⟨rfl, hwf, hsn, hdd, todoOK_allOps dn items h.cop _ hdd, ?_, ?_, ?_, ?_, ?_⟩
  · intro x hx; cases hx
  · intro x _ t _; rfl
  · intro e _ rel n _; exact .inl rfl
  · intro x hx; simpa [L0.init] using hx
  · simpa [L0.init] using h.nodup

theorem MOInv.not_link {fs0 : Fs} {items : List CopySrc} {dn : List Name} {s : St}
    (H0 : MHead0 fs0 items dn) (hinv : MOInv fs0 items dn s) {e : CopySrc} (he : e ∈ items)
    {rel : List Name} {n : Node} (hg : e.node.getAt rel = some n) (hnl : n.isLink = false) (tg : RPath) :
    s.fs.root.getAt (dn ++ [e.base] ++ rel) ≠ some (.link tg) := by
  intro hgl
  rw [getAt_link_iff] at hgl
  rcases hinv.kinds e he rel n hg with hk | hk
  · rw [hk] at hgl
    have := H0 e he rel n hg
    rw [hgl] at this
    exact headOK_link_false this
  · rw [hk] at hgl
    cases n <;> simp [Node.obs, Node.isLink] at hgl hnl

theorem MOInv.noLinkAbove {fs0 : Fs} {items : List CopySrc} {dn : List Name} {s : St}
    (H0 : MHead0 fs0 items dn) (hinv : MOInv fs0 items dn s) {e : CopySrc} (he : e ∈ items)
    {rel : List Name} {n : Node} (hg : e.node.getAt rel = some n) :
    NoLinkAbove s.fs.root (dn ++ [e.base] ++ rel) := by
  intro p hp hne tg hgl
  by_cases hT : dn ++ [e.base] <+: p
  · obtain ⟨s', hs'⟩ := hT
    subst hs'
    obtain ⟨u, hu⟩ := (List.prefix_append_right_inj (dn ++ [e.base])).1 hp
    subst hu
    have hu0 : u ≠ [] := by
      intro h0; apply hne; rw [h0, List.append_nil]
    obtain ⟨es, hes⟩ := getAt_proper_prefix_dir hg hu0
    exact hinv.not_link H0 he hes rfl tg hgl
  · have hpT : p <+: dn ++ [e.base] := by
      rcases List.prefix_or_prefix_of_prefix hp (List.prefix_append (dn ++ [e.base]) rel) with h1 | h1
      · exact h1
      · exact absurd h1 hT
    have hpne : p ≠ dn ++ [e.base] := fun e => hT (e ▸ List.prefix_refl _)
    have hpd := prefix_dropLast_of_ne hpT hpne
    rw [List.dropLast_concat] at hpd
    obtain ⟨es, hes⟩ := hinv.base
    obtain ⟨es', hes'⟩ := getAt_prefix_dir hes hpd
    rw [hes'] at hgl
    cases hgl

/-- one pending operation, executed: it succeeds; the sources of ALL items stay exact; directories stay
directories; only the observation at its own target changes -/
theorem MOInv.exec_one {fs0 : Fs} {items : List CopySrc} {dn : List Name} {s : St}
    (h : MSpec items dn) (H0 : MHead0 fs0 items dn) (c : Cfg) (hn : c.noClobber = false)
    (hinv : MOInv fs0 items dn s) {x : Op} (hxm : x ∈ allOps dn items)
    (hpar : ∀ t, opTarget x = some t → DirsOf s.fs t.names.dropLast)
    (hpend : ∀ t, opTarget x = some t → obsAt s.fs.root t.names = obsAt fs0.root t.names) :
    ∃ g', execOp s.fs c x = some g' ∧ FsEq g' g' ∧
      (∀ e ∈ items, g'.root.getAt e.path.names = some e.node) ∧
      (∀ p, DirsOf s.fs p → DirsOf g' p) ∧
      (∀ t, x = .mkdir t → DirsOf g' t.names) ∧
      (∀ y ∈ allOps dn items, x ≠ y → ∀ t, opTarget y = some t →
        obsAt g'.root t.names = obsAt s.fs.root t.names) ∧
      (∀ e ∈ items, ∀ rel n, e.node.getAt rel = some n →
        obsAt g'.root (dn ++ [e.base] ++ rel) = obsAt fs0.root (dn ++ [e.base] ++ rel) ∨
        obsAt g'.root (dn ++ [e.base] ++ rel) = some n.obs) := by
  obtain ⟨e, he, rel, m, hg, hl, ex⟩ := h.char hxm
  have htgt : opTarget x = some (plainPath (dn ++ [e.base] ++ rel)) := by rw [ex, headOp_target]
  have hpar' : DirsOf s.fs (dn ++ [e.base] ++ rel).dropLast := by
    have := hpar _ htgt
    rwa [plainPath_names] at this
  have hobs : obsAt s.fs.root (dn ++ [e.base] ++ rel) = obsAt fs0.root (dn ++ [e.base] ++ rel) := by
    have := hpend _ htgt
    rwa [plainPath_names] at this
  have hhok : HeadOK (obsAt s.fs.root (dn ++ [e.base] ++ rel)) m := by
    rw [hobs]; exact H0 e he rel m hg
  obtain ⟨g', hx, P⟩ := exec_due_over (h.spec e he) c hn s.fs hinv.wf x rel m hg hl ex (hinv.src e he) hpar' hhok
  have hlu : NoLinkUpto s.fs.root (dn ++ [e.base] ++ rel) := by
    intro p hp tg hgl
    by_cases hpe : p = dn ++ [e.base] ++ rel
    · subst hpe
      rw [getAt_link_iff, hobs] at hgl
      have h0 := H0 e he rel m hg
      rw [hgl] at h0
      exact headOK_link_false h0
    · exact hinv.noLinkAbove H0 he hg p hp hpe tg hgl
  have hF := (execOp_plain s.fs g' c x (dn ++ [e.base] ++ rel) htgt hlu hx).1
  refine ⟨g', hx, P.wf, ?_, P.dirs hhok, ?_, ?_, ?_⟩
  · intro e' he'
    have u := unrel_append (h.un e' he' e he).1 (h.un e' he' e he).2 [] rel
    rw [List.append_nil] at u
    rw [hF _ u.2 u.1]
    exact hinv.src e' he'
  · intro t ht
    exact P.made t (ex ▸ ht)
  · intro y hy hxy t ht
    exact P.frame _ (h.tgt_ne hy hxy he ex hg ht)
  · intro e' he' rel' n' hg'
    by_cases heq : dn ++ [e'.base] ++ rel' = dn ++ [e.base] ++ rel
    · obtain ⟨h1, h2⟩ := h.tgt_eq_inv he he' heq
      subst h1; subst h2
      rw [hg] at hg'
      injection hg' with hg'
      subst hg'
      exact .inr P.here
    · rw [P.frame _ heq]
      exact hinv.kinds e' he' rel' n' hg'

theorem MOInv.step {fs0 : Fs} {items : List CopySrc} {dn : List Name}
    (h : MSpec items dn) (H0 : MHead0 fs0 items dn) (c : Cfg) (hn : c.noClobber = false)
    (s s1 : St) (l : Label) (hinv : MOInv fs0 items dn s) (hstep : L0.step c s l = some s1) :
    MOInv fs0 items dn s1 := by
  have hok := hinv.ok
  have htodo := hinv.todo
  have hqpar := hinv.qpar
  have hpend := hinv.pend
  have hmem := hinv.mem
  have hnd := hinv.nodup
  cases l with
  | walk =>
    simp only [L0.step, hok, Bool.false_eq_true, if_false] at hstep
    split at hstep
    · cases hstep
    · next op r htd =>
      rw [htd] at htodo hpend hmem hnd
      have hopmem : op ∈ allOps dn items := hmem op (by simp)
      have hnd' := List.nodup_append.1 hnd
      have hnd'' := List.nodup_cons.1 hnd'.2.1
      split at hstep
      · -- executed by the walker
        obtain ⟨g', hx, hwf', hsrc', hdirs, hmade, hfr, hk'⟩ := hinv.exec_one h H0 c hn hopmem
          (fun t ht => htodo.1 t ht) (fun t ht => hpend op (by simp) t ht)
        rw [hx] at hstep
        cases hstep
        have hne : ∀ y ∈ s.queue ++ r, op ≠ y := by
          intro y hy hoy
          subst hoy
          rcases List.mem_append.1 hy with hy | hy
          · exact hnd'.2.2 op hy op List.mem_cons_self rfl
          · exact hnd''.1 hy
        refine ⟨rfl, hwf', hsrc', hdirs _ hinv.base, ?_, ?_, ?_, hk', ?_, ?_⟩
        · refine TodoOK.mono _ _ _ ?_ htodo.2
          rintro p (hp | ⟨t, ht, hpt⟩)
          · exact hdirs p hp
          · rw [hpt]; exact hmade t ht
        · intro y hy t ht
          exact hdirs _ (hqpar y hy t ht)
        · intro y hy t ht
          have hy' : y ∈ s.queue ++ op :: r := by
            rcases List.mem_append.1 hy with hy | hy
            · exact List.mem_append_left _ hy
            · exact List.mem_append_right _ (List.mem_cons_of_mem _ hy)
          show obsAt g'.root t.names = _
          rw [hfr y (hmem y hy') (hne y hy) t ht]
          exact hpend y hy' t ht
        · intro y hy
          apply hmem y
          rcases List.mem_append.1 hy with hy | hy
          · exact List.mem_append_left _ hy
          · exact List.mem_append_right _ (List.mem_cons_of_mem _ hy)
        · show (s.queue ++ r).Nodup
          rw [List.nodup_append]
          exact ⟨hnd'.1, hnd''.2, fun a ha b hb => hnd'.2.2 a ha b (List.mem_cons_of_mem _ hb)⟩
      · next hsync =>
        cases hstep
        have hsync' : isSync op = false := by simpa using hsync
        refine ⟨rfl, hinv.wf, hinv.src, hinv.base, ?_, ?_, ?_, hinv.kinds, ?_, ?_⟩
        · refine TodoOK.mono _ _ _ ?_ htodo.2
          rintro p (hp | ⟨t, ht, _⟩)
          · exact hp
          · rw [ht] at hsync'; cases hsync'
        · intro y hy t ht
          rcases List.mem_append.1 hy with hy | hy
          · exact hqpar y hy t ht
          · have : y = op := by simpa using hy
            subst this
            exact htodo.1 t ht
        · show ∀ y ∈ (s.queue ++ [op]) ++ r, _
          simpa using hpend
        · show ∀ y ∈ (s.queue ++ [op]) ++ r, y ∈ allOps dn items
          simpa using hmem
        · show ((s.queue ++ [op]) ++ r).Nodup
          simpa using hnd
  | exec i =>
    simp only [L0.step] at hstep
    split at hstep
    · next a hq =>
      obtain ⟨qpre, qpost, hq1, hq2⟩ := eraseIdx_split s.queue i a hq
      rw [hq2] at hstep
      rw [hq1] at hqpar hpend hmem hnd
      have hamem : a ∈ allOps dn items := hmem a (by simp)
      obtain ⟨g', hx, hwf', hsrc', hdirs, _, hfr, hk'⟩ := hinv.exec_one h H0 c hn hamem
        (fun t ht => hqpar a (by simp) t ht) (fun t ht => hpend a (by simp) t ht)
      rw [hx] at hstep
      cases hstep
      have hsub : ((qpre ++ qpost) ++ s.todo).Sublist ((qpre ++ a :: qpost) ++ s.todo) := by
        apply List.Sublist.append_right
        apply List.Sublist.append_left
        exact List.sublist_cons_self ..
      have hnd1 := (List.nodup_append.1 hnd).1
      have hnd2 := List.nodup_append.1 hnd1
      have hnd3 := List.nodup_cons.1 hnd2.2.1
      have hne : ∀ y ∈ (qpre ++ qpost) ++ s.todo, a ≠ y := by
        intro y hy hay
        subst hay
        rcases List.mem_append.1 hy with hy | hy
        · rcases List.mem_append.1 hy with hy | hy
          · exact hnd2.2.2 a hy a List.mem_cons_self rfl
          · exact hnd3.1 hy
        · exact (List.nodup_append.1 hnd).2.2 a (by simp) a hy rfl
      refine ⟨hok, hwf', hsrc', hdirs _ hinv.base, TodoOK.mono _ _ _ hdirs htodo, ?_, ?_, hk', ?_, ?_⟩
      · intro y hy t ht
        have hy' : y ∈ qpre ++ a :: qpost := by
          rcases List.mem_append.1 hy with hy | hy
          · exact List.mem_append_left _ hy
          · exact List.mem_append_right _ (List.mem_cons_of_mem _ hy)
        exact hdirs _ (hqpar y hy' t ht)
      · intro y hy t ht
        have hy' := hsub.subset hy
        show obsAt g'.root t.names = _
        rw [hfr y (hmem y hy') (hne y hy) t ht]
        exact hpend y hy' t ht
      · exact fun y hy => hmem y (hsub.subset hy)
      · exact hnd.sublist hsub
    · cases hstep

theorem MOInv.run {fs0 : Fs} {items : List CopySrc} {dn : List Name}
    (h : MSpec items dn) (H0 : MHead0 fs0 items dn) (c : Cfg) (hn : c.noClobber = false) :
    ∀ (ls : List Label) (s s' : St), MOInv fs0 items dn s → L0.run c s ls = some s' → MOInv fs0 items dn s' := by
  intro ls
  induction ls with
  | nil => intro s s' hinv hr; cases hr; exact hinv
  | cons l ls ih =>
    intro s s' hinv hr
    simp only [L0.run] at hr
    split at hr
    · next s1 hs1 => exact ih s1 s' (MOInv.step h H0 c hn s s1 l hinv hs1) hr
    · cases hr

/-! ## What the invariant gives at the moment an operation is handed over -/

theorem MOInv.plains {fs0 : Fs} {items : List CopySrc} {dn : List Name} {s : St}
    (h : MSpec items dn) (H0 : MHead0 fs0 items dn) (hinv : MOInv fs0 items dn s) :
    ∀ x ∈ allOps dn items, Plains s.fs x := by
  intro x hx
  obtain ⟨e, he, rel, m, hg, hl, ex⟩ := h.char hx
  refine ⟨?_, ?_⟩
  · intro t ht
    rw [ex, headOp_target] at ht
    have := Option.some.inj ht
    subst this
    rw [plainPath_names]
    refine ⟨hinv.noLinkAbove H0 he hg, ?_⟩
    intro hnl p hp tg hgl
    by_cases hpe : p = dn ++ [e.base] ++ rel
    · subst hpe
      rw [ex, headOp_isLinkOp] at hnl
      exact hinv.not_link H0 he hg hnl tg hgl
    · exact hinv.noLinkAbove H0 he hg p hp hpe tg hgl
  · intro sp hs
    rw [ex] at hs
    obtain ⟨e1, _, hml⟩ := headOp_srcOf _ _ _ _ hs
    subst e1
    rw [plainPath_names]
    apply noLinkUpto_of_getAt (x := m) _ hml
    rw [Node.getAt_append, hinv.src e he]; exact hg

theorem MOInv.goodAll {fs0 : Fs} {items : List CopySrc} {dn : List Name} {s : St}
    (h : MSpec items dn) (H0 : MHead0 fs0 items dn) (hinv : MOInv fs0 items dn s)
    (op : Op) (r : List Op) (htd : s.todo = op :: r) : GoodAll (allOps dn items) s.fs op := by
  refine ⟨?_, hinv.plains h H0⟩
  have hopmem : op ∈ allOps dn items := hinv.mem op (by rw [htd]; simp)
  obtain ⟨e, he, rel, m, hg, hl, ex⟩ := h.char hopmem
  have hsp := h.spec e he
  have htgt : opTarget op = some (plainPath (dn ++ [e.base] ++ rel)) := by rw [ex, headOp_target]
  have htodo := hinv.todo
  rw [htd] at htodo
  refine ⟨?_, ⟨plainPath (dn ++ [e.base] ++ rel), htgt, ?_, ?_, ?_, ?_⟩, ?_⟩
  · obtain ⟨es, hes⟩ := hinv.base
    obtain ⟨es', hes'⟩ := getAt_prefix_dir hes List.nil_prefix
    simp only [getAt_nil, Option.some.injEq] at hes'
    rw [hes']; rfl
  · refine ⟨rfl, rfl, (plainPath_namesOnly _).2.2, ?_⟩
    rw [plainPath_names]
    intro p hp tg hgl
    by_cases hpe : p = dn ++ [e.base] ++ rel
    · subst hpe
      have := hinv.pend op (by rw [htd]; simp) _ htgt
      rw [plainPath_names] at this
      rw [getAt_link_iff, this] at hgl
      have h0 := H0 e he rel m hg
      rw [hgl] at h0
      exact headOK_link_false h0
    · exact hinv.noLinkAbove H0 he hg p hp hpe tg hgl
  · rw [plainPath_names]
    intro h0
    exact hsp.tne (List.append_eq_nil_iff.1 h0).1
  · rw [plainPath_names]
    simp only [List.length_append]
    have := hsp.lenT
    simp only [List.length_append] at this
    omega
  · exact htodo.1 _ htgt
  · intro sp hs
    rw [ex] at hs
    obtain ⟨e1, _, hml⟩ := headOp_srcOf _ _ _ _ hs
    subst e1
    have hsm : s.fs.root.getAt (e.path.names ++ rel) = some m := by
      rw [Node.getAt_append, hinv.src e he]; exact hg
    refine ⟨⟨rfl, rfl, (plainPath_namesOnly _).2.2, ?_⟩, ?_, ?_⟩
    · rw [plainPath_names]; exact noLinkUpto_of_getAt hsm hml
    · rw [plainPath_names]
      simp only [List.length_append]
      have := hsp.lenS
      omega
    · rw [plainPath_names]; exact ⟨m, hsm⟩

/-! ## The sequential execution of the concatenation -/

/-- the `execOps` analogue of `runSources_overlay_inv`: the operations of all remaining items, run in order from a
state `g` that still holds every remaining source tree, where `dn` is a directory and the remaining targets are as in
the initial tree `root0` -/
theorem execAll_overlay_inv (c : Cfg) (hn : c.noClobber = false)
    (root0 : Node) (hw0 : root0.WF) (dn : List Name) (hdl : dn.length + 1 + 63 < 256) :
    ∀ (items : List CopySrc) (g : Fs), FsEq g g →
      (∃ es, g.root.getAt dn = some (.dir es)) →
      (items.map (·.base)).Nodup →
      (∀ e ∈ items, g.root.getAt e.path.names = some e.node ∧ e.node.Copyable 63 ∧
        e.path.names.length + 63 < 256) →
      (∀ e ∈ items, ∀ e' ∈ items,
        ¬ e.path.names <+: dn ++ [e'.base] ∧ ¬ dn ++ [e'.base] <+: e.path.names) →
      (∀ e ∈ items, g.root.getAt (dn ++ [e.base]) = root0.getAt (dn ++ [e.base])) →
      (∀ e ∈ items, Compatible (root0.getAt (dn ++ [e.base])) e.node) →
      ∃ fs', execOps g c (allOps dn items) = ⟨.ok, fs'⟩ ∧
        FsEq fs' { g with root := overlayAll root0 dn items g.root } := by
  intro items
  induction items with
  | nil =>
    intro g hwf _ _ _ _ _ _
    exact ⟨g, rfl, hwf⟩
  | cons e rest ih =>
    intro g hwf hdd hnd hsrc hun hag hcomp
    obtain ⟨es, hes⟩ := hdd
    obtain ⟨hsn, hcop, hl⟩ := hsrc e List.mem_cons_self
    have hue := hun e List.mem_cons_self e List.mem_cons_self
    have hage := hag e List.mem_cons_self
    simp only [List.map_cons, List.nodup_cons] at hnd
    -- the first item
    have hexec : ∀ rest' : List Op,
        execOps g c (opsOf e.node e.path.names (dn ++ [e.base]) ++ rest') =
          execOps { g with root := placeAt g.root (dn ++ [e.base]) (g.root.getAt (dn ++ [e.base])) e.node } c rest' :=
      fun rest' => exec_overlay c hn 63 e.node hcop g e.path.names dn e.base es rest' hsn hes (hwf.2.1 dn es hes)
        (fun x hx => subtree_WF hwf.2.1 hx) (by rw [hage]; exact hcomp e List.mem_cons_self) hue.1 hue.2 hl hdl
    have hrun : execOps g c (opsOf e.node e.path.names (dn ++ [e.base])) =
        ⟨.ok, { g with root := placeAt g.root (dn ++ [e.base]) (g.root.getAt (dn ++ [e.base])) e.node }⟩ := by
      have := hexec []
      rw [List.append_nil] at this
      rw [this]
      rfl
    have hwf1 := execOps_wf c _ g _ hwf hrun
    obtain ⟨es1, hes1⟩ := placeAt_parent g.root dn e.base es (g.root.getAt (dn ++ [e.base])) e.node hes
    -- the remaining items, from the state it leaves
    obtain ⟨fs', hr', heq'⟩ := ih _ hwf1 ⟨es1, hes1⟩ hnd.2
      (by
        intro e' he'
        obtain ⟨a3, a5, a6⟩ := hsrc e' (List.mem_cons_of_mem _ he')
        have u := hun e' (List.mem_cons_of_mem _ he') e List.mem_cons_self
        refine ⟨?_, a5, a6⟩
        show (placeAt g.root (dn ++ [e.base]) (g.root.getAt (dn ++ [e.base])) e.node).getAt e'.path.names = _
        rw [placeAt_getAt_unrelated _ _ _ _ _ u.2 u.1]
        exact a3)
      (fun a ha b hb => hun a (List.mem_cons_of_mem _ ha) b (List.mem_cons_of_mem _ hb))
      (by
        intro e' he'
        have hne : e.base ≠ e'.base := by
          intro h
          apply hnd.1
          rw [h]
          exact List.mem_map.2 ⟨e', he', rfl⟩
        show (placeAt g.root (dn ++ [e.base]) (g.root.getAt (dn ++ [e.base])) e.node).getAt (dn ++ [e'.base]) = _
        rw [placeAt_getAt_unrelated _ _ _ _ _ (sibling_unrel dn hne) (sibling_unrel dn (Ne.symm hne))]
        exact hag e' (List.mem_cons_of_mem _ he'))
      (fun a ha => hcomp a (List.mem_cons_of_mem _ ha))
    refine ⟨fs', by rw [allOps_cons, hexec]; exact hr', ?_⟩
    -- the state it leaves is the overlay up to the order of entries
    have hsame : SameObs (placeAt g.root (dn ++ [e.base]) (g.root.getAt (dn ++ [e.base])) e.node)
        (g.root.setAt (dn ++ [e.base]) (Node.overlay (root0.getAt (dn ++ [e.base])) e.node)) := by
      rw [← hage]
      exact sameObs_placeAt g.root dn e.base es hes _ e.node
    refine FsEq.trans heq' ⟨rfl, heq'.2.2.1, ?_, overlayAll_sameObs root0 dn rest _ _ hsame⟩
    apply overlayAll_WF root0 dn (e :: rest) g.root hwf.2.1
    intro e' he'
    obtain ⟨a3, a5, _⟩ := hsrc e' he'
    exact overlay_WF 63 e'.node a5 (subtree_WF hwf.2.1 a3) _ (fun x hx => subtree_WF hw0 hx)

/-! ## The set-up under the hypotheses of `multi_overlay` -/

/-- the walker's lists, computed in the INITIAL file system with the walker's fixed fuel, concatenated -/
abbrev multiOps (fs : Fs) (c : Cfg) (dest : RPath) (items : List CopySrc) : List Op :=
  items.flatMap fun e => walkEntry fs c none e.path (plainPath (dest.names ++ [e.base])) walkFuel [] []

theorem multi_setup (fs : Fs) (c : Cfg) (dest : RPath) (items : List CopySrc) (fuel : Nat)
    (hd : c.dereference = false) (hn : c.noClobber = false)
    (hwf : FsEq fs fs)
    (hdd : ∃ es, fs.root.getAt dest.names = some (.dir es))
    (hfuel : fuel < walkFuel)
    (hsrc : ∀ e ∈ items, PlainTarget fs e.path ∧ e.path.fileName = some e.base ∧
      fs.root.getAt e.path.names = some e.node ∧ e.node.Copyable fuel ∧ e.path.names.length + walkFuel < 256)
    (hnd : (items.map (·.base)).Nodup)
    (hun : ∀ e ∈ items, ∀ e' ∈ items,
      ¬ e.path.names <+: dest.names ++ [e'.base] ∧ ¬ dest.names ++ [e'.base] <+: e.path.names)
    (hcomp : ∀ e ∈ items, Compatible (fs.root.getAt (dest.names ++ [e.base])) e.node)
    (hlen : dest.names.length + 1 + walkFuel < 256) :
    multiOps fs c dest items = allOps dest.names items ∧
    MSpec items dest.names ∧ MHead0 fs items dest.names ∧
    MOInv fs items dest.names (L0.init fs (allOps dest.names items)) ∧
    ∃ fs', execOps fs c (allOps dest.names items) = ⟨.ok, fs'⟩ ∧
      FsEq fs' { fs with root := overlayAll fs.root dest.names items fs.root } := by
  have hw : walkFuel = 64 := rfl
  rw [hw] at hfuel hlen
  have hcop : ∀ e ∈ items, e.node.Copyable 63 := fun e he => copyable_mono (hsrc e he).2.2.2.1 (by omega)
  have hls : ∀ e ∈ items, e.path.names.length + 63 < 256 := by
    intro e he
    have := (hsrc e he).2.2.2.2
    rw [hw] at this
    omega
  have hspec : MSpec items dest.names := by
    refine ⟨hcop, ?_, hun, hnd⟩
    intro e he
    refine ⟨mem_opsOf 63 e.node (hcop e he) _ _, (hun e he e he).1, (hun e he e he).2, by simp, hls e he, ?_⟩
    simp only [List.length_append, List.length_cons, List.length_nil]
    omega
  have H0 : MHead0 fs items dest.names := by
    intro e he rel m hg
    have := headOK_of_compatible rel (fs.root.getAt (dest.names ++ [e.base])) e.node m (hcomp e he) hg
    unfold obsAt
    rw [Node.getAt_append]
    exact this
  refine ⟨?_, hspec, H0, MOInv.init hspec fs hwf (fun e he => (hsrc e he).2.2.1) hdd, ?_⟩
  · -- the shape of each walk
    apply flatMap_congr_mem
    intro e he
    obtain ⟨hp, _, hsn, _, _⟩ := hsrc e he
    have hpe := plainTarget_eq fs e.path hp
    have hnl : e.node.isLink = false := by
      cases hnode : e.node with
      | link t => exact absurd (hnode ▸ hsn) (hp.2.2.2 _ (List.prefix_refl _) t)
      | _ => rfl
    have h1 : fs.root.getAt (e.path.names ++ []) = some e.node := by simpa using hsn
    have h2 : e.node.isLink = true → ([] : List Name) ≠ [] := fun h => by rw [hnl] at h; cases h
    have h3 : e.path.names.length + ([] : List Name).length + 63 < 256 := by
      simp only [List.length_nil]
      have := hls e he
      omega
    have hshape := walk_shape fs c hd e.path.names (dest.names ++ [e.base]) (.inl hn) 63 e.node (hcop e he) [] []
      h1 h2 h3
    rw [← hpe] at hshape
    simp only [List.append_nil] at hshape
    rw [walkFuel_eq]
    exact hshape
  · exact execAll_overlay_inv c hn fs.root hwf.2.1 dest.names (by omega) items fs hwf hdd hnd
      (fun e he => ⟨(hsrc e he).2.2.1, hcop e he, hls e he⟩) hun (fun _ _ => rfl) hcomp

end Xcp
