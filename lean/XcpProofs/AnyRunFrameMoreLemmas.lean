import XcpProofs.AnyRunFrameLemmas
import XcpProofs.GiConcLemmas
/-! # Lemmas for `AnyRunFrameMore`: the frame of every reachable state, with `--dereference` and with `--gitignore`

* `FInv.step_of` / `FInv.run_of` / `FsInv.execOps_of`: the run-level part of `AnyRunFrameLemmas`, from the single fact
  that a successful operation of the list keeps `FsInv`.
* `FrameSpecN`: the static facts for a list WITHOUT link operations (`-L` never creates a link).  Pairwise
  independence is not needed then — and is not available: under `-L` an operation may read from a place inside the
  target region — because a successful operation on a plain target creates no symbolic link (`Frame.links`), so
  `Plains` carries over as it is (`FsInv.execN`).
* `plains_init_gen`: no symbolic link at or above a target or source initially, for a list described through a tree
  `E` (the pruned tree under `--gitignore`) whose leaves are found at the corresponding places below the source. -/
namespace Xcp

open L0

/-! ## The run-level part, from one preservation fact -/

theorem FsInv.execOps_of {fs0 : Fs} {ops : List Op} {P : List Name → Prop} (c : Cfg)
    (hexec : ∀ (g g' : Fs) (x : Op), x ∈ ops → FsInv fs0 ops P g → execOp g c x = some g' → FsInv fs0 ops P g') :
    ∀ (l : List Op), (∀ x ∈ l, x ∈ ops) → ∀ g : Fs, FsInv fs0 ops P g → FsInv fs0 ops P (Xcp.execOps g c l).fs := by
  intro l
  induction l with
  | nil => intro _ g hg; exact hg
  | cons op r ih =>
    intro hl g hg
    simp only [Xcp.execOps]
    cases hx : execOp g c op with
    | none => exact hg
    | some g' =>
      exact ih (fun x hx' => hl x (List.mem_cons_of_mem _ hx')) g' (hexec g g' op (hl op List.mem_cons_self) hg hx)

theorem FInv.step_of {fs0 : Fs} {ops : List Op} {P : List Name → Prop} (c : Cfg)
    (hexec : ∀ (g g' : Fs) (x : Op), x ∈ ops → FsInv fs0 ops P g → execOp g c x = some g' → FsInv fs0 ops P g')
    (s s1 : St) (l : Label) (hinv : FInv fs0 ops P s) (hstep : L0.step c s l = some s1) : FInv fs0 ops P s1 := by
  obtain ⟨hfs, hmem⟩ := hinv
  cases l with
  | walk =>
    simp only [L0.step] at hstep
    cases hf : s.failed with
    | true => simp [hf] at hstep
    | false =>
      simp only [hf, Bool.false_eq_true, if_false] at hstep
      cases htd : s.todo with
      | nil => simp [htd] at hstep
      | cons op r =>
        simp only [htd] at hstep
        have hopm : op ∈ ops := hmem op (by rw [htd]; simp)
        have hmem' : ∀ x ∈ s.queue ++ r, x ∈ ops := by
          intro x hx
          apply hmem x
          rw [htd]
          simp only [List.mem_append, List.mem_cons] at hx ⊢
          rcases hx with hx | hx
          · exact .inl hx
          · exact .inr (.inr hx)
        cases hsy : isSync op with
        | true =>
          simp only [hsy, if_true] at hstep
          cases hx : execOp s.fs c op with
          | none =>
            simp only [hx, Option.some.injEq] at hstep
            subst hstep
            exact ⟨hfs, fun x hx' => hmem x (by
              simp only [List.append_nil] at hx'
              exact List.mem_append_left _ hx')⟩
          | some fs' =>
            simp only [hx, Option.some.injEq] at hstep
            subst hstep
            exact ⟨hexec _ _ op hopm hfs hx, hmem'⟩
        | false =>
          simp only [hsy, Bool.false_eq_true, if_false, Option.some.injEq] at hstep
          subst hstep
          refine ⟨hfs, ?_⟩
          intro x hx
          apply hmem x
          rw [htd]
          simp only [List.mem_append, List.mem_cons, List.not_mem_nil, or_false] at hx ⊢
          rcases hx with (hx | hx) | hx
          · exact .inl hx
          · exact .inr (.inl hx)
          · exact .inr (.inr hx)
  | exec i =>
    simp only [L0.step] at hstep
    cases hq : s.queue[i]? with
    | none => simp [hq] at hstep
    | some op =>
      simp only [hq] at hstep
      have hopq : op ∈ s.queue := List.mem_iff_getElem?.2 ⟨i, hq⟩
      have hopm : op ∈ ops := hmem op (List.mem_append_left _ hopq)
      have hmem' : ∀ x ∈ s.queue.eraseIdx i ++ s.todo, x ∈ ops := by
        intro x hx
        apply hmem x
        simp only [List.mem_append] at hx ⊢
        rcases hx with hx | hx
        · exact .inl (List.mem_of_mem_eraseIdx hx)
        · exact .inr hx
      cases hx : execOp s.fs c op with
      | none =>
        simp only [hx, Option.some.injEq] at hstep
        subst hstep
        exact ⟨hfs, hmem'⟩
      | some fs' =>
        simp only [hx, Option.some.injEq] at hstep
        subst hstep
        exact ⟨hexec _ _ op hopm hfs hx, hmem'⟩

theorem FInv.run_of {fs0 : Fs} {ops : List Op} {P : List Name → Prop} (c : Cfg)
    (hexec : ∀ (g g' : Fs) (x : Op), x ∈ ops → FsInv fs0 ops P g → execOp g c x = some g' → FsInv fs0 ops P g') :
    ∀ (ls : List Label) (s s' : St), FInv fs0 ops P s → L0.run c s ls = some s' → FInv fs0 ops P s' := by
  intro ls
  induction ls with
  | nil =>
    intro s s' hinv hr
    simp only [L0.run, Option.some.injEq] at hr
    subst hr
    exact hinv
  | cons l ls ih =>
    intro s s' hinv hr
    simp only [L0.run] at hr
    split at hr
    · next s1 hs1 => exact ih s1 s' (FInv.step_of c hexec s s1 l hinv hs1) hr
    · cases hr

/-! ## Lists without link operations -/

/-- `FrameSpec` without pairwise independence, for a list none of whose operations creates a symbolic link -/
structure FrameSpecN (fs0 : Fs) (ops : List Op) (P : List Name → Prop) : Prop where
  char : ∀ x ∈ ops, ∃ t, opTarget x = some (plainPath t) ∧ t ≠ [] ∧ (∀ s, srcOf x = some s → NamesOnly s) ∧
    ∀ q, P q → ¬ t <+: q ∧ (q <+: t → obsAt fs0.root q ≠ none)
  nolink : ∀ x ∈ ops, isLinkOp x = false
  root : P []
  rootDir : fs0.root.isDir = true

theorem FsInv.isDirN {fs0 : Fs} {ops : List Op} {P : List Name → Prop} {g : Fs} (h : FrameSpecN fs0 ops P)
    (hinv : FsInv fs0 ops P g) : g.root.isDir = true := by
  have h0 := hinv.frame [] h.root
  have hr := h.rootDir
  unfold obsAt at h0
  simp only [getAt_nil, Option.map_some, Option.some.injEq] at h0
  cases hg : g.root <;> cases hf : fs0.root <;> simp [hg, hf, Node.obs, Node.isDir] at h0 hr ⊢

/-- a successful operation of a list without link operations keeps the invariant: it creates no symbolic link -/
theorem FsInv.execN {fs0 : Fs} {ops : List Op} {P : List Name → Prop} (h : FrameSpecN fs0 ops P) (c : Cfg)
    (g g' : Fs) (x : Op) (hx : x ∈ ops) (hinv : FsInv fs0 ops P g) (he : execOp g c x = some g') :
    FsInv fs0 ops P g' := by
  obtain ⟨t, htgt, htne, hsrcs, hP⟩ := h.char x hx
  have hop : OpPlain g x (plainPath t).names :=
    opPlain_of_plains htgt (plainPath_namesOnly _) hsrcs (hinv.plains x hx)
  have hF : Frame g g' x (plainPath t).names :=
    exec_frame c hop (by rw [plainPath_names]; exact htne) (hinv.isDirN h) hinv.wf.2.1 he
  -- no new link
  have claim : ∀ q tg, g'.root.getAt q = some (.link tg) → g.root.getAt q = some (.link tg) := by
    intro q tg hq
    rw [getAt_link_iff] at hq ⊢
    rcases hF.links q tg hq with h1 | ⟨h1, _⟩
    · exact h1
    · rw [h.nolink x hx] at h1; cases h1
  refine ⟨wf_exec hinv.wf he, ?_, ?_⟩
  · intro y hy
    obtain ⟨p1, p2⟩ := hinv.plains y hy
    refine ⟨?_, ?_⟩
    · intro t' ht'
      obtain ⟨a1, a2⟩ := p1 t' ht'
      exact ⟨fun p hp hne tg hg => a1 p hp hne tg (claim p tg hg),
        fun hnl p hp tg hg => a2 hnl p hp tg (claim p tg hg)⟩
    · intro s hs p hp tg hg
      exact p2 s hs p hp tg (claim p tg hg)
  · rw [plainPath_names] at hF
    intro q hq
    obtain ⟨h1, h2⟩ := hP q hq
    rw [← hinv.frame q hq]
    apply hF.out q h1
    by_cases hqt : q <+: t
    · right
      rw [hinv.frame q hq]
      exact h2 hqt
    · exact .inl hqt

/-! ## No symbolic link at or above a target or source, initially -/

/-- the list is described through a tree `E`: every operation is the entry operation of a node of `E`, reading from
`cp`; a leaf of `E` is found at that place in `g`; the target base is link-free and absent or without links below -/
theorem plains_init_gen {ops : List Op} {E : Node} {T : List Name} (g : Fs)
    (hchar : ∀ x ∈ ops, ∃ rel m cp, E.getAt rel = some m ∧ x = headOp m cp (T ++ rel) ∧
      (m.isDir = false → m.isLink = false → g.root.getAt cp = some m))
    (hlT : NoLinkUpto g.root T)
    (hpl : ∀ x0, g.root.getAt T = some x0 → PlainBelow x0) :
    ∀ x ∈ ops, Plains g x := by
  intro x hx
  obtain ⟨rel, m, cp, _, ex, hlf⟩ := hchar x hx
  have hup : NoLinkUpto g.root (T ++ rel) := by
    intro p hp tg hgl
    by_cases hT' : T <+: p
    · obtain ⟨q, hq⟩ := hT'
      subst hq
      cases hy : g.root.getAt T with
      | none => rw [getAt_append_none _ _ _ hy] at hgl; cases hgl
      | some y =>
        rw [Node.getAt_append, hy] at hgl
        have := (hpl y hy q _ hgl).1
        cases this
    · have hpT : p <+: T := by
        rcases List.prefix_or_prefix_of_prefix hp (List.prefix_append T rel) with h1 | h1
        · exact h1
        · exact absurd h1 hT'
      exact hlT p hpT tg hgl
  refine ⟨?_, ?_⟩
  · intro t ht
    rw [ex, headOp_target] at ht
    have := Option.some.inj ht
    subst this
    rw [plainPath_names]
    exact ⟨hup.above, fun _ => hup⟩
  · intro sp hs
    rw [ex] at hs
    obtain ⟨e, hmd, hml⟩ := headOp_srcOf _ _ _ _ hs
    subst e
    rw [plainPath_names]
    exact noLinkUpto_of_getAt (hlf hmd hml) hml

/-- the operations of a sourced tree (`-L`), with everything not at or below the target base protected -/
theorem frameSpecN_deref (fs0 : Fs) (s : SNode) (T : List Name) (d : Nat) (hcop : s.erase.Copyable d)
    (hne : T ≠ []) (hroot : fs0.root.isDir = true)
    (hpar : ∃ es, fs0.root.getAt T.dropLast = some (.dir es)) :
    FrameSpecN fs0 (opsOfS s T) (fun q => ¬ T <+: q) where
  char := by
    intro x hx
    obtain ⟨rel, m, cp, _, _, ex, _⟩ := mem_opsOfS d s hcop T x hx
    refine ⟨T ++ rel, by rw [ex, headOp_target], fun h0 => hne (List.append_eq_nil_iff.1 h0).1, ?_, ?_⟩
    · intro sp hs
      rw [ex] at hs
      obtain ⟨e1, _, _⟩ := headOp_srcOf _ _ _ _ hs
      rw [e1]; exact plainPath_namesOnly _
    · intro q hq
      refine ⟨fun hp => hq ((List.prefix_append T rel).trans hp), ?_⟩
      intro hqt
      have hqT : q <+: T := by
        rcases List.prefix_or_prefix_of_prefix hqt (List.prefix_append T rel) with h1 | h1
        · exact h1
        · exact absurd h1 hq
      have hne' : q ≠ T := fun e => hq (e ▸ List.prefix_refl _)
      obtain ⟨es, hes⟩ := hpar
      obtain ⟨y, hy⟩ := getAt_prefix_some hes (prefix_dropLast_of_ne hqT hne')
      exact obsAt_ne_none hy
  nolink := by
    intro x hx
    obtain ⟨rel, m, cp, hg, _, ex, _⟩ := mem_opsOfS d s hcop T x hx
    rw [ex, headOp_isLinkOp]
    -- the erased tree has no link
    have key : ∀ (q : List Name) (s : SNode) (y : Node), s.erase.getAt q = some y → y.isLink = false := by
      intro q
      induction q with
      | nil =>
        intro s y h
        simp only [getAt_nil, Option.some.injEq] at h
        subst h
        cases s <;> rfl
      | cons a q' ih =>
        intro s y h
        cases s with
        | file cp k => simp [SNode.erase, getAt_nondir _ _ _ (rfl : (Node.file k).isDir = false)] at h
        | special cp k dv =>
          simp [SNode.erase, getAt_nondir _ _ _ (rfl : (Node.special k dv).isDir = false)] at h
        | dir cp es =>
          simp only [SNode.erase] at h
          obtain ⟨es', ch, he, hc, hy⟩ := Node.getAt_cons_some h
          simp only [Node.dir.injEq] at he
          subst he
          -- the child is the erasure of a child
          have hch : ∀ (l : List (Name × SNode)), entGet (eraseL l) a = some ch → ∃ c' : SNode, ch = c'.erase := by
            intro l
            induction l with
            | nil => intro h0; simp [eraseL, entGet] at h0
            | cons kv r ihl =>
              obtain ⟨k, v⟩ := kv
              intro h0
              simp only [eraseL, entGet] at h0
              split at h0
              · exact ⟨v, (Option.some.inj h0).symm⟩
              · exact ihl h0
          obtain ⟨c', hc'⟩ := hch es hc
          subst hc'
          exact ih c' y hy
    exact key rel s m hg
  root := fun hp => hne (List.prefix_nil.1 hp)
  rootDir := hroot

end Xcp
