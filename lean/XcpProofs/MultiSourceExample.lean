import XcpProofs.MultiSource
/-! # Non-vacuity of the multi-source theorem

A concrete instance satisfying every hypothesis of `multi_overlay` at once.  The root holds
`A` = { file `x` (content 1), link `l` → "x" }, `B` = { directory `sub` = { file `y` (content 2) }, fifo `p` } and
`D` = { `A` = { file `x` (content 9), file `old` (content 7) } }; the run is `xcp -r /A /B /D`: the target `/D/A`
exists and is merged into, the target `/D/B` is absent. -/
namespace Xcp.MultiSourceExample

open Xcp

def nA : Name := [65]
def nB : Name := [66]
def nD : Name := [68]
def nx : Name := [120]
def nl : Name := [108]
def nsub : Name := [115, 117, 98]
def ny : Name := [121]
def np : Name := [112]
def nold : Name := [111, 108, 100]

def subN : Node := .dir [(ny, .file 2)]
def nodeA : Node := .dir [(nx, .file 1), (nl, .link ⟨false, [.name nx], false⟩)]
def nodeB : Node := .dir [(nsub, subN), (np, .special .fifo 0)]
def nodeDA : Node := .dir [(nx, .file 9), (nold, .file 7)]
def nodeD : Node := .dir [(nA, nodeDA)]
def rootN : Node := .dir [(nA, nodeA), (nB, nodeB), (nD, nodeD)]
def fs0 : Fs := ⟨rootN, []⟩
def c0 : Cfg := {}
def dest0 : RPath := plainPath [nD]
def itemA : CopySrc := ⟨plainPath [nA], nA, nodeA⟩
def itemB : CopySrc := ⟨plainPath [nB], nB, nodeB⟩
def items0 : List CopySrc := [itemA, itemB]

/-- the expected result: `/D/A` has `x` with the new content, `old` kept, `l` added; `/D/B` is the `B` tree -/
def expectedRoot : Node :=
  .dir [(nA, nodeA), (nB, nodeB),
    (nD, .dir [(nA, .dir [(nx, .file 1), (nold, .file 7), (nl, .link ⟨false, [.name nx], false⟩)]), (nB, nodeB)])]

/-! ## Well-formedness -/

theorem entGet_mem {es : Entries} {n : Name} {x : Node} (h : entGet es n = some x) : (n, x) ∈ es := by
  induction es with
  | nil => simp [entGet] at h
  | cons kv r ih =>
    obtain ⟨k, w⟩ := kv
    simp only [entGet] at h
    split at h
    · next hk => injection h with h; subst h; subst hk; exact List.mem_cons_self
    · exact List.mem_cons_of_mem _ (ih h)

theorem WF_of_entries (es : Entries) (hnd : (es.map (·.1)).Nodup) (hch : ∀ e ∈ es, e.2.WF) : (Node.dir es).WF := by
  rw [WF_dir]
  exact ⟨hnd, fun n x hx => hch (n, x) (entGet_mem hx)⟩

theorem subN_WF : subN.WF := by
  apply WF_of_entries
  · decide
  · intro e he
    simp only [List.mem_cons, List.not_mem_nil, or_false] at he
    subst he; exact WF_nondir _ rfl

theorem nodeA_WF : nodeA.WF := by
  apply WF_of_entries
  · decide
  · intro e he
    simp only [List.mem_cons, List.not_mem_nil, or_false] at he
    rcases he with he | he <;> subst he <;> exact WF_nondir _ rfl

theorem nodeB_WF : nodeB.WF := by
  apply WF_of_entries
  · decide
  · intro e he
    simp only [List.mem_cons, List.not_mem_nil, or_false] at he
    rcases he with he | he <;> subst he
    · exact subN_WF
    · exact WF_nondir _ rfl

theorem nodeDA_WF : nodeDA.WF := by
  apply WF_of_entries
  · decide
  · intro e he
    simp only [List.mem_cons, List.not_mem_nil, or_false] at he
    rcases he with he | he <;> subst he <;> exact WF_nondir _ rfl

theorem nodeD_WF : nodeD.WF := by
  apply WF_of_entries
  · decide
  · intro e he
    simp only [List.mem_cons, List.not_mem_nil, or_false] at he
    subst he; exact nodeDA_WF

theorem rootN_WF : rootN.WF := by
  apply WF_of_entries
  · decide
  · intro e he
    simp only [List.mem_cons, List.not_mem_nil, or_false] at he
    rcases he with he | he | he <;> subst he
    · exact nodeA_WF
    · exact nodeB_WF
    · exact nodeD_WF

theorem fs0_wf : FsEq fs0 fs0 := ⟨rfl, rootN_WF, rootN_WF, SameObs.refl _⟩

/-! ## Reading the instance -/

theorem getA : fs0.root.getAt [nA] = some nodeA := by rfl
theorem getB : fs0.root.getAt [nB] = some nodeB := by rfl
theorem getD : fs0.root.getAt [nD] = some nodeD := by rfl

theorem namesOnly (ns : List Name) : ∀ c ∈ (plainPath ns).comps, ∃ n, c = .name n := by
  intro c hc
  simp only [plainPath, List.mem_map] at hc
  obtain ⟨n, _, hn⟩ := hc
  exact ⟨n, hn.symm⟩

theorem dest0_plain : PlainTarget fs0 dest0 :=
  ⟨rfl, rfl, namesOnly _, noLinkUpto_of_getAt (show fs0.root.getAt dest0.names = some nodeD from getD) rfl⟩

theorem itemA_plain : PlainTarget fs0 itemA.path :=
  ⟨rfl, rfl, namesOnly _, noLinkUpto_of_getAt (show fs0.root.getAt itemA.path.names = some nodeA from getA) rfl⟩

theorem itemB_plain : PlainTarget fs0 itemB.path :=
  ⟨rfl, rfl, namesOnly _, noLinkUpto_of_getAt (show fs0.root.getAt itemB.path.names = some nodeB from getB) rfl⟩

theorem nodeA_copyable : nodeA.Copyable 2 := by
  simp [nodeA, Node.Copyable, Node.Copyable.CopyableL, nx, nl]

theorem nodeB_copyable : nodeB.Copyable 2 := by
  simp [nodeB, subN, Node.Copyable, Node.Copyable.CopyableL, nsub, np]

theorem mem_items {e : CopySrc} (he : e ∈ items0) : e = itemA ∨ e = itemB := by
  simpa [items0] using he

/-! ## The hypotheses of `multi_overlay`, one by one -/

theorem h_src : ∀ e ∈ items0, PlainTarget fs0 e.path ∧ e.path.fileName = some e.base ∧
    fs0.root.getAt e.path.names = some e.node ∧ e.node.Copyable 2 ∧ e.path.names.length + walkFuel < 256 := by
  intro e he
  rcases mem_items he with rfl | rfl
  · exact ⟨itemA_plain, rfl, getA, nodeA_copyable, by decide⟩
  · exact ⟨itemB_plain, rfl, getB, nodeB_copyable, by decide⟩

theorem h_unrel : ∀ e ∈ items0, ∀ e' ∈ items0,
    ¬ e.path.names <+: dest0.names ++ [e'.base] ∧ ¬ dest0.names ++ [e'.base] <+: e.path.names := by
  intro e he e' he'
  rcases mem_items he with rfl | rfl <;> rcases mem_items he' with rfl | rfl <;> decide

theorem h_compat : ∀ e ∈ items0, Compatible (fs0.root.getAt (dest0.names ++ [e.base])) e.node := by
  intro e he
  rcases mem_items he with rfl | rfl <;> decide

/-- every hypothesis of `multi_overlay` holds of a concrete, non-trivial instance (an existing target that is merged
into, and an absent one) -/
theorem multi_hypotheses_satisfiable :
    ∃ (fs : Fs) (c : Cfg) (dest : RPath) (items : List CopySrc) (fuel : Nat),
      c.dereference = false ∧ c.noClobber = false ∧ c.gitignore = false ∧ c.noTargetDir = false ∧
      FsEq fs fs ∧
      PlainTarget fs dest ∧ (∃ es, fs.root.getAt dest.names = some (.dir es)) ∧
      fuel < walkFuel ∧
      (∀ e ∈ items, PlainTarget fs e.path ∧ e.path.fileName = some e.base ∧
        fs.root.getAt e.path.names = some e.node ∧ e.node.Copyable fuel ∧ e.path.names.length + walkFuel < 256) ∧
      (items.map (·.base)).Nodup ∧
      (∀ e ∈ items, ∀ e' ∈ items,
        ¬ e.path.names <+: dest.names ++ [e'.base] ∧ ¬ dest.names ++ [e'.base] <+: e.path.names) ∧
      (∀ e ∈ items, Compatible (fs.root.getAt (dest.names ++ [e.base])) e.node) ∧
      dest.names.length + 1 + walkFuel < 256 ∧
      items.length = 2 :=
  ⟨fs0, c0, dest0, items0, 2, rfl, rfl, rfl, rfl, fs0_wf, dest0_plain, ⟨_, getD⟩, by decide, h_src, by decide,
    h_unrel, h_compat, by decide, rfl⟩

/-! ## The theorem applied to the instance -/

/-- the overlay fold of the instance, evaluated -/
theorem overlayAll_instance : overlayAll fs0.root dest0.names items0 fs0.root = expectedRoot := by rfl

/-- `multi_overlay` on the instance: the run over both sources succeeds and ends (up to the order of directory
entries) in the expected tree -/
theorem multi_instance (texts : GiTexts) :
    ∃ fs', runSources fs0 c0 texts dest0 (items0.map (·.path)) = ⟨.ok, fs'⟩ ∧
      FsEq fs' { fs0 with root := expectedRoot } := by
  have h := multi_overlay fs0 c0 texts dest0 items0 2 rfl rfl rfl rfl fs0_wf dest0_plain ⟨_, getD⟩ (by decide)
    h_src (by decide) h_unrel h_compat (by decide)
  rw [overlayAll_instance] at h
  exact h

/-- the model itself, run on the instance, gives this very tree (here even with the same entry order) -/
example : (runSources fs0 c0 [] dest0 (items0.map (·.path))).exit = .ok := by decide
example : (runSources fs0 c0 [] dest0 (items0.map (·.path))).fs.root = expectedRoot := by rfl

end Xcp.MultiSourceExample
