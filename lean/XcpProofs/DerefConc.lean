import XcpProofs.DerefTree
import XcpProofs.MirrorConc
import XcpProofs.DerefConcLemmas
/-! # `--dereference`, fresh destination, EVERY interleaving

The sequential theorem `mirror_fresh_deref` (the destination receives the source tree seen through its links) composed
with the refinement theorem `L0.fs_run_refines_sequential`, as `MirrorConc` does for runs without `-L`: the operations the
walker emits under `-L` read from canonical places (which may lie anywhere in the namespace, outside the source tree) and
write below the fresh target; none of them can be made to fail by any interleaving, and every complete run of the
concurrent model ends with the dereferenced tree at the target. -/
namespace Xcp

open L0

/-- no interleaving can make an operation of a `-L` copy onto a fresh target fail, and every complete run ends with the
tree seen through the links at the target -/
theorem deref_fresh_concurrent_ok (fs : Fs) (c : Cfg) (hd : c.dereference = true) (hn : c.noClobber = false)
    (src tb : RPath) (s : SNode) (fuel : Nat)
    (hwf : FsEq fs fs)
    (hsrc : AbsNames src)
    (hder : derefS fs (fuel + 1) src.names [] = some s)
    (htb : PlainTarget fs tb) (hne : tb.names ≠ []) (habs : fs.root.getAt tb.names = none)
    (hpar : ∃ es, fs.root.getAt tb.names.dropLast = some (.dir es))
    (hlen : tb.names.length + fuel < 255)
    (ls : List Label) (st : St)
    (hrun : run c (init fs (walkEntry fs c none src tb (fuel + 1) [] [])) ls = some st) :
    st.failed = false ∧
    (final st = true → FsEq st.fs { fs with root := fs.root.setAt tb.names s.erase }) := by
  obtain ⟨fs', hex, heq⟩ := mirror_fresh_deref fs c hd hn src tb s fuel hwf hsrc hder htb hne habs hpar hlen
  obtain ⟨hshape, hspec, hnd, hinit⟩ := deref_setup fs c hd hn src tb s fuel hwf hsrc hder htb hne habs hpar hlen
  rw [hshape] at hrun hex
  have hok : st.failed = false := (DInv.run hspec c ls _ st hinit hrun).ok
  refine ⟨hok, fun hfin => ?_⟩
  have hand : ∀ (ls : List Label) (s' : St) (op : Op) (r : List Op),
      run c (init fs (opsOfS s tb.names)) ls = some s' →
      s'.failed = false → s'.todo = op :: r → isSync op = false →
      GoodAllD (opsOfS s tb.names) s'.fs op := by
    intro ls s' op r hr _ htd _
    exact (DInv.run hspec c ls _ s' hinit hr).goodAll hspec op r htd
  obtain ⟨f, hf, hfe⟩ := fs_run_refines_sequentialD c fs _ hwf hnd hspec.pairIndep hand ls st hrun hfin hok
  rw [execOps_seqExec c _ fs fs' hex] at hf
  injection hf with hf
  subst hf
  exact hfe.symm.trans heq

/-- the same in terms of the source node (`derefNode`), as `mirror_fresh_deref_node` -/
theorem deref_fresh_concurrent_node (fs : Fs) (c : Cfg) (hd : c.dereference = true) (hn : c.noClobber = false)
    (src tb : RPath) (srcNode m : Node) (fuel : Nat)
    (hwf : FsEq fs fs)
    (hsrc : AbsNames src) (hsn : fs.root.getAt src.names = some srcNode)
    (hcop : srcNode.Copyable fuel)
    (hder : derefNode fs srcNode src.names = some m)
    (htb : PlainTarget fs tb) (hne : tb.names ≠ []) (habs : fs.root.getAt tb.names = none)
    (hpar : ∃ es, fs.root.getAt tb.names.dropLast = some (.dir es))
    (hlen : src.names.length + fuel < 255 ∧ tb.names.length + fuel < 255)
    (ls : List Label) (st : St)
    (hrun : run c (init fs (walkEntry fs c none src tb (fuel + 1) [] [])) ls = some st) :
    st.failed = false ∧
    (final st = true → FsEq st.fs { fs with root := fs.root.setAt tb.names m }) := by
  have hmc := derefNode_copyable fs srcNode fuel src.names m hcop hder
  obtain ⟨s, hs, hse⟩ := derefS_of_derefNode fs fuel srcNode m src.names [] hsn hcop hder hmc (by omega)
  have h := deref_fresh_concurrent_ok fs c hd hn src tb s fuel hwf hsrc hs htb hne habs hpar hlen.2 ls st hrun
  rw [hse] at h
  exact h

end Xcp
