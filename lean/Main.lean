import XcpModel
/-! Line-protocol driver of the executable model: one request per line on stdin, one canonical answer
per line on stdout.  Anything unparsable is answered `bad-op` (never a default value). -/
open Xcp

def parseExtent (s : String) : Option Extent :=
  let (body, shared) :=
    if s.endsWith "s" then ((s.dropEnd 1).toString, true)
    else if s.endsWith "u" then ((s.dropEnd 1).toString, false) else (s, false)
  match body.splitOn "-" with
  | [a, b] => match a.toNat?, b.toNat? with
    | some x, some y => some ⟨x, y, shared⟩
    | _, _ => none
  | _ => none

def showExtent (e : Extent) : String := s!"{e.start}-{e.stop}{if e.shared then "s" else "u"}"

def parseAll {α} (f : String → Option α) : List String → Option (List α)
  | [] => some []
  | x :: r => match f x, parseAll f r with
    | some a, some as => some (a :: as)
    | _, _ => none

def showPairs (l : List (Nat × Nat)) : String := " ".intercalate (l.map fun p => s!"{p.1}+{p.2}")

def answer (line : String) : String :=
  match (line.trimAscii.toString.splitOn " ").filter (· ≠ "") with
  | "merge" :: rest =>
    match parseAll parseExtent rest with
    | some es =>
      match mergeGoChk none es with
      | some r => "ok " ++ " ".intercalate (r.map showExtent)
      | none => "panic"
    | none => "bad-op"
  | ["blocks", s, l, b] =>
    match s.toNat?, l.toNat?, b.toNat? with
    | some s, some l, some b => if b = 0 then "panic" else "ok " ++ showPairs (blocks s l b)
    | _, _, _ => "bad-op"
  | "pages" :: slots :: rest =>
    match slots.toNat?, parseAll parseExtent rest with
    | some n, some es =>
      match mapExtents (fiemapOf es n) (es.length + 2) with
      | some (some r) => "ok " ++ " ".intercalate (r.map showExtent)
      | some none => "unsupported"
      | none => "spin"
    | _, _ => "bad-op"
  | "segments" :: len :: rest =>
    match len.toNat?, parseAll parseExtent rest with
    | some n, some es =>
      let L : Layout := ⟨n, es.map fun e => (e.start, e.stop)⟩
      "ok " ++ " ".intercalate ((segmentsOf L.oracle n (n + 1) 0).map fun p => s!"{p.1}-{p.2}")
    | _, _ => "bad-op"
  | ["sparse", blk, sz] =>
    match blk.toNat?, sz.toNat? with
    | some b, some s => s!"ok {probablySparse b s}"
    | _, _ => "bad-op"
  | _ => "bad-op"

partial def loop (h : IO.FS.Stream) (out : IO.FS.Stream) : IO Unit := do
  let line ← h.getLine
  if line.isEmpty then return ()
  out.putStrLn (answer line)
  loop h out

def main : IO Unit := do
  let out ← IO.getStdout
  loop (← IO.getStdin) out
  out.flush
