import XcpModel
/-! Line-protocol driver of the executable model: one request per line on stdin, one canonical answer
per line on stdout.  Anything unparsable is answered `bad-op` (never a default value). -/
open Xcp

def parseExtent (s : String) : Option Extent :=
  let (body, shared) :=
    if s.endsWith "s" then ((s.dropEnd 1).toString, true)
    else if s.endsWith "u" then ((s.dropEnd 1).toString, false) else (s, false)
  match body.splitOn "-" with
  | [a, b] => match a.toNat?, b.toNat? with
    | some x, some y => some ⟨x, y, shared⟩
    | _, _ => none
  | _ => none

def showExtent (e : Extent) : String := s!"{e.start}-{e.stop}{if e.shared then "s" else "u"}"

def parseAll {α} (f : String → Option α) : List String → Option (List α)
  | [] => some []
  | x :: r => match f x, parseAll f r with
    | some a, some as => some (a :: as)
    | _, _ => none

def showPairs (l : List (Nat × Nat)) : String := " ".intercalate (l.map fun p => s!"{p.1}+{p.2}")

def parseErrno : String → Option Errno
  | "ENOENT" => some .ENOENT | "EEXIST" => some .EEXIST | "ENOTDIR" => some .ENOTDIR | "EISDIR" => some .EISDIR
  | "ELOOP" => some .ELOOP | "EINVAL" => some .EINVAL | "EIO" => some .EIO | "ENOSPC" => some .ENOSPC
  | "EACCES" => some .EACCES | "EPERM" => some .EPERM | "EMFILE" => some .EMFILE | "EROFS" => some .EROFS
  | "EXDEV" => some .EXDEV | "ENOSYS" => some .ENOSYS | "EOPNOTSUPP" => some .EOPNOTSUPP | "ETXTBSY" => some .ETXTBSY
  | "ENXIO" => some .ENXIO | "EINTR" => some .EINTR | "ENOTEMPTY" => some .ENOTEMPTY | "EBADF" => some .EBADF
  | "EFBIG" => some .EFBIG | "OTHER" => some .OTHER
  | _ => none

/-- `m<n>` = moved n bytes, `e<ERRNO>` = failed -/
def parseAns (s : String) : Option IoAns :=
  if s.startsWith "m" then (s.drop 1).toString.toNat?.map .moved
  else if s.startsWith "e" then (parseErrno (s.drop 1).toString).map .err
  else none

/-- the kernel of a replay: the `a`-th call gets the `a`-th recorded answer; past the end of the record
every call is answered in full (only reached when model and implementation already disagree) -/
def scriptKern (l : List IoAns) : Kern :=
  let arr := l.toArray
  fun a _ _ req => (arr[a]?).getD (.moved req)

def showSys : Sys → String
  | .cfr => "cfr" | .pread => "pread" | .pwrite => "pwrite" | .read => "read" | .writeAll => "writeall"

def showEv : Ev → String
  | .call s off req _ => s!"{showSys s}@{off}+{req}"
  | .copied n => s!"copied:{n}"

def showErrno (e : Errno) : String := (reprStr e).replace "Xcp.Errno." ""

def showStop : Stop → String
  | .ok n => s!"ok:{n}"
  | .fail (.os e) => s!"fail:{showErrno e}"
  | .fail .ended => "fail:ended"
  | .fail .shortWrite => "fail:shortwrite"
  | .fail .unsupported => "fail:unsupported"
  | .spin => "spin"

def showRun (r : Run) : String :=
  "ok " ++ " ".intercalate (r.evs.map showEv) ++ " | " ++ showStop r.stop

def parseBool : String → Option Bool
  | "1" => some true | "0" => some false | _ => none

def parseSegs (s : String) : Option (List (Nat × Nat)) :=
  if s = "-" then some [] else
  (parseAll parseExtent (s.splitOn ",")).map (·.map fun e => (e.start, e.stop))

def parseReflink : String → Option Reflink
  | "auto" => some .auto | "always" => some .always | "never" => some .never | _ => none

def parseClone (s : String) : Option CloneAns :=
  if s = "ok" then some .ok else (parseErrno s).map .err

def hexVal (c : Char) : Option Nat :=
  if '0' ≤ c ∧ c ≤ '9' then some (c.toNat - 48)
  else if 'a' ≤ c ∧ c ≤ 'f' then some (c.toNat - 87) else none

def parseHexList : List Char → Option (List UInt8)
  | [] => some []
  | a :: b :: r => match hexVal a, hexVal b, parseHexList r with
    | some x, some y, some t => some (UInt8.ofNat (x * 16 + y) :: t)
    | _, _, _ => none
  | _ => none

/-- `-` is the empty string, otherwise lower-case hex -/
def parseHex (s : String) : Option (List UInt8) := if s = "-" then some [] else parseHexList s.toList

def hexDigit (n : Nat) : Char := if n < 10 then Char.ofNat (48 + n) else Char.ofNat (87 + n)
def showHex (l : List UInt8) : String :=
  if l.isEmpty then "-" else String.ofList (l.flatMap fun b => [hexDigit (b.toNat / 16), hexDigit (b.toNat % 16)])

def parseMode : String → Option BackupMode
  | "none" => some .none | "auto" => some .auto | "numbered" => some .numbered | _ => none

def parseEntry (s : String) : Option (Name × List UInt8) :=
  match s.splitOn ":" with
  | [a, b] => match parseHex a, parseHex b with
    | some x, some y => some (x, y)
    | _, _ => none
  | _ => none

def parseOp (s : String) : Option (BackupMode × Name × List UInt8) :=
  match s.splitOn ":" with
  | [m, a, b] => match parseMode m, parseHex a, parseHex b with
    | some m, some x, some y => some (m, x, y)
    | _, _, _ => none
  | _ => none

def insertSorted (x : String) : List String → List String
  | [] => [x]
  | y :: r => if x ≤ y then x :: y :: r else y :: insertSorted x r
def sortStrings (l : List String) : List String := l.foldr insertSorted []

def showDir (d : Dir) : String :=
  " ".intercalate (sortStrings (d.map fun kv => showHex kv.1 ++ ":" ++ showHex kv.2))

def splitBar : List String → List String × List String
  | [] => ([], [])
  | "|" :: r => ([], r)
  | x :: r => let (a, b) := splitBar r; (x :: a, b)

def parseCfgTok (c : Cfg) (t : String) : Option Cfg :=
  match t with
  | "ownership" => some { c with ownership := true }
  | "noperms" => some { c with noPerms := true }
  | "notimestamps" => some { c with noTimestamps := true }
  | "fsync" => some { c with fsync := true }
  | "linux=1" => some { c with linux := true }
  | "linux=0" => some { c with linux := false }
  | "reflink=auto" => some { c with reflink := .auto }
  | "reflink=always" => some { c with reflink := .always }
  | "reflink=never" => some { c with reflink := .never }
  | _ => none

def parseCfg : Cfg → List String → Option Cfg
  | c, [] => some c
  | c, t :: r => match parseCfgTok c t with
    | some c' => parseCfg c' r
    | none => none

def parseFStep : String → Option FStep
  | "chown" => some .chown | "setxattrs" => some .setxattrs | "chmod" => some .chmod
  | "utimens" => some .utimens | "fsync" => some .fsync | _ => none

def parseFCall (t : String) : Option FCall :=
  match t.splitOn ":" with
  | ["create"] => some .create
  | ["data"] => some .data
  | ["trunc", n] => n.toNat?.map .truncate
  | ["clone", "1"] => some (.clone true)
  | ["clone", "0"] => some (.clone false)
  | ["fin", s] => (parseFStep s).map .fin
  | _ => none

/-- `k=v,k=v` in lower-case hex (`-` = empty value; the whole field `-` = no attributes), in listing order -/
def parseXattrs (s : String) : Option (List (Name × Bytes)) :=
  if s = "-" then some [] else
  parseAll (fun kv => match kv.splitOn "=" with
    | [k, v] => match parseHex k, parseHex v with
      | some k, some v => some (k, v)
      | _, _ => none
    | _ => none) (s.splitOn ",")

def showXattrs (l : List (Name × Bytes)) : String :=
  if l.isEmpty then "-" else ",".intercalate (l.map fun kv => s!"{showHex kv.1}={showHex kv.2}")

/-- `mode:uid:gid:mtime` or `mode:uid:gid:mtime:xattrs` -/
def parseMeta (t : String) : Option FMeta :=
  match t.splitOn ":" with
  | [m, u, g, t] => match m.toNat?, u.toNat?, g.toNat?, t.toNat? with
    | some m, some u, some g, some t => some ⟨m, u, g, t, []⟩
    | _, _, _, _ => none
  | [m, u, g, t, x] => match m.toNat?, u.toNat?, g.toNat?, t.toNat?, parseXattrs x with
    | some m, some u, some g, some t, some x => some ⟨m, u, g, t, x⟩
    | _, _, _, _, _ => none
  | _ => none

/-- Rust's `Path::components()` on raw bytes -/
def parseRPath (b : List UInt8) : RPath :=
  let isAbs := match b with | 47 :: _ => true | _ => false
  let parts := (Gi.splitSlash b).filter (· ≠ [])
  let comps := parts.zipIdx.filterMap fun (c, i) =>
    if c = [46] then (if i = 0 && !isAbs then some Comp.cur else none)
    else if c = [46, 46] then some Comp.parent
    else some (Comp.name c)
  let trail := match b.reverse with | 47 :: _ :: _ => true | 46 :: 47 :: _ => true | _ => false
  ⟨isAbs, comps, trail⟩

def absNames (b : List UInt8) : List Name := (Gi.splitSlash b).filter (· ≠ [])

def parseKind : String → Option FileKind
  | "fifo" => some .fifo | "sock" => some .socket | "chr" => some .chr | "blk" => some .blk | "other" => some .other
  | _ => none

def showKind : FileKind → String
  | .fifo => "fifo" | .socket => "sock" | .chr => "chr" | .blk => "blk" | .other => "other"
  | .file => "file" | .dir => "dir" | .symlink => "link"

def addTreeTok (root : Node) (t : String) : Option Node :=
  match t.splitOn ":" with
  | ["d", p] => (parseHex p).map fun p => root.setAt (absNames p) (.dir [])
  | ["f", p, id] => match parseHex p, id.toNat? with
    | some p, some id => some (root.setAt (absNames p) (.file id))
    | _, _ => none
  | ["l", p, t] => match parseHex p, parseHex t with
    | some p, some t => some (root.setAt (absNames p) (.link (parseRPath t)))
    | _, _ => none
  | ["s", p, k, r] => match parseHex p, parseKind k, r.toNat? with
    | some p, some k, some r => some (root.setAt (absNames p) (.special k r))
    | _, _, _ => none
  | _ => none

def buildTree : Node → List String → Option Node
  | root, [] => some root
  | root, t :: r => match addTreeTok root t with
    | some root' => buildTree root' r
    | none => none

def addOptTok (o : Opts) (t : String) : Option Opts :=
  match t.splitOn ":" with
  | ["r"] => some { o with cfg := { o.cfg with recursive := true } }
  | ["T"] => some { o with cfg := { o.cfg with noTargetDir := true } }
  | ["n"] => some { o with cfg := { o.cfg with noClobber := true } }
  | ["L"] => some { o with cfg := { o.cfg with dereference := true } }
  | ["gitignore"] => some { o with cfg := { o.cfg with gitignore := true } }
  | ["glob"] => some { o with glob := true }
  | ["force"] => some { o with force := true }
  | ["tdir", h] => (parseHex h).map fun b => { o with targetDir := some (parseRPath b) }
  | ["p", h] => (parseHex h).map fun b => { o with paths := o.paths ++ [parseRPath b] }
  | _ => none

def buildOpts : Opts → List String → Option Opts
  | o, [] => some o
  | o, t :: r => match addOptTok o t with
    | some o' => buildOpts o' r
    | none => none

def pathBytes (ns : List Name) : List UInt8 := ns.flatMap fun n => 47 :: n

partial def dumpNode (pre : List Name) : Node → List String
  | .file c => [s!"{showHex (pathBytes pre)}=f:{c}"]
  | .link t =>
    let txt : List UInt8 := (if t.abs then [47] else []) ++
      ((t.comps.map fun c => match c with | .cur => [46] | .parent => [46, 46] | .name n => n).intersperse [47]).flatten
    [s!"{showHex (pathBytes pre)}=l:{showHex txt}"]
  | .special k r => [s!"{showHex (pathBytes pre)}=s:{showKind k}:{r}"]
  | .dir es => (if pre.isEmpty then [] else [s!"{showHex (pathBytes pre)}=d"]) ++ es.flatMap fun (n, c) => dumpNode (pre ++ [n]) c

def showReject (r : Reject) : String := (reprStr r).replace "Xcp.Reject." ""

def parseGiText (t : String) : Option (Nat × List UInt8) :=
  match t.splitOn ":" with
  | [id, h] => match id.toNat?, parseHex h with
    | some id, some b => some (id, b)
    | _, _ => none
  | _ => none

def runScen (rest : List String) : String :=
  let (hd, r1) := splitBar rest
  let (treeT, r2) := splitBar r1
  let (optT, giT) := splitBar r2
  match hd with
  | [cwdH] =>
    match parseHex cwdH, buildTree (.dir []) treeT, buildOpts {} optT, parseAll parseGiText giT with
    | some cwd, some root, some o, some gi =>
      let fs : Fs := ⟨root, absNames cwd⟩
      let texts : GiTexts := gi
      let verdict := match validate fs o with | .error e => " reject=" ++ showReject e | .ok _ => ""
      let out := L1run fs o texts
      s!"exit={if out.exit == .ok then "ok" else "err"}{verdict} | " ++ " ".intercalate (sortStrings (dumpNode [] out.fs.root))
    | _, _, _, _ => "bad-op"
  | _ => "bad-op"

def answer (line : String) : String :=
  match (line.trimAscii.toString.splitOn " ").filter (· ≠ "") with
  | "merge" :: rest =>
    match parseAll parseExtent rest with
    | some es =>
      match mergeGoChk none es with
      | some r => "ok " ++ " ".intercalate (r.map showExtent)
      | none => "panic"
    | none => "bad-op"
  | ["blocks", s, l, b] =>
    match s.toNat?, l.toNat?, b.toNat? with
    | some s, some l, some b => if b = 0 then "panic" else "ok " ++ showPairs (blocks s l b)
    | _, _, _ => "bad-op"
  | "pages" :: slots :: rest =>
    match slots.toNat?, parseAll parseExtent rest with
    | some n, some es =>
      match mapExtents (fiemapOf es n) (es.length + 2) with
      | some (some r) => "ok " ++ " ".intercalate (r.map showExtent)
      | some none => "unsupported"
      | none => "spin"
    | _, _ => "bad-op"
  | "segments" :: len :: rest =>
    match len.toNat?, parseAll parseExtent rest with
    | some n, some es =>
      let L : Layout := ⟨n, es.map fun e => (e.start, e.stop)⟩
      "ok " ++ " ".intercalate ((segmentsOf L.oracle n (n + 1) 0).map fun p => s!"{p.1}-{p.2}")
    | _, _ => "bad-op"
  -- one parblock block job: `blockjob <linux> <off> <bytes> | answers…`
  | "blockjob" :: lx :: off :: bytes :: "|" :: anss =>
    match parseBool lx, off.toNat?, bytes.toNat?, parseAll parseAns anss with
    | some lx, some off, some bytes, some anss => showRun (blockJob (scriptKern anss) lx off bytes)
    | _, _, _, _ => "bad-op"
  -- one `copy_file_bytes(bytes)` call with both cursors at pos: `cfb <linux> <pos> <bytes> | answers…`
  | "cfb" :: lx :: pos :: bytes :: "|" :: anss =>
    match parseBool lx, pos.toNat?, bytes.toNat?, parseAll parseAns anss with
    | some lx, some pos, some bytes, some anss =>
      showRun (if lx then copyFileBytes (scriptKern anss) 0 pos bytes else copyFileBytesFallback (scriptKern anss) 0 pos bytes)
    | _, _, _, _ => "bad-op"
  -- parfile's copy of one file: `filecopy <linux> <len> <bsize> <sparse> <segs|-> | answers…`
  | "filecopy" :: lx :: len :: bs :: sp :: segs :: "|" :: anss =>
    match parseBool lx, len.toNat?, bs.toNat?, parseBool sp, parseSegs segs, parseAll parseAns anss with
    | some lx, some len, some bs, some sp, some segs, some anss =>
      if sp && lx then showRun (copySparse (scriptKern anss) (Layout.oracle ⟨len, segs⟩) bs len (len + 1) 0 0)
      else showRun (copyBytes (scriptKern anss) lx bs (len + 1) 0 0 len 0)
    | _, _, _, _, _, _ => "bad-op"
  -- what parblock queues for one file: `pbjobs <len> <bsize> <sparse> <extents…|unsupported>`
  | "pbjobs" :: len :: bs :: sp :: rest =>
    match len.toNat?, bs.toNat?, parseBool sp with
    | some len, some bs, some sp =>
      if bs = 0 then "panic" else
      match rest with
      | ["unsupported"] => "ok " ++ showPairs (parblockJobs len bs sp none)
      | _ => match parseAll parseExtent rest with
        | some es => "ok " ++ showPairs (parblockJobs len bs sp (some es))
        | none => "bad-op"
    | _, _, _ => "bad-op"
  -- reflink dispatch: `reflink <mode> <linux> <clone answer>` → issued? outcome
  | ["reflink", mode, lx, ans] =>
    match parseReflink mode, parseBool lx, parseClone ans with
    | some m, some lx, some a =>
      let r := tryReflink m lx a
      s!"ok issued={r.1} " ++ (match r.2 with | .cloned => "cloned" | .copy => "copy" | .failed => "failed")
    | _, _, _ => "bad-op"
  -- `isbk <base> <cand>` (hex names)
  | ["isbk", b, c] =>
    match parseHex b, parseHex c with
    | some b, some c => match isNumBackup b c with | some n => s!"ok some {n}" | none => "ok none"
    | _, _ => "bad-op"
  -- `bkhist <name:content>… | <mode:name:content>…` → final directory
  | "bkhist" :: rest =>
    let (ini, ops) := splitBar rest
    match parseAll parseEntry ini, parseAll parseOp ops with
    | some d, some h => "ok " ++ showDir (runHistory d h)
    | _, _ => "bad-op"
  -- `bksteps <mode> <name> <name:content>…` → the steps of one overwrite (kill-point enumeration)
  | "bksteps" :: m :: nm :: ini =>
    match parseMode m, parseHex nm, parseAll parseEntry ini with
    | some m, some nm, some d =>
      match copySteps d m nm [120] with
      | some l => "ok " ++ " ".intercalate (l.map fun
          | .rename a b => "rename:" ++ showHex a ++ ":" ++ showHex b
          | .createTrunc n => "create:" ++ showHex n
          | .fill n _ => "fill:" ++ showHex n)
      | none => "refused"
    | _, _, _ => "bad-op"
  -- `monitor <cfg tokens…> | <len> <calls…>`: the per-file trace monitor
  | "monitor" :: rest =>
    let (cf, r2) := splitBar rest
    match parseCfg {} cf, r2 with
    | some c, len :: calls =>
      match len.toNat?, parseAll parseFCall calls with
      | some len, some calls => s!"ok {monitorFile c len calls}"
      | _, _ => "bad-op"
    | _, _ => "bad-op"
  -- `finalise <cfg tokens…> | <src meta> <dst meta>` (mode:uid:gid:mtime) under Linux' chown
  | "finalise" :: rest =>
    let (cf, r2) := splitBar rest
    match parseCfg {} cf, r2 with
    | some c, [sm, dm] =>
      match parseMeta sm, parseMeta dm with
      | some smeta, some dmeta =>
        let r := finalise c smeta linuxChownFx dmeta
        if (sm.splitOn ":").length = 5 then s!"ok {r.mode}:{r.uid}:{r.gid}:{r.mtime}:{showXattrs r.xattrs}"
        else s!"ok {r.mode}:{r.uid}:{r.gid}:{r.mtime}"
      | _, _ => "bad-op"
    | _, _ => "bad-op"
  -- `node <kind> <mode> <rdev> <umask> <noclobber> <destexists> <destremovable>`
  | ["node", k, mode, rdev, um, nc, ex, rm] =>
    let kind : Option FileKind := match k with
      | "fifo" => some .fifo | "sock" => some .socket | "chr" => some .chr | "blk" => some .blk | "other" => some .other
      | "file" => some .file | "dir" => some .dir | "link" => some .symlink | _ => none
    match kind, mode.toNat?, rdev.toNat?, um.toNat?, parseBool nc, parseBool ex, parseBool rm with
    | some kind, some mode, some rdev, some um, some nc, some ex, some rm =>
      let r := specialProgram ⟨kind, mode, rdev⟩ um nc ex rm
      let calls := " ".intercalate (r.1.map fun | .probeDest => "probe" | .unlink => "unlink" | .mknod _ => "mknod")
      match r.2 with
      | some n => s!"ok {calls} | {k} {n.mode} {n.rdev}"
      | none => s!"fail {calls}"
    | _, _, _, _, _, _, _ => "bad-op"
  -- `errs <driver> <site>…` : exit class when exactly these steps fail
  | "errs" :: d :: sites =>
    let drv : Option Errs.Driver := match d with | "parfile" => some .parfile | "parblock" => some .parblock | _ => none
    let site (t : String) : Option Errs.Site := match t with
      | "walkerStat" => some .walkerStat | "walkerReaddir" => some .walkerReaddir | "walkerCanonicalize" => some .walkerCanonicalize
      | "walkerReadlink" => some .walkerReadlink | "walkerMkdir" => some .walkerMkdir | "walkerNoClobber" => some .walkerNoClobber
      | "walkerUnknownKind" => some .walkerUnknownKind | "openSrc" => some .openSrc | "fstatSrc" => some .fstatSrc
      | "sameFileStat" => some .sameFileStat | "backupReaddir" => some .backupReaddir | "backupRename" => some .backupRename
      | "createDst" => some .createDst | "truncateDst" => some .truncateDst | "cloneHard" => some .cloneHard
      | "sparseStat" => some .sparseStat | "fiemapHard" => some .fiemapHard | "seek" => some .seek | "dataCopy" => some .dataCopy
      | "finXattr" => some .finXattr | "finChown" => some .finChown | "finStat" => some .finStat | "finChmod" => some .finChmod
      | "finUtimens" => some .finUtimens | "finFsync" => some .finFsync | "symlink" => some .symlink
      | "specialProbeDest" => some .specialProbeDest | "specialStat" => some .specialStat | "specialUnlink" => some .specialUnlink
      | "specialMknod" => some .specialMknod | "destProbe" => some .destProbe | _ => none
    match drv, parseAll site sites with
    | some drv, some ss => if Errs.exitNonZero drv ss then "ok nonzero" else "ok zero"
    | _, _ => "bad-op"
  -- `updates <bsize> | <s<n>|c<n>|e>…` : the accounting monitor on a recorded stream, and what ChannelUpdater would deliver
  | "updates" :: b :: "|" :: toks =>
    let upd (t : String) : Option Update :=
      if t = "e" then some .error
      else if t.startsWith "s" then (t.drop 1).toString.toNat?.map .size
      else if t.startsWith "c" then (t.drop 1).toString.toNat?.map .copied
      else none
    match b.toNat?, parseAll upd toks with
    | some b, some us =>
      let d := if b = 0 then us else channelRun b 0 us
      s!"ok prefix={Status.prefixOk us} size={sumSize us} copied={sumCopied us} error={hasError us} delivered_prefix={Status.prefixOk d} delivered_copied={sumCopied d} delivered_size={sumSize d}"
    | _, _ => "bad-op"
  | "scen" :: rest => runScen rest
  -- `gimatch <hexline> <hexpath relative> <isdir>` : does this one pattern line match?
  | ["gimatch", l, p, d] =>
    match parseHex l, parseHex p, parseBool d with
    | some l, some p, some d => match Gi.parseLine l with
      | some pat => s!"ok {pat.matches (absNames p) d}"
      | none => "ok skip"
    | _, _, _ => "bad-op"
  | ["sparse", blk, sz] =>
    match blk.toNat?, sz.toNat? with
    | some b, some s => s!"ok {probablySparse b s}"
    | _, _ => "bad-op"
  | _ => "bad-op"

partial def loop (h : IO.FS.Stream) (out : IO.FS.Stream) : IO Unit := do
  let line ← h.getLine
  if line.isEmpty then return ()
  out.putStrLn (answer line)
  loop h out

def main : IO Unit := do
  let out ← IO.getStdout
  loop (← IO.getStdin) out
  out.flush
