import XcpProofs.Bytes
import XcpProofs.Blocks
import XcpProofs.Merge
import XcpProofs.Legal
import XcpProofs.Extents
import XcpProofs.Loops
import XcpProofs.BackupLemmas
import XcpProofs.Compose
