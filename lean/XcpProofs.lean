import XcpProofs.Bytes
import XcpProofs.Blocks
import XcpProofs.Merge
