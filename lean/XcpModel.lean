import XcpModel.Bytes
import XcpModel.Libfs
import XcpModel.Backup
import XcpModel.Feedback
import XcpModel.Pool
import XcpModel.Handle
import XcpModel.Node
