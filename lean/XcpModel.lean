import XcpModel.Bytes
import XcpModel.Libfs
import XcpModel.Backup
import XcpModel.Feedback
