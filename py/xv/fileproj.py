"""Projection of a sup trace onto the calls made on one destination file (the vocabulary of Xcp.FCall)."""
import os

WRITE_FLAGS = os.O_CREAT | os.O_TRUNC


def project(trace, dst):
    """-> list of (token, event) in entry order"""
    out = []
    for e in trace:
        s = e['sys']
        if e.get('fdpath') != dst and not (s in ('openat', 'open') and e.get('fdpath') == dst):
            continue
        if s in ('openat', 'open'):
            fl = e['a'][2] if s == 'openat' else e['a'][1]
            if e['ret'] >= 0 and (fl & os.O_TRUNC) and (fl & os.O_CREAT):
                out.append(('create', e))
        elif s == 'ftruncate':
            out.append((f"trunc:{e['a'][1]}", e))
        elif s == 'ficlone':
            out.append(('clone:1' if e['ret'] == 0 else 'clone:0', e))
        elif s in ('copy_file_range', 'pwrite64', 'write'):
            out.append(('data', e))
        elif s == 'fchown':
            out.append(('fin:chown', e))
        elif s == 'fsetxattr':
            out.append(('fin:setxattrs', e))
        elif s == 'fchmod':
            out.append(('fin:chmod', e))
        elif s == 'utimensat':
            out.append(('fin:utimens', e))
        elif s in ('fsync', 'fdatasync'):
            out.append(('fin:fsync', e))
    return out


def cfg_tokens(reflink='auto', ownership=False, no_perms=False, no_timestamps=False, fsync=False, linux=True):
    t = [f'reflink={reflink}', f'linux={1 if linux else 0}']
    if ownership: t.append('ownership')
    if no_perms: t.append('noperms')
    if no_timestamps: t.append('notimestamps')
    if fsync: t.append('fsync')
    return ' '.join(t)


def happens_before(a, b):
    """a returned before b was entered (sup's single counter ticks at every entry and exit)"""
    return a.get('x', a['n']) < b['n']
