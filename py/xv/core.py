"""Shared machinery of the checks: builds, Lean audit, sandboxes, evidence, findings, verdict."""
import hashlib, json, os, random, re, shutil, subprocess, sys, time

VERIF = '/verif'
REPO = '/repo'
BUILD = VERIF + '/.build'
LEAN = VERIF + '/lean'
REPO_TARGET = BUILD + '/repo-target'
HARNESS_TARGET = BUILD + '/harness-target'
HARNESS_FB_TARGET = BUILD + '/harness-fb-target'
XCP = REPO_TARGET + '/debug/xcp'
MODEL = LEAN + '/.lake/build/bin/xcpmodel'
SUP = BUILD + '/sup'
SCRATCH_ROOT = '/var/tmp'
ALLOWED_AXIOMS = {'propext', 'Classical.choice', 'Quot.sound'}

ENV = dict(os.environ, CARGO_NET_OFFLINE='true', RUST_BACKTRACE='0', LC_ALL='C')


class BuildError(Exception):
    pass


def sh(cmd, cwd=None, env=None, timeout=3600, check=False, input=None):
    p = subprocess.run(cmd, cwd=cwd, env=env or ENV, stdout=subprocess.PIPE, stderr=subprocess.STDOUT,
                       timeout=timeout, input=input, text=True, shell=isinstance(cmd, str))
    if check and p.returncode != 0:
        raise BuildError(f"command failed ({p.returncode}): {cmd}\n{p.stdout[-4000:]}")
    return p.returncode, p.stdout


def build_repo():
    """cargo build of /repo's *current working tree* (CLI, dev profile — the one the suite runs)."""
    os.makedirs(BUILD, exist_ok=True)
    env = dict(ENV, CARGO_TARGET_DIR=REPO_TARGET)
    sh(['cargo', 'build', '--offline', '--bin', 'xcp'], cwd=REPO, env=env, check=True)
    return XCP


def build_harness(fallback=False):
    """harness/: probes linking /repo/libfs and /repo/libxcp by path; harness-fb/: libfs without the Linux backend."""
    d = VERIF + ('/harness-fb' if fallback else '/harness')
    env = dict(ENV, CARGO_TARGET_DIR=HARNESS_FB_TARGET if fallback else HARNESS_TARGET)
    shutil.copyfile(REPO + '/Cargo.lock', d + '/Cargo.lock')
    sh(['cargo', 'build', '--offline'], cwd=d, env=env, check=True)
    return (HARNESS_FB_TARGET if fallback else HARNESS_TARGET) + '/debug'


def build_sup():
    src = VERIF + '/sup/sup.c'
    if not os.path.exists(SUP) or os.path.getmtime(SUP) < os.path.getmtime(src):
        sh(['gcc', '-O2', '-Wall', '-o', SUP, src], check=True)
    return SUP


def build_shim():
    """the LD_PRELOAD shim that makes FIEMAP answer with short, non-final pages (sup/fiemap_short.c)"""
    src = VERIF + '/sup/fiemap_short.c'
    so = os.path.dirname(SUP) + '/fiemap_short.so'
    if not os.path.exists(so) or os.path.getmtime(so) < os.path.getmtime(src):
        sh(['gcc', '-O2', '-Wall', '-shared', '-fPIC', '-o', so, src, '-ldl'], check=True)
    return so


def build_lean(targets):
    rc, out = sh(['lake', 'build'] + list(targets), cwd=LEAN)
    return rc == 0, out


# ---------------------------------------------------------------------------------------------
# Lean audit

FORBIDDEN = re.compile(r'\b(sorry|admit|native_decide|bv_decide|implemented_by|unsafe)\b|^\s*axiom\s|maxHeartbeats\s+0', re.M)


def strip_lean_comments(txt):
    out, i, depth, n = [], 0, 0, len(txt)
    while i < n:
        if txt.startswith('/-', i):
            depth += 1; i += 2; continue
        if depth and txt.startswith('-/', i):
            depth -= 1; i += 2; continue
        if depth:
            if txt[i] == '\n': out.append('\n')
            i += 1; continue
        if txt.startswith('--', i):
            while i < n and txt[i] != '\n': i += 1
            continue
        out.append(txt[i]); i += 1
    return ''.join(out)


def import_closure(mods):
    """Project-local modules reachable through `import` from the given modules."""
    seen, todo = [], list(mods)
    while todo:
        m = todo.pop()
        if m in seen:
            continue
        p = os.path.join(LEAN, m.replace('.', '/') + '.lean')
        if not os.path.exists(p):
            continue
        seen.append(m)
        for imp in re.findall(r'^import\s+(\S+)', open(p).read(), re.M):
            todo.append(imp)
    return seen


def audit_sources(pid):
    """No sorry/admit/axiom/native_decide/... outside comments in anything the property module or the driver imports."""
    bad = []
    for m in sorted(import_closure([f'XcpProps.{pid}', 'Main'])):
        p = os.path.join(LEAN, m.replace('.', '/') + '.lean')
        for mm in FORBIDDEN.finditer(strip_lean_comments(open(p).read())):
            bad.append(f"{p}: {mm.group(0).strip()}")
    return bad


def property_theorems(pid):
    """Obligations of a property = the theorems stated in XcpProps/<pid>.lean."""
    txt = strip_lean_comments(open(f'{LEAN}/XcpProps/{pid}.lean').read())
    ns = re.findall(r'^namespace\s+(\S+)', txt, re.M)
    prefix = (ns[0] + '.') if ns else ''
    return [prefix + m for m in re.findall(r'^theorem\s+(\S+)', txt, re.M)]


def check_proofs(pid, thorough=False):
    """Build the property module and print the axioms of each of its theorems.
    Returns dict(obligations, discharged, failed=[...], axioms={thm: [...]}, log)."""
    res = dict(obligations=0, discharged=0, failed=[], axioms={}, log='', theorems=[])
    bad = audit_sources(pid)
    res['modules'] = sorted(import_closure([f'XcpProps.{pid}']))
    ok, out = build_lean([f'XcpProps.{pid}', 'xcpmodel'])
    thms = property_theorems(pid)
    res['theorems'] = thms
    res['obligations'] = len(thms)
    if bad:
        res['failed'] += [f'forbidden construct: {b}' for b in bad]
    if not ok:
        res['failed'].append('lake build failed')
        res['log'] = out[-6000:]
        return res
    os.makedirs(BUILD + '/axioms', exist_ok=True)
    f = f'{BUILD}/axioms/{pid}.lean'
    with open(f, 'w') as fh:
        fh.write(f'import XcpProps.{pid}\n' + ''.join(f'#print axioms {t}\n' for t in thms))
    rc, out = sh(['lake', 'env', 'lean', f], cwd=LEAN)
    cur = None
    for m in re.finditer(r"'([^']+)' (depends on axioms: \[([^\]]*)\]|does not depend on any axioms)", out.replace('\n', ' ')):
        axs = [a.strip() for a in (m.group(3) or '').split(',') if a.strip()]
        res['axioms'][m.group(1)] = axs
    for t in thms:
        if t not in res['axioms']:
            res['failed'].append(f'{t}: not checked ({out[-300:]})')
        elif not set(res['axioms'][t]) <= ALLOWED_AXIOMS:
            res['failed'].append(f'{t}: axioms {res["axioms"][t]}')
        else:
            res['discharged'] += 1
    if thorough:
        rc, out = sh(['lake', 'env', 'leanchecker', f'XcpProps.{pid}'], cwd=LEAN, timeout=3600)
        res['leanchecker_rc'] = rc
        if rc != 0:
            res['failed'].append('leanchecker: ' + out[-500:])
    if bad:
        res['discharged'] = 0
    return res


# ---------------------------------------------------------------------------------------------
# model / probes as line-protocol servers

def ask(binary, lines, timeout=600, args=()):
    """Send request lines, get one answer line per request."""
    if not lines:
        return []
    p = subprocess.run([binary, *args], input='\n'.join(lines) + '\n', stdout=subprocess.PIPE, stderr=subprocess.PIPE,
                       text=True, timeout=timeout, env=ENV)
    out = p.stdout.split('\n')
    if out and out[-1] == '':
        out.pop()
    if len(out) != len(lines):
        raise BuildError(f'{binary}: {len(lines)} requests, {len(out)} answers (rc={p.returncode}) {p.stderr[-500:]}')
    return out


# ---------------------------------------------------------------------------------------------
# sandboxes

class Scratch:
    """Scratch directory on ext4 outside /repo and /verif, removed on exit."""
    def __init__(self, tag='x'):
        self.path = f'{SCRATCH_ROOT}/xcpv-{os.getpid()}-{tag}'

    def __enter__(self):
        shutil.rmtree(self.path, ignore_errors=True)
        os.makedirs(self.path)
        return self.path

    def __exit__(self, *a):
        sh(f'chmod -R u+rwx {self.path} 2>/dev/null; rm -rf {self.path}')


# ---------------------------------------------------------------------------------------------
# findings

def load_findings():
    with open(VERIF + '/KNOWN_FINDINGS.json') as fh:
        return json.load(fh)


# ---------------------------------------------------------------------------------------------
# context / verdict

class Ctx:
    def __init__(self, pid, tier, seed):
        self.pid, self.tier, self.seed = pid, tier, seed
        self.rng = random.Random((seed << 8) ^ int(hashlib.sha1(pid.encode()).hexdigest()[:8], 16))
        self.t0 = time.time()
        self.violations = []          # (kind, replay_path, text, no_input)
        self.known = []               # text lines
        self.cov = dict(evaluations=0, distinct_nontrivial=0, rule='', samples=[], obligations=0, discharged=0,
                        checker_cmd='', trusted_base=[], disagreements_checked=0, traces_validated_against_impl=0,
                        distribution={})
        self.assumptions = []
        self._distinct = set()
        self.findings = [f for f in load_findings()['findings'] if pid in f['properties']]
        self.quick = tier != 'thorough'

    # -- bookkeeping
    def count(self, key, n=1):
        d = self.cov['distribution']
        d[key] = d.get(key, 0) + n

    def case(self, signature, nontrivial=True, sample=None):
        self.cov['evaluations'] += 1
        if nontrivial:
            h = hashlib.sha1(repr(signature).encode()).hexdigest()
            if h not in self._distinct:
                self._distinct.add(h)
        if sample is not None and len(self.cov['samples']) < 6:
            self.cov['samples'].append(sample)

    def replay_path(self, name):
        d = f'{VERIF}/replays/{self.pid}'
        os.makedirs(d, exist_ok=True)
        return f'{d}/{name}'

    def write_replay(self, name, obj):
        p = self.replay_path(name)
        with open(p, 'w') as fh:
            if isinstance(obj, str):
                fh.write(obj)
            else:
                json.dump(obj, fh, indent=1, default=str)
        return p

    def violation(self, name, obj, text, no_input=False):
        """A property failure shown on a concrete input (or, with no_input, a broken proof/correspondence)."""
        if len(self.violations) >= 20:
            return
        p = self.write_replay(name, obj)
        self.violations.append((p, text, no_input))

    def known_finding(self, fid, text):
        line = f'{fid}: {text}'
        if line not in self.known:
            self.known.append(line)

    def open_finding(self, fid):
        for f in self.findings:
            if f['id'] == fid and f['status'] == 'open':
                return f
        return None

    # -- proofs
    def proofs(self):
        r = check_proofs(self.pid, thorough=not self.quick)
        self.cov['obligations'] = r['obligations']
        self.cov['discharged'] = r['discharged']
        self.cov['checker_cmd'] = (f'cd /verif/lean && lake build XcpProps.{self.pid} && lake env lean <(#print axioms of each theorem)'
                                   + ('' if self.quick else f' && lake env leanchecker XcpProps.{self.pid}'))
        self.cov['theorems'] = [dict(name=t, axioms=r['axioms'].get(t)) for t in r['theorems']]
        self.cov['trusted_base'] = [
            'Lean 4.33.0 kernel' + ('' if self.quick else ' (property module re-checked by leanchecker)'),
            'axioms: subset of {propext, Classical.choice, Quot.sound}; no native_decide/bv_decide/sorry/own axioms (audited by grep and #print axioms on this run)',
            'the hand-written Lean model XcpModel/*; tied to /repo only by the correspondence runs counted in this file',
        ]
        self.proof_result = r
        return r

    def finish(self):
        wall = time.time() - self.t0
        self.cov['distinct_nontrivial'] = len(self._distinct)
        pr = getattr(self, 'proof_result', None)
        if pr is not None and pr['failed'] and not any(not v[2] for v in self.violations):
            self.violation('proof-obligations.json', dict(property=self.pid, broken=pr['failed'], log=pr.get('log', '')),
                           'proof obligations no longer check: ' + '; '.join(pr['failed'])[:300], no_input=True)
        ev = dict(property_id=self.pid, tier='quick' if self.quick else 'thorough', seed=self.seed, level='proof',
                  coverage=self.cov, assumptions=self.assumptions, wall_s=round(wall, 2), violations=len(self.violations),
                  known_findings=self.known)
        os.makedirs(VERIF + '/evidence', exist_ok=True)
        with open(f'{VERIF}/evidence/{self.pid}.json', 'w') as fh:
            json.dump(ev, fh, indent=1, default=str)
        for k in self.known:
            print(f'KNOWN-FINDING: property={self.pid} {k}')
        for p, text, no_input in self.violations:
            print(f'# {text}')
            print(f'VIOLATION property={self.pid} replay={p}' + (' no-failing-input-found' if no_input else ''))
        print(f'{self.pid}: tier={ev["tier"]} seed={self.seed} obligations={self.cov["obligations"]} discharged={self.cov["discharged"]} '
              f'evaluations={self.cov["evaluations"]} distinct={self.cov["distinct_nontrivial"]} violations={len(self.violations)} '
              f'known={len(self.known)} wall={wall:.1f}s')
        return 1 if self.violations else 0
