"""Shared by C01 / C05 / C11 / C15 / C18: copy regular files through the real CLI under sup, check byte identity,
and replay every file's data-moving calls (with the kernel's real answers) through the Lean model."""
import errno, os, shutil
from . import core, scen, fsutil

ENAME = {v: k for k, v in scen.ERRNO.items()}
K = 4096


def ename(ret):
    return ENAME.get(-ret, 'OTHER')


def layout_of(data):
    length, segs = scen.data_bytes(data)
    return length, [(a, b) for a, b, _ in segs]


def gen_data(rng, size, sparse):
    """size bytes; sparse: alternate 4K-aligned data runs and holes >= 64K (so that st_blocks < size/512)."""
    if not sparse or size < 40 * K:
        return [('seg', size, rng.randrange(1, 1 << 20))] if size else []
    out, pos = [], 0
    lead_hole = rng.random() < 0.5
    while pos < size:
        if lead_hole or (out and out[-1][0] == 'seg'):
            n = min(size - pos, rng.choice([16, 32, 64, 256]) * K)
            out.append(('hole', n)); lead_hole = False
        else:
            n = min(size - pos, rng.choice([1, 1, 2, 3]) * K - (rng.randrange(K) if rng.random() < 0.2 else 0))
            out.append(('seg', n, rng.randrange(1, 1 << 20)))
        pos += n
    return out


class Case:
    pass


def setup_case(root, c):
    """S/<files>, optional prior D/<files>; returns list of (src_abs, dst_abs, data)."""
    for sub in ('S', 'D'):
        shutil.rmtree(os.path.join(root, sub), ignore_errors=True)
    tree = [dict(p='S', k='dir', mode=0o755)]
    for name, data in c.files:
        tree.append(dict(p='S/' + name, k='file', mode=0o644, data=data, sync=True))
    if c.prior not in ('absent', 'same-meta'):
        tree.append(dict(p='D', k='dir', mode=0o755))
        for name, data in c.files:
            ln = scen.data_bytes(data)[0]
            pl = max(0, ln - 1 - ln // 3) if c.prior == 'shorter' else ln + 1 + ln // 2 + (5 if c.prior == 'longer' else 2 * K * 40)
            tree.append(dict(p='D/' + name, k='file', mode=0o600, data=[('seg', pl, 999)], sync=True))
    if c.prior == 'same-meta':
        # what an earlier copy of an EARLIER version left: same length, same modification time, other bytes
        tree.append(dict(p='D', k='dir', mode=0o755))
        for name, data in c.files:
            ln = scen.data_bytes(data)[0]
            tree.append(dict(p='D/' + name, k='file', mode=0o600, data=[('seg', ln, 4242)] if ln else [], sync=True))
    scen.materialise(root, tree)
    if c.prior == 'same-meta':
        for name, _ in c.files:
            st = os.stat(f'{root}/S/{name}')
            os.utime(f'{root}/D/{name}', ns=(st.st_atime_ns, st.st_mtime_ns))
    return [(f'{root}/S/{name}', f'{root}/D/{name}', data) for name, data in c.files]


def argv_of(c):
    a = ['-r', '-T', '--driver', c.driver, '--workers', str(c.workers), '--reflink', c.reflink]
    if c.no_progress:
        a.append('--no-progress')
    else:
        a += ['--block-size', str(c.bsize)]
    a += list(c.extra)
    return a + ['S', 'D']


def eff_bsize(c):
    return (1 << 64) - 1 if c.no_progress else c.bsize


def script_for(calls, src, dst):
    """data-moving calls of one sequential copy -> (model answers, observed call tokens)."""
    ans, toks, i = [], [], 0
    while i < len(calls):
        e = calls[i]; s = e['sys']; ret = e['ret']
        if s == 'copy_file_range':
            toks.append(f"cfr@{e.get('off')}+{e['a'][4]}")
            ans.append(f'm{ret}' if ret >= 0 else 'e' + ename(ret))
        elif s == 'pread64':
            toks.append(f"pread@{e['a'][3]}+{e['a'][2]}"); ans.append(f'm{ret}' if ret >= 0 else 'e' + ename(ret))
        elif s == 'pwrite64':
            toks.append(f"pwrite@{e['a'][3]}+{e['a'][2]}"); ans.append(f'm{ret}' if ret >= 0 else 'e' + ename(ret))
        elif s == 'read':
            toks.append(f"read@{e.get('off')}+{e['a'][2]}"); ans.append(f'm{ret}' if ret >= 0 else 'e' + ename(ret))
        elif s == 'write':
            # std's write_all: consecutive writes until the buffer is out
            off0, total, err = e.get('off'), 0, None
            want = e['a'][2]
            while i < len(calls) and calls[i]['sys'] == 'write':
                w = calls[i]
                if w['ret'] < 0:
                    if -w['ret'] == errno.EINTR:
                        i += 1; continue
                    err = ename(w['ret']); i += 1; break
                total += w['ret']; i += 1
                if total >= want:
                    break
            toks.append(f'writeall@{off0}+{want}'); ans.append('e' + err if err else f'm{total}')
            continue
        i += 1
    return ans, toks


def model_tokens(line):
    """'ok tok tok | stop' -> (tokens without copied:, stop, copied list)"""
    if not line.startswith('ok'):
        return None, line, []
    body, _, stop = line[2:].partition('|')
    toks = body.split()
    return [t for t in toks if not t.startswith('copied:')], stop.strip(), [int(t[7:]) for t in toks if t.startswith('copied:')]


def data_calls(trace, src, dst):
    out = []
    for e in trace:
        s = e['sys']
        if s == 'copy_file_range' and e.get('fdpath') == dst:
            out.append(e)
        elif s in ('pwrite64', 'write') and e.get('fdpath') == dst:
            out.append(e)
        elif s in ('pread64', 'read') and e.get('fdpath') == src:
            out.append(e)
    return out


def check_kernel_contract(ctx, calls, length, what):
    """KernSafe / KernLive on the real kernel's answers (the theorems' hypotheses)."""
    for e in calls:
        if e['sys'] in ('copy_file_range', 'pread64', 'read') and e['ret'] >= 0 and not e.get('inj'):
            req = e['a'][4] if e['sys'] == 'copy_file_range' else e['a'][2]
            if 'clamp_from' in e:
                pass
            off = e.get('off', e['a'][3] if e['sys'] == 'pread64' else None)
            if off is None:
                continue
            if e['ret'] > req or e['ret'] > max(0, length - off) or (e['ret'] == 0 and req > 0 and off < length):
                ctx.violation(f'kernel-contract-{ctx.cov["evaluations"]}.json', dict(event=e, length=length, what=what),
                              'the real kernel violated KernSafe/KernLive: a hypothesis of the theorems does not hold here', no_input=True)


def verify_case(ctx, root, c, pairs, r, label, known=None, linux=1):
    """oracle (exit 0 => identical) + model correspondence for every file. Returns number of mismatches."""
    bad = 0
    reqs, meta = [], []
    for src, dst, data in pairs:
        length, segs = layout_of(data)
        # ---- the property's oracle, on the implementation
        if r.cls == '0':
            exp = scen.expected_bytes_hash(data)
            try:
                got_len = os.path.getsize(dst); got = scen.file_hash(dst)
            except OSError as e:
                got_len, got = -1, f'missing:{e.errno}'
            if got_len != length or got != exp:
                msg = f'exit 0 but {os.path.basename(dst)} differs from its source (len {got_len} vs {length})'
                if known and known(c, msg):
                    pass
                else:
                    ctx.violation(f'{label}.json', dict(case=c.__dict__, file=os.path.basename(dst), expected_len=length, got_len=got_len, expected_hash=exp, got_hash=got,
                                                        exit=r.exit, stderr=r.stderr[-800:], trace=[e for e in r.trace if e.get('fdpath') == dst][:80]),
                                  f'{ctx.pid}: {msg}; {c.driver} b={eff_bsize(c)} plan={c.plan}')
                    bad += 1
        # ---- correspondence: the calls xcp made for this file vs the model fed with the kernel's answers
        calls = data_calls(r.trace, src, dst)
        check_kernel_contract(ctx, calls, length, os.path.basename(dst))
        cloned = any(e['sys'] == 'ficlone' and e.get('fdpath') == dst and e['ret'] == 0 for e in r.trace)
        created = any(e['sys'] == 'openat' and e.get('fdpath') == dst and e['ret'] >= 0 and (e['a'][2] & os.O_TRUNC) for e in r.trace)
        if not created or cloned:
            if calls and cloned:
                ctx.violation(f'{label}-clone-then-copy.json', dict(case=c.__dict__, calls=calls[:20]), 'data copied after a successful clone', no_input=True)
            continue
        st = os.stat(src)
        sparse = bool(linux) and st.st_blocks < st.st_size // 512
        b = eff_bsize(c)
        if c.driver == 'parfile':
            ans, toks = script_for(calls, src, dst)
            sk = fsutil.seek_segments(src) if sparse else []
            reqs.append(f"filecopy {linux} {length} {b} {1 if sparse else 0} {','.join(f'{a}-{z}' for a, z in sk) or '-'} | {' '.join(ans)}")
            meta.append(('file', dst, toks, None))
        else:
            fiemap_failed = any(e['sys'] == 'fiemap' and e.get('fdpath') == src and e['ret'] == -errno.EOPNOTSUPP for e in r.trace)
            exts = fsutil.fiemap(src) if sparse else []
            ex = 'unsupported' if fiemap_failed else ' '.join(f"{a}-{z}{'s' if s else 'u'}" for a, z, s, _ in exts)
            reqs.append(f'pbjobs {length} {b} {1 if sparse else 0} {ex}')
            meta.append(('jobs', dst, calls, (src, length)))
    c.model_failed = []
    if not reqs:
        return bad
    model = core.ask(core.MODEL, reqs)
    model_failed = []
    more_reqs, more_meta = [], []
    for (kind, dst, x, extra), m, rq in zip(meta, model, reqs):
        ctx.cov['traces_validated_against_impl'] += 1
        if kind == 'file':
            mt, stop, _ = model_tokens(m)
            failed_run = r.cls != '0'
            ok = mt == x or (failed_run and mt is not None and x == mt[:len(x)])
            if mt is not None and not failed_run and not stop.startswith('ok'):
                ok = False
            if mt is not None and not stop.startswith('ok'):
                model_failed.append(stop)
            if not ok:
                ctx.cov['disagreements_checked'] += 1; bad += 1
                ctx.violation(f'{label}-corr.json', dict(case=c.__dict__, file=os.path.basename(dst), request=rq, model=m, observed=x, exit=r.exit, stderr=r.stderr[-500:],
                                                         correspondence='CopyHandle::copy_bytes/copy_sparse + copy_file_bytes vs Xcp.copyBytes/copySparse'),
                              f'model/implementation disagree on the calls copying {os.path.basename(dst)} ({c.driver})', no_input=True)
        else:
            if not m.startswith('ok'):
                continue
            jobs = [tuple(int(v) for v in t.split('+')) for t in m.split()[1:]]
            calls = x
            src, length = extra
            used = set()
            import bisect
            offs = sorted(((e.get('off') if e['sys'] == 'copy_file_range' else e['a'][3]), e['n'], e) for e in calls
                          if (e.get('off') if e['sys'] == 'copy_file_range' else e['a'][3]) is not None)
            keys = [o[0] for o in offs]
            for off0, nbytes in jobs:
                lo, hi = bisect.bisect_left(keys, off0), bisect.bisect_left(keys, off0 + max(nbytes, 1))
                mine = sorted((o[2] for o in offs[lo:hi]), key=lambda e: e['n'])
                for e in mine:
                    used.add(e['n'])
                ans, toks = script_for(mine, src, dst)
                more_reqs.append(f"blockjob {linux} {off0} {nbytes} | {' '.join(ans)}")
                more_meta.append((dst, toks, off0, nbytes))
            stray = [e for e in calls if e['n'] not in used]
            if stray and r.cls == '0':
                ctx.cov['disagreements_checked'] += 1; bad += 1
                ctx.violation(f'{label}-stray.json', dict(case=c.__dict__, request=rq, model=m, stray=stray[:10],
                                                          correspondence='queue_file_range partition vs Xcp.parblockJobs'),
                              f'data-moving calls outside every block the model queues for {os.path.basename(dst)}', no_input=True)
    if more_reqs:
        model = core.ask(core.MODEL, more_reqs)
        for (dst, toks, off0, nbytes), m, rq in zip(more_meta, model, more_reqs):
            mt, stop, _ = model_tokens(m)
            failed_run = r.cls != '0'
            ok = mt == toks or (failed_run and mt is not None and toks == mt[:len(toks)])
            if mt is not None and not stop.startswith('ok'):
                model_failed.append(stop)
                if not failed_run:
                    ok = False
            if not ok:
                ctx.cov['disagreements_checked'] += 1; bad += 1
                ctx.violation(f'{label}-blockcorr.json', dict(case=c.__dict__, file=os.path.basename(dst), block=(off0, nbytes), request=rq, model=m, observed=toks, exit=r.exit,
                                                              stderr=r.stderr[-500:], correspondence='parblock block job / copy_file_offset vs Xcp.blockJob'),
                              f'model/implementation disagree on block {off0}+{nbytes} of {os.path.basename(dst)}', no_input=True)
                break
    c.model_failed = model_failed
    return bad


def probe_argv(c):
    """the same case through the library probe (harness crate; used for the build without the Linux backend)"""
    a = ['--driver', c.driver, '--workers', str(c.workers), '--reflink', c.reflink, '--block-size', str(eff_bsize(c)),
         '--no-target-directory', '--updater', 'channel']
    return a + list(c.extra) + ['--', 'S', 'D']
