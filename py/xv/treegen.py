"""Random source trees and invocations for the tree-level checks."""
from .treerun import Scn

NAMES = [b'a', b'b', b'c', b'file.txt', b'with space', b'\xc3\xa9t\xc3\xa9', b'\xff\xfe', b'.hidden', b'x.~1~', b'UPPER', b'a.b.c', b'-dash', b'*star', b'q?', b'tab\tx',
         b'sub', b'dir2', b'deep', b'n' * 60]


def pick_names(rng, k, avoid=()):
    pool = [n for n in NAMES if n not in avoid]
    return rng.sample(pool, min(k, len(pool)))


def gen_subtree(rng, sc, base, depth, fanout, links=True, specials=False, gitignore=None):
    """populate directory `base` (already added); returns list of (path, kind)"""
    out = []
    names = pick_names(rng, rng.randint(0 if depth < 3 else 1, fanout))
    dirs = []
    for n in names:
        p = base + b'/' + n
        r = rng.random()
        if r < 0.3 and depth > 0:
            sc.d(p); out.append((p, 'd')); dirs.append(p)
        elif r < 0.45 and links:
            sc.l(p, gen_link_target(rng, base, names)); out.append((p, 'l'))
        elif r < 0.5 and specials:
            sc.s(p, rng.choice(['fifo', 'sock'])); out.append((p, 's'))
        else:
            sc.f(p, text=b'' if rng.random() < 0.15 else None); out.append((p, 'f'))
    for d in dirs:
        out += gen_subtree(rng, sc, d, depth - 1, fanout, links, specials)
    return out


def gen_link_target(rng, base, siblings):
    r = rng.random()
    if r < 0.35:
        return rng.choice(siblings)                      # relative to a sibling (may be itself: a loop)
    if r < 0.5:
        return b'../' + rng.choice(siblings)
    if r < 0.6:
        return b'nowhere/at all'                          # dangling
    if r < 0.7:
        return b'/X/ext'                                  # absolute, outside the source
    if r < 0.8:
        return base + b'/' + rng.choice(siblings)        # absolute, inside
    if r < 0.9:
        return b'./' + rng.choice(siblings)
    return b'..'


SPELL = ['plain', 'dot', 'slash', 'abs', 'updown']


def spell_path(rng, cwd, p, how=None):
    """p is an absolute model path under cwd's parent; returns the user's spelling"""
    how = how or rng.choice(SPELL)
    assert p.startswith(cwd + b'/')
    rel = p[len(cwd) + 1:]
    if how == 'plain': return rel
    if how == 'dot': return b'./' + rel
    if how == 'slash': return rel + b'/'
    if how == 'abs': return p
    return b'../' + cwd.split(b'/')[-1] + b'/' + rel


def gen_c02(rng, driver):
    """a valid invocation expected to succeed or to fail for reasons the model knows"""
    sc = Scn()
    sc.driver = driver; sc.workers = rng.choice([1, 2, 4, 8])
    sc.d(b'/W').d(b'/X').f(b'/X/ext').f(b'/X/bystander')
    nsrc = rng.choice([1, 1, 2, 3])
    roots = pick_names(rng, nsrc, avoid=(b'.hidden', b'*star', b'q?', b'-dash'))
    srcs = []
    single_file = nsrc == 1 and rng.random() < 0.25
    for n in roots:
        p = b'/W/' + n
        if single_file:
            sc.f(p)
        else:
            sc.d(p)
            gen_subtree(rng, sc, p, rng.randint(0, 3), rng.randint(1, 4), links=True, specials=rng.random() < 0.15)
        srcs.append(p)
    destk = rng.choice(['absent', 'dir-empty', 'dir-populated', 'file' if single_file else 'dir-empty', 'absent'])
    dest = b'/W/DEST'
    # the destination ARGUMENT may be a symbolic link to the directory (spelled without a trailing slash): cp's rule follows it
    via_link = destk.startswith('dir') and rng.random() < 0.12
    if via_link:
        dest = b'/W/REAL'
    if destk.startswith('dir'):
        sc.d(dest); sc.f(dest + b'/keep'); sc.d(dest + b'/keepdir'); sc.f(dest + b'/keepdir/inner')
        if destk == 'dir-populated':
            # an earlier copy left files behind: regular files that will be overwritten, and unrelated entries
            for n in roots[:1]:
                if not single_file:
                    sc.d(dest + b'/' + n)
                sc.f(dest + b'/' + n + (b'' if single_file else b'/leftover'))
        if destk == 'dir-populated' and not single_file and rng.random() < 0.6:
            # the earlier copy was of an OLDER version of the tree: some names now have another kind
            ents = [e for e in sc.entries if e['p'].startswith(srcs[0] + b'/') and e['p'].count(b'/') == srcs[0].count(b'/') + 1]
            for e in rng.sample(ents, min(len(ents), 2)):
                t = dest + b'/' + roots[0] + e['p'][len(srcs[0]):]
                if any(x['p'] == t for x in sc.entries):
                    continue
                if e['k'] == 'd': sc.f(t)                                   # was a file, is now a directory
                elif e['k'] == 'f': rng.choice([lambda: sc.d(t), lambda: sc.f(t), lambda: sc.l(t, b'../keep')])()
                elif e['k'] == 'l': rng.choice([lambda: sc.f(t), lambda: sc.l(t, b'stale-target')])()
    elif destk == 'file':
        sc.f(dest)
    sc.opts = ['r'] if not single_file or rng.random() < 0.5 else []
    if rng.random() < 0.25 and nsrc == 1:
        sc.opts.append('T')
    use_tdir = rng.random() < 0.15 and destk.startswith('dir')
    spelled = [spell_path(rng, b'/W', p) for p in srcs]
    if rng.random() < 0.15:
        sc.opts.append('glob')
        spelled = [s[:-1] + b'?' if (len(s) > 1 and s[-1:] not in (b'/', b'?', b'*') and rng.random() < 0.5) else s for s in spelled]
    dsp = spell_path(rng, b'/W', dest, rng.choice(['plain', 'dot', 'slash', 'abs']))
    if via_link:
        sc.l(b'/W/DEST', b'REAL')
        dsp = spell_path(rng, b'/W', b'/W/DEST', rng.choice(['plain', 'dot', 'abs']))
    if use_tdir:
        sc.tdir = dsp; sc.paths = spelled
    else:
        sc.paths = spelled + [dsp]
    sc.meta = dict(srcs=srcs, dest=dest, destk=destk, single_file=single_file)
    sc.extra = rng.choice([[], [], [], ['--no-progress'], ['--no-progress'], ['--fsync'], ['--no-perms'], ['--no-timestamps'], ['--reflink=never'], ['--no-progress', '--fsync'], ['-v']])      # options that must not change the shape of the result
    return sc
