"""Tree-level scenarios shared by C02 / C03 / C08 / C13 / C16 / C17: one description drives both the real xcp
(materialised under a scratch root on ext4) and the Lean model (`scen …` request); canonical snapshots of the
whole sandbox are compared.

Model paths are absolute paths inside the sandbox ("/S/a"); the real path is <root> + model path.  Absolute
symbolic-link targets are stored with the real prefix on disk and without it in the model and in snapshots."""
import os, shutil, stat, subprocess
from . import core, scen

KINDS = {'fifo': stat.S_IFIFO, 'sock': stat.S_IFSOCK, 'chr': stat.S_IFCHR, 'blk': stat.S_IFBLK}


def hx(b):
    return b.hex() if b else '-'


class Scn:
    """entries: list of dicts, parents first, paths are absolute model paths (bytes):
         {'k':'d','p':b'/S'} {'k':'f','p':..,'id':n[, 'text':bytes]} {'k':'l','p':..,'t':bytes (model text)} {'k':'s','p':..,'kind':'fifo','rdev':(maj,min)}
       cwd: model path; opts: list of option tokens ('r','T','n','L','gitignore','glob','force'); tdir: bytes|None;
       paths: list of bytes as the user spells them (relative to cwd, or absolute model paths)."""

    def __init__(self):
        self.entries, self.cwd, self.opts, self.tdir, self.paths = [], b'/W', [], None, []
        self.driver, self.workers, self.extra = 'parfile', 4, []
        self.next_id = 100
        self.by_text = {}

    def d(self, p):
        self.entries.append(dict(k='d', p=p)); return self

    def f(self, p, text=None):
        self.next_id += 1
        # files with identical content share one content id (0 for empty files): snapshots identify files by content
        if text is not None:
            fid = 0 if text == b'' else self.by_text.setdefault(text, self.next_id)
        else:
            fid = self.next_id
        self.entries.append(dict(k='f', p=p, id=fid, text=text)); return self

    def l(self, p, t):
        self.entries.append(dict(k='l', p=p, t=t)); return self

    def h(self, p, to):
        """hard link (not expressible in the Lean model: scenarios using it skip the model comparison)"""
        self.entries.append(dict(k='h', p=p, to=to)); self.no_model = True; return self

    def s(self, p, kind, rdev=(0, 0)):
        self.entries.append(dict(k='s', p=p, kind=kind, rdev=rdev)); return self

    def content(self, e):
        return e['text'] if e.get('text') is not None else b'id:%d\n' % e['id']


def real(root, mp):
    return root.encode() + mp


def real_target(root, t):
    return (root.encode() + t) if t.startswith(b'/') else t


def spell(root, p):
    """a user-spelled argument: absolute model paths get the real prefix"""
    return (root.encode() + p) if p.startswith(b'/') else p


def materialise(root, sc):
    old = os.umask(0o022)
    try:
        for e in sc.entries:
            rp = real(root, e['p'])
            if e['k'] == 'd':
                os.makedirs(rp, exist_ok=True)
            elif e['k'] == 'f':
                with open(rp, 'wb') as fh:
                    fh.write(sc.content(e))
            elif e['k'] == 'l':
                os.symlink(real_target(root, e['t']), rp)
            elif e['k'] == 'h':
                os.link(real(root, e['to']), rp)
            elif e['k'] == 's':
                if e['kind'] == 'sock':
                    import socket
                    s = socket.socket(socket.AF_UNIX); cwd = os.getcwd(); d, b = os.path.split(rp)
                    os.chdir(d)
                    try:
                        s.bind(b)
                    finally:
                        os.chdir(cwd); s.close()
                elif e['kind'] == 'fifo':
                    os.mkfifo(rp, 0o644)
                else:
                    os.mknod(rp, KINDS[e['kind']] | 0o644, os.makedev(*e['rdev']))
        os.makedirs(real(root, sc.cwd), exist_ok=True)
    finally:
        os.umask(old)


def ordered_tokens(root, sc):
    """tree tokens in REAL readdir order (what walkdir sees), parents first"""
    by_path = {e['p']: e for e in sc.entries}
    toks = []

    def tok(e):
        if e['k'] == 'd': return f"d:{hx(e['p'])}"
        if e['k'] == 'f': return f"f:{hx(e['p'])}:{e['id']}"
        if e['k'] == 'l': return f"l:{hx(e['p'])}:{hx(e['t'])}"
        if e['k'] == 'h': return f"f:{hx(e['p'])}:{by_path[e['to']]['id']}"
        return f"s:{hx(e['p'])}:{e['kind']}:{os.makedev(*e['rdev']) if e['kind'] in ('chr', 'blk') else 0}"

    def visit(mp):
        rp = real(root, mp) if mp else root.encode()
        with os.scandir(rp) as it:
            names = [de.name for de in it]
        for n in names:
            child = mp + b'/' + n
            e = by_path.get(child)
            if e is None:
                continue        # not part of the scenario (should not happen)
            toks.append(tok(e))
            if e['k'] == 'd':
                visit(child)
    visit(b'')
    return toks


def model_request(root, sc):
    gi = [f"{e['id']}:{hx(e['text'])}" for e in sc.entries if e['k'] == 'f' and e.get('text') is not None and e['p'].endswith(b'/.gitignore')]
    opts = list(sc.opts) + ([f'tdir:{hx(sc.tdir)}'] if sc.tdir is not None else []) + [f'p:{hx(p)}' for p in sc.paths]
    return f"scen {hx(sc.cwd)} | {' '.join(ordered_tokens(root, sc))} | {' '.join(opts)} | {' '.join(gi)}"


def argv(root, sc):
    a = ['--driver', sc.driver, '--workers', str(sc.workers)]
    m = {'r': '-r', 'T': '-T', 'n': '-n', 'L': '-L', 'gitignore': '--gitignore', 'glob': '--glob', 'force': '--force'}
    a += [m[o] for o in sc.opts] + list(sc.extra)
    if sc.tdir is not None:
        a += ['--target-directory', spell(root, sc.tdir)]
    return a + [spell(root, p) for p in sc.paths]


def snapshot_tokens(root, sc, strip=True):
    """canonical tokens of the real sandbox, same vocabulary as the model's dump"""
    ids = {sc.content(e): e['id'] for e in sc.entries if e['k'] == 'f'}
    ids[b''] = 0
    rootb = root.encode()
    out = []

    def visit(rp, mp):
        st = os.lstat(rp)
        m = st.st_mode
        if stat.S_ISDIR(m):
            if mp:
                out.append(f'{hx(mp)}=d')
            for n in sorted(os.listdir(rp)):
                visit(rp + b'/' + n, mp + b'/' + n)
        elif stat.S_ISREG(m):
            try:
                with open(rp, 'rb') as fh:
                    c = fh.read(1 << 16)
            except OSError:
                c = None
            out.append(f"{hx(mp)}=f:{ids.get(c, '?')}")
        elif stat.S_ISLNK(m):
            t = os.readlink(rp)
            if strip and t.startswith(rootb + b'/'):
                t = t[len(rootb):]
            out.append(f'{hx(mp)}=l:{hx(normalise_link(t))}')
        else:
            k = 'fifo' if stat.S_ISFIFO(m) else 'sock' if stat.S_ISSOCK(m) else 'chr' if stat.S_ISCHR(m) else 'blk' if stat.S_ISBLK(m) else 'other'
            out.append(f"{hx(mp)}=s:{k}:{st.st_rdev if k in ('chr', 'blk') else 0}")
    visit(rootb, b'')
    return sorted(out)


def normalise_link(t):
    """the model stores link targets as component lists (Rust's normalisation): print real texts the same way"""
    isabs = t.startswith(b'/')
    parts = [c for c in t.split(b'/') if c != b'']
    comps = []
    for i, c in enumerate(parts):
        if c == b'.':
            if i == 0 and not isabs:
                comps.append(c)
            continue
        comps.append(c)
    return (b'/' if isabs else b'') + b'/'.join(comps)


def model_snapshot(ans):
    """'exit=ok [reject=X] | tok tok' -> (exit, reject, sorted tokens)"""
    head, _, body = ans.partition('|')
    h = head.split()
    ex = h[0].split('=')[1] if h and h[0].startswith('exit=') else '?'
    rej = next((t.split('=')[1] for t in h if t.startswith('reject=')), None)
    return ex, rej, sorted(body.split())


def decode(tokens):
    """tokens -> {path(bytes): desc} for messages"""
    out = {}
    for t in tokens:
        p, _, v = t.partition('=')
        out[bytes.fromhex(p) if p != '-' else b''] = v
    return out


def diff_tokens(a, b, limit=8):
    da, db = decode(a), decode(b)
    out = []
    for p in sorted(set(da) | set(db)):
        if da.get(p) != db.get(p):
            out.append(f'{p!r}: impl={da.get(p)} model={db.get(p)}')
            if len(out) >= limit:
                break
    return out


class Run:
    pass


def run(base, sc, plan=None, trace=False, timeout=60, umask=0o022, **kw):
    """base: scratch dir; the sandbox root is base/R (recreated). Returns Run(before, after, model ans, result)."""
    root = base + '/R'
    subprocess.run(f'chmod -R u+rwx {root} 2>/dev/null; rm -rf {root}', shell=True)
    os.makedirs(root)
    materialise(root, sc)
    o = Run()
    o.root = root
    o.request = model_request(root, sc)
    o.before = snapshot_tokens(root, sc)
    o.argv = argv(root, sc)
    aux = base + '/aux'
    os.makedirs(aux, exist_ok=True)
    o.res = scen.run_xcp(aux, o.argv, cwd=real(root, sc.cwd), plan=plan, trace=trace or bool(plan), timeout=timeout, umask=umask, **kw)
    o.after = snapshot_tokens(root, sc)
    return o
