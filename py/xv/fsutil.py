"""File-system helpers independent of libfs: sparse file construction, FIEMAP and SEEK readers, snapshots."""
import fcntl, hashlib, os, random, stat, struct

FS_IOC_FIEMAP = 0xC020660B
FIEMAP_EXTENT_LAST = 0x1
FIEMAP_EXTENT_SHARED = 0x2000


_NZ = bytes([1] + list(range(1, 256)))


def lcg_bytes(n, seed):
    """n deterministic pseudo-random non-zero bytes."""
    return random.Random(seed).randbytes(n).translate(_NZ)


def make_file(path, length, segs, seed=1, sync=True):
    """segs: list of (start, stop) data ranges; everything else is a hole. Returns the content oracle as
    a function offset-range -> bytes is not kept; callers read the file back."""
    fd = os.open(path, os.O_CREAT | os.O_TRUNC | os.O_WRONLY, 0o644)
    try:
        os.ftruncate(fd, length)
        for i, (a, b) in enumerate(segs):
            os.pwrite(fd, lcg_bytes(b - a, seed + i), a)
        if sync:
            os.fsync(fd)
    finally:
        os.close(fd)


def fiemap(path, slots=16384):
    """All extents by ONE request with many slots (independent of libfs' paging). -> list of (start, stop, shared, last)"""
    fd = os.open(path, os.O_RDONLY)
    try:
        buf = bytearray(struct.pack('=QQLLLL', 0, 0xFFFFFFFFFFFFFFFF, 0, 0, slots, 0) + b'\0' * (56 * slots))
        fcntl.ioctl(fd, FS_IOC_FIEMAP, buf)
        _, _, _, mapped, _, _ = struct.unpack_from('=QQLLLL', buf, 0)
        out = []
        for i in range(mapped):
            logical, phys, ln, _, _, flags, _, _, _ = struct.unpack_from('=QQQQQLLLL', buf, 32 + 56 * i)
            out.append((logical, logical + ln, bool(flags & FIEMAP_EXTENT_SHARED), bool(flags & FIEMAP_EXTENT_LAST)))
        return out
    finally:
        os.close(fd)


def seek_segments(path):
    """Data segments by SEEK_DATA/SEEK_HOLE -> list of (start, stop)."""
    fd = os.open(path, os.O_RDONLY)
    try:
        ln = os.fstat(fd).st_size
        out, pos = [], 0
        while pos < ln:
            try:
                d = os.lseek(fd, pos, os.SEEK_DATA)
            except OSError:
                break
            h = os.lseek(fd, d, os.SEEK_HOLE)
            out.append((d, h))
            pos = h
        return out
    finally:
        os.close(fd)


def nonzero_outside(path, ranges):
    """First offset outside all [a,b) ranges whose byte is not zero, else None."""
    ln = os.path.getsize(path)
    rs = sorted(ranges)
    pos = 0
    with open(path, 'rb') as fh:
        def scan(a, b):
            fh.seek(a)
            left = b - a
            off = a
            while left > 0:
                if left > (64 << 20):
                    # very large gaps (multi-GiB sparse files): hop over what the kernel itself reports as a hole; holes read as
                    # zeros by definition, so nothing non-zero can be skipped unless SEEK_DATA is broken (a listed assumption)
                    try:
                        nd = os.lseek(fh.fileno(), off, os.SEEK_DATA)
                    except OSError:
                        nd = b
                    nd = min(nd, b)
                    if nd > off:
                        left -= nd - off; off = nd; fh.seek(off)
                        continue
                chunk = fh.read(min(left, 1 << 20))
                if not chunk:
                    break
                if chunk.count(0) != len(chunk):
                    for i, c in enumerate(chunk):
                        if c:
                            return off + i
                off += len(chunk); left -= len(chunk)
            return None
        for a, b in rs:
            if a > pos:
                r = scan(pos, min(a, ln))
                if r is not None:
                    return r
            pos = max(pos, b)
        if pos < ln:
            return scan(pos, ln)
    return None


def sha(path):
    h = hashlib.sha256()
    with open(path, 'rb') as fh:
        while True:
            c = fh.read(1 << 20)
            if not c:
                break
            h.update(c)
    return h.hexdigest()[:16]
