"""C09 — numbered backups never lose a version.
Proof: XcpProps/C09.lean.  Correspondence (A): histories of real `xcp -r -T --backup=MODE S D` runs vs the
model's `runHistory` (directory listing + contents after every step); kill points inside an overwrite under
sup; the property's own oracle (no version lost, no backup modified, auto iff) on the implementation."""
import os, shutil
from .. import core, scen

U64MAX = 2 ** 64 - 1


def hx(b):
    return b.hex() if b else '-'


def listing(d):
    out = {}
    for n in os.listdir(os.fsencode(d)):
        p = os.path.join(os.fsencode(d), n)
        if os.path.isfile(p) and not os.path.islink(p):
            with open(p, 'rb') as fh:
                out[n] = fh.read()
        else:
            out[n] = b'<non-file>'
    return out


def show(lst):
    return ' '.join(sorted(f'{hx(k)}:{hx(v)}' for k, v in lst.items()))


NAMES = [b'f', b'a', b'ab', b'a.b.c', b'x.~2~', b'x', b'\xff\xfe', b'caf\xe9.txt', b'sp ace', b'.hidden', b'a.~1~.~1~',
         b'n' * 180, b'~', b'a.', b'\xe2\x82\xac.d', b'tab\there', b'a~', b'.~1~']


def gen_history(rng):
    names = rng.sample(NAMES, rng.randint(1, 3))
    if rng.random() < 0.4:
        names = rng.choice([[b'a', b'ab'], [b'x', b'x.~2~'], [b'a', b'a.~1~.~1~'], [b'\xff\xfe', b'\xff'], [b'a.', b'a']])
    init = {}
    for n in names:
        if rng.random() < 0.8:
            init[n] = bytes([rng.randrange(1, 250)])
        for _ in range(rng.choice([0, 0, 1, 2, 4])):
            num = rng.choice([1, 2, 3, 7, 9, 10, 99, 100, 12345, U64MAX - 1, U64MAX, U64MAX + 1, 2 ** 70])
            txt = rng.choice([str(num), str(num), '00' + str(num), 'x', '', '٣', '+5', '1 ', '-1']).encode()
            init[n + b'.~' + txt + b'~'] = bytes([rng.randrange(1, 250), 66])
        if rng.random() < 0.2:
            init[n + b'.~1~x'] = b'zz'
        if rng.random() < 0.2:
            init[n + b'x.~5~'] = b'yy'
    ops = []
    for _ in range(rng.randint(3, 7)):
        ops.append((rng.choice(['numbered', 'numbered', 'numbered', 'auto', 'auto', 'none']), rng.choice(names),
                    bytes([rng.randrange(1, 250) for _ in range(rng.choice([0, 1, 1, 2, 3]))])))       # an EMPTY new version is a version too
    return init, ops


def setup(root, init):
    for sub in ('S', 'D'):
        shutil.rmtree(os.path.join(root, sub), ignore_errors=True)
        os.makedirs(os.path.join(root, sub))
    for n, c in init.items():
        with open(os.path.join(os.fsencode(root), b'D', n), 'wb') as fh:
            fh.write(c)


def put_source(root, name, content):
    s = os.path.join(os.fsencode(root), b'S')
    for n in os.listdir(s):
        os.unlink(os.path.join(s, n))
    with open(os.path.join(s, name), 'wb') as fh:
        fh.write(content)


def isutf(b):
    try:
        b.decode('utf8'); return True
    except Exception:
        return False


def is_backup_py(base, cand):
    """the property's own reading of `<name>.~N~` (independent of the Lean model)"""
    pre = base + b'.~'
    if not cand.startswith(pre) or not cand.endswith(b'~') or len(cand) < len(pre) + 2:
        return None
    ds = cand[len(pre):-1]
    if not ds or not all(48 <= c <= 57 for c in ds):
        return None
    v = int(ds)
    return v if v <= U64MAX else None


def run(ctx):
    ctx.proofs()
    core.build_repo(); core.build_sup()
    rng = ctx.rng
    nh = 40 if ctx.quick else 400
    hist = [gen_history(rng) for _ in range(nh)]
    # corpus: the failing inputs of the repaired defect F8 always run first
    corpus = [
        ({b'\xff\xfe': b'\x00'}, [('numbered', b'\xff\xfe', bytes([i + 1])) for i in range(4)]),
        ({b'a': b'\x01', b'ab.~7~': b'\x02'}, [('auto', b'a', b'\x03'), ('numbered', b'a', b'\x04')]),
        ({b'f': b'\x01', b'f.~%d~' % U64MAX: b'\x02'}, [('numbered', b'f', b'\x03'), ('auto', b'f', b'\x04')]),
        ({b'f': b'\x01', b'f.~%d~' % (U64MAX - 1): b'\x02'}, [('numbered', b'f', b'\x03'), ('numbered', b'f', b'\x04')]),
    ]
    hist = corpus + hist
    reqs, metas = [], []
    with core.Scratch('c09') as root:
        for hi, (init, ops) in enumerate(hist):
            for driver in (('parfile', 'parblock') if hi % 2 == 0 or not ctx.quick else ('parfile',)):
                setup(root, init)
                cur = dict(init)
                states = []
                for si, (mode, name, content) in enumerate(ops):
                    put_source(root, name, content)
                    before = listing(root + '/D')
                    extra = rng.choice([[], [], [], ['--no-progress'], ['--fsync'], ['--no-perms'], ['--workers', '1'], ['--no-progress', '--no-timestamps']])    # must not matter for backups
                    utf8ok = all(isutf(n) and not n.startswith(b'-') for n in list(init) + [name])
                    envx = rng.choice([None, None, dict(VERSION_CONTROL='none'), dict(VERSION_CONTROL='existing'), dict(VERSION_CONTROL='numbered'), dict(VERSION_CONTROL='off', SIMPLE_BACKUP_SUFFIX='.bak')])   # cp's variables are not xcp's options
                    if hi % 3 == 2 and utf8ok:
                        # the destination named by a BARE relative file name (no directory component), from inside the directory
                        r = scen.run_xcp(root, [f'--backup={mode}', '--driver', driver] + extra + [b'../S/' + name, name], cwd=root + '/D', trace=False, env_extra=envx)
                    else:
                        r = scen.run_xcp(root, ['-r', '-T', f'--backup={mode}', '--driver', driver] + extra + ['S', 'D'], trace=False, env_extra=envx)
                    after = listing(root + '/D')
                    states.append((r.cls, after))
                    ctx.count(f'mode.{mode}'); ctx.count(f'exit.{r.cls}')
                    # --- the property's oracle on the implementation
                    old = before.get(name)
                    nums = [is_backup_py(name, c) for c in before]
                    nums = [n for n in nums if n is not None]
                    bad = None
                    for k, v in before.items():
                        if k != name and after.get(k) != v:
                            bad = f'existing entry {k!r} was modified or removed'
                    due = old is not None and (mode == 'numbered' or (mode == 'auto' and nums))
                    if old is not None and due:
                        newb = [k for k in after if k not in before]
                        if r.cls == '0':
                            if len(newb) != 1 or after[newb[0]] != old:
                                bad = bad or f'old content of {name!r} not preserved in a new backup (new entries {newb!r})'
                            else:
                                n = is_backup_py(name, newb[0])
                                if n is None or (nums and n <= max(nums)) or newb[0] != name + b'.~%d~' % n:
                                    bad = bad or f'backup name {newb[0]!r} is not <name>.~N~ with N above {max(nums) if nums else 0}'
                        else:
                            if old not in after.values():
                                bad = bad or f'failed run lost the old content of {name!r}'
                    elif old is not None and mode == 'auto' and r.cls == '0':
                        if [k for k in after if k not in before]:
                            bad = bad or 'auto made a backup although none existed for that name'
                    if r.cls == '0' and after.get(name) != content:
                        bad = bad or 'exit 0 but destination content wrong'
                    if bad:
                        ctx.violation(f'hist-{hi}-{driver}-{si}.json',
                                      dict(init={hx(k): hx(v) for k, v in init.items()}, ops=[(m, hx(n), hx(c)) for m, n, c in ops[:si + 1]], driver=driver,
                                           before=show(before), after=show(after), exit=r.cls, stderr=r.stderr[-500:], oracle=bad),
                                      f'C09 oracle: {bad} (history {hi} step {si}, {driver})')
                reqs.append('bkhist ' + ' '.join(f'{hx(k)}:{hx(v)}' for k, v in init.items()) + ' | ' + ' '.join(f'{m}:{hx(n)}:{hx(c)}' for m, n, c in ops))
                metas.append((hi, driver, init, ops, states))
                ctx.case(('hist', hi, driver), nontrivial=any(m != 'none' for m, _, _ in ops),
                         sample=dict(init={hx(k): hx(v) for k, v in init.items()}, ops=[(m, hx(n), hx(c)) for m, n, c in ops], final=show(states[-1][1])) if hi in (0, 5) and driver == 'parfile' else None)
        # --- correspondence: final directory of every history vs the model
        model = core.ask(core.MODEL, reqs)
        for (hi, driver, init, ops, states), m, rq in zip(metas, model, reqs):
            got = 'ok ' + show(states[-1][1])
            ctx.cov['traces_validated_against_impl'] += 1
            if got.strip() != m.strip():
                ctx.cov['disagreements_checked'] += 1
                ctx.violation(f'hist-corr-{hi}-{driver}.json', dict(request=rq, impl=got, model=m, exits=[s[0] for s in states],
                                                                    correspondence='xcp --backup histories vs Xcp.runHistory', theorems=['Xcp.C09.history_never_loses_a_version']),
                              f'model/implementation disagree on backup history {hi} ({driver})', no_input=True)

        # --- kill points inside one overwrite
        kp = 0
        for name, bk in ((b'f', [3]), (b'\xff\xfe', []), (b'a.b', [1, 2, 9])):
            for driver in ('parfile', 'parblock'):
                init = {name: b'OLD-CONTENT'}
                for n in bk:
                    init[name + b'.~%d~' % n] = b'bk%d' % n
                setup(root, init); put_source(root, name, b'NEW-CONTENT-LONGER')
                r0 = scen.run_xcp(root, ['-r', '-T', '--backup=numbered', '--driver', driver, 'S', 'D'], trace=True)
                total = r0.final.get('mut_total', 0)
                for k in range(1, total + 1):
                    for when in ('killbefore', 'killafter'):
                        setup(root, init); put_source(root, name, b'NEW-CONTENT-LONGER')
                        r = scen.run_xcp(root, ['-r', '-T', '--backup=numbered', '--driver', driver, 'S', 'D'], plan=[f'{when} {k}'])
                        after = listing(root + '/D')
                        kp += 1
                        ctx.case(('kill', name, driver, when, k), True)
                        nextn = (max(bk) if bk else 0) + 1
                        ok_old = after.get(name) == b'OLD-CONTENT' or after.get(name + b'.~%d~' % nextn) == b'OLD-CONTENT'
                        others = all(after.get(kk) == v for kk, v in init.items() if kk != name)
                        if not ok_old or not others:
                            ctx.violation(f'kill-{hx(name)}-{driver}-{when}-{k}.json',
                                          dict(name=hx(name), driver=driver, plan=f'{when} {k}', after=show(after), init=show(init)),
                                          f'C09: killed {when[4:]} mutating call {k}: old content lost or a backup modified')
        ctx.count('kill_points', kp)
        # --- the rename that makes the backup FAILS (a name too long for `.~N~`, a sticky directory, a transient error): the
        # old version must survive — either the run stops there (non-zero exit, destination untouched) or a backup holds it
        E = scen.ERRNO
        fp = 0
        for name, bk, mode in ((b'f', [], 'numbered'), (b'f', [1, 2], 'auto'), (b'\xff\xfe', [4], 'numbered')):
            for driver in ('parfile', 'parblock'):
                init = {name: b'OLD-CONTENT'}
                for n in bk:
                    init[name + b'.~%d~' % n] = b'bk%d' % n
                setup(root, init); put_source(root, name, b'NEW-CONTENT-LONGER')
                r0 = scen.run_xcp(root, ['-r', '-T', f'--backup={mode}', '--driver', driver, 'S', 'D'], trace=True)
                rn = [e['sys'] for e in r0.trace if e['sys'].startswith('rename') and e['ret'] == 0]
                if not rn:
                    ctx.violation(f'rename-missing-{hx(name)}-{driver}.json', dict(name=hx(name), driver=driver, mode=mode), 'no rename seen in an overwrite with backup', no_input=True)
                    continue
                for en in ('EIO', 'EPERM', 'ENAMETOOLONG', 'ENOSPC') if not ctx.quick or driver == 'parfile' else ('EIO', 'ENAMETOOLONG'):
                    setup(root, init); put_source(root, name, b'NEW-CONTENT-LONGER')
                    plan = [f'fail {rn[0]} * 1 {E[en]}']
                    r = scen.run_xcp(root, ['-r', '-T', f'--backup={mode}', '--driver', driver, 'S', 'D'], plan=plan, trace=True)
                    after = listing(root + '/D')
                    fired = any(e.get('inj') for e in r.trace)
                    fp += 1
                    ctx.case(('rename-fault', name, driver, mode, en), fired)
                    ctx.count(f'rename_fault.exit.{r.cls}')
                    kept = b'OLD-CONTENT' in after.values()
                    others = all(after.get(kk) == v for kk, v in init.items() if kk != name)
                    if fired and (not kept or not others):
                        ctx.violation(f'rename-fault-{hx(name)}-{driver}-{en}.json',
                                      dict(name=hx(name), driver=driver, mode=mode, plan=plan, exit=r.cls, after=show(after), init=show(init), stderr=r.stderr[-300:]),
                                      f'C09: the backup rename failed ({en}) and the previous version of {name!r} exists nowhere afterwards (exit {r.cls}, {driver}, --backup={mode})')
        ctx.count('rename_fault_points', fp)
        # --- the LISTING of the destination's directory fails part-way while looking for existing backups (EIO on getdents64): with an
        # incomplete listing no number may be chosen — the repaired defect F22 picked an existing backup's number and replaced it
        for driver in ('parfile', 'parblock'):
            for mode in ('numbered', 'auto'):
                for nth in (1, 2, 3):
                    init = {b'f': b'OLD-CONTENT', b'f.~1~': b'bk1', b'f.~2~': b'bk2', b'zz': b'other'}
                    setup(root, init); put_source(root, b'f', b'NEW-CONTENT-LONGER')
                    plan = [f'fail getdents64 ={root}/D {nth} {E["EIO"]}', f'fail getdents64 =D {nth} {E["EIO"]}']
                    r = scen.run_xcp(root, ['-r', '-T', f'--backup={mode}', '--driver', driver, 'S', 'D'], plan=plan, trace=True)
                    after = listing(root + '/D')
                    fired = any(e.get('inj') for e in r.trace)
                    ctx.count(f'listing_fault.{"fired" if fired else "not_fired"}.{r.cls}'); ctx.case(('listing-fault', driver, mode, nth), fired)
                    lost = [v for v in init.values() if v not in after.values()]
                    if fired and lost:
                        ctx.violation(f'listing-fault-{driver}-{mode}-{nth}.json', dict(driver=driver, mode=mode, plan=plan, exit=r.cls, after=show(after), init=show(init)),
                                      f'C09: the directory listing failed while looking for backups (getdents64 #{nth} EIO) and the version {hx(lost[0])} exists nowhere afterwards (exit {r.cls}, {driver}, --backup={mode})')
        # --- versions that differ in content only: same length, same modification time (releases with clamped timestamps; xcp
        # itself copies the source's mtime onto the destination): every overwrite still takes its backup
        T0 = 1_000_000_000_123_456_789
        for driver in ('parfile', 'parblock'):
            for mode in ('numbered', 'auto'):
                init = {b'conf': b'version=1.0.0', b'conf.~2~': b'older-backup'}
                setup(root, init)
                os.utime(os.path.join(os.fsencode(root), b'D', b'conf'), ns=(T0, T0))
                versions = [b'version=1.0.1', b'version=1.0.2', b'version=1.0.3']
                seen_old = [init[b'conf']]
                for si, content in enumerate(versions):
                    put_source(root, b'conf', content)
                    os.utime(os.path.join(os.fsencode(root), b'S', b'conf'), ns=(T0, T0))
                    before = listing(root + '/D')
                    r = scen.run_xcp(root, ['-r', '-T', f'--backup={mode}', '--driver', driver, 'S', 'D'], trace=False)
                    after = listing(root + '/D')
                    ctx.count(f'same_size_mtime.exit.{r.cls}'); ctx.case(('same-size-mtime', driver, mode, si), True)
                    old = before.get(b'conf')
                    lost = [v for v in seen_old if v not in after.values()]
                    if r.cls == '0' and (after.get(b'conf') != content or lost):
                        ctx.violation(f'same-size-mtime-{driver}-{mode}-{si}.json', dict(driver=driver, mode=mode, step=si, before=show(before), after=show(after)),
                                      f'C09: overwrite {si + 1} with --backup={mode} (same length, same mtime as the previous version): the version {hx(lost[0]) if lost else "?"} exists nowhere afterwards ({driver})')
                        break
                    seen_old.append(content)
        # --- --force together with --backup on a destination that cannot be opened for writing (a running executable: ETXTBSY; a
        # read-only file): whatever --force does, the previous version must survive in a backup or in place
        for driver in ('parfile', 'parblock'):
            for mode in ('numbered', 'auto'):
                for en in ('EACCES', 'ETXTBSY'):
                    init = {b'tool': b'OLD-CONTENT', b'tool.~1~': b'bk1', b'tool.~3~': b'bk3'}
                    setup(root, init); put_source(root, b'tool', b'NEW-CONTENT-LONGER')
                    for nth in (1, 2):
                        setup(root, init); put_source(root, b'tool', b'NEW-CONTENT-LONGER')
                        plan = [f'fail openat =D/tool {nth} {E[en]}', f'fail openat ={root}/D/tool {nth} {E[en]}']
                        r = scen.run_xcp(root, ['--force', f'--backup={mode}', '--driver', driver, 'S/tool', 'D/tool'], plan=plan, trace=True)
                        after = listing(root + '/D')
                        fired = any(e.get('inj') for e in r.trace)
                        ctx.count(f'force_backup.{"fired" if fired else "not_fired"}.{r.cls}'); ctx.case(('force-backup', driver, mode, en, nth), fired)
                        kept = b'OLD-CONTENT' in after.values()
                        others = all(after.get(kk) == v for kk, v in init.items() if kk != b'tool')
                        if not kept or not others:
                            ctx.violation(f'force-backup-{driver}-{mode}-{en}-{nth}.json', dict(driver=driver, mode=mode, plan=plan, exit=r.cls, after=show(after), init=show(init), stderr=r.stderr[-300:]),
                                          f'C09: --force --backup={mode} on a destination whose open fails ({en}): the previous version exists nowhere afterwards (exit {r.cls}, {driver})')
        # --- the destination has SEVERAL NAMES (a hard-linked snapshot, `cp -al`): the version being replaced still goes to a
        # numbered backup of THIS name, under every mode that asks for one
        for driver in ('parfile', 'parblock'):
            for mode in ('numbered', 'auto'):
                init = {b'app.conf': b'OLD-CONF', b'README': b'old readme'}
                if mode == 'auto':
                    init[b'app.conf.~4~'] = b'older'
                setup(root, init); put_source(root, b'app.conf', b'NEW-CONF-LONGER')
                os.makedirs(root + '/snap', exist_ok=True)
                try: os.unlink(root + '/snap/app.conf')
                except OSError: pass
                os.link(root + '/D/app.conf', root + '/snap/app.conf')
                r = scen.run_xcp(root, [f'--backup={mode}', '--driver', driver, 'S/app.conf', 'D/app.conf'])
                after = listing(root + '/D')
                want = b'app.conf.~5~' if mode == 'auto' else b'app.conf.~1~'
                ctx.count(f'multiply_linked_destination.{mode}.{r.cls}'); ctx.case(('multiply-linked-destination', driver, mode), True)
                if r.cls == '0' and (after.get(want) != b'OLD-CONF' or after.get(b'app.conf') != b'NEW-CONF-LONGER'):
                    ctx.violation(f'linked-destination-{driver}-{mode}.json', dict(driver=driver, mode=mode, exit=r.cls, after=show(after), init=show(init), stderr=r.stderr[-300:]),
                                  f'C09: overwriting a destination that has a second hard link with --backup={mode}: expected the old version as {want.decode()}, directory holds {sorted(k.decode() for k in after)} ({driver})')
                os.unlink(root + '/snap/app.conf')
        # --- ONE run overwriting files of the SAME NAME in different directories, each with its own backup history: every
        # directory's next number comes from that directory's own listing, and no existing backup is replaced
        for driver, workers in (('parfile', 1), ('parfile', 4), ('parblock', 2)):
            for mode in ('numbered', 'auto'):
                shutil.rmtree(root + '/S', ignore_errors=True); shutil.rmtree(root + '/D', ignore_errors=True)
                hist = {'a': [1, 2], 'b': [3], 'c': [9], 'd': [] if mode == 'numbered' else [1]}
                for dn, nums in hist.items():
                    os.makedirs(f'{root}/S/{dn}'); os.makedirs(f'{root}/D/S/{dn}')
                    open(f'{root}/S/{dn}/mod.rs', 'wb').write(b'NEW-' + dn.encode() * 20); open(f'{root}/D/S/{dn}/mod.rs', 'wb').write(b'CUR-' + dn.encode())
                    for k in nums:
                        open(f'{root}/D/S/{dn}/mod.rs.~{k}~', 'wb').write(b'BK%d-' % k + dn.encode())
                r = scen.run_xcp(root, ['-r', f'--backup={mode}', '--driver', driver, '--workers', str(workers), 'S', 'D'])
                ctx.count(f'same_name_other_directory.{mode}.{r.cls}'); ctx.case(('same-name-other-directory', driver, workers, mode), True)
                bad = None
                for dn, nums in hist.items():
                    now = listing(f'{root}/D/S/{dn}')
                    nxt = (max(nums) + 1) if nums else 1
                    for k in nums:
                        if now.get(b'mod.rs.~%d~' % k) != b'BK%d-' % k + dn.encode():
                            bad = bad or f'{dn}/mod.rs.~{k}~ (an existing backup) was replaced or removed'
                    if now.get(b'mod.rs.~%d~' % nxt) != b'CUR-' + dn.encode():
                        bad = bad or f'{dn}/mod.rs: the replaced version is not in mod.rs.~{nxt}~ (directory holds {sorted(x.decode() for x in now)})'
                if r.cls == '0' and bad:
                    ctx.violation(f'same-name-dirs-{driver}-{workers}-{mode}.json', dict(driver=driver, workers=workers, mode=mode, exit=r.cls, stderr=r.stderr[-300:], oracle=bad),
                                  f'C09: one run over four directories each holding mod.rs with its own backups (--backup={mode}, {driver}, {workers} workers): {bad}')
    ctx.cov['rule'] = ('one run over several directories holding the same file name with different backup histories; a destination with a second hard link; histories: 3-7 invocations over 1-3 names (prefix-related, backup-looking, non-UTF-8, long) with initial backup sets incl. gaps, '
                       'numbers near 2^64, malformed numbers; kill before/after every mutating call of an overwrite; the backup rename failing with EIO/EPERM/ENAMETOOLONG/ENOSPC; versions of equal length and mtime; --force with an unopenable destination. distinct = distinct (history, driver) or kill point; '
                       'non-trivial = at least one non-none mode')
    ctx.assumptions += ['rename(2) is atomic', 'SIGKILL leaves exactly the effects of completed calls']


def replay(ctx, path):
    run(ctx)
