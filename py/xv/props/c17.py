"""C17 — --gitignore copies exactly the entries the root .gitignore does not exclude.
Proof (partial: the pattern engine is third-party): XcpProps/C17.lean.  Correspondence (A), three-way: xcp vs the
Lean specification (`Xcp.Gi` inside `L1run`) vs `git check-ignore --no-index` on random trees x .gitignore files
built from the fragment (literals, *, ?, **/, trailing /, leading /, !, comments, blank lines)."""
import os, subprocess
from .. import core, treerun, treegen

NAMES = [b'a', b'b', b'build', b'src', b'x.o', b'y.o', b'keep.o', b'main.c', b'.hidden', b'.gitignore2', b'top', b'doc', b'q', b'ab', b'target', b'z',
         b'Build', b'SRC', b'X.O', b'Makefile', b'makefile', b'MAIN.C', b'Doc']


def gen_tree(rng, sc, base, depth, links=False):
    out = []
    names = rng.sample(NAMES, rng.randint(1, 5))
    dirs = []
    for n in names:
        p = base + b'/' + n
        r = rng.random()
        if r < 0.35 and depth > 0:
            sc.d(p); out.append((p, True)); dirs.append(n); out += gen_tree(rng, sc, p, depth - 1, links)
        elif links and r < 0.6 and len(names) > 1:
            # a symbolic link to a sibling (directory or file, possibly created later or never: dangling); git and xcp treat
            # it as a non-directory entry, it is never descended into, and its later siblings must still be visited
            t = rng.choice([x for x in names if x != n])
            sc.l(p, t if rng.random() < 0.8 else b'./' + t); out.append((p, False))
        else:
            sc.f(p); out.append((p, False))
    return out


def gen_pattern(rng, present=None):
    n = (rng.choice(present) if present and rng.random() < 0.75 else rng.choice(NAMES)).decode()
    if rng.random() < 0.15:
        n = n.swapcase()          # same letters, other case: git (and the property) are case-sensitive
    r = rng.random()
    if r < 0.15: core_ = n
    elif r < 0.3: core_ = '*' + n[-2:] if len(n) > 2 else '*'
    elif r < 0.4: core_ = n[0] + '*'
    elif r < 0.5: core_ = '?' * len(n)
    elif r < 0.6: core_ = rng.choice(NAMES).decode() + '/' + n
    elif r < 0.7: core_ = '**/' + n
    elif r < 0.78: core_ = rng.choice(NAMES).decode() + '/**'
    elif r < 0.85: core_ = rng.choice(NAMES).decode() + '/**/' + n
    elif r < 0.9: core_ = '*'
    elif r < 0.95: core_ = '*.o'
    else: core_ = n + '?'
    if rng.random() < 0.2: core_ = '/' + core_
    if rng.random() < 0.25 and not core_.endswith('**'): core_ += '/'
    if rng.random() < 0.2: core_ = '!' + core_
    return core_


def gen(rng, driver, i):
    sc = treerun.Scn(); sc.driver = driver
    sc.d(b'/W').d(b'/W/DEST')
    nsrc = rng.choice([1, 1, 1, 2, 3])
    root_names = rng.sample([b'S', b'build', b'q', b'src', b'a', b'T2'], nsrc)      # a root's own name may match a pattern (F16)
    use = rng.random() < 0.9
    sc.links = rng.random() < 0.4
    # --dereference on a link-free tree changes nothing in what is selected, but the source is then canonicalised: the
    # patterns must still be anchored at the source as spelled (relative, ./, absolute)
    sc.deref = (not sc.links) and rng.random() < 0.25
    sc.gis = []
    for root_name in root_names:
        src = b'/W/' + root_name
        sc.d(src)
        ents = gen_tree(rng, sc, src, rng.randint(1, 3), links=sc.links)
        lines = []
        present = sorted({p.split(b'/')[-1] for p, _ in ents})
        for _ in range(rng.choice([0, 1, 1, 2, 3, 4, 5])):
            r = rng.random()
            lines.append('' if r < 0.08 else '# comment ' + gen_pattern(rng, present) if r < 0.16 else gen_pattern(rng, present))
        text = ('\n'.join(lines) + '\n').encode()
        has_file = rng.random() < 0.92
        if has_file:
            sc.f(src + b'/.gitignore', text=text); ents.append((src + b'/.gitignore', False))
        sc.gis.append(dict(src=src, ents=ents, text=text if has_file else b'', use=use, name=root_name))
    sc.opts = ['r'] + (['gitignore'] if use else []) + (['L'] if sc.deref else [])
    sc.paths = [treegen.spell_path(rng, b'/W', b'/W/' + n, rng.choice(['plain', 'plain', 'dot', 'abs', 'updown', 'slash'])) for n in root_names] + [b'DEST']
    if rng.random() < 0.15:
        # the sources are given as patterns that xcp expands itself (--glob): the filter applies to what they expand to
        sc.opts.append('glob'); sc.paths = [n + b'*' for n in root_names] + [b'DEST']
    sc.gi = sc.gis[0]
    sc.extra = rng.choice([[], [], [], ['--no-progress'], ['--no-progress'], ['--fsync'], ['--no-perms'], ['--no-timestamps'], ['--reflink=never'], ['--no-progress', '--fsync'], ['-v']])      # options that must not change what is selected
    return sc


def git_excluded(root, sc, g=None):
    """git's own answer for every entry (directories given WITHOUT trailing slash: git stats them)"""
    g = g or sc.gi
    src_real = root.encode() + g['src']
    gd = root + '/../gitdir'
    subprocess.run(['git', 'init', '-q', '--bare', gd], check=True, env=core.ENV)
    rels = [p[len(g['src']) + 1:] for p, _ in g['ents']]
    inp = b'\0'.join(rels) + b'\0'
    p = subprocess.run(['git', f'--git-dir={gd}', f'--work-tree={src_real.decode("latin-1")}', 'check-ignore', '--no-index', '-z', '--stdin'],
                       input=inp, stdout=subprocess.PIPE, stderr=subprocess.PIPE, cwd=src_real, env=dict(core.ENV, GIT_CONFIG_NOSYSTEM='1', HOME=root))
    ignored = set(x for x in p.stdout.split(b'\0') if x)
    subprocess.run(['rm', '-rf', gd])
    return {g['src'] + b'/' + r for r in ignored}


def run(ctx):
    ctx.proofs()
    core.build_repo(); core.build_sup()
    rng = ctx.rng
    n = 300 if ctx.quick else 5000
    # corpus: the repaired defect F16 (the root directory's own name matched by a pattern)
    c0 = treerun.Scn(); c0.d(b'/W').d(b'/W/build').d(b'/W/build/src').f(b'/W/build/src/a').f(b'/W/build/x.o').f(b'/W/build/.gitignore', text=b'build/\n*.o\n')
    c0.opts = ['r', 'gitignore']; c0.paths = [b'build', b'DEST']
    c0.d(b'/W/DEST')
    c0.gi = dict(name=b'build', src=b'/W/build', ents=[(b'/W/build/src', True), (b'/W/build/src/a', False), (b'/W/build/x.o', False), (b'/W/build/.gitignore', False)], text=b'build/\n*.o\n', use=True)
    c0.gis = [c0.gi]
    # corpus: the repaired defect F19 (a directory-only pattern must not exclude a symbolic link to a directory), with later siblings
    c1 = treerun.Scn(); c1.d(b'/W').d(b'/W/S').d(b'/W/S/real').f(b'/W/S/real/f').l(b'/W/S/lnk', b'real').l(b'/W/S/flnk', b'real/f').f(b'/W/S/zlast').d(b'/W/S/zdir').f(b'/W/S/zdir/in')
    c1.f(b'/W/S/.gitignore', text=b'lnk/\nflnk/\n'); c1.d(b'/W/DEST'); c1.opts = ['r', 'gitignore']; c1.paths = [b'S', b'DEST']
    c1.gi = dict(name=b'S', src=b'/W/S', text=b'lnk/\nflnk/\n', use=True,
                 ents=[(b'/W/S/real', True), (b'/W/S/real/f', False), (b'/W/S/lnk', False), (b'/W/S/flnk', False), (b'/W/S/zlast', False), (b'/W/S/zdir', True), (b'/W/S/zdir/in', False), (b'/W/S/.gitignore', False)])
    c1.gis = [c1.gi]
    # corpus: an EXCLUDED symbolic link to a directory must not end the visit of its parent (later siblings are still copied)
    c2 = treerun.Scn(); c2.d(b'/W').d(b'/W/S').d(b'/W/S/rel').d(b'/W/S/rel/v2').f(b'/W/S/rel/v2/x').l(b'/W/S/current', b'rel/v2')
    ents2 = [(b'/W/S/rel', True), (b'/W/S/rel/v2', True), (b'/W/S/rel/v2/x', False), (b'/W/S/current', False)]
    for j in range(12):
        c2.f(b'/W/S/sib%d' % j); ents2.append((b'/W/S/sib%d' % j, False))
    c2.f(b'/W/S/.gitignore', text=b'/current\n'); ents2.append((b'/W/S/.gitignore', False)); c2.d(b'/W/DEST'); c2.opts = ['r', 'gitignore']; c2.paths = [b'S', b'DEST']
    c2.gi = dict(name=b'S', src=b'/W/S', text=b'/current\n', use=True, ents=ents2); c2.gis = [c2.gi]
    # corpus: --glob together with --gitignore
    c3 = treerun.Scn(); c3.d(b'/W').d(b'/W/proj_a').d(b'/W/proj_a/build').f(b'/W/proj_a/build/out.bin').f(b'/W/proj_a/top.o').f(b'/W/proj_a/main.c').d(b'/W/proj_a/obj').f(b'/W/proj_a/obj/x.o')
    c3.f(b'/W/proj_a/.gitignore', text=b'*.o\n/build/\n'); c3.d(b'/W/DEST'); c3.opts = ['r', 'gitignore', 'glob']; c3.paths = [b'proj_*', b'DEST']
    c3.gi = dict(name=b'proj_a', src=b'/W/proj_a', text=b'*.o\n/build/\n', use=True,
                 ents=[(b'/W/proj_a/build', True), (b'/W/proj_a/build/out.bin', False), (b'/W/proj_a/top.o', False), (b'/W/proj_a/main.c', False), (b'/W/proj_a/obj', True), (b'/W/proj_a/obj/x.o', False), (b'/W/proj_a/.gitignore', False)])
    c3.gis = [c3.gi]
    # corpus: entries named `.git` (a repository's metadata directory, a submodule's `.git` file) are hidden entries like any
    # other: no pattern mentions them, so they are copied
    c4 = treerun.Scn(); c4.d(b'/W').d(b'/W/S').d(b'/W/S/.git').f(b'/W/S/.git/HEAD').d(b'/W/S/.git/refs').f(b'/W/S/.git/refs/main').d(b'/W/S/mod').f(b'/W/S/mod/.git', text=b'gitdir: ../.git/modules/mod').f(b'/W/S/mod/code.c').f(b'/W/S/obj.o').f(b'/W/S/.hidden')
    c4.f(b'/W/S/.gitignore', text=b'*.o\n/build/\n'); c4.d(b'/W/DEST'); c4.opts = ['r', 'gitignore']; c4.paths = [b'S', b'DEST']
    c4.gi = dict(name=b'S', src=b'/W/S', text=b'*.o\n/build/\n', use=True,
                 ents=[(b'/W/S/.git', True), (b'/W/S/.git/HEAD', False), (b'/W/S/.git/refs', True), (b'/W/S/.git/refs/main', False), (b'/W/S/mod', True), (b'/W/S/mod/.git', False), (b'/W/S/mod/code.c', False), (b'/W/S/obj.o', False), (b'/W/S/.hidden', False), (b'/W/S/.gitignore', False)])
    c4.gis = [c4.gi]
    scs = [c0, c1, c2, c3, c4] + [gen(rng, ['parfile', 'parblock'][i % 2], i) for i in range(n)]
    runs = []
    with core.Scratch('c17') as base:
        # a HOME whose git configuration excludes a lot (core.excludesFile and the XDG default): only the source's own root
        # .gitignore counts, so the result must not depend on who runs the command
        home = base + '/home'
        os.makedirs(home + '/.config/git'); os.makedirs(home + '/xdg/git')
        open(home + '/.config/git/ignore', 'w').write('*.c\nkeep*\na\nb\ntop\n.hidden\n')
        open(home + '/xdg/git/ignore', 'w').write('*\n')
        open(home + '/global-excludes', 'w').write('src\nz\nq\n*.o\nmain.c\n')
        open(home + '/.gitconfig', 'w').write(f'[core]\n\texcludesFile = {home}/global-excludes\n')
        for i, sc in enumerate(scs):
            envx = None
            if i % 3 == 1:
                envx = dict(HOME=home) if i % 2 else dict(HOME=home, XDG_CONFIG_HOME=home + '/xdg')
            o = treerun.run(base, sc, env_extra=envx)
            sc.envx = bool(envx)
            o.git = set().union(*[git_excluded(o.root, sc, g) for g in sc.gis]) if sc.gi['use'] else set()
            runs.append((i, sc, o))
        ans = core.ask(core.MODEL, [o.request for _, _, o in runs])
    for (i, sc, o), a in zip(runs, ans):
        g = sc.gi
        after = treerun.decode(o.after)
        nlines = len([l for l in g['text'].split(b'\n') if l.strip() and not l.startswith(b'#')])
        ctx.count(f'exit.{o.res.cls}'); ctx.count('option.on' if g['use'] else 'option.off'); ctx.count('home_with_global_excludes' if getattr(sc, 'envx', False) else 'home_plain'); ctx.count(f'pattern_lines.{min(nlines, 5)}')
        ctx.count(f'git_excluded.{min(len(o.git), 6)}')
        ctx.case((g['text'], tuple(p for p, _ in g['ents']), g['use'], sc.driver), nontrivial=nlines > 0 and g['use'],
                 sample=dict(gitignore=g['text'].decode(), entries=[p.decode() for p, _ in g['ents']][:12], git_excluded=sorted(x.decode() for x in o.git)[:12]) if i in (0, 4, 9) else None)
        # ---- the property's oracle on the implementation: git is the judge
        bad = None
        if o.res.cls != '0':
            bad = f'copy with --gitignore failed: {o.res.stderr.strip()[-150:]}'
        else:
            for g2 in sc.gis:
              tb = b'/W/DEST/' + g2['name']
              for p, isdir in g2['ents']:
                d = tb + p[len(g2['src']):]
                copied = d in after
                excluded = p in o.git
                if copied and excluded:
                    bad = f'{p!r} is excluded by git but was copied'
                elif not copied and not excluded:
                    bad = f'{p!r} is not excluded by git but was not copied'
                if bad: break
        if bad:
            ctx.violation(f'case-{i}.json', dict(gitignore=g['text'].decode('latin-1'), entries=[(repr(p), d) for p, d in g['ents']], git_excluded=sorted(repr(x) for x in o.git), option=g['use'],
                                                 argv=[repr(x) for x in o.argv], oracle=bad), f'C17: {bad} (.gitignore {g["text"]!r})')
            continue
        ctx.cov['traces_validated_against_impl'] += 1
        ex, rej, toks = treerun.model_snapshot(a)
        if ex != 'ok' or toks != o.after:
            ctx.cov['disagreements_checked'] += 1
            ctx.violation(f'case-{i}-corr.json', dict(gitignore=g['text'].decode('latin-1'), request=o.request, model_exit=ex, diff=treerun.diff_tokens(o.after, toks, 20),
                                                      correspondence='xcp --gitignore vs the Lean gitignore specification (Xcp.Gi) inside Xcp.L1run; git agrees with xcp on this case'),
                          f'the Lean gitignore specification disagrees with xcp and git on {g["text"]!r}: {treerun.diff_tokens(o.after, toks, 3)}', no_input=True)
    ctx.cov['rule'] = ('trees of depth <= 3 over a small name pool (incl. dotfiles; the root named S/build/q/src/a so that patterns may match the root itself) x .gitignore of 0-5 lines from the fragment '
                       '(literal, *x, x*, ???, a/b, **/x, a/**, a/**/x, *, *.o, optional leading /, trailing /, !), comments, blank lines; option on/off; file present/absent; optional symbolic links to siblings (40 %), optional --dereference on link-free trees with the source spelled relative/./absolute/with ..; both drivers. '
                       'distinct = distinct (text, tree, option, driver); non-trivial = option on and at least one pattern line')
    ctx.assumptions += ['git 2.39 `check-ignore --no-index` is the reference for git semantics', 'the ignore/globset crates are third-party: tied only by this differential run']


def replay(ctx, path):
    run(ctx)
