"""C20 — open descriptors stay bounded regardless of how many files are copied.
Proof: XcpProps/C20.lean (Arc-count invariant of the dispatcher/pool model: open handles <= cap + workers + 1;
parfile: <= workers).  Correspondence: real runs over trees of hundreds..thousands of files under sup with the
pool threads stalled at copy_file_range (workers slower than the dispatcher), RLIMIT_NOFILE=1024; the measured
peak of open descriptors must stay within the model's bound (2 per handle + a constant), must not grow with
the number of files, and under stall must REACH the queue-capacity-dependent level (so a changed capacity is
seen as a disagreement)."""
import os, shutil
from .. import core, scen

CAP = 128
CONST = 16      # stdio, walkdir's directory handles (<= 10), /proc reads at start-up


def make_tree(root, n, rng):
    shutil.rmtree(root + '/S', ignore_errors=True); shutil.rmtree(root + '/D', ignore_errors=True)
    os.makedirs(root + '/S')
    per = 250
    for d in range((n + per - 1) // per):
        os.makedirs(f'{root}/S/d{d}')
        for i in range(min(per, n - d * per)):
            with open(f'{root}/S/d{d}/f{i}', 'wb') as fh:
                fh.write(b'x' * rng.choice([1, 10, 100]))


def run(ctx):
    ctx.proofs()
    core.build_repo(); core.build_sup()
    rng = ctx.rng
    sizes = [(400, 2), (1200, 2), (3000, 4)] if ctx.quick else [(400, 1), (1200, 2), (3000, 4), (10000, 8), (20000, 64)]
    peaks = {}
    with core.Scratch('c20') as root:
        for n, workers in sizes:
            make_tree(root, n, rng)
            for driver in ('parblock', 'parfile'):
                for stall, extra in (((20000, []), (0, [])) if n == 400 else ((0, []), (0, ['--fsync']), (0, ['--no-perms', '--no-timestamps']))):
                    shutil.rmtree(root + '/D', ignore_errors=True)
                    plan = [f'stall copy_file_range {stall}'] if stall else []
                    r = scen.run_xcp(root, ['-r', '--driver', driver, '--workers', str(workers)] + extra + ['S', 'D'], plan=plan, timeout=600, nofile=1024, trace=True)
                    peak = r.final.get('peak_fds', -1)
                    bound = (2 * (CAP + workers + 1) if driver == 'parblock' else 2 * workers) + CONST
                    ctx.count(f'driver.{driver}'); ctx.count(f'files.{n}'); ctx.count(f'exit.{r.cls}')
                    ctx.case((n, workers, driver, stall, tuple(extra)), True, sample=dict(files=n, workers=workers, driver=driver, stall_us=stall, options=extra, peak_descriptors=peak, model_bound=bound))
                    peaks[(n, workers, driver, stall, tuple(extra))] = peak
                    ctx.cov['traces_validated_against_impl'] += 1
                    if r.cls != '0':
                        ctx.violation(f'tree-{n}-{driver}-{stall}.json', dict(files=n, workers=workers, driver=driver, plan=plan, exit=r.exit, stderr=r.stderr[-600:], peak=peak),
                                      f'C20: copying {n} files under RLIMIT_NOFILE=1024 failed ({r.cls}): {r.stderr.strip()[-120:]}')
                        continue
                    copied = sum(len(fs) for _, _, fs in os.walk(root + '/D'))
                    if copied != n:
                        ctx.violation(f'tree-{n}-{driver}-{stall}-count.json', dict(files=n, copied=copied), f'C20: exit 0 but {copied} of {n} files copied')
                    if peak > bound:
                        ctx.cov['disagreements_checked'] += 1
                        ctx.violation(f'tree-{n}-{driver}-{stall}-peak.json', dict(files=n, workers=workers, driver=driver, plan=plan, peak=peak, bound=bound,
                                                                                 correspondence='measured peak of open descriptors vs 2*(cap+workers+1)+const from Xcp.Pool.open_bound',
                                                                                 theorems=['Xcp.C20.parblock_open_handles_bounded']),
                                      f'measured peak {peak} exceeds the model bound {bound} ({driver}, {workers} workers, {n} files)', no_input=True)
                    if driver == 'parblock' and stall and n >= 400 and peak < 2 * CAP:
                        ctx.cov['disagreements_checked'] += 1
                        ctx.violation(f'tree-{n}-{driver}-{stall}-low.json', dict(files=n, workers=workers, plan=plan, peak=peak, expected_at_least=2 * CAP,
                                                                                correspondence='with stalled workers the dispatcher fills the bounded queue: the model reaches cap + workers + 1 open handles',
                                                                                theorems=['Xcp.C20.bound_is_attained']),
                                      f'with stalled workers the peak {peak} does not reach the level the model predicts for queue capacity {CAP}', no_input=True)
    ctx.cov['peaks'] = {str(k): v for k, v in peaks.items()}
    ctx.cov['rule'] = 'trees of 400..3000 (thorough: ..20000) small files x driver x workers x {no stall, every copy_file_range stalled}; RLIMIT_NOFILE=1024. distinct = distinct (files, workers, driver, stall)'
    ctx.assumptions += ['descriptors = 2 per open CopyHandle + a constant (stdio, directory handles); crossbeam/threadpool internals hold no descriptors']


def replay(ctx, path):
    run(ctx)
