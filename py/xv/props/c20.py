"""C20 — open descriptors stay bounded regardless of how many files are copied.
Proof: XcpProps/C20.lean (Arc-count invariant of the dispatcher/pool model: open handles <= cap + workers + 1;
parfile: <= workers).  Correspondence: real runs over trees of hundreds..thousands of files under sup with the
pool threads stalled at copy_file_range (workers slower than the dispatcher), RLIMIT_NOFILE=1024; the measured
peak of open descriptors must stay within the model's bound (2 per handle + a constant), must not grow with
the number of files, and under stall must REACH the queue-capacity-dependent level (so a changed capacity is
seen as a disagreement)."""
import os, shutil
from .. import core, scen

CAP = 128
CONST = 16      # stdio, walkdir's directory handles (<= 10), /proc reads at start-up


def make_tree(root, n, rng):
    shutil.rmtree(root + '/S', ignore_errors=True); shutil.rmtree(root + '/D', ignore_errors=True)
    os.makedirs(root + '/S')
    per = 250
    for d in range((n + per - 1) // per):
        os.makedirs(f'{root}/S/d{d}')
        for i in range(min(per, n - d * per)):
            with open(f'{root}/S/d{d}/f{i}', 'wb') as fh:
                fh.write(b'x' * rng.choice([1, 10, 100]))


def run(ctx):
    ctx.proofs()
    core.build_repo(); core.build_sup()
    rng = ctx.rng
    sizes = [(400, 2), (1200, 2), (3000, 4)] if ctx.quick else [(400, 1), (1200, 2), (3000, 4), (10000, 8), (20000, 64)]
    peaks = {}
    with core.Scratch('c20') as root:
        for n, workers in sizes:
            make_tree(root, n, rng)
            for driver in ('parblock', 'parfile'):
                for stall, extra in (((20000, []), (0, [])) if n == 400 else ((0, []), (0, ['--fsync']), (0, ['--no-perms', '--no-timestamps']), (0, ['-L']), (0, ['--ownership']))):
                    shutil.rmtree(root + '/D', ignore_errors=True)
                    plan = [f'stall copy_file_range {stall}'] if stall else []
                    r = scen.run_xcp(root, ['-r', '--driver', driver, '--workers', str(workers)] + extra + ['S', 'D'], plan=plan, timeout=600, nofile=1024, trace=True)
                    peak = r.final.get('peak_fds', -1)
                    bound = (2 * (CAP + workers + 1) if driver == 'parblock' else 2 * workers) + CONST
                    ctx.count(f'driver.{driver}'); ctx.count(f'files.{n}'); ctx.count(f'exit.{r.cls}')
                    ctx.case((n, workers, driver, stall, tuple(extra)), True, sample=dict(files=n, workers=workers, driver=driver, stall_us=stall, options=extra, peak_descriptors=peak, model_bound=bound))
                    peaks[(n, workers, driver, stall, tuple(extra))] = peak
                    ctx.cov['traces_validated_against_impl'] += 1
                    if r.cls != '0':
                        ctx.violation(f'tree-{n}-{driver}-{stall}.json', dict(files=n, workers=workers, driver=driver, plan=plan, exit=r.exit, stderr=r.stderr[-600:], peak=peak),
                                      f'C20: copying {n} files under RLIMIT_NOFILE=1024 failed ({r.cls}): {r.stderr.strip()[-120:]}')
                        continue
                    copied = sum(len(fs) for _, _, fs in os.walk(root + '/D'))
                    if copied != n:
                        ctx.violation(f'tree-{n}-{driver}-{stall}-count.json', dict(files=n, copied=copied), f'C20: exit 0 but {copied} of {n} files copied')
                    if peak > bound:
                        ctx.cov['disagreements_checked'] += 1
                        ctx.violation(f'tree-{n}-{driver}-{stall}-peak.json', dict(files=n, workers=workers, driver=driver, plan=plan, peak=peak, bound=bound,
                                                                                 correspondence='measured peak of open descriptors vs 2*(cap+workers+1)+const from Xcp.Pool.open_bound',
                                                                                 theorems=['Xcp.C20.parblock_open_handles_bounded']),
                                      f'measured peak {peak} exceeds the model bound {bound} ({driver}, {workers} workers, {n} files)', no_input=True)
                    if driver == 'parblock' and stall and n >= 400 and peak < 2 * CAP:
                        ctx.cov['disagreements_checked'] += 1
                        ctx.violation(f'tree-{n}-{driver}-{stall}-low.json', dict(files=n, workers=workers, plan=plan, peak=peak, expected_at_least=2 * CAP,
                                                                                correspondence='with stalled workers the dispatcher fills the bounded queue: the model reaches cap + workers + 1 open handles',
                                                                                theorems=['Xcp.C20.bound_is_attained']),
                                      f'with stalled workers the peak {peak} does not reach the level the model predicts for queue capacity {CAP}', no_input=True)
        # ---- a tree that is DEEP rather than wide (one directory per level): the walker must not hold a descriptor per level
        import subprocess
        depth = 1100
        subprocess.run(['rm', '-rf', root + '/S', root + '/D'])
        cur = root + '/S'
        os.makedirs(cur)
        fd = os.open(cur, os.O_RDONLY)
        try:
            for lvl in range(depth):
                os.mkdir('d', dir_fd=fd)
                nfd = os.open('d', os.O_RDONLY, dir_fd=fd); os.close(fd); fd = nfd
                if lvl % 100 == 99:
                    f = os.open(f'f{lvl}', os.O_CREAT | os.O_WRONLY, 0o644, dir_fd=fd); os.write(f, b'deep'); os.close(f)
        finally:
            os.close(fd)
        for driver in ('parblock', 'parfile'):
            subprocess.run(['rm', '-rf', root + '/D'])
            r = scen.run_xcp(root, ['-r', '--driver', driver, '--workers', '4', 'S', 'D'], timeout=600, nofile=1024, trace=True)
            peak = r.final.get('peak_fds', -1)
            bound = (2 * (CAP + 4 + 1) if driver == 'parblock' else 2 * 4) + CONST
            ctx.count(f'deep.{driver}.exit.{r.cls}'); ctx.case(('deep', depth, driver), True, sample=dict(tree=f'{depth} nested directories', driver=driver, peak_descriptors=peak, model_bound=bound))
            peaks[('deep', depth, driver)] = peak
            nfiles = int(subprocess.run(f'find {root}/D -type f | wc -l', shell=True, capture_output=True, text=True).stdout or 0)
            if r.cls != '0' or nfiles != depth // 100:
                ctx.violation(f'deep-{driver}.json', dict(depth=depth, driver=driver, exit=r.cls, copied_files=nfiles, peak=peak, stderr=r.stderr[-300:]),
                              f'C20: copying a tree {depth} directories deep under RLIMIT_NOFILE=1024 failed or is incomplete ({r.cls}, {nfiles} of {depth // 100} files, peak {peak} descriptors): {r.stderr.strip()[-100:]}')
            elif peak > bound:
                ctx.violation(f'deep-{driver}-peak.json', dict(depth=depth, driver=driver, peak=peak, bound=bound, correspondence='descriptor peak vs model bound on a deep tree'),
                              f'measured peak {peak} exceeds the model bound {bound} on a tree {depth} levels deep ({driver})', no_input=True)
        subprocess.run(['rm', '-rf', root + '/S', root + '/D'])
        # ---- many SPARSE files, pool threads slower than the dispatcher: the bounded queue must hold the dispatcher back for
        # sparse files exactly as for plain ones
        nsp = 700 if ctx.quick else 3000
        os.makedirs(root + '/S')
        for i in range(nsp):
            f = os.open(f'{root}/S/sp{i}', os.O_CREAT | os.O_WRONLY, 0o644); os.ftruncate(f, 1 << 20); os.pwrite(f, b'data' * 1024, 512 * 1024); os.close(f)
        os.sync()
        for workers in (2,):
            subprocess.run(['rm', '-rf', root + '/D'])
            plan = ['stall copy_file_range 40000']
            r = scen.run_xcp(root, ['-r', '--driver', 'parblock', '--workers', str(workers), 'S', 'D'], plan=plan, timeout=900, nofile=1024, trace=True)
            peak = r.final.get('peak_fds', -1)
            bound = 2 * (CAP + workers + 1) + CONST
            ctx.count(f'sparse_many.exit.{r.cls}'); ctx.case(('sparse-many', nsp, workers), True, sample=dict(files=nsp, layout='1 MiB apparent, 4 KiB data', workers=workers, stall_us=40000, peak_descriptors=peak, model_bound=bound))
            peaks[('sparse', nsp, workers)] = peak
            if r.cls != '0':
                ctx.violation(f'sparse-many-{workers}.json', dict(files=nsp, workers=workers, plan=plan, exit=r.cls, peak=peak, stderr=r.stderr[-300:]),
                              f'C20: copying {nsp} sparse files under RLIMIT_NOFILE=1024 with slow pool threads failed ({r.cls}, peak {peak}): {r.stderr.strip()[-100:]}')
            elif peak > bound:
                ctx.cov['disagreements_checked'] += 1
                ctx.violation(f'sparse-many-{workers}-peak.json', dict(files=nsp, workers=workers, plan=plan, peak=peak, bound=bound, correspondence='descriptor peak vs 2*(cap+workers+1)+const for sparse files',
                                                                       theorems=['Xcp.C20.parblock_open_handles_bounded']),
                              f'measured peak {peak} exceeds the model bound {bound} ({nsp} sparse files, {workers} workers)', no_input=True)
        subprocess.run(['rm', '-rf', root + '/S', root + '/D'])
        # ---- many SOURCE OPERANDS (xcp -r p* dst) under a small descriptor limit, every directory read slowed down: the sources are
        # walked one after the other, so the number of operands does not show in the number of open directories
        subprocess.run(['rm', '-rf', root + '/S', root + '/D', root + '/P'])
        os.makedirs(root + '/P')
        nops = 120
        for i in range(nops):
            os.makedirs(f'{root}/P/p{i}'); open(f'{root}/P/p{i}/f', 'wb').write(b'x')
        for workers in (2, 4):
            subprocess.run(f'rm -rf {root}/D; mkdir {root}/D', shell=True)
            r = scen.run_xcp(root + '/P', ['-r', '--driver', 'parfile', '--workers', str(workers)] + [f'p{i}' for i in range(nops)] + ['../D'], plan=['stall getdents64 60000'], timeout=300,
                             env_extra={'SUP_CHILD_NOFILE': '48'}, trace=True)
            peak = r.final.get('peak_fds', -1)
            ncopied = sum(len(fs) for _, _, fs in os.walk(root + '/D'))
            ctx.count(f'many_operands.parfile.exit.{r.cls}'); ctx.case(('many-operands', workers), True, sample=dict(operands=nops, driver='parfile', workers=workers, child_nofile=48, peak_descriptors=peak))
            peaks[('many-operands', workers)] = peak
            if r.cls != '0' or ncopied != nops:
                ctx.violation(f'many-operands-{workers}.json', dict(operands=nops, workers=workers, exit=r.cls, copied=ncopied, peak=peak, stderr=r.stderr[-300:]),
                              f'C20: copying {nops} source operands under RLIMIT_NOFILE=48 with slow directory reads failed or is incomplete ({r.cls}, {ncopied} of {nops} files, peak {peak}): {r.stderr.strip()[-100:]}')
        subprocess.run(['rm', '-rf', root + '/P', root + '/D'])
        # ---- finalisation FAILS for every file (fchmod refused: a destination owned by someone else): whatever is logged or
        # reported, the descriptors must still be closed — 1200 files under the limit
        make_tree(root, 1200, rng)
        for driver in ('parblock', 'parfile'):
            subprocess.run(['rm', '-rf', root + '/D'])
            plan = [f'fail fchmod * * {scen.ERRNO["EPERM"]}']
            r = scen.run_xcp(root, ['-r', '--driver', driver, '--workers', '4', 'S', 'D'], plan=plan, timeout=600, nofile=1024, trace=True)
            peak = r.final.get('peak_fds', -1)
            bound = (2 * (CAP + 4 + 1) if driver == 'parblock' else 2 * 4) + CONST
            ctx.count(f'finalise_fails.{driver}.exit.{r.cls}'); ctx.case(('finalise-fails', driver), True, sample=dict(files=1200, driver=driver, plan=plan, peak_descriptors=peak, model_bound=bound))
            peaks[('finalise-fails', driver)] = peak
            toomany = 'Too many open files' in r.stderr
            if toomany or peak > bound:
                ctx.violation(f'finalise-fails-{driver}.json', dict(files=1200, driver=driver, plan=plan, exit=r.cls, peak=peak, bound=bound, stderr=r.stderr[-300:]),
                              f'C20: with every fchmod failing, {"the run hit the descriptor limit" if toomany else f"the peak {peak} exceeds the bound {bound}"} after copying under RLIMIT_NOFILE=1024 ({driver}): descriptors are not released when finalisation fails')
        # ---- many DIRECTORIES with a non-default mode (0750, 2775): the walker must not keep anything open per directory
        subprocess.run(['rm', '-rf', root + '/S', root + '/D'])
        os.makedirs(root + '/S')
        ndirs = 1200
        for i in range(ndirs):
            os.makedirs(f'{root}/S/g{i // 50}/d{i}', exist_ok=True); os.chmod(f'{root}/S/g{i // 50}/d{i}', [0o750, 0o2775, 0o700][i % 3])
            open(f'{root}/S/g{i // 50}/d{i}/f', 'wb').write(b'x')
        for driver, dextra in (('parblock', []), ('parfile', ['--fsync']), ('parblock', ['--fsync']), ('parfile', [])):
            subprocess.run(['rm', '-rf', root + '/D'])
            r = scen.run_xcp(root, ['-r', '--driver', driver, '--workers', '4'] + dextra + ['S', 'D'], timeout=600, nofile=1024, trace=True)
            peak = r.final.get('peak_fds', -1)
            bound = (2 * (CAP + 4 + 1) if driver == 'parblock' else 2 * 4) + CONST
            ctx.count(f'many_dirs.{driver}.exit.{r.cls}'); ctx.case(('many-dirs', driver, tuple(dextra)), True, sample=dict(directories=ndirs, options=dextra, modes='0750/2775/0700', driver=driver, peak_descriptors=peak, model_bound=bound))
            peaks[('many-dirs', driver, tuple(dextra))] = peak
            ncopied = sum(len(fs) for _, _, fs in os.walk(root + '/D'))
            if r.cls != '0' or ncopied != ndirs:
                ctx.violation(f'many-dirs-{driver}-{len(dextra)}.json', dict(directories=ndirs, driver=driver, options=dextra, exit=r.cls, copied=ncopied, peak=peak, stderr=r.stderr[-300:]),
                              f'C20: copying {ndirs} directories (non-default modes, options {dextra}) under RLIMIT_NOFILE=1024 failed or is incomplete ({r.cls}, {ncopied} of {ndirs} files, peak {peak}): {r.stderr.strip()[-100:]}')
            elif peak > bound:
                ctx.violation(f'many-dirs-{driver}-{len(dextra)}-peak.json', dict(directories=ndirs, driver=driver, peak=peak, bound=bound, correspondence='descriptor peak vs model bound with many non-default-mode directories'),
                              f'measured peak {peak} exceeds the model bound {bound} with {ndirs} non-default-mode directories ({driver}, {dextra})', no_input=True)
        subprocess.run(['rm', '-rf', root + '/S', root + '/D'])
        # ---- many MULTI-BLOCK files (each cut into several block jobs) and ONE file of very many blocks: neither the number of such
        # files nor the number of blocks of a file shows in the number of open descriptors
        os.makedirs(root + '/S')
        nmb = 800
        for i in range(nmb):
            open(f'{root}/S/m{i}', 'wb').write(b'%04d' % i * 10240)      # 40 KiB = 3 blocks of 16 KiB
        for label, argv_, nexp in (('many-multi-block-files', ['-r', '--driver', 'parblock', '--workers', '4', '--block-size', '16KB', 'S', 'D'], nmb),
                                   ('one-file-of-1500-blocks', ['--driver', 'parblock', '--workers', '4', '--block-size', '4KB', 'big', 'D'], 1)):
            subprocess.run(['rm', '-rf', root + '/D'])
            if nexp == 1:
                open(root + '/big', 'wb').write(os.urandom(1500 * 4096))
            r = scen.run_xcp(root, argv_, timeout=600, nofile=1024, trace=True)
            peak = r.final.get('peak_fds', -1)
            bound = 2 * (CAP + 4 + 1) + CONST
            ncopied = sum(len(fs) for _, _, fs in os.walk(root + '/D')) if os.path.isdir(root + '/D') else int(os.path.isfile(root + '/D'))
            ctx.count(f'{label}.exit.{r.cls}'); ctx.case((label,), True, sample=dict(shape=label, peak_descriptors=peak, model_bound=bound))
            peaks[(label,)] = peak
            if r.cls != '0' or ncopied != nexp:
                ctx.violation(f'{label}.json', dict(argv=argv_, exit=r.cls, copied=ncopied, peak=peak, stderr=r.stderr[-300:]),
                              f'C20: {label} under RLIMIT_NOFILE=1024 failed or is incomplete ({r.cls}, {ncopied} of {nexp} files, peak {peak}): {r.stderr.strip()[-100:]}')
            elif peak > bound:
                ctx.violation(f'{label}-peak.json', dict(argv=argv_, peak=peak, bound=bound, correspondence='descriptor peak vs model bound'),
                              f'measured peak {peak} exceeds the model bound {bound} ({label})', no_input=True)
        subprocess.run(['rm', '-rf', root + '/S', root + '/D', root + '/big'])
        # ---- many REGULAR FILES named one by one on the command line (`xcp dir/* dest/`): operands are not held open
        os.makedirs(root + '/P'); os.makedirs(root + '/D')
        nfo = 700
        for i in range(nfo):
            open(f'{root}/P/o{i}', 'wb').write(b'%d' % i)
        for driver in ('parfile', 'parblock'):
            subprocess.run(['rm', '-rf', root + '/D']); os.makedirs(root + '/D')
            r = scen.run_xcp(root + '/P', ['--driver', driver, '--workers', '4'] + [f'o{i}' for i in range(nfo)] + ['../D'], timeout=300, nofile=512, trace=True)
            peak = r.final.get('peak_fds', -1)
            ncopied = len(os.listdir(root + '/D'))
            bound = (2 * (CAP + 4 + 1) if driver == 'parblock' else 2 * 4) + CONST
            ctx.count(f'many_file_operands.{driver}.exit.{r.cls}'); ctx.case(('many-file-operands', driver), True, sample=dict(operands=nfo, driver=driver, nofile=512, peak_descriptors=peak))
            peaks[('file-operands', driver)] = peak
            if r.cls != '0' or ncopied != nfo:
                ctx.violation(f'many-file-operands-{driver}.json', dict(operands=nfo, driver=driver, exit=r.cls, copied=ncopied, peak=peak, stderr=r.stderr[-300:]),
                              f'C20: {nfo} regular files given as operands under RLIMIT_NOFILE=512 failed or is incomplete ({r.cls}, {ncopied} copied, peak {peak}): {r.stderr.strip()[-100:]}')
            elif peak > min(bound, 200):
                ctx.violation(f'many-file-operands-{driver}-peak.json', dict(operands=nfo, driver=driver, peak=peak, bound=min(bound, 200), correspondence='descriptor peak must not grow with the number of operands'),
                              f'measured peak {peak} with {nfo} file operands ({driver})', no_input=True)
        subprocess.run(['rm', '-rf', root + '/P', root + '/D'])
    ctx.cov['peaks'] = {str(k): v for k, v in peaks.items()}
    ctx.cov['rule'] = '800 files of 3 blocks each and one file of 1500 blocks (parblock); trees of 400..3000 (thorough: ..20000) small files x driver x workers x {no stall, every copy_file_range stalled}; RLIMIT_NOFILE=1024; a tree 1100 directories deep; 700 (thorough 3000) sparse files with stalled pool threads; 1200 files with every fchmod failing; 1200 directories with non-default modes, also with --fsync; -L and --ownership on the 1200/3000-file trees; 120 source operands under RLIMIT_NOFILE=48 with slow directory reads. distinct = distinct (files, workers, driver, stall)'
    ctx.assumptions += ['descriptors = 2 per open CopyHandle + a constant (stdio, directory handles); crossbeam/threadpool internals hold no descriptors']


def replay(ctx, path):
    run(ctx)
