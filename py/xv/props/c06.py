"""C06 — outcome is independent of thread interleaving, worker count and driver.
Proof (partial): XcpProps/C06.lean.  Correspondence (A)+(B): each scenario (nested directories, many small files,
multi-block files, links) is run under several seeded schedule perturbations x workers {1,2,3,8,64} x both drivers;
every run must exit with the same status and leave the same destination (paths, kinds, bytes, link targets,
permissions, timestamps) as the model's sequential prediction; each trace must create a directory before anything
inside it and apply a file's metadata after its last write (Lean monitor)."""
import os, stat
from .. import core, scen, treerun, treegen, fileproj


def gen(rng):
    sc = treerun.Scn()
    sc.d(b'/W').d(b'/W/S')
    ents = treegen.gen_subtree(rng, sc, b'/W/S', rng.randint(1, 3), rng.randint(2, 4), links=True, specials=rng.random() < 0.4)
    # multi-block files and many small ones
    for i in range(rng.choice([0, 3, 12])):
        sc.f(b'/W/S/small%d' % i)
    for i in range(rng.choice([1, 2])):
        sc.f(b'/W/S/multi%d' % i, text=bytes([65 + i]) * rng.choice([2500, 7001, 16384]))
    if rng.random() < 0.5:
        sc.d(b'/W/DEST'); sc.f(b'/W/DEST/keep')
    sc.opts = ['r']; sc.extra = ['--block-size', str(rng.choice([512, 1000, 4096]))]
    sc.paths = [b'S', b'DEST']
    return sc


def file_meta(root, toks):
    out = {}
    for p, v in treerun.decode(toks).items():
        if v.startswith('f:') and p.startswith(b'/W/DEST'):
            st = os.lstat(root.encode() + p)
            out[p] = (stat.S_IMODE(st.st_mode), st.st_mtime_ns)
    return out


def dir_modes(root, toks, before):
    """permission bits of the directories the run created (process-wide state such as the umask must not leak between threads)"""
    pre = treerun.decode(before)
    return {p: stat.S_IMODE(os.lstat(root.encode() + p).st_mode) for p, v in treerun.decode(toks).items() if v == 'd' and p.startswith(b'/W/DEST') and p not in pre}


def check_trace(o, dest_real):
    """mkdir before children; returns message or None"""
    made = {}
    for e in o.res.trace:
        if e['sys'] == 'mkdir' and e['ret'] == 0:
            made[os.path.normpath(os.path.join(o.cwd_real, e['path']))] = e
    existed = {os.path.normpath(o.root + p.decode('latin-1')) for p, v in treerun.decode(o.before).items() if v == 'd'}
    for e in o.res.trace:
        if not e.get('mut') or e['ret'] < 0:
            continue
        pth = e.get('path')
        if not pth or e['sys'] in ('mkdir',):
            continue
        full = os.path.normpath(os.path.join(o.cwd_real, pth))
        if not full.startswith(dest_real):
            continue
        parent = os.path.dirname(full)
        if parent in existed or parent == os.path.dirname(dest_real):
            continue
        m = made.get(parent)
        if m is None or not fileproj.happens_before(m, e):
            return f'{e["sys"]} {pth} was issued before its directory {parent} was created'
    return None


def forced_order_findings(ctx, base):
    """the two recorded findings, made deterministic by stalling one file's open"""
    # F10: two sources mapping onto one target
    f10 = ctx.open_finding('F10')
    outs = []
    for first in (b'a', b'b'):
        sc = treerun.Scn(); sc.driver = 'parfile'; sc.workers = 2
        sc.d(b'/W').d(b'/W/a').f(b'/W/a/f', text=b'A' * 3000).d(b'/W/b').f(b'/W/b/f', text=b'B' * 3000).d(b'/W/DEST')
        sc.paths = [b'a/f', b'b/f', b'DEST']
        o = treerun.run(base, sc, plan=[f'stallp openat ={first.decode()}/f 60000'], trace=True)
        outs.append((o.res.cls, treerun.decode(o.after).get(b'/W/DEST/f')))
    ctx.case(('F10', tuple(outs)), True, sample=dict(finding='F10', outcomes=[list(x) for x in outs]))
    if outs[0] != outs[1] or any(x[0] == '0' for x in outs):
        if f10:
            ctx.known_finding('F10', f10['what'])
        else:
            ctx.violation('F10.json', dict(outcomes=outs), f'C06: two sources onto one target: the result depends on the schedule ({outs})')
    # F14: which files are complete after a FAILING run depends on the schedule
    f14 = ctx.open_finding('F14')
    outs = []
    for stalled in (b'f2', b'f3'):
        sc = treerun.Scn(); sc.driver = 'parfile'; sc.workers = 2
        sc.d(b'/W').d(b'/W/S').f(b'/W/S/f1').f(b'/W/S/f2').f(b'/W/S/f3')
        sc.opts = ['r']; sc.paths = [b'S', b'DEST']
        o = treerun.run(base, sc, plan=[f'fail ftruncate f2 1 {scen.ERRNO["ENOSPC"]}', f'stallp openat =S/{stalled.decode()} 80000'], trace=True)
        after = treerun.decode(o.after)
        outs.append((o.res.cls, tuple(sorted(p for p, v in after.items() if p.startswith(b'/W/DEST/') and v.startswith('f:') and v != 'f:0' and v != 'f:?'))))
    ctx.case(('F14', tuple(outs)), True, sample=dict(finding='F14', outcomes=[[x[0], [p.decode() for p in x[1]]] for x in outs]))
    if outs[0][1] != outs[1][1]:
        if f14:
            ctx.known_finding('F14', f14['what'])
        else:
            ctx.violation('F14.json', dict(outcomes=[[x[0], [repr(p) for p in x[1]]] for x in outs]), 'C06: the final destination of a failing run depends on the schedule')
    if outs[0][0] != outs[1][0] or outs[0][0] == '0':
        ctx.violation('F14-exit.json', dict(outcomes=[x[0] for x in outs]), 'C06: the exit status of a failing run depends on the schedule / is 0')


def backup_prefix_names(ctx, base):
    """numbered backups of prefix-related sibling names (f, f0, f00) over a populated destination: the listing must not
    depend on which worker's rename lands first (no model comparison: L1 has no backups; runs are compared with each other)"""
    rng = ctx.rng
    ref = None
    for j in range(6 if ctx.quick else 24):
        sc = treerun.Scn(); sc.driver = ['parfile', 'parblock'][j % 2]; sc.workers = [1, 4, 8][j % 3]
        sc.d(b'/W').d(b'/W/S').d(b'/W/DEST')
        for n in (b'f00', b'f0', b'f', b'g'):
            sc.f(b'/W/S/' + n, text=b'new-' + n); sc.f(b'/W/DEST/' + n, text=b'old-' + n)
        sc.opts = ['r', 'T']; sc.extra = ['--backup=numbered']; sc.paths = [b'S', b'DEST']
        plan = [f'sched {ctx.seed * 71 + j} {rng.choice(["pct", "delay"])} {rng.randint(1, 3)}', 'stallp rename * %d' % rng.choice([0, 3000, 20000])]
        if j == 0:      # forced order: the longest name first, then its prefixes (each worker starts after the previous one's rename)
            sc.driver, sc.workers, plan = 'parfile', 4, ['stallp openat =S/f0 60000', 'stallp openat =S/f 120000', 'stallp openat =S/g 1000']
        elif j == 1:    # forced order: the shortest name first
            sc.driver, sc.workers, plan = 'parfile', 4, ['stallp openat =S/f0 60000', 'stallp openat =S/f00 120000']
        o = treerun.run(base, sc, plan=plan, trace=True, timeout=60)
        names = sorted(p for p in treerun.decode(o.after) if p.startswith(b'/W/DEST/'))
        cur = (o.res.cls, tuple(names))
        ctx.count('backup_prefix_names.' + o.res.cls)
        ctx.case(('backup-prefix', j, sc.driver, sc.workers, tuple(plan)), True, sample=dict(scenario='backup-prefix-names', listing=[n.decode() for n in names]) if j == 0 else None)
        if ref is None:
            ref = (cur, sc.driver, sc.workers, plan)
        elif cur != ref[0]:
            ctx.violation(f'backup-prefix-{j}.json', dict(this=dict(driver=sc.driver, workers=sc.workers, plan=plan, exit=cur[0], listing=[repr(n) for n in cur[1]]),
                                                          other=dict(driver=ref[1], workers=ref[2], plan=ref[3], exit=ref[0][0], listing=[repr(n) for n in ref[0][1]])),
                          f'C06: with --backup=numbered the destination listing depends on the schedule/driver: {sorted(set(cur[1]) ^ set(ref[0][1]))[:4]}')
            break


def process_wide_state(ctx, base):
    """many special nodes created by the workers while the walker keeps creating directories: nothing process-wide
    (umask, cwd) touched around one thread's node creation may leak into what another thread creates"""
    for j, (driver, workers) in enumerate((('parfile', 4), ('parblock', 2), ('parfile', 1))):
        sc = treerun.Scn(); sc.driver, sc.workers = driver, workers
        sc.d(b'/W').d(b'/W/S')
        for i in range(24):
            sc.d(b'/W/S/d%d' % i); sc.s(b'/W/S/d%d/p' % i, 'fifo'); sc.s(b'/W/S/d%d/q' % i, 'fifo'); sc.f(b'/W/S/d%d/f' % i); sc.d(b'/W/S/d%d/sub' % i)
        sc.opts = ['r']; sc.extra = ['--no-perms'] if j == 2 else []; sc.paths = [b'S', b'DEST']
        o = treerun.run(base, sc, plan=['stall mknodat 4000', 'stall umask 4000'], trace=True, timeout=120)
        dm = dir_modes(o.root, o.after, o.before)
        wrong = {p: m for p, m in dm.items() if m != 0o755}
        fm = {p: stat.S_IMODE(os.lstat(o.root.encode() + p).st_mode) for p, v in treerun.decode(o.after).items() if v.startswith('f:') and p.startswith(b'/W/DEST')}
        wrongf = {p: m for p, m in fm.items() if m != 0o644}
        ctx.count('process_wide_state.' + o.res.cls)
        ctx.case(('process-wide', driver, workers), True, sample=dict(scenario='24 dirs x (2 fifos, file, subdir)', driver=driver, workers=workers, dirs_checked=len(dm)) if j == 0 else None)
        if o.res.cls != '0' or wrong or wrongf:
            ctx.violation(f'process-wide-{driver}-{workers}.json', dict(driver=driver, workers=workers, exit=o.res.cls, wrong_dirs={repr(p): oct(m) for p, m in list(wrong.items())[:6]},
                                                                      wrong_files={repr(p): oct(m) for p, m in list(wrongf.items())[:6]}),
                          f'C06: permissions of created directories/files depend on what other threads were doing ({driver}, {workers} workers): {len(wrong)} directories not 0755, {len(wrongf)} files not 0644')


def failing_special(ctx, base):
    """an operation that FAILS in a worker (a FIFO whose destination name is a non-empty directory): the exit status must not
    depend on which worker thread happens to take it, on the worker count or on the driver"""
    results = {}
    for driver, workers in (('parfile', 1), ('parfile', 2), ('parfile', 4), ('parfile', 8), ('parfile', 16), ('parblock', 4)):
        for rep in range(1 if workers == 1 else (3 if ctx.quick else 10)):
            sc = treerun.Scn(); sc.driver, sc.workers = driver, workers
            sc.d(b'/W').d(b'/W/S').s(b'/W/S/pipe', 'fifo')
            for i in range(16):
                sc.f(b'/W/S/f%d' % i)
            sc.d(b'/W/DEST').d(b'/W/DEST/S').d(b'/W/DEST/S/pipe').f(b'/W/DEST/S/pipe/occupied')
            sc.opts = ['r']; sc.paths = [b'S', b'DEST']
            plan = [f'sched {ctx.seed * 7 + rep * 13 + workers} {["pct", "delay"][rep % 2]} {1 + rep % 3}'] if rep else None
            o = treerun.run(base, sc, plan=plan, trace=bool(plan), timeout=60)
            results[(driver, workers, rep)] = o.res.cls
            ctx.count(f'failing_special.{driver}.{o.res.cls}'); ctx.case(('failing-special', driver, workers, rep), True)
    ref = results[('parfile', 1, 0)]
    bad = {k: v for k, v in results.items() if v != ref}
    if bad or ref == '0':
        ctx.violation('failing-special.json', dict(reference=ref, results={str(k): v for k, v in results.items()}),
                      f'C06: a FIFO that cannot be recreated (its destination name is a non-empty directory): exit status {ref} with one worker, but '
                      f'{sorted(set(bad.values()))} under {sorted(set((k[0], k[1]) for k in bad))}' if bad else 'C06/C04: a failing special-file operation exits 0 with every configuration')


def pool_vs_descriptor_limit(ctx, base):
    """the outcome must not depend on the worker count even when the pool threads are much slower than the dispatcher and the
    process has the usual descriptor limit: 1000 one-block files, RLIMIT_NOFILE=1024, every copy_file_range stalled 80 ms"""
    out = {}
    for workers, plan in ((1, None), (4, ['stall copy_file_range 80000'])):
        sc = treerun.Scn(); sc.driver, sc.workers = 'parblock', workers
        sc.d(b'/W').d(b'/W/S')
        for i in range(1000):
            sc.f(b'/W/S/f%d' % i)
        sc.opts = ['r']; sc.paths = [b'S', b'DEST']
        o = treerun.run(base, sc, plan=plan, trace=bool(plan), timeout=300, nofile=1024)
        out[workers] = (o.res.cls, o.after == out[1][1] if workers != 1 else o.after, o.res.stderr.strip()[-100:])
        ctx.count(f'pool_vs_limit.{workers}.{o.res.cls}'); ctx.case(('pool-vs-limit', workers), True)
    if out[1][0] != out[4][0] or (out[4][0] == '0' and out[4][1] is not True):
        ctx.violation('pool-vs-limit.json', dict(one_worker=out[1][0], four_workers_stalled=out[4][0], stderr=out[4][2]),
                      f'C06: 1000 files under RLIMIT_NOFILE=1024 (parblock): exit {out[1][0]} with one worker, exit {out[4][0]} / different result with 4 stalled workers: {out[4][2]}')


def block_order_corpus(ctx, base):
    """deterministic versions of two schedule-dependent failures: (1) the block that ends at EOF finishes long BEFORE an earlier
    block of the same file (the earlier one is stalled by address): permissions and timestamps are still those of the source;
    (2) the kernel copy is refused and several workers run the user-space loops on ONE pair of descriptors with every read
    stalled: the bytes are still right"""
    import os, stat as _stat
    for j, (stall_off, workers) in enumerate(((0, 4), (2048, 2), (0, 8))):
        sc = treerun.Scn(); sc.driver, sc.workers = 'parblock', workers
        sc.d(b'/W').d(b'/W/S').f(b'/W/S/multi', text=bytes(range(256)) * 24 + b'tail' * 25).f(b'/W/S/one', text=b'1' * 100)
        sc.opts = ['r']; sc.extra = ['--block-size', '2048']; sc.paths = [b'S', b'DEST']
        plan = [f'stallo copy_file_range multi {stall_off} 400000']
        o = treerun.run(base, sc, plan=plan, trace=True, timeout=60)
        ctx.count(f'block_order.late_first_block.{o.res.cls}'); ctx.case(('late-first-block', stall_off, workers), True)
        src, dst = o.root + '/W/S/multi', o.root + '/W/DEST/multi'
        bad = None
        if o.res.cls != '0' or not os.path.exists(dst):
            bad = f'run failed ({o.res.cls})'
        else:
            a, b2 = os.lstat(src), os.lstat(dst)
            if open(src, 'rb').read() != open(dst, 'rb').read(): bad = 'bytes differ'
            elif a.st_mtime_ns != b2.st_mtime_ns: bad = f'modification time {b2.st_mtime_ns} is not the source\'s {a.st_mtime_ns}'
            elif _stat.S_IMODE(a.st_mode) != _stat.S_IMODE(b2.st_mode): bad = 'permissions differ'
        if bad:
            ctx.violation(f'late-first-block-{j}.json', dict(plan=plan, workers=workers, exit=o.res.cls, oracle=bad),
                          f'C06: with the block at offset {stall_off} finishing last (parblock, {workers} workers): {bad} — the result depends on which block finishes last')
    for j in range(3 if ctx.quick else 12):
        sc = treerun.Scn(); sc.driver, sc.workers = 'parblock', 8
        sc.d(b'/W').d(b'/W/S').f(b'/W/S/big', text=b''.join(bytes([65 + k % 26]) * 1000 for k in range(64)))
        sc.opts = ['r']; sc.extra = ['--block-size', '1000']; sc.paths = [b'S', b'DEST']
        plan = [f'fail copy_file_range * * {scen.ERRNO["EXDEV"]}', 'stall read 1500', 'stall pread64 1500', 'stall lseek 1500', f'sched {ctx.seed * 11 + j} delay 3']
        o = treerun.run(base, sc, plan=plan, trace=True, timeout=90)
        ctx.count(f'block_order.uspace_shared_descriptors.{o.res.cls}'); ctx.case(('uspace-shared-descriptors', j), True)
        same = o.res.cls == '0' and os.path.exists(o.root + '/W/DEST/big') and open(o.root + '/W/S/big', 'rb').read() == open(o.root + '/W/DEST/big', 'rb').read()
        if not same:
            ctx.violation(f'uspace-shared-{j}.json', dict(plan=plan, exit=o.res.cls, stderr=o.res.stderr[-200:]),
                          f'C06: 64 blocks copied by 8 workers through the user-space loops (copy_file_range refused): exit {o.res.cls}, bytes identical={same} — the result depends on the interleaving')
            break


def driver_and_pace_agreement(ctx, base):
    """(1) a destination already holding the links of an earlier copy: both drivers give the SAME exit status; (2) a walker that
    pauses for three seconds in the middle of the tree (one mkdir stalled) while the workers sit idle: nothing is lost"""
    res = {}
    for driver in ('parfile', 'parblock'):
        for workers in (1, 4):
            sc = treerun.Scn(); sc.driver, sc.workers = driver, workers
            sc.d(b'/W').d(b'/W/S').f(b'/W/S/a').l(b'/W/S/l1', b'a').d(b'/W/S/sub').l(b'/W/S/sub/l2', b'../a').f(b'/W/S/sub/b')
            sc.d(b'/W/DEST').d(b'/W/DEST/S').l(b'/W/DEST/S/l1', b'a').d(b'/W/DEST/S/sub').l(b'/W/DEST/S/sub/l2', b'../a')
            sc.opts = ['r']; sc.paths = [b'S', b'DEST']
            o = treerun.run(base, sc, timeout=60)
            res[(driver, workers)] = o.res.cls
            ctx.count(f'recopy_over_links.{driver}.{o.res.cls}'); ctx.case(('recopy-over-links', driver, workers), True)
    if len(set(res.values())) > 1:
        ctx.violation('recopy-over-links.json', dict(results={str(k): v for k, v in res.items()}),
                      f'C06: re-copying a tree over a destination that already holds its links: exit status depends on driver/worker count: {res}')
    for driver in ('parfile', 'parblock'):
        sc = treerun.Scn(); sc.driver, sc.workers = driver, 4
        sc.d(b'/W').d(b'/W/S')
        for k in range(8):
            sc.d(b'/W/S/d%d' % k)
            for q in range(6):
                sc.f(b'/W/S/d%d/f%d' % (k, q))
        sc.opts = ['r']; sc.paths = [b'S', b'DEST']
        plan = ['stallp mkdir d4 3000000', 'stallp mkdir d5 3000000']       # whichever comes later in readdir order: >= 3 s of silence on the queue
        o = treerun.run(base, sc, plan=plan, trace=True, timeout=90)
        n = sum(1 for t in o.after if b'/W/DEST/'.hex() in t and '=f:' in t)
        ctx.count(f'walker_pause.{driver}.{o.res.cls}'); ctx.case(('walker-pause', driver), True)
        if o.res.cls != '0' or n != 48:
            ctx.violation(f'walker-pause-{driver}.json', dict(plan=plan, exit=o.res.cls, files_copied=n, expected=48),
                          f'C06: a walker pausing 3 s between two directories ({driver}, 4 workers): exit {o.res.cls}, {n} of 48 files copied — the result depends on how fast the walker is')


def walk_fails_late(ctx, base):
    """the WALK fails after most of the work has been queued (a dangling link under -L in the last source): the exit status is
    non-zero and everything queued before the failure is still copied — the same complete partial result on every schedule,
    worker count and driver (a walk error travels through the join, not through the update channel)"""
    ref = None
    for j, (driver, workers, plan) in enumerate((('parfile', 1, None), ('parfile', 8, None), ('parblock', 4, None), ('parfile', 2, ['sched 77 delay 2']),
                                                 ('parblock', 8, ['stall copy_file_range 2000']), ('parfile', 16, ['stall copy_file_range 2000']))):
        sc = treerun.Scn(); sc.driver, sc.workers = driver, workers
        sc.d(b'/W').d(b'/W/good').d(b'/W/bad').l(b'/W/bad/dangling', b'nowhere')
        for i in range(60):
            sc.f(b'/W/good/f%d' % i, text=bytes([65 + i % 26]) * (1 + (i * 911) % 9000))
        sc.d(b'/W/DEST'); sc.opts = ['r', 'L']; sc.extra = ['--block-size', '2048']; sc.paths = [b'good', b'bad', b'DEST']
        o = treerun.run(base, sc, plan=plan, trace=bool(plan), timeout=90)
        cur = (o.res.cls, tuple(t for t in o.after if b'/W/DEST'.hex() in t))
        ctx.count(f'walk_fails_late.{driver}.{o.res.cls}'); ctx.case(('walk-fails-late', driver, workers, tuple(plan or ())), True)
        if ref is None:
            ref = cur
            if cur[0] == '0' or len(cur[1]) < 60:
                ctx.violation('walk-fails-late-ref.json', dict(exit=cur[0], entries=len(cur[1])), f'C06: reference run (one worker): exit {cur[0]} with {len(cur[1])} destination entries for a walk that fails at the very end', no_input=True)
                return
        elif cur != ref:
            ctx.violation(f'walk-fails-late-{j}.json', dict(driver=driver, workers=workers, plan=plan, exit=cur[0], entries=len(cur[1]), reference_exit=ref[0], reference_entries=len(ref[1])),
                          f'C06: a walk failing at its last entry leaves {len(cur[1])} destination entries (exit {cur[0]}) under ({driver}, {workers} workers, {plan}) but {len(ref[1])} (exit {ref[0]}) with one worker')
            return


def finalise_failure_agreement(ctx, base):
    """a file whose data can be written but whose metadata cannot be applied (fchmod / utimensat refused: a foreign-owned file in a
    shared directory): whatever xcp makes of that (recorded finding F11: exit 0), both drivers and every worker count make the SAME of it"""
    outs = {}
    for driver, workers in (('parfile', 1), ('parfile', 4), ('parblock', 1), ('parblock', 4)):
        for sysn in ('fchmod', 'utimensat'):
            sc = treerun.Scn(); sc.driver = driver; sc.workers = workers
            sc.d(b'/W').d(b'/W/S').f(b'/W/S/a').f(b'/W/S/b', text=b'B' * 9000).f(b'/W/S/c').d(b'/W/S/sub').f(b'/W/S/sub/d')
            sc.opts = ['r']; sc.paths = [b'S', b'DEST']; sc.extra = ['--block-size', '4096']
            o = treerun.run(base, sc, plan=[f'fail {sysn} b 1 {scen.ERRNO["EPERM"]}'], trace=True)
            fired = any(e.get('inj') for e in o.res.trace)
            outs.setdefault(sysn, []).append((driver, workers, o.res.cls, fired))
            ctx.count(f'finalise_failure.{sysn}.{driver}.{o.res.cls}'); ctx.case(('finalise-failure', sysn, driver, workers), fired)
    for sysn, rows in outs.items():
        classes = {r[2] for r in rows if r[3]}
        if len(classes) > 1:
            ctx.violation(f'finalise-failure-{sysn}.json', dict(call=sysn, outcomes=[list(r) for r in rows]),
                          f'C06: with the {sysn} of one file refused (EPERM) the exit status depends on the driver / worker count: {[(r[0], r[1], r[2]) for r in rows]}')


def linked_and_readonly_sources(ctx, base):
    """two source shapes whose copies must not depend on who comes first: (1) files with SEVERAL NAMES (hard links) — each name is
    copied, whichever worker gets there first; (2) as an unprivileged user, a source directory without write permission —
    the destination directory must stay writable for as long as workers still create files in it.  Runs with one worker, with
    several workers and stalled opens, with both drivers: all exit 0 with one and the same destination."""
    import subprocess
    for shape in ('hard-links', 'read-only-directory', 'same-stem'):
        ref = None
        for j, (driver, workers, plan) in enumerate((('parfile', 1, None), ('parfile', 4, ['stallp openat =S/a 80000', 'stallp openat =S/b 80000', 'stallp openat =S/ro/f1 80000']),
                                                     ('parfile', 4, ['stall openat 20000']), ('parblock', 2, ['stall copy_file_range 30000']), ('parfile', 8, None))):
            u = base + '/lr'
            subprocess.run(f'chmod -R u+rwx {u} 2>/dev/null; rm -rf {u}', shell=True); os.makedirs(u + '/S/sub'); os.makedirs(u + '/S/ro')
            for nm, txt in (('a', b'A' * 3000), ('e', b'E' * 10), ('sub/c', b'C' * 70000)):
                open(f'{u}/S/{nm}', 'wb').write(txt)
            for k in range(6):
                open(f'{u}/S/ro/f{k}', 'wb').write(b'%d' % k * 500)
            ids = None
            if shape == 'same-stem':        # pairs of files that differ only in their extension (mod7.c / mod7.h), copied at the same time
                for k in range(20):
                    open(f'{u}/S/sub/mod{k}.c', 'wb').write(b'C%d ' % k * 900); open(f'{u}/S/sub/mod{k}.h', 'wb').write(b'H%d ' % k * 300); open(f'{u}/S/sub/mod{k}', 'wb').write(b'bare%d' % k)
            if shape == 'hard-links':
                os.link(u + '/S/a', u + '/S/b'); os.link(u + '/S/sub/c', u + '/S/sub/d'); os.link(u + '/S/a', u + '/S/sub/a2')
            else:
                os.chmod(u + '/S/ro', 0o555)
                subprocess.run(f'chown -R 61234:61234 {u}', shell=True); ids = (61234, 61234, [])
            argv = ['-r', '--driver', driver, '--workers', str(workers), 'S', 'D']
            r = scen.run_xcp(u, argv, plan=plan, ids=ids, timeout=60)
            names = sorted(os.path.relpath(os.path.join(dp, f), u + '/D') for dp, ds, fs in os.walk(u + '/D') for f in fs + ds) if os.path.isdir(u + '/D') else []
            bad = [n for n in names if os.path.isfile(f'{u}/D/{n}') and open(f'{u}/D/{n}', 'rb').read() != open(f'{u}/S/{n}', 'rb').read()]
            cur = (r.cls, tuple(names), tuple(bad))
            ctx.count(f'source_shape.{shape}.{r.cls}'); ctx.case(('source-shape', shape, driver, workers, tuple(plan or ())), True)
            if ref is None:
                ref = cur
                src_names = sorted(os.path.relpath(os.path.join(dp, f), u + '/S') for dp, ds, fs in os.walk(u + '/S') for f in fs + ds)
                if cur[0] != '0' or list(cur[1]) != src_names or bad:
                    ctx.violation(f'source-shape-{shape}-ref.json', dict(argv=argv, exit=r.cls, stderr=r.stderr[-300:], destination=names, source=src_names, differing=bad),
                                  f'C06: reference run (one worker) over a source with {shape}: exit {r.cls}, destination {"differs from" if list(cur[1]) != src_names or bad else "equals"} the source', no_input=cur[0] != '0' and False)
                    break
            elif cur != ref:
                ctx.violation(f'source-shape-{shape}-{j}.json', dict(argv=argv, plan=plan, exit=r.cls, stderr=r.stderr[-300:], entries=len(names), reference_exit=ref[0], reference_entries=len(ref[1])),
                              f'C06: a source with {shape}: ({driver}, {workers} workers, {plan}) ends with exit {r.cls} and {len(names)} entries, one worker with exit {ref[0]} and {len(ref[1])}')
                break
        subprocess.run(f'chmod -R u+rwx {base}/lr 2>/dev/null; rm -rf {base}/lr', shell=True)


def run(ctx):
    ctx.proofs()
    core.build_repo(); core.build_sup()
    rng = ctx.rng
    n = 20 if ctx.quick else 150
    per = 6 if ctx.quick else 24
    with core.Scratch('c06') as base:
        forced_order_findings(ctx, base)
        backup_prefix_names(ctx, base)
        process_wide_state(ctx, base)
        failing_special(ctx, base)
        pool_vs_descriptor_limit(ctx, base)
        walk_fails_late(ctx, base)
        block_order_corpus(ctx, base)
        driver_and_pace_agreement(ctx, base)
        linked_and_readonly_sources(ctx, base)
        finalise_failure_agreement(ctx, base)
        for i in range(n):
            sc = gen(rng)
            configs = [(d, w) for d in ('parfile', 'parblock') for w in (1, 2, 3, 8, 64)]
            chosen = rng.sample(configs, min(per, len(configs))) if ctx.quick else [rng.choice(configs) for _ in range(per)]
            ref = None
            model_toks = None
            for j, (driver, workers) in enumerate(chosen):
                sc.driver, sc.workers = driver, workers
                sc.extra = ['--no-progress'] if j == 4 else []      # must not matter either
                mode = rng.choice(['pct', 'delay', 'pct'])
                plan = [f'sched {ctx.seed * 1009 + i * 37 + j} {mode} {rng.randint(1, 4)}']
                if rng.random() < 0.3:
                    plan.append(f'stall copy_file_range {rng.choice([300, 1500])}')
                if j == 3:      # another file system: copy_file_range refused, the user-space loops run on several workers at once
                    plan.append(f'fail copy_file_range * * {scen.ERRNO["EXDEV"]}')
                if j == 1:      # a slow walker: every directory creation takes 0.6 s while the workers sit idle
                    plan = ['stall mkdir 600000']
                if j == 2:      # process-wide state touched around node creation must not leak into other threads
                    plan.append('stall mknodat 3000')
                o = treerun.run(base, sc, plan=plan, trace=True, timeout=90)
                o.cwd_real = o.root + '/W'
                ctx.count(f'driver.{driver}'); ctx.count(f'workers.{workers}'); ctx.count(f'sched.{mode}'); ctx.count(f'exit.{o.res.cls}')
                ctx.case((i, driver, workers, tuple(plan)), True, sample=dict(scenario=i, entries=len(sc.entries), driver=driver, workers=workers, plan=plan, exit=o.res.cls) if (i, j) in ((0, 0), (1, 2)) else None)
                info = dict(scenario=i, argv=[repr(x) for x in o.argv], plan=plan, exit=o.res.cls, stderr=o.res.stderr[-300:])
                if model_toks is None:
                    a = core.ask(core.MODEL, [o.request])[0]
                    mex, mrej, model_toks = treerun.model_snapshot(a)
                    if mex != 'ok':
                        model_toks = None
                        break       # e.g. a dangling self-referential construction the model rejects: not a C06 scenario
                if o.res.cls != '0':
                    ctx.violation(f'case-{i}-{j}-exit.json', info, f'C06: exit status {o.res.cls} under {driver}/{workers}/{plan}, other schedules and the model exit 0')
                    continue
                meta = file_meta(o.root, o.after)
                dm = dir_modes(o.root, o.after, o.before)
                wrong = {p: m for p, m in dm.items() if m != 0o755}
                if wrong:
                    ctx.violation(f'case-{i}-{j}-dirmode.json', dict(info, wrong={repr(p): oct(m) for p, m in list(wrong.items())[:8]}),
                                  f'C06: {len(wrong)} created directories have permissions other than 0777 & ~umask under ({driver}, {workers} workers, {plan}): e.g. {oct(list(wrong.values())[0])}')
                    continue
                cur = (o.after, None)       # metadata is compared with each run's own sources below (the tree is re-created per run)
                # ---- oracle on the implementation: same final destination as every other schedule / worker count / driver
                if ref is None:
                    ref = (cur, driver, workers, plan)
                elif cur != ref[0]:
                    d = treerun.diff_tokens(o.after, ref[0][0], 5)
                    ctx.violation(f'case-{i}-{j}.json', dict(info, other=dict(driver=ref[1], workers=ref[2], plan=ref[3]), diff=d),
                                  f'C06: final destination differs between ({driver}, {workers} workers, {plan}) and ({ref[1]}, {ref[2]} workers): {d[:2]}')
                    continue
                # timestamps and permissions equal the source's (so they are the same for all runs by transitivity)
                for p, (mode_, mt) in meta.items():
                    sp = o.root.encode() + b'/W/S' + p[len(b'/W/DEST/S'):] if p.startswith(b'/W/DEST/S/') else o.root.encode() + b'/W/S' + p[len(b'/W/DEST'):]
                    if os.path.lexists(sp):
                        st = os.lstat(sp)
                        if (stat.S_IMODE(st.st_mode), st.st_mtime_ns) != (mode_, mt) and p != b'/W/DEST/keep':
                            ctx.violation(f'case-{i}-{j}-meta.json', dict(info, path=repr(p)), f'C06: {p!r} has permissions/timestamps differing from its source under {plan}')
                            break
                # ---- correspondence: the sequential model's prediction, and the trace monitors
                ctx.cov['traces_validated_against_impl'] += 1
                if o.after != model_toks:
                    ctx.cov['disagreements_checked'] += 1
                    ctx.violation(f'case-{i}-{j}-corr.json', dict(info, diff=treerun.diff_tokens(o.after, model_toks, 10), correspondence='end state under a perturbed schedule vs the sequential Xcp.L1run'),
                                  f'model/implementation disagree under {driver}/{workers}/{plan}', no_input=True)
                    continue
                dest_real = o.root + ('/W/DEST/S' if any(e['p'] == b'/W/DEST' for e in sc.entries) else '/W/DEST')
                msg = check_trace(o, o.root + '/W/DEST')
                if msg:
                    ctx.violation(f'case-{i}-{j}-order.json', dict(info, order=msg), f'C06: {msg}')
                    continue
                reqs = []
                for e in sc.entries:
                    if e['k'] == 'f' and e['p'].startswith(b'/W/S'):
                        dst = dest_real + e['p'][len(b'/W/S'):].decode('latin-1')
                        proj = fileproj.project(o.res.trace, dst)
                        if proj:
                            reqs.append((dst, f"monitor {fileproj.cfg_tokens()} | {len(sc.content(e))} {' '.join(t for t, _ in proj)}", proj))
                if reqs:
                    for (dst, rq, proj), m in zip(reqs, core.ask(core.MODEL, [r[1] for r in reqs])):
                        if m != 'ok true':
                            ctx.cov['disagreements_checked'] += 1
                            ctx.violation(f'case-{i}-{j}-monitor.json', dict(info, request=rq, model=m, theorems=['Xcp.C06.metadata_after_last_write', 'Xcp.C15.monitor_sound']),
                                          f'per-file call order rejected by the monitor for {os.path.basename(dst)} under {plan}', no_input=True)
                            break
                        fins = [e for t, e in proj if t.startswith('fin:')]; datas = [e for t, e in proj if t == 'data']
                        if any(not fileproj.happens_before(dd, ff) for dd in datas for ff in fins):
                            ctx.violation(f'case-{i}-{j}-hb.json', dict(info, file=dst), f'C06: metadata of {os.path.basename(dst)} applied before its last write returned ({driver}, {workers}, {plan})')
                            break
    ctx.cov['rule'] = ('random trees (depth <= 3, links, 0-12 small files, 1-2 multi-block files, block size 512/1000/4096), destination absent or an existing directory; each run under '
                       'driver x workers {1,2,3,8,64} x seeded perturbation (priority holds with 1-4 change points or random delays, optionally stalled copies); all runs of a scenario compared with each other and with the model. '
                       'distinct = distinct (scenario, driver, workers, plan)')
    ctx.assumptions += ['perturbed schedules sample the real interleavings; the for-all-schedules claims are theorems about the concurrent models']


def replay(ctx, path):
    run(ctx)
