"""C02 — exit 0 implies the destination tree mirrors the selected source tree.
Proof: XcpProps/C02.lean.  Correspondence (A): random trees (weird names, links of every kind), 1-3 sources, every
destination state, spellings, -T, --target-directory, --glob, both drivers: whole-sandbox snapshot of the real run vs
the Lean model's `L1run`; the property's own oracle (cp's mapping rule computed independently here) on the real run."""
import fnmatch, os
from .. import core, scen, treerun, treegen


def isutf(b):
    try:
        b.decode('utf8'); return True
    except Exception:
        return False


def expected_image(sc, before):
    """cp's mapping rule, computed independently of the Lean model, for plain spellings. -> {dest path: src path}"""
    m = sc.meta
    bd = treerun.decode(before)
    srcs = list(m['srcs'])
    dest = m['dest']
    dest_is_dir = bd.get(dest, '') == 'd'
    image = {}
    for s in srcs:
        base = s.split(b'/')[-1]
        tb = dest + b'/' + base if (dest_is_dir and 'T' not in sc.opts) else dest
        for p, v in bd.items():
            if p == s or p.startswith(s + b'/'):
                image[tb + p[len(s):]] = p
    return image


def oracle(sc, o):
    """C02 on the implementation's own result; returns (message or None, known-finding id or None)"""
    before, after = treerun.decode(o.before), treerun.decode(o.after)
    m = sc.meta
    image = expected_image(sc, o.before)
    srcargs = sc.paths if sc.tdir is not None else sc.paths[:-1]
    known0 = 'F17' if any(a.rstrip(b'/').split(b'/')[-1] == b'..' for a in srcargs) else None
    msg, known = oracle_core(sc, o, before, after, image)
    return msg, (known0 or known)


def oracle_core(sc, o, before, after, image):
    m = sc.meta
    for d, s in image.items():
        want = before[s]
        got = after.get(d)
        if want == 'd':
            ok = got == 'd'
        else:
            ok = got == want
        if not ok:
            pre = before.get(d, '')
            if pre.startswith('l:'):
                return f'{d!r} was a symbolic link before the run and was written through (is {got}, source {want})', 'F13'
            return f'entry {s!r} ({want}) is not mirrored at {d!r} (found {got})', None
    dest = m['dest']
    for p, v in after.items():
        if p in image:
            continue
        if p not in before:
            if any(q == p or q.startswith(p + b'/') for q in image):
                continue            # an ancestor directory created for the image
            known = None
            if any(pre.startswith('l:') for q, pre in before.items() if q in image):
                known = 'F13'
            if any(a.rstrip(b'/').endswith(b'..') for a in sc.paths[:-1] or sc.paths):
                known = 'F17'
            return f'{p!r} was created but no source entry maps onto it' + ('' if p.startswith(dest) else ' — outside the destination'), known
        if before[p] != v and not (v == 'd' and before[p] == 'd'):
            return f'{p!r} is not mapped onto by any source entry but changed from {before[p]} to {v}', None
    for p in before:
        if p not in after:
            return f'{p!r} disappeared', None
    return None, None


def corpus(driver):
    """scenarios of the recorded findings (always run first)"""
    out = []
    sc = treerun.Scn(); sc.driver = driver
    sc.d(b'/W').d(b'/X').d(b'/W/S').f(b'/W/S/f').d(b'/W/DEST').l(b'/W/DEST/f', b'/X/created-through-link')
    sc.opts = ['r', 'T']; sc.paths = [b'S', b'DEST']; sc.meta = dict(srcs=[b'/W/S'], dest=b'/W/DEST', destk='dir', single_file=False); sc.tag = 'F13-dangling'
    out.append(sc)
    sc = treerun.Scn(); sc.driver = driver
    sc.d(b'/W').d(b'/X').f(b'/X/victim').d(b'/W/S').f(b'/W/S/f').d(b'/W/DEST').l(b'/W/DEST/f', b'/X/victim')
    sc.opts = ['r', 'T']; sc.paths = [b'S', b'DEST']; sc.meta = dict(srcs=[b'/W/S'], dest=b'/W/DEST', destk='dir', single_file=False); sc.tag = 'F13-live'
    out.append(sc)
    sc = treerun.Scn(); sc.driver = driver
    sc.d(b'/W').d(b'/W/S').f(b'/W/S/f').d(b'/W/S/sub').f(b'/W/S/sub/g').d(b'/W/OUT').d(b'/W/OUT/DEST')
    sc.opts = ['r']; sc.paths = [b'S/sub/..', b'OUT/DEST']; sc.meta = dict(srcs=[b'/W/S'], dest=b'/W/OUT/DEST', destk='dir', single_file=False); sc.tag = 'F17'
    out.append(sc)
    # a destination populated by an EARLIER copy, after which source links were re-pointed / entries became links: the entry
    # already there is not what the source has now (exit 0 only if it has been brought up to date)
    # … or a regular file sits where the source now has an (empty) directory: the directory must be there afterwards, or the run fails
    sc = treerun.Scn(); sc.driver = driver
    sc.d(b'/W').d(b'/W/S').d(b'/W/S/emptyd').f(b'/W/S/a').d(b'/W/DEST').d(b'/W/DEST/S').f(b'/W/DEST/S/emptyd')
    sc.opts = ['r']; sc.paths = [b'S', b'DEST']; sc.meta = dict(srcs=[b'/W/S'], dest=b'/W/DEST', destk='dir-populated', single_file=False); sc.tag = 'file-where-directory'
    out.append(sc)
    for variant in ('stale-link', 'file-where-link', 'dir-where-link', 'same-link'):
        sc = treerun.Scn(); sc.driver = driver
        sc.d(b'/W').d(b'/W/S').d(b'/W/S/rel').d(b'/W/S/rel/v1').d(b'/W/S/rel/v2').f(b'/W/S/rel/v2/x').f(b'/W/S/a').l(b'/W/S/current', b'rel/v2')
        sc.d(b'/W/DEST').d(b'/W/DEST/S').d(b'/W/DEST/S/rel')
        if variant == 'stale-link': sc.l(b'/W/DEST/S/current', b'rel/v1')
        elif variant == 'same-link': sc.l(b'/W/DEST/S/current', b'rel/v2')
        elif variant == 'file-where-link': sc.f(b'/W/DEST/S/current')
        else: sc.d(b'/W/DEST/S/current').f(b'/W/DEST/S/current/old')
        sc.opts = ['r']; sc.paths = [b'S', b'DEST']; sc.meta = dict(srcs=[b'/W/S'], dest=b'/W/DEST', destk='dir-populated', single_file=False); sc.tag = 'relinked-' + variant
        out.append(sc)
    # a DEEP tree (45 levels) with and without --dereference: every level is mirrored
    for opts in (['r'], ['r', 'L']):
        sc = treerun.Scn(); sc.driver = driver
        sc.d(b'/W').d(b'/W/S')
        pth = b'/W/S'
        for lvl in range(45):
            pth += b'/d'; sc.d(pth)
            if lvl % 11 == 0: sc.f(pth + b'/f%d' % lvl)
        sc.f(pth + b'/bottom')
        sc.opts = opts; sc.paths = [b'S', b'DEST']; sc.meta = dict(srcs=[b'/W/S'], dest=b'/W/DEST', destk='absent', single_file=False); sc.tag = 'deep-tree' + ('-L' if 'L' in opts else '')
        out.append(sc)
    # several operands that are different NAMES of one real file (a versioned library and its links; a file and a link to it):
    # every operand is an entry of its own and must be mirrored, in any order
    for order in ((0, 1, 2), (2, 1, 0), (1, 0, 2)):
        sc = treerun.Scn(); sc.driver = driver
        sc.d(b'/W').d(b'/W/lib').f(b'/W/lib/libfoo.so.1.2.3').l(b'/W/lib/libfoo.so.1', b'libfoo.so.1.2.3').l(b'/W/lib/libfoo.so', b'libfoo.so.1').f(b'/W/lib/README').d(b'/W/DEST')
        ops = [b'lib/libfoo.so.1.2.3', b'lib/libfoo.so.1', b'lib/libfoo.so']
        sc.opts = ['r']; sc.paths = [ops[k] for k in order] + [b'lib/README', b'DEST']
        sc.meta = dict(srcs=[b'/W/' + ops[k] for k in order] + [b'/W/lib/README'], dest=b'/W/DEST', destk='dir-empty', single_file=False); sc.tag = 'aliased-operands'
        out.append(sc)
    # -T (no target directory) WITHOUT -r, a non-directory source onto an existing directory: the mapping is `dest itself`, which
    # cannot be made a file: the run fails (it must not quietly fall back to dest/basename)
    for kind in ('file', 'link'):
        sc = treerun.Scn(); sc.driver = driver
        sc.d(b'/W').f(b'/W/f').l(b'/W/lf', b'f').d(b'/W/DEST').f(b'/W/DEST/keep')
        sc.opts = ['T']; sc.paths = [b'f' if kind == 'file' else b'lf', b'DEST']; sc.meta = dict(srcs=[b'/W/f' if kind == 'file' else b'/W/lf'], dest=b'/W/DEST', destk='dir-populated', single_file=True); sc.tag = 'T-nondir-onto-dir'
        out.append(sc)
    return out


def mount_inside_source(ctx, base):
    """another file system mounted below the source root (a tmpfs at S/mnt): its entries are entries of the tree like any other"""
    import subprocess
    for driver in ('parfile', 'parblock'):
        d = base + '/MNT'
        subprocess.run(['umount', d + '/S/mnt'], capture_output=True); subprocess.run(['rm', '-rf', d]); os.makedirs(d + '/S/mnt'); os.makedirs(d + '/S/plain')
        open(d + '/S/a', 'w').write('a'); open(d + '/S/plain/p', 'w').write('p')
        if subprocess.run(['mount', '-t', 'tmpfs', '-o', 'size=4m', 'tmpfs', d + '/S/mnt'], capture_output=True).returncode != 0:
            ctx.count('mount_inside_source.skipped'); ctx.assumptions.append('no tmpfs mount available: a mount point inside the source not exercised')
            return
        try:
            os.makedirs(d + '/S/mnt/sub'); open(d + '/S/mnt/inside', 'w').write('inside'); open(d + '/S/mnt/sub/deep', 'w').write('deep')
            r = scen.run_xcp(d, ['-r', '--driver', driver, 'S', 'D'], timeout=60)
            want = {'a': 'a', 'plain/p': 'p', 'mnt/inside': 'inside', 'mnt/sub/deep': 'deep'}
            missing = [k for k, v in want.items() if not os.path.isfile(f'{d}/D/{k}') or open(f'{d}/D/{k}').read() != v]
            ctx.count(f'mount_inside_source.exit.{r.cls}'); ctx.case(('mount-inside-source', driver), True)
            if r.cls == '0' and missing:
                ctx.violation(f'mount-inside-source-{driver}.json', dict(driver=driver, missing=missing, stderr=r.stderr[-300:]),
                              f'C02: a file system mounted inside the source tree: exit 0 but {missing} are not mirrored ({driver})')
        finally:
            subprocess.run(['umount', d + '/S/mnt'], capture_output=True)
    subprocess.run(['rm', '-rf', base + '/MNT'])


def run(ctx):
    ctx.proofs()
    core.build_repo(); core.build_sup()
    rng = ctx.rng
    n = 160 if ctx.quick else 3000
    scs = corpus('parfile') + corpus('parblock') + [treegen.gen_c02(rng, ['parfile', 'parblock'][i % 2]) for i in range(n)]
    runs = []
    with core.Scratch('c02') as base:
        for i, sc in enumerate(scs):
            o = treerun.run(base, sc)
            runs.append((i, sc, o))
        # faults and schedules the mirror must survive: a source directory that cannot be listed (EACCES as for a non-root
        # user, ENOENT when it vanished) must make the run fail, not be skipped; a walker much slower than the workers
        extra = []
        ok_plain = {id(sc) for _, sc, o in runs if o.res.cls == '0'}
        for i, sc in enumerate(scs[len(corpus('parfile')) * 2:]):
            if id(sc) not in ok_plain:
                continue            # only scenarios whose plain run succeeds
            dirs = [e['p'] for e in sc.entries if e['k'] == 'd' and any(e['p'].startswith(sr + b'/') for sr in sc.meta['srcs'])]
            if not dirs or len(extra) >= (18 if ctx.quick else 150) or any(isinstance(x, bytes) and not isutf(x) for x in treerun.argv('/x', sc)):
                continue
            d = rng.choice(dirs)
            if len(extra) % 3 == 2:
                plan, why = ['stall mkdir 600000'], 'slow-walker'
            else:
                en = rng.choice([13, 2])
                tail = d[len(b'/W/'):].decode('latin-1')
                if any(ch.isspace() for ch in tail) or not tail.isascii():
                    continue
                plan, why = [f'fail openat {tail} 1 {en}'], 'unlistable-directory'
            if why == 'slow-walker':
                sc.driver = ['parfile', 'parblock'][(len(extra) // 3) % 2]      # alternate, independently of the scenario's own driver
            o = treerun.run(base, sc, plan=plan, trace=True, timeout=90)
            fired = why == 'slow-walker' or any(e.get('inj') for e in o.res.trace)
            ctx.count(f'faulted.{why}.' + o.res.cls); ctx.case(('c02-fault', i, tuple(plan)), fired)
            extra.append(1)
            if o.res.cls == '0' and fired:
                msg, known = oracle(sc, o)
                if msg and not (known and ctx.open_finding(known)):
                    ctx.violation(f'case-{i}-{why}.json', dict(argv=[repr(x) for x in o.argv], plan=plan, oracle=msg), f'C02: with {plan}: exit 0 but {msg}')
        # ---- resource corners of the invocation itself: `--workers 0` ("as many as there are CPUs") when the process may use ONE
        # CPU only (a 1-vCPU machine, a cpuset, taskset): the tree must still be mirrored, or the run must fail
        for j, (i, sc, o0) in enumerate([x for x in runs if x[2].res.cls == '0' and x[1].meta['destk'] in ('absent', 'dir-empty') and getattr(x[1], 'tag', 'gen') == 'gen'][:6 if ctx.quick else 60]):
            keepw = sc.workers
            sc.workers = 0
            o = treerun.run(base, sc, trace=False, timeout=90, cpus={0})
            sc.workers = keepw
            ctx.count(f'one_cpu_workers0.exit.{o.res.cls}'); ctx.case(('c02-one-cpu', i, sc.driver), True)
            if o.res.cls == 'hang':
                ctx.violation(f'case-{i}-onecpu-hang.json', dict(argv=[repr(x) for x in o.argv]), 'xcp --workers 0 hung when one CPU is available')
            elif o.res.cls == '0':
                msg, known = oracle(sc, o)
                if msg and not (known and ctx.open_finding(known)):
                    ctx.violation(f'case-{i}-onecpu.json', dict(argv=[repr(x) for x in o.argv], cpus=[0], oracle=msg), f'C02: --workers 0 with one available CPU ({sc.driver}): exit 0 but {msg}')
        mount_inside_source(ctx, base)
        ans = core.ask(core.MODEL, [o.request for _, _, o in runs])
    for (i, sc, o), a in zip(runs, ans):
        tag = getattr(sc, 'tag', 'gen')
        m = sc.meta
        ctx.count(f'exit.{o.res.cls}'); ctx.count(f'dest.{m["destk"]}'); ctx.count(f'driver.{sc.driver}'); ctx.count(f'nsources.{len(m["srcs"])}')
        for fl in sc.opts: ctx.count(f'opt.{fl}')
        if sc.tdir is not None: ctx.count('opt.target-directory')
        nlinks = sum(1 for e in sc.entries if e['k'] == 'l')
        ctx.count('trees.with_links' if nlinks else 'trees.without_links')
        ctx.case(('c02', tuple(sc.opts), tuple(sc.paths), tuple((e['k'], e['p'], e.get('t')) for e in sc.entries), sc.driver), nontrivial=len(sc.entries) > 6,
                 sample=dict(argv=[x.decode('utf8', 'replace') if isinstance(x, bytes) else x for x in o.argv[:]], entries=len(sc.entries), exit=o.res.cls) if i in (6, 9, 14) else None)
        if any(isinstance(x, bytes) and not isutf(x) for x in o.argv):
            if o.res.cls != 'usage' or o.after != o.before:
                ctx.violation(f'case-{i}-nonutf8.json', dict(argv=[repr(x) for x in o.argv], exit=o.res.cls), 'non-UTF-8 argument not rejected as a usage error without effects', no_input=True)
            ctx.count('rejected.non-utf8-argument')
            continue
        ex, rej, toks = treerun.model_snapshot(a)
        # ---- the property's oracle on the implementation
        if o.res.cls == '0':
            msg, known = oracle(sc, o)
            if msg:
                f = ctx.open_finding(known) if known else None
                if f:
                    ctx.known_finding(known, f['what'])
                else:
                    ctx.violation(f'case-{i}.json', dict(argv=[repr(x) for x in o.argv], cwd=repr(sc.cwd), entries=[{k: (repr(v) if isinstance(v, bytes) else v) for k, v in e.items()} for e in sc.entries],
                                                         oracle=msg, diff=treerun.diff_tokens(o.after, o.before, 20)), f'C02: {msg}')
                    continue
        elif o.res.cls == 'hang':
            ctx.violation(f'case-{i}-hang.json', dict(argv=[repr(x) for x in o.argv]), 'xcp hung')
            continue
        # ---- correspondence with the model
        # F13 scenarios in which TWO destination links lead to one file are written through by two workers: which content
        # survives depends on the schedule (F13 x F10), so the sequential model's answer is only one of the possible ones
        if o.res.cls == '0':
            import os as _os
            bef = treerun.decode(o.before)
            tg = [_os.path.normpath(_os.path.dirname(d) + b'/' + bytes.fromhex(bef[d][2:])) for d in expected_image(sc, o.before) if bef.get(d, '').startswith('l:')]
            if len(tg) != len(set(tg)):
                ctx.count('correspondence_skipped.two_destination_links_to_one_file')
                continue
        ctx.cov['traces_validated_against_impl'] += 1
        impl_ex = 'ok' if o.res.cls == '0' else 'err'
        if ex != impl_ex or (ex == 'ok' and toks != o.after):
            ctx.cov['disagreements_checked'] += 1
            ctx.violation(f'case-{i}-corr.json', dict(argv=[repr(x) for x in o.argv], request=o.request, model_exit=ex, reject=rej, impl_exit=o.res.cls, stderr=o.res.stderr[-400:],
                                                      diff=treerun.diff_tokens(o.after, toks, 20), correspondence='whole-sandbox end state vs Xcp.L1run'),
                          f'model/implementation disagree (impl {o.res.cls}, model {ex}): {treerun.diff_tokens(o.after, toks, 3)}', no_input=True)
    ctx.cov['rule'] = ('1-3 source trees (depth <= 3, fan-out <= 4, names with spaces/unicode/non-UTF-8/glob characters, relative/absolute/dangling/self links, some fifos/sockets) or a single file; '
                       'destination absent / file / empty dir / dir populated by an earlier copy; spellings plain, ./x, x/, absolute, ../W/x; -T; --target-directory; --glob; both drivers. '
                       'distinct = distinct (options, paths, tree, driver); non-trivial = more than 6 entries')
    ctx.assumptions += ['clap rejects non-UTF-8 arguments (checked)', 'the model has no hard links and no permissions']


def replay(ctx, path):
    run(ctx)
