"""C16 — invalid invocations are rejected with no side effects.
Proof: XcpProps/C16.lean.  Correspondence (A): every rejection class x every position of the offending argument among
valid ones x destination state x driver; byte-for-byte sandbox snapshot before/after; the model's `validate` must
reject exactly when the implementation does (and a valid twin of each scenario must be accepted by both)."""
import os
from .. import core, treerun


def base(driver, ndest='dir'):
    sc = treerun.Scn(); sc.driver = driver
    sc.d(b'/W').d(b'/X').f(b'/X/bystander')
    sc.f(b'/W/v1').f(b'/W/v2').d(b'/W/vd').f(b'/W/vd/inner').d(b'/W/vd/sub').f(b'/W/vd/sub/deep')
    if ndest == 'dir':
        sc.d(b'/W/DEST').f(b'/W/DEST/keep')
    elif ndest == 'file':
        sc.f(b'/W/DEST')
    return sc


def insert_at(valid, bad, pos):
    v = list(valid)
    pos = min(pos, len(v))
    return v[:pos] + bad + v[pos:]


def scenarios(rng, quick):
    out = []
    for driver in ('parfile', 'parblock'):
        for pos in (0, 1, 2):
            valid = [b'v1', b'v2']
            # missing source among valid ones
            for destk in ('dir',):
                sc = base(driver, destk); sc.opts = ['r']; sc.paths = insert_at(valid, [b'missing'], pos) + [b'DEST']; sc.cls = 'missing_source'; out.append(sc)
            # a source that does not exist because its lookup fails with ENOTDIR / ELOOP / ENAMETOOLONG rather than ENOENT
            for bad, cls in ((b'v1/inner.txt', 'missing_source_enotdir'), (b'loop/inner.txt', 'missing_source_eloop'), (b'n' * 300, 'missing_source_enametoolong'),
                             (b'vd/inner/x', 'missing_source_enotdir_deep')):
                sc = base(driver); sc.l(b'/W/loop', b'loop'); sc.opts = ['r']; sc.paths = insert_at(valid + [b'vd'], [bad], pos + 1 if pos == 2 else pos) + [b'DEST']; sc.cls = cls; out.append(sc)
            # the target is ANOTHER NAME of the source (a hard link: same device and inode), among valid sources
            sc = base(driver); sc.f(b'/W/hl'); sc.h(b'/W/DEST/hl', b'/W/hl'); sc.opts = ['r']; sc.paths = insert_at(valid + [b'vd'], [b'hl'], pos + 1 if pos == 2 else pos) + [b'DEST']; sc.cls = 'same_file_via_hardlink'; out.append(sc)
            # directory without --recursive
            sc = base(driver); sc.opts = []; sc.paths = insert_at(valid, [b'vd'], pos) + [b'DEST']; sc.cls = 'dir_without_recursive'; out.append(sc)
            # several sources, destination not a directory (absent / file)
            for destk in ('absent', 'file'):
                sc = base(driver, destk); sc.opts = ['r']; sc.paths = insert_at(valid, [b'vd'], pos) + [b'DEST']; sc.cls = 'multi_to_nondir'; out.append(sc)
            # a directory onto an existing file inside the destination
            sc = base(driver); sc.f(b'/W/DEST/vd'); sc.opts = ['r']; sc.paths = insert_at(valid, [b'vd'], pos) + [b'DEST']; sc.cls = 'dir_onto_file'; out.append(sc)
            # source identical to its destination: same spelling, other spelling, symlink, the file's own directory
            sc = base(driver); sc.opts = ['r']; sc.paths = insert_at(valid, [b'DEST'], pos) + [b'DEST']; sc.cls = 'source_is_dest'; out.append(sc)
            sc = base(driver); sc.f(b'/W/DEST/al'); sc.opts = ['r']; sc.paths = insert_at(valid, [b'DEST/al'], pos) + [b'./DEST/']; sc.cls = 'same_file_other_spelling'; out.append(sc)
            sc = base(driver); sc.l(b'/W/DEST/v1x', b'/W/v1x'); sc.f(b'/W/v1x'); sc.opts = ['r']; sc.paths = insert_at(valid, [b'v1x'], pos) + [b'DEST']; sc.cls = 'same_file_via_symlink'; out.append(sc)
            sc = base(driver); sc.l(b'/W/DEST/vd', b'../vd'); sc.opts = ['r']; sc.paths = insert_at(valid, [b'vd'], pos) + [b'DEST']; sc.cls = 'same_dir_via_symlink'; out.append(sc)
            # --glob: malformed pattern / pattern matching nothing, among valid ones
            sc = base(driver); sc.opts = ['r', 'glob']; sc.paths = insert_at(valid, [b'v[1'], pos) + [b'DEST']; sc.cls = 'bad_glob'; out.append(sc)
            sc = base(driver); sc.opts = ['r', 'glob']; sc.paths = insert_at(valid, [b'nomatch*'], pos) + [b'DEST']; sc.cls = 'empty_glob'; out.append(sc)
            sc = base(driver); sc.opts = ['r', 'glob']; sc.paths = insert_at(valid, [b'literal-missing'], pos) + [b'DEST']; sc.cls = 'empty_glob_literal'; out.append(sc)
        # the destination is given by --target-directory and does NOT exist yet: a rejected invocation must not create it
        for td in (b'NEWDIR', b'NEW/deep/er'):
            for paths, opts, cls in (([b'missing', b'v1'], ['r'], 'tdir_absent_missing_source'), ([b'v1', b'vd'], [], 'tdir_absent_dir_without_recursive'), ([b'v1', b'v[1'], ['r', 'glob'], 'tdir_absent_bad_glob'),
                                     ([b'v1', b'nomatch*'], ['r', 'glob'], 'tdir_absent_empty_glob'), ([], ['r'], 'tdir_absent_no_source')):
                sc = base(driver, 'absent'); sc.opts = opts; sc.tdir = td; sc.paths = paths; sc.cls = cls; out.append(sc)
        # --glob: ONE pattern that expands to several sources, destination not a directory (existing file / new name / dangling link)
        for destk in ('absent', 'file', 'dangling'):
            for pat in (b'v?', b'v*'):
                sc = base(driver, 'absent' if destk == 'dangling' else destk); sc.opts = ['r', 'glob']; sc.paths = [pat, b'DEST']; sc.cls = 'glob_expands_multi_to_nondir'
                if destk == 'dangling':
                    sc.l(b'/W/DEST', b'nowhere')
                out.append(sc)
        # single-source classes
        sc = base(driver, 'file'); sc.opts = ['r']; sc.paths = [b'vd', b'DEST']; sc.cls = 'dir_onto_file_single'; out.append(sc)
        sc = base(driver); sc.opts = ['r']; sc.paths = [b'DEST']; sc.cls = 'no_source'; out.append(sc)
        sc = base(driver); sc.opts = ['r']; sc.paths = []; sc.cls = 'no_paths'; out.append(sc)
        sc = base(driver); sc.opts = ['r']; sc.tdir = b'DEST'; sc.paths = []; sc.cls = 'no_source_tdir'; out.append(sc)
        sc = base(driver); sc.opts = ['r', 'n', 'force']; sc.paths = [b'v1', b'DEST']; sc.cls = 'force_and_noclobber'; out.append(sc)
        sc = base(driver); sc.opts = ['r']; sc.paths = [b'v1', b'./v1']; sc.cls = 'self_other_spelling'; out.append(sc)
        sc = base(driver); sc.opts = ['r']; sc.paths = [b'v1', b'v1']; sc.cls = 'self_textual'; out.append(sc)
        sc = base(driver); sc.opts = ['r', 'T']; sc.paths = [b'vd', b'vd/../vd']; sc.cls = 'self_dir_T'; out.append(sc)
        sc = base(driver); sc.opts = ['r']; sc.paths = [b'vd/inner', b'vd']; sc.cls = 'file_into_own_directory'; out.append(sc)
        # unknown / contradictory option values: the argument parser rejects them (usage error)
        for extra, cls in ((['--driver', 'nosuch'], 'bad_driver'), (['--reflink', 'maybe'], 'bad_reflink'), (['--backup', 'weekly'], 'bad_backup'),
                           (['--block-size', '12XB'], 'bad_block_size'), (['--workers', '-3'], 'bad_workers'), (['--workers', 'many'], 'bad_workers2'), (['--nosuchflag'], 'unknown_flag')):
            sc = base(driver); sc.opts = ['r']; sc.paths = [b'v1', b'v2', b'DEST']; sc.extra = extra; sc.cls = cls; sc.usage = True; out.append(sc)
        # valid twins: must be accepted (so that "rejected" is not vacuous)
        sc = base(driver); sc.opts = ['r']; sc.paths = [b'v1', b'vd', b'v2', b'DEST']; sc.cls = 'VALID_multi'; sc.valid = True; out.append(sc)
        sc = base(driver, 'absent'); sc.opts = ['r']; sc.paths = [b'vd', b'DEST']; sc.cls = 'VALID_dir_to_absent'; sc.valid = True; out.append(sc)
        sc = base(driver); sc.opts = ['r', 'glob']; sc.paths = [b'v?', b'DEST']; sc.cls = 'VALID_glob'; sc.valid = True; out.append(sc)
    return out


def run(ctx):
    ctx.proofs()
    core.build_repo(); core.build_sup()
    scs = scenarios(ctx.rng, ctx.quick)
    runs = []
    with core.Scratch('c16') as basedir:
        for i, sc in enumerate(scs):
            o = treerun.run(basedir, sc)
            # metadata too: nothing created, truncated, touched
            runs.append((i, sc, o))
        modelled = [(i, sc, o) for i, sc, o in runs if not getattr(sc, 'no_model', False)]
        got = dict(zip([i for i, _, _ in modelled], core.ask(core.MODEL, [o.request for _, _, o in modelled])))
        ans = [got.get(i) for i, _, _ in runs]
    for (i, sc, o), a in zip(runs, ans):
        ctx.count(f'class.{sc.cls}'); ctx.count(f'exit.{o.res.cls}')
        ctx.case((sc.cls, tuple(sc.paths), tuple(sc.opts), sc.driver), True,
                 sample=dict(cls=sc.cls, argv=[x.decode() if isinstance(x, bytes) else x for x in o.argv], exit=o.res.cls, stderr=o.res.stderr.strip()[-120:]) if i in (0, 7, 40) else None)
        valid = getattr(sc, 'valid', False)
        usage = getattr(sc, 'usage', False)
        # ---- the property's oracle on the implementation
        if not valid:
            if o.res.cls == '0' or o.res.cls == 'hang':
                ctx.violation(f'case-{i}-{sc.cls}.json', dict(cls=sc.cls, argv=[repr(x) for x in o.argv], exit=o.res.cls), f'C16: invalid invocation ({sc.cls}) was not rejected: exit {o.res.cls}')
                continue
            if o.after != o.before:
                ctx.violation(f'case-{i}-{sc.cls}.json', dict(cls=sc.cls, argv=[repr(x) for x in o.argv], exit=o.res.cls, stderr=o.res.stderr[-300:], diff=treerun.diff_tokens(o.after, o.before, 20)),
                              f'C16: rejected invocation ({sc.cls}) changed the file system: {treerun.diff_tokens(o.after, o.before, 3)}')
                continue
            if usage and o.res.cls != 'usage':
                ctx.violation(f'case-{i}-{sc.cls}-usage.json', dict(cls=sc.cls, argv=[repr(x) for x in o.argv], exit=o.res.exit), f'unknown option value ({sc.cls}) not a usage error (exit {o.res.exit})', no_input=True)
        # ---- correspondence: the model's validate
        if usage or a is None:          # (hard links are not expressible in the namespace model: oracle only)
            continue
        ctx.cov['traces_validated_against_impl'] += 1
        ex, rej, toks = treerun.model_snapshot(a)
        model_rejects = rej is not None
        impl_rejects = o.res.cls != '0'
        if valid and (impl_rejects or model_rejects):
            ctx.violation(f'case-{i}-{sc.cls}-valid.json', dict(cls=sc.cls, argv=[repr(x) for x in o.argv], impl=o.res.cls, model=a[:200], stderr=o.res.stderr[-300:]),
                          f'a valid invocation ({sc.cls}) was rejected (impl {o.res.cls}, model reject={rej})', no_input=True)
        elif not valid and not model_rejects:
            ctx.cov['disagreements_checked'] += 1
            ctx.violation(f'case-{i}-{sc.cls}-corr.json', dict(cls=sc.cls, argv=[repr(x) for x in o.argv], impl=o.res.cls, model=a[:300], request=o.request,
                                                               correspondence='src/main.rs up-front validation vs Xcp.validate'),
                          f'the model does not reject {sc.cls} up front (implementation: {o.res.stderr.strip()[-100:]})', no_input=True)
    ctx.cov['rule'] = ('each rejection class (no source, missing source — ENOENT, ENOTDIR, ELOOP, ENAMETOOLONG —, directory without -r, several sources to a non-directory, directory onto a file, source identical to destination by '
                       'spelling/symlink/hard link/own directory, --force with --no-clobber, unknown option values, malformed or empty glob) x position of the offending argument {first, middle, last} '
                       'x destination state x driver, plus valid twins. exhaustive over this table')
    ctx.cov['exhaustive'] = True


def replay(ctx, path):
    run(ctx)
