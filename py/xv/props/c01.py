"""C01 — exit 0 implies every copied regular file is byte-identical to its source.
Proof: XcpProps/C01.lean.  Correspondence (A)+(B): real CLI runs under sup over sizes x block sizes x layouts x
prior destinations x drivers x workers x reflink, byte oracle on the result, and every file's data-moving
calls replayed through the model with the kernel's real answers (incl. clamped short counts)."""
import os
from .. import core, scen
from .. import bytesrun as br

MB = 1 << 20


def gen_cases(ctx):
    rng = ctx.rng
    cases = []
    n = 350 if ctx.quick else 4000
    # corpus first: the repaired short-count defect (F1): one parblock block, kernel moves fewer bytes than asked
    for drv in ('parblock', 'parfile'):
        c = br.Case(); c.files = [('f', [('seg', 100, 5)])]; c.bsize = 1000; c.no_progress = False; c.driver = drv; c.workers = 2
        c.reflink = 'auto'; c.prior = 'absent'; c.plan = ['clamp copy_file_range D/f * 1 37']; c.extra = []; c.tag = 'corpus-F1'
        cases.append(c)
    # corpus: the whole file is ONE request (--no-progress, or a block size larger than the file) and the kernel moves less than
    # asked for (it never moves more than 2 GiB - 4 KiB per call): the rest must still be copied
    for drv in ('parfile', 'parblock'):
        for nop in (True, False):
            c = br.Case(); c.files = [('f', [('seg', 300000, 9)]), ('g', [('seg', 5000, 8)])]; c.bsize = 1 << 20; c.no_progress = nop; c.driver = drv; c.workers = 2
            c.reflink = 'never'; c.prior = 'absent'; c.plan = ['clamp copy_file_range D/f * 1 100000']; c.extra = []; c.tag = 'corpus-one-request-short'
            cases.append(c)
    # corpus: copy_file_range refused (another file-system type) AND one write of the user-space loop is short: the rest of the
    # buffer must still be written, at the right offset
    for drv in ('parfile',):          # (the block driver's positional write treats a short count as an error: C05 short_pwrite_fails)
        for nth in (1, 3):
            c = br.Case(); c.files = [('f', [('seg', 300000, 11)])]; c.bsize = 65536; c.no_progress = False; c.driver = drv; c.workers = 2
            c.reflink = 'never'; c.prior = 'absent'; c.extra = []; c.tag = 'corpus-fallback-short-write'
            c.plan = [f'fail copy_file_range * * {scen.ERRNO["EXDEV"]}', f'clamp write D/f * {nth} 1000']
            cases.append(c)
    # corpus: more extents than 64 pages of the extent map hold (> 2048): data beyond must still arrive
    c = br.Case(); c.files = [('frag', sum(([('seg', 4096, 1 + q % 250), ('hole', 4096)] for q in range(2100)), []))]; c.bsize = MB; c.no_progress = False
    c.driver = 'parblock'; c.workers = 4; c.reflink = 'never'; c.prior = 'absent'; c.plan = []; c.extra = []; c.tag = 'corpus-over-2048-extents'
    cases.append(c)
    for i in range(n):
        c = br.Case()
        b = rng.choice([1, 2, 7, 4096, 65536, MB, 'nop'])
        c.no_progress = b == 'nop'
        c.bsize = MB if b == 'nop' else b
        bb = 3 * MB if b == 'nop' else b
        nf = rng.choice([1, 1, 1, 2, 4])
        c.files = []
        for j in range(nf):
            cap = 300 if bb <= 2 else 2000 if bb == 7 else 64 * bb
            cap = min(cap, 6 * MB)
            kind = rng.randrange(8)
            size = [0, 1, max(bb - 1, 0), bb, bb + 1, rng.randint(2, 5) * bb - 1, rng.randint(2, 5) * bb + 1, 3 * bb + rng.randrange(1, max(bb, 2))][kind]
            size = min(size, cap)
            sparse = rng.random() < 0.35 and size >= 40 * br.K
            if rng.random() < 0.15 and bb >= 4096:
                size = rng.choice([40, 70, 130]) * br.K + rng.randrange(br.K); sparse = True
            c.files.append((f'f{j}', br.gen_data(rng, size, sparse)))
        if rng.random() < 0.06 and bb >= 4096:   # more than 32 extents: several FIEMAP pages
            c.files = [('many', sum(([('seg', br.K, 3 + q), ('hole', 16 * br.K)] for q in range(rng.choice([33, 40, 70]))), []))]
        c.driver = rng.choice(['parfile', 'parblock'])
        c.workers = rng.choice([1, 2, 3, 4, 8, 9])
        c.reflink = rng.choice(['auto', 'never'])
        c.prior = rng.choice(['absent', 'absent', 'shorter', 'longer', 'longer-sparse', 'same-meta'])
        c.plan, c.extra, c.tag = [], [], 'gen'
        if rng.random() < 0.15:      # source and destination on different file systems: every copy_file_range is refused
            c.plan = [f'fail copy_file_range * * {scen.ERRNO[rng.choice(["EXDEV", "ENOSYS", "EPERM"])]}']
            c.workers = rng.choice([2, 4, 8])
        elif rng.random() < 0.3:
            f, d = rng.choice(c.files)
            nth = rng.choice(["1", "2", "*"])
            ln = rng.choice([1, 3, 4095, 4096, 100000])
            if nth == '*':       # every call clamped: keep the number of calls bounded
                ln = max(ln, scen.data_bytes(d)[0] // 150)
            c.plan = [f'clamp copy_file_range D/{f} * {nth} {ln}']
        cases.append(c)
    return cases


def run(ctx):
    ctx.proofs()
    core.build_repo(); core.build_sup()
    cases = gen_cases(ctx)
    with core.Scratch('c01') as root:
        for i, c in enumerate(cases):
            pairs = br.setup_case(root, c)
            r = scen.run_xcp(root, br.argv_of(c), plan=c.plan, timeout=120)
            sizes = tuple(scen.data_bytes(d)[0] for _, d in c.files)
            ctx.count(f'driver.{c.driver}'); ctx.count(f'prior.{c.prior}'); ctx.count(f'exit.{r.cls}')
            ctx.count('bsize.' + ('usize::MAX' if c.no_progress else str(c.bsize))); ctx.count(f'reflink.{c.reflink}')
            ctx.count('clamped' if c.plan else 'unclamped')
            for _, d in c.files:
                ctx.count('layout.sparse' if any(x[0] == 'hole' for x in d) else 'layout.dense')
            ctx.case((sizes, br.eff_bsize(c), c.driver, c.workers, c.reflink, c.prior, tuple(c.plan)), nontrivial=any(s > 0 for s in sizes),
                     sample=dict(argv=br.argv_of(c), sizes=sizes, prior=c.prior, plan=c.plan, exit=r.cls) if i in (0, 7, 23) else None)
            if r.cls != '0':
                # a plain copy (possibly with legal short counts) must succeed: the model predicts exit 0
                ctx.violation(f'case-{i}-exit.json', dict(case=c.__dict__, exit=r.exit, cls=r.cls, stderr=r.stderr[-1500:],
                                                          correspondence='model predicts exit 0 for a legal kernel'),
                              f'xcp failed ({r.cls}) on a plain copy: {r.stderr.strip()[-200:]}', no_input=True)
                continue
            br.verify_case(ctx, root, c, pairs, r, f'case-{i}')
        hard_errors(ctx, root)
        preallocated(ctx, root)
        refused_by_mode_or_permission(ctx, root)
        if not ctx.quick:
            big_copy(ctx, root)
    ctx.cov['rule'] = ('sizes {0,1,b-1,b,b+1,kb-1,kb+1,3b+r} x b in {1,2,7,4096,65536,1MB,usize::MAX(--no-progress)} x dense/sparse (4K data runs, >=64K holes, >32 extents) '
                       'x prior destination {absent, shorter, longer, longer for a sparse source, same length and mtime with other bytes} x driver x workers 1..9 x reflink {auto,never}, 30% with a clamped copy_file_range; + a failing data call (EIO/ENOSPC/EINTR, kernel or user-space path) in any thread; + sources with preallocated, freshly written space. '
                       'distinct = distinct (sizes, block, driver, workers, reflink, prior, plan); non-trivial = some file non-empty')
    ctx.assumptions += ['KernSafe/KernLive checked on every traced kernel answer', 'ext4 reports data/holes and extents soundly (checked by the byte oracle)']


def same_bytes(pairs):
    for src, dst, _ in pairs:
        try:
            with open(src, 'rb') as a, open(dst, 'rb') as b:
                while True:
                    x, y = a.read(1 << 20), b.read(1 << 20)
                    if x != y: return f'{os.path.basename(dst)} differs from its source'
                    if not x: break
        except OSError as e:
            return f'{os.path.basename(dst)}: {e}'
    return None


def hard_errors(ctx, root):
    """a data-moving call that FAILS (EIO, ENOSPC, EINTR on the user-space path) in any thread: the run may fail, but an exit
    status of 0 still means every file is byte-identical (an error reported only on the status channel must reach the exit status)"""
    rng = ctx.rng
    E = scen.ERRNO
    n = 24 if ctx.quick else 300
    for i in range(n):
        c = br.Case()
        c.driver = ['parblock', 'parfile'][i % 2]; c.workers = rng.choice([1, 2, 4]); c.reflink = 'never'; c.prior = rng.choice(['absent', 'longer'])
        c.no_progress = rng.random() < 0.3; c.bsize = rng.choice([4096, 65536]); c.extra = []; c.tag = 'hard-error'
        nb = rng.randint(2, 9)
        c.files = [('f', [('seg', nb * c.bsize + rng.choice([0, 1, 777]), 11 + i)]), ('g', [('seg', rng.choice([10, 5000, 3 * c.bsize]), 50 + i)])]
        victim = rng.choice(['f', 'g'])
        kind = rng.choice(['cfr', 'cfr', 'cfr-again', 'seek', 'uspace-write', 'uspace-read']) if i >= 8 else ['seek', 'cfr-again'][i % 2]
        en = rng.choice(['EIO', 'ENOSPC'])
        if kind == 'seek':
            # the data/hole search of a sparse source fails (EINVAL/EOPNOTSUPP: a file system without SEEK_DATA; EIO): never "the rest is a hole"
            c.driver = 'parfile'; c.files = [('f', br.gen_data(rng, 130 * br.K + rng.randrange(br.K), True)), ('g', [('seg', 5000, 50 + i)])]; victim = 'f'
            c.plan = [f'fail lseek S/f {rng.randint(1, 12)} {E[rng.choice(["EINVAL", "EOPNOTSUPP", "EIO"])]}']
        elif kind == 'cfr-again':
            # copy_file_range is interrupted (EINTR) or told to try again (EAGAIN): not an end of file
            c.plan = [f'fail copy_file_range D/{victim} {rng.choice([1, 1, 2]) if victim == "f" else 1} {E[rng.choice(["EINTR", "EAGAIN"])]}']
        elif kind == 'cfr':
            c.plan = [f'fail copy_file_range D/{victim} {rng.choice([1, 1, 2]) if victim == "f" else 1} {E[en]}']
        elif kind == 'uspace-write':
            c.plan = [f'fail copy_file_range * * {E["ENOSYS"]}', f'fail pwrite64 D/{victim} {rng.choice([1, 1, 2])} {E[en]}', f'fail write D/{victim} {rng.choice([1, 1, 2])} {E[en]}']
        else:
            er = rng.choice(['EIO', 'EINTR'])
            c.plan = [f'fail copy_file_range * * {E["EXDEV"]}', f'fail pread64 S/{victim} {rng.choice([1, 1, 2])} {E[er]}'] + ([f'fail read S/{victim} {rng.choice([1, 1, 2])} {E["EIO"]}'] if er == 'EIO' else [])
        pairs = br.setup_case(root, c)
        r = scen.run_xcp(root, br.argv_of(c), plan=c.plan, timeout=120)
        fired = sum(1 for e in r.trace if e.get('inj') and e['sys'] != 'copy_file_range' or (e.get('inj') and kind in ('cfr', 'cfr-again')))
        ctx.count(f'hard_error.{kind}.' + ('fired' if fired else 'not_fired')); ctx.count(f'hard_error.exit.{r.cls}')
        ctx.case(('hard-error', i, c.driver, c.workers, tuple(c.plan)), bool(fired))
        if r.cls == 'hang':
            ctx.violation(f'hard-{i}-hang.json', dict(case=c.__dict__), f'xcp hung under {c.plan}')
        elif r.cls == '0':
            why = same_bytes(pairs)
            if why:
                ctx.violation(f'hard-{i}.json', dict(case=c.__dict__, argv=br.argv_of(c), plan=c.plan, stderr=r.stderr[-400:]),
                              f'C01: exit 0 but {why} after a failing data call; {c.driver} b={br.eff_bsize(c)} plan={c.plan}')


def refused_by_mode_or_permission(ctx, root):
    """two ways a file's bytes cannot be produced that are decided BEFORE any data call: (1) --reflink=always on a file system
    that cannot clone; (2) an unprivileged caller and a source it may not read / an existing destination it may not write.
    xcp may fail; exit 0 still means every destination file is identical to its source"""
    import shutil, subprocess
    for driver in ('parfile', 'parblock'):
        d = root + '/RA'; shutil.rmtree(d, ignore_errors=True); os.makedirs(d + '/S/sub')
        data = {'S/a': os.urandom(70000), 'S/sub/b': os.urandom(5), 'S/c': os.urandom(1 << 20)}
        for k, v in data.items():
            open(f'{d}/{k}', 'wb').write(v)
        r = scen.run_xcp(d, ['-r', '--driver', driver, '--reflink=always', 'S', 'D'], timeout=60)
        ctx.count(f'reflink_always_unsupported.exit.{r.cls}'); ctx.case(('reflink-always', driver), True)
        bad = [k for k, v in data.items() if not os.path.isfile(f'{d}/D/{k[2:]}') or open(f'{d}/D/{k[2:]}', 'rb').read() != v]
        if r.cls == '0' and bad:
            ctx.violation(f'reflink-always-{driver}.json', dict(driver=driver, differing=bad, stderr=r.stderr[-300:]),
                          f'C01: --reflink=always on a file system without clone support: exit 0 but {bad} differ from their sources ({driver})')
        for shape in ('unreadable-source', 'unwritable-destination'):
            u = root + '/UP'; subprocess.run(f'chmod -R u+rwx {u} 2>/dev/null; rm -rf {u}', shell=True); os.makedirs(u + '/S'); os.makedirs(u + '/D/S')
            data = {'a': os.urandom(3000), 'secret': os.urandom(4000), 'z': os.urandom(10)}
            for k, v in data.items():
                open(f'{u}/S/{k}', 'wb').write(v)
            subprocess.run(f'chown -R 61234:61234 {u}', shell=True)
            if shape == 'unreadable-source':
                os.chown(u + '/S/secret', 0, 0); os.chmod(u + '/S/secret', 0o600)
            else:
                open(u + '/D/S/secret', 'wb').write(b'old'); os.chown(u + '/D/S/secret', 0, 0); os.chmod(u + '/D/S/secret', 0o644)
            r = scen.run_xcp(u, ['-r', '--driver', driver, '--workers', '2', 'S', 'D'], ids=(61234, 61234, []), timeout=60)
            ctx.count(f'unprivileged.{shape}.exit.{r.cls}'); ctx.case(('unprivileged', shape, driver), True)
            bad = [k for k, v in data.items() if not os.path.isfile(f'{u}/D/S/{k}') or open(f'{u}/D/S/{k}', 'rb').read() != v]
            if r.cls == '0' and bad:
                ctx.violation(f'unprivileged-{shape}-{driver}.json', dict(driver=driver, shape=shape, differing=bad, stderr=r.stderr[-300:]),
                              f'C01: as an unprivileged user with an {shape}: exit 0 but {bad} differ from their sources ({driver})')
            subprocess.run(f'chmod -R u+rwx {u} 2>/dev/null; rm -rf {u}', shell=True)


def preallocated(ctx, root):
    """sources with PREALLOCATED space (fallocate) that holds freshly written, not yet written-back data next to real holes"""
    rng = ctx.rng
    from .. import fsutil
    for i in range(6 if ctx.quick else 60):
        for sub in ('S', 'D'):
            import shutil; shutil.rmtree(os.path.join(root, sub), ignore_errors=True)
        os.makedirs(root + '/S')
        src = root + '/S/pre'
        length = rng.choice([8, 16]) * MB
        fd = os.open(src, os.O_CREAT | os.O_TRUNC | os.O_RDWR, 0o644)
        os.ftruncate(fd, length)
        pa = rng.choice([0, 1, 5]) * MB; pl = rng.choice([1, 4]) * MB
        os.posix_fallocate(fd, pa, pl)
        woff = pa + rng.choice([0, 4096, pl // 2]); wlen = rng.choice([4096, 100000, pl // 2])
        os.pwrite(fd, fsutil.lcg_bytes(min(wlen, pa + pl - woff), 7 + i), woff)
        if rng.random() < 0.5:
            os.pwrite(fd, b'tail-data' * 100, length - 5000)         # ordinary data after a hole
        if i % 3 == 2:
            os.fsync(fd)
        os.close(fd)
        driver = ['parblock', 'parblock', 'parfile'][i % 3]
        argv = ['-r', '-T', '--driver', driver, '--workers', str(rng.choice([1, 4]))] + rng.choice([['--block-size', '65536'], ['--block-size', '1MB'], ['--no-progress']]) + ['S', 'D']
        r = scen.run_xcp(root, argv, timeout=120)
        ctx.count(f'preallocated.{driver}.' + ('synced' if i % 3 == 2 else 'dirty')); ctx.count(f'preallocated.exit.{r.cls}')
        ctx.case(('preallocated', i, driver, tuple(argv)), True)
        if r.cls != '0':
            ctx.violation(f'prealloc-{i}-exit.json', dict(argv=argv, stderr=r.stderr[-400:]), 'copy of a source with preallocated space failed', no_input=True)
        else:
            why = same_bytes([(src, root + '/D/pre', None)])
            if why:
                ctx.violation(f'prealloc-{i}.json', dict(argv=argv, layout=dict(length=length, prealloc=(pa, pl), written=(woff, wlen), synced=i % 3 == 2)),
                              f'C01: exit 0 but {why}: data written into preallocated space (len {length}, fallocate {pa}+{pl}, write {woff}+{wlen}); {driver}')


def big_copy(ctx, root):
    """a single kernel copy request larger than the kernel moves per call (> 2 GiB - 4 KiB), natural short count"""
    for drv in ('parblock', 'parfile'):
        c = br.Case(); c.files = [('big', [('seg', (1 << 31) + 12345, 77)])]; c.bsize = 1 << 20; c.no_progress = True; c.driver = drv
        c.workers = 2; c.reflink = 'never'; c.prior = 'absent'; c.plan = []; c.extra = []; c.tag = 'big'
        pairs = br.setup_case(root, c)
        r = scen.run_xcp(root, br.argv_of(c), timeout=600)
        ctx.case(('big', drv), True)
        if r.cls == '0':
            br.verify_case(ctx, root, c, pairs, r, f'big-{drv}')
        else:
            ctx.violation(f'big-{drv}-exit.json', dict(case=c.__dict__, stderr=r.stderr[-1000:]), 'xcp failed on a 2 GiB copy', no_input=True)
        for sub in ('S', 'D'):
            import shutil; shutil.rmtree(os.path.join(root, sub), ignore_errors=True)


def replay(ctx, path):
    run(ctx)
