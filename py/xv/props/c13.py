"""C13 — --dereference copies what links point to, or fails; never leaves links or gaps.
Proof: XcpProps/C13.lean.  Correspondence (A): trees with links to files, directories and links (chains),
relative and absolute, inside and outside the source, dangling, cyclic and ancestor loops, both drivers; the
real end state vs the model's `L1run`; oracle on the real destination: no symbolic link, every link replaced
by what it points to, dangling/cyclic => non-zero exit."""
import os, subprocess
from .. import core, treerun, treegen


def resolve(entries, p, depth=0):
    """python's own resolution over the scenario (independent of the model): -> ('f', id) | ('d', path) | None"""
    if depth > 45:
        return None
    e = entries.get(p)
    if e is None:
        # a component on the way may be a link
        parts = p.split(b'/')[1:]
        cur = b''
        for i, part in enumerate(parts):
            cur2 = cur + b'/' + part
            ee = entries.get(cur2)
            if ee is None:
                return None
            if ee['k'] == 'l' and i < len(parts) - 1:
                tgt = ee['t'] if ee['t'].startswith(b'/') else os.path.normpath(cur + b'/' + ee['t'])
                return resolve(entries, os.path.normpath(tgt + b'/' + b'/'.join(parts[i + 1:])), depth + 1)
            cur = cur2
        return None
    if e['k'] == 'l':
        base = p.rsplit(b'/', 1)[0]
        tgt = e['t'] if e['t'].startswith(b'/') else os.path.normpath(base + b'/' + e['t'])
        return resolve(entries, tgt, depth + 1)
    if e['k'] == 'f': return ('f', e['id'])
    if e['k'] == 'd': return ('d', p)
    return ('s', p)


def gen(rng, driver):
    sc = treerun.Scn(); sc.driver = driver; sc.workers = rng.choice([1, 4])
    sc.d(b'/W').d(b'/X').f(b'/X/ext').d(b'/X/extdir').f(b'/X/extdir/in1').d(b'/X/extdir/sub').f(b'/X/extdir/sub/in2')
    sc.d(b'/W/S').f(b'/W/S/plain').d(b'/W/S/real').f(b'/W/S/real/r1').d(b'/W/S/real/deep').f(b'/W/S/real/deep/r2')
    kinds = rng.sample(['file-rel', 'file-abs', 'dir-rel', 'dir-abs-outside', 'chain2', 'chain-long', 'dangling', 'self', 'cycle2', 'ancestor', 'dir-inside-dir', 'file-outside', 'link-to-link-dir'],
                       rng.randint(1, 4))
    if rng.random() < 0.5:
        kinds = [k for k in kinds if k not in ('dangling', 'self', 'cycle2', 'ancestor')] or ['file-rel']
    sc.kinds = kinds
    for k in kinds:
        if k == 'file-rel': sc.l(b'/W/S/lf', b'plain')
        elif k == 'file-abs': sc.l(b'/W/S/lfa', b'/W/S/real/r1')
        elif k == 'file-outside': sc.l(b'/W/S/lfo', b'../../X/ext')
        elif k == 'dir-rel': sc.l(b'/W/S/ld', b'real')
        elif k == 'dir-abs-outside': sc.l(b'/W/S/ldo', b'/X/extdir')
        elif k == 'dir-inside-dir': sc.l(b'/W/S/real/deep/up', b'../../../../X/extdir/sub')
        elif k == 'chain2': sc.l(b'/W/S/c1', b'c2'); sc.l(b'/W/S/c2', b'real/r1')
        elif k == 'link-to-link-dir': sc.l(b'/W/S/k1', b'k2'); sc.l(b'/W/S/k2', b'/X/extdir')
        elif k == 'chain-long':
            nlink = rng.choice([5, 20, 38])
            for j in range(nlink):
                sc.l(b'/W/S/ch%d' % j, b'ch%d' % (j + 1) if j < nlink - 1 else b'plain')
        elif k == 'dangling': sc.l(b'/W/S/dang', b'nowhere')
        elif k == 'self': sc.l(b'/W/S/selfl', b'selfl')
        elif k == 'cycle2': sc.l(b'/W/S/cy1', b'cy2'); sc.l(b'/W/S/cy2', b'cy1')
        elif k == 'ancestor': sc.l(b'/W/S/real/back', b'..')
    sc.opts = ['r', 'L']
    sc.paths = [b'S', b'DEST']
    sc.extra = rng.choice([[], [], [], ['--no-progress'], ['--no-progress'], ['--fsync'], ['--no-perms'], ['--no-timestamps'], ['--reflink=never'], ['--no-progress', '--fsync'], ['-v']])      # options that must not change what is selected or how links are treated
    return sc


def gen_operands(rng, driver):
    """--dereference WITHOUT --recursive: the source operands themselves are links to files (relative, absolute, outside,
    chains); one operand to a new name, or several into an existing directory"""
    sc = treerun.Scn(); sc.driver = driver; sc.workers = rng.choice([1, 4])
    sc.d(b'/W').d(b'/X').f(b'/X/ext').d(b'/W/S').f(b'/W/S/plain').d(b'/W/S/real').f(b'/W/S/real/r1')
    sc.l(b'/W/S/lf', b'plain').l(b'/W/S/lfa', b'/W/S/real/r1').l(b'/W/S/lfo', b'../../X/ext').l(b'/W/S/c1', b'c2').l(b'/W/S/c2', b'real/r1')
    links = [b'S/lf', b'S/lfa', b'S/lfo', b'S/c1']
    sc.opts = ['L'] + (['r'] if rng.random() < 0.3 else [])
    if rng.random() < 0.5:
        sc.paths = [rng.choice(links), b'NEWNAME']
    else:
        sc.d(b'/W/DEST')
        sc.paths = rng.sample(links, rng.randint(1, 3)) + ([b'S/plain'] if rng.random() < 0.5 else []) + [b'DEST']
    sc.kinds = ['operand-links' + ('' if 'r' in sc.opts else '-no-recursive')]
    sc.operands = True
    if rng.random() < 0.35:
        # the operands come from xcp's own --glob expansion; a dangling link or a link cycle among the matches must make the run
        # fail exactly as a literal operand would
        sc.d(b'/W/DEST') if not any(e['p'] == b'/W/DEST' for e in sc.entries) else None
        bad = rng.choice(['dangling', 'cycle2', 'none'])
        if bad == 'dangling': sc.l(b'/W/S/lzz', b'nowhere')
        elif bad == 'cycle2': sc.l(b'/W/S/lz1', b'lz2'); sc.l(b'/W/S/lz2', b'lz1')
        sc.opts = ['L', 'glob'] + (['r'] if 'r' in sc.opts else [])
        sc.paths = [b'S/l*', b'DEST']
        sc.kinds = ['operand-glob'] + ([bad] if bad != 'none' else [])
        sc.operands = False; sc.glob_operands = True
    return sc


def cross_device(ctx):
    """links whose targets live on ANOTHER file system (tmpfs under /dev/shm): directories and files, absolute, through a chain,
    relative from a sub-directory.  Oracle only (the namespace model has no device boundaries): the destination equals
    python's own dereferencing copy of the source."""
    import shutil, subprocess, filecmp
    from .. import scen
    shm = '/dev/shm'
    if not os.path.isdir(shm) or os.stat(shm).st_dev == os.stat('/var/tmp').st_dev:
        ctx.count('cross_device.skipped'); ctx.assumptions.append('no second file system available: cross-device links not exercised'); return
    ext = f'{shm}/xcpv-c13-{os.getpid()}'
    shutil.rmtree(ext, ignore_errors=True)
    try:
        os.makedirs(ext + '/extdir/sub')
        open(ext + '/extdir/in1', 'wb').write(b'one'); open(ext + '/extdir/sub/in2', 'wb').write(b'two' * 1000); open(ext + '/extfile', 'wb').write(b'file')
        with core.Scratch('c13x') as base:
            for driver in ('parfile', 'parblock'):
                for variant in ('abs', 'chain', 'nested-rel'):
                    root = base + '/R'; shutil.rmtree(root, ignore_errors=True); os.makedirs(root + '/S/sub')
                    open(root + '/S/plain', 'wb').write(b'p'); os.symlink(ext + '/extfile', root + '/S/xfile')
                    if variant == 'abs': os.symlink(ext + '/extdir', root + '/S/xdir')
                    elif variant == 'chain': os.symlink('hop', root + '/S/xdir'); os.symlink(ext + '/extdir', root + '/S/hop')
                    else: os.symlink(ext + '/extdir', root + '/S/far'); os.symlink('../far/sub', root + '/S/sub/xdir')
                    os.makedirs(base + '/aux', exist_ok=True)
                    r = scen.run_xcp(base + '/aux', ['-r', '-L', '--driver', driver, root + '/S', root + '/DEST'], timeout=60)
                    ctx.count(f'cross_device.{variant}.exit.{r.cls}'); ctx.case(('cross-device', driver, variant), True)
                    shutil.copytree(root + '/S', root + '/EXPECT', symlinks=False)
                    bad = None
                    if r.cls != '0':
                        bad = f'a tree whose links all resolve (to another file system) failed to copy: {r.stderr.strip()[-150:]}'
                    else:
                        for dp, dn, fn in os.walk(root + '/EXPECT'):
                            rel = os.path.relpath(dp, root + '/EXPECT')
                            for n in dn + fn:
                                d = os.path.join(root, 'DEST', rel, n); e = os.path.join(dp, n)
                                if os.path.islink(d): bad = f'symbolic link left in the destination at {os.path.join(rel, n)}'
                                elif os.path.isdir(e) and not os.path.isdir(d): bad = f'{os.path.join(rel, n)} should be a directory'
                                elif os.path.isfile(e) and (not os.path.isfile(d) or open(d, 'rb').read() != open(e, 'rb').read()):
                                    bad = f'{os.path.join(rel, n)} (what a link to another file system points to) is missing or differs in the destination'
                    if bad:
                        ctx.violation(f'cross-device-{driver}-{variant}.json', dict(driver=driver, variant=variant, external=ext, exit=r.cls, stderr=r.stderr[-300:], oracle=bad), f'C13: {bad} ({driver}, {variant})')
    finally:
        shutil.rmtree(ext, ignore_errors=True)


def gen_into_dest(rng, driver):
    """the destination directory already exists and HOLDS what some source links point to (a shared directory next to where the
    copy lands): those links are dereferenced like any other"""
    sc = treerun.Scn(); sc.driver = driver; sc.workers = rng.choice([1, 4])
    sc.d(b'/W').d(b'/W/DEST').d(b'/W/DEST/shared').f(b'/W/DEST/shared/common.cfg').d(b'/W/DEST/shared/assets').f(b'/W/DEST/shared/assets/logo')
    sc.d(b'/W/S').f(b'/W/S/main').l(b'/W/S/cfg', b'../DEST/shared/common.cfg').l(b'/W/S/assets', rng.choice([b'../DEST/shared/assets', b'/W/DEST/shared/assets']))
    sc.l(b'/W/S/viaother', b'assets/logo')
    sc.opts = ['r', 'L']; sc.paths = [b'S', rng.choice([b'DEST', b'./DEST/', b'/W/DEST'])]
    sc.kinds = ['targets-inside-destination']; sc.tb = b'/W/DEST/S'
    return sc


def gen_gitignore_targets(rng, driver):
    """-L together with --gitignore: links that are NOT excluded themselves but point into an excluded directory are entries of
    their own and are dereferenced; the excluded directory itself is not copied"""
    sc = treerun.Scn(); sc.driver = driver; sc.workers = rng.choice([1, 4])
    sc.d(b'/W').d(b'/W/S').f(b'/W/S/main').d(b'/W/S/build').d(b'/W/S/build/out').f(b'/W/S/build/out/fw').d(b'/W/S/build/out/assets').f(b'/W/S/build/out/assets/logo')
    sc.l(b'/W/S/firmware.bin', b'build/out/fw').l(b'/W/S/assets', rng.choice([b'build/out/assets', b'/W/S/build/out/assets'])).l(b'/W/S/chain', b'firmware.bin')
    sc.f(b'/W/S/.gitignore', text=rng.choice([b'build/\n', b'/build\n', b'build\n']))
    sc.opts = ['r', 'L', 'gitignore']; sc.paths = [b'S', b'DEST']
    sc.kinds = ['gitignore-link-targets']; sc.gitignore_case = True
    return sc


def run(ctx):
    ctx.proofs()
    core.build_repo(); core.build_sup()
    rng = ctx.rng
    n = 120 if ctx.quick else 2000
    # corpus: the repaired defect F4 (a link to a directory became an empty directory)
    c0 = gen(rng, 'parfile'); c0.entries = [e for e in c0.entries if e['k'] != 'l']; c0.l(b'/W/S/ld', b'real'); c0.kinds = ['dir-rel']
    corpus = []
    for driver in ('parfile', 'parblock'):
        # corpus: several links with the SAME relative text in different directories — each means the file next to it
        c1 = gen(rng, driver); c1.entries = [e for e in c1.entries if e['k'] != 'l']; c1.kinds = ['same-text']
        for dn, txt in ((b'd1', b'ONE'), (b'd2', b'TWO-TWO'), (b'd2/inner', b'THREE-THREE-THREE')):
            c1.d(b'/W/S/' + dn).f(b'/W/S/' + dn + b'/data', text=txt).l(b'/W/S/' + dn + b'/lnk', b'data').l(b'/W/S/' + dn + b'/up', b'../plain' if dn != b'd2/inner' else b'../../plain')
        corpus.append(c1)
        # corpus: a tree 45 levels deep under -L (depth of the tree is not length of a link chain), reached through a link as well
        c2 = gen(rng, driver); c2.entries = [e for e in c2.entries if e['k'] != 'l']; c2.kinds = ['deep-tree']
        pth = b'/W/S/real'
        for lv in range(45):
            pth += b'/v'; c2.d(pth)
            if lv in (38, 39, 40, 41, 44):
                c2.f(pth + b'/leaf%d' % lv, text=b'leaf %d' % lv)
        c2.l(b'/W/S/ld', b'real')
        corpus.append(c2)
    scs = [c0] + corpus + [gen(rng, ['parfile', 'parblock'][i % 2]) for i in range(n)] + [gen_operands(rng, ['parfile', 'parblock'][i % 2]) for i in range(16 if ctx.quick else 200)] + [gen_into_dest(rng, ['parfile', 'parblock'][i % 2]) for i in range(6 if ctx.quick else 40)] + [gen_gitignore_targets(rng, ['parfile', 'parblock'][i % 2]) for i in range(4 if ctx.quick else 24)]
    runs = []
    with core.Scratch('c13') as base:
        for i, sc in enumerate(scs):
            o = treerun.run(base, sc, timeout=60)
            runs.append((i, sc, o))
        # a LARGE file reached several times (itself and through links, one of them a chain), the copies running at the same time and
        # slowly: every copy has the SOURCE's bytes (compared byte by byte: larger than what the tree snapshots identify)
        from .. import scen
        for driver in ('parfile', 'parblock'):
            d = base + '/BIG'
            subprocess.run(['rm', '-rf', d]); os.makedirs(d + '/S/real')
            big = bytes((k * 7 + k // 4096) % 251 for k in range(3 * 1048576 + 777))
            open(d + '/S/big.img', 'wb').write(big); open(d + '/S/small', 'wb').write(b's')
            os.symlink('big.img', d + '/S/l1'); os.symlink('../big.img', d + '/S/real/l2'); os.symlink('l1', d + '/S/zz')
            r = scen.run_xcp(d, ['-r', '-L', '--driver', driver, '--workers', '4', 'S', 'D'], plan=['stall copy_file_range 120000'], timeout=90)
            wrong = [n for n in ('big.img', 'l1', 'real/l2', 'zz') if not os.path.isfile(f'{d}/D/{n}') or os.path.islink(f'{d}/D/{n}') or open(f'{d}/D/{n}', 'rb').read() != big]
            ctx.count(f'big_file_reached_several_times.exit.{r.cls}'); ctx.case(('big-file-twice', driver), True)
            if r.cls == '0' and wrong:
                ctx.violation(f'big-file-twice-{driver}.json', dict(driver=driver, wrong=wrong, stderr=r.stderr[-300:]),
                              f'C13: a 3 MiB file reached through several links, copied concurrently: exit 0 but {wrong} do not hold the bytes of the file the link leads to ({driver})')
            elif r.cls != '0':
                ctx.violation(f'big-file-twice-{driver}-exit.json', dict(driver=driver, exit=r.cls, stderr=r.stderr[-300:]), f'-L copy of a tree whose links all resolve failed ({r.cls})', no_input=True)
        ans = core.ask(core.MODEL, [o.request for _, _, o in runs])
        # path resolution itself may fail (EACCES on a component, ENAMETOOLONG, EIO): then the run must fail, never fall back
        # to copying the link.  One faulted run per scenario that has a resolvable link.
        for i, sc in enumerate(scs[:40 if ctx.quick else 400]):
            links = [e for e in sc.entries if e['k'] == 'l' and e['p'].startswith(b'/W/S/') and not any(k in ('dangling', 'self', 'cycle2', 'ancestor') for k in sc.kinds)]
            if not links:
                continue
            e = rng.choice(links)
            rootp = base + '/R'
            en = rng.choice([13, 36, 5, 40])      # EACCES ENAMETOOLONG EIO ELOOP
            plan = [f"fail readlink ={rootp}{e['p'].decode('latin-1')} 1 {en}"]
            o = treerun.run(base, sc, plan=plan, trace=True, timeout=60)
            fired = any(ev.get('inj') for ev in o.res.trace)
            ctx.count('resolution_fault.' + ('fired' if fired else 'not_fired')); ctx.count(f'resolution_fault.exit.{o.res.cls}')
            ctx.case(('resolve-fault', i, tuple(plan)), fired)
            if fired and o.res.cls == '0':
                after = treerun.decode(o.after)
                left = [p for p, v in after.items() if p.startswith(b'/W/DEST') and v.startswith('l:')]
                if left:
                    ctx.violation(f'case-{i}-resolve-fault.json', dict(kinds=sc.kinds, plan=plan, links_left=[repr(p) for p in left], argv=[repr(x) for x in o.argv]),
                                  f'C13: resolving a link failed ({plan}) but the run exited 0 and left the symbolic link {left[0]!r} in the destination')
    cross_device(ctx)
    for (i, sc, o), a in zip(runs, ans):
        for k in sc.kinds: ctx.count(f'link.{k}')
        ctx.count(f'exit.{o.res.cls}'); ctx.count(f'driver.{sc.driver}')
        ctx.case((tuple(sorted(sc.kinds)), tuple((e['p'], e.get('t')) for e in sc.entries if e['k'] == 'l'), sc.driver), True,
                 sample=dict(kinds=sc.kinds, exit=o.res.cls) if i in (0, 2, 5) else None)
        after = treerun.decode(o.after)
        ents = {e['p']: e for e in sc.entries}
        bad = None
        must_fail = any(k in ('dangling', 'self', 'cycle2', 'ancestor') for k in sc.kinds)
        # ---- the property's oracle on the implementation
        if o.res.cls == 'hang':
            bad = 'xcp hung'
        elif must_fail and o.res.cls == '0':
            bad = f'a dangling or cyclic link ({sc.kinds}) did not make the run fail'
        elif o.res.cls == '0':
            for p, v in after.items():
                if (p.startswith(b'/W/DEST') or p.startswith(b'/W/NEWNAME')) and v.startswith('l:'):
                    bad = f'symbolic link left in the destination at {p!r}'
            if getattr(sc, 'operands', False) and not bad:
                into = b'/W/DEST/' if sc.paths[-1] == b'DEST' else None
                for sp in sc.paths[:-1]:
                    r = resolve(ents, b'/W/' + sp)
                    dp = (into + sp.split(b'/')[-1]) if into else b'/W/NEWNAME'
                    if r and r[0] == 'f' and after.get(dp) != f'f:{r[1]}':
                        bad = f'{dp!r} should be a regular file with the bytes {sp!r} points to (found {after.get(dp)})'
            # every source link became what it points to
            budget = [4000]
            def expect(srcp, dstp, depth=0):
                nonlocal bad
                if bad or depth > 64 or budget[0] <= 0: return
                budget[0] -= 1
                r = resolve(ents, srcp)
                if r is None: return
                if r[0] == 'f':
                    if after.get(dstp) != f'f:{r[1]}': bad = f'{dstp!r} should be a regular file with the bytes of {srcp!r} (found {after.get(dstp)})'
                elif r[0] == 'd':
                    if after.get(dstp) != 'd': bad = f'{dstp!r} should be a directory (found {after.get(dstp)})'; return
                    for q, e in ents.items():
                        if q.startswith(r[1] + b'/') and b'/' not in q[len(r[1]) + 1:]:
                            expect(q, dstp + b'/' + q[len(r[1]) + 1:], depth + 1)
            if getattr(sc, 'gitignore_case', False):
                want = {b'/W/DEST/main': 'f', b'/W/DEST/firmware.bin': 'f', b'/W/DEST/chain': 'f', b'/W/DEST/assets': 'd', b'/W/DEST/assets/logo': 'f', b'/W/DEST/.gitignore': 'f'}
                for pth, kd in want.items():
                    if not (after.get(pth, '') == 'd' if kd == 'd' else after.get(pth, '').startswith('f:')):
                        bad = bad or f'{pth!r} (a link that is not excluded itself) should be a {"directory" if kd == "d" else "regular file"} at the destination (found {after.get(pth)})'
                if any(q.startswith(b'/W/DEST/build') for q in after):
                    bad = bad or 'the excluded directory build/ was copied'
            elif not getattr(sc, 'operands', False) and not getattr(sc, 'glob_operands', False):
                expect(b'/W/S', getattr(sc, 'tb', b'/W/DEST'))
            if getattr(sc, 'glob_operands', False) and not bad:
                for e in sc.entries:
                    if e['k'] == 'l' and e['p'].startswith(b'/W/S/l'):
                        r = resolve(ents, e['p'])
                        dp = b'/W/DEST/' + e['p'].split(b'/')[-1]
                        if r and r[0] == 'f' and after.get(dp) != f'f:{r[1]}':
                            bad = f'{dp!r} should be a regular file with the bytes {e["p"]!r} points to (found {after.get(dp)})'
        elif not must_fail:
            bad = f'a tree whose links all resolve failed to copy: {o.res.stderr.strip()[-150:]}'
        if bad:
            ctx.violation(f'case-{i}.json', dict(kinds=sc.kinds, argv=[repr(x) for x in o.argv], exit=o.res.cls, stderr=o.res.stderr[-300:], links=[(repr(e['p']), repr(e['t'])) for e in sc.entries if e['k'] == 'l'], oracle=bad),
                          f'C13: {bad}')
            continue
        ctx.cov['traces_validated_against_impl'] += 1
        ex, rej, toks = treerun.model_snapshot(a)
        impl_ex = 'ok' if o.res.cls == '0' else 'err'
        if ex != impl_ex or (ex == 'ok' and toks != o.after):
            ctx.cov['disagreements_checked'] += 1
            ctx.violation(f'case-{i}-corr.json', dict(kinds=sc.kinds, argv=[repr(x) for x in o.argv], request=o.request, model_exit=ex, impl_exit=o.res.cls, stderr=o.res.stderr[-300:],
                                                      diff=treerun.diff_tokens(o.after, toks, 20), correspondence='-L end state vs Xcp.L1run'),
                          f'model/implementation disagree with --dereference (impl {o.res.cls}, model {ex}; {sc.kinds})', no_input=True)
    ctx.cov['rule'] = ('a fixed source tree plus 1-4 link kinds from {file rel/abs/outside, dir rel/abs-outside/inside-a-dir, chains of 2, 5, 20, 38, link to link to dir, dangling, self loop, 2-cycle, ancestor loop}; '
                       'both drivers; plus link OPERANDS with -L and without -r. distinct = distinct (kinds, link table, driver)')


def replay(ctx, path):
    run(ctx)
