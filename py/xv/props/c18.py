"""C18 — --fsync flushes every destination file after its last write.
Proof: XcpProps/C18.lean (Arc-count invariant of the dispatcher/pool model: no write of a handle follows its
finalisation; fsync precedes close; every opened handle is closed in a final state).  Correspondence (B): real
runs with --fsync under perturbed schedules (random delays / priorities at system-call boundaries), multi-block
files, workers 1..16, both drivers; per destination the fsync must be entered after every data call returned
and before the process exits; the per-file monitor runs on each projection."""
import os
from .. import core, scen, fileproj
from .. import bytesrun as br


def run(ctx):
    ctx.proofs()
    core.build_repo(); core.build_sup()
    rng = ctx.rng
    n = 36 if ctx.quick else 400
    with core.Scratch('c18') as root:
        for i in range(n):
            c = br.Case()
            c.bsize = rng.choice([7, 512, 4096]); c.no_progress = rng.random() < 0.2          # --no-progress: the block size is unbounded
            nf = rng.choice([1, 3, 6])
            c.files = [(f'f{j}', br.gen_data(rng, rng.choice([0, 1, c.bsize * rng.randint(1, 12) + rng.randrange(c.bsize)]), False)) for j in range(nf)]
            if rng.random() < 0.25 and c.bsize == 4096:
                c.files.append(('sp', br.gen_data(rng, 60 * br.K, True)))
            c.driver = ['parblock', 'parblock', 'parfile'][i % 3]; c.workers = rng.choice([1, 2, 3, 8, 16])
            c.reflink = rng.choice(['auto', 'never']); c.prior = rng.choice(['absent', 'longer'])
            c.extra = ['--fsync'] if i % 6 != 5 else []
            nometa = rng.choice([(False, False), (False, False), (True, True), (True, False), (False, True)])      # nothing to preserve does not mean nothing to flush
            c.extra += (['--no-perms'] if nometa[0] else []) + (['--no-timestamps'] if nometa[1] else [])
            mode = rng.choice(['pct', 'delay', 'pct'])
            c.plan = [f'sched {ctx.seed * 1000 + i} {mode} {rng.randint(1, 4)}']
            if rng.random() < 0.3:
                c.plan.append(f'stall copy_file_range {rng.choice([200, 1000])}')
            c.tag = 'gen'
            xfault = rng.random() < 0.35
            if xfault:      # a tolerated failure (extended attributes) on one file: the requested fsync must still be issued
                victim = rng.choice(c.files)[0]
                c.plan.append(rng.choice([f'fail flistxattr S/{victim} 1 {scen.ERRNO["EPERM"]}', f'fail fsetxattr D/{victim} 1 {scen.ERRNO["ENOSPC"]}', f'fail fgetxattr S/{victim} 1 {scen.ERRNO["EIO"]}']))
            svictim = None
            if len(c.files) >= 3 and rng.random() < 0.4 and '--fsync' in c.extra:
                # ONE destination's fsync is refused (EINVAL/ENOSYS: "this file cannot be synced"): every other file is still flushed
                svictim = rng.choice(c.files)[0]
                c.plan.append(f'fail fsync D/{svictim} 1 {scen.ERRNO[rng.choice(["EINVAL", "ENOSYS", "EOPNOTSUPP"])]}')
            pairs = br.setup_case(root, c)
            for src, _, _ in pairs:
                os.setxattr(src, 'user.c18', b'v')
            if i in (2, 3, 4) or rng.random() < 0.2:
                # sources stamped BEFORE 1970 (old archives, clock-less devices): whatever the timestamp step makes of them, the flush
                # that was asked for is still due
                for src, _, _ in pairs:
                    os.utime(src, ns=(-86400 * 400 * 10 ** 9 + 5, -86400 * 365 * 10 ** 9 - 123456789))
                ctx.count('sources_stamped_before_1970')
            linked = set()
            if c.prior == 'absent' and rng.random() < 0.3:
                # the destination NAME of some files already exists as a symbolic link to a regular file (an older layout of the
                # destination): the data goes into that file, which must be flushed like any other destination
                os.makedirs(root + '/D/.store', exist_ok=True)
                for _, dst, _ in pairs[:2]:
                    nm = os.path.basename(dst)
                    open(f'{root}/D/.store/{nm}', 'wb').write(b'old' * 1000); os.symlink(f'.store/{nm}', dst); linked.add(dst)
            r = scen.run_xcp(root, br.argv_of(c), plan=c.plan, timeout=90)
            fs = '--fsync' in c.extra
            ctx.count(f'driver.{c.driver}'); ctx.count(f'workers.{c.workers}'); ctx.count(f'sched.{mode}'); ctx.count('fsync.on' if fs else 'fsync.off'); ctx.count(f'exit.{r.cls}')
            multi = sum(1 for _, d in c.files if scen.data_bytes(d)[0] > c.bsize)
            ctx.case((i, c.driver, c.workers, c.bsize, tuple(scen.data_bytes(d)[0] for _, d in c.files), tuple(c.plan), fs), nontrivial=fs and multi > 0,
                     sample=dict(argv=br.argv_of(c), plan=c.plan, multi_block_files=multi) if i in (0, 1) else None)
            if r.cls != '0':
                ctx.violation(f'case-{i}-exit.json', dict(case=c.__dict__, stderr=r.stderr[-800:], cls=r.cls), f'copy failed/hung ({r.cls}) under a perturbed schedule', no_input=True)
                continue
            exit_ev = [e for e in r.trace if e['sys'] == 'exit_group']
            reqs, meta = [], []
            for src, dst, data in pairs:
                proj = fileproj.project(r.trace, os.path.realpath(dst) if dst in linked else dst)
                length = scen.data_bytes(data)[0]
                syncs = [e for t, e in proj if t == 'fin:fsync']
                writes = [e for t, e in proj if t in ('data',) or t.startswith('trunc') or t.startswith('clone')]
                if fs and os.path.basename(dst) == svictim:
                    ctx.count('fsync_refused_for_one_file')
                    continue          # its own fsync was refused by the plan (logged only: finding F11 under C04); the others are judged
                if fs:
                    # ---- the property's oracle on the implementation
                    bad = None
                    if not syncs:
                        bad = 'no fsync of the destination'
                    elif any(e['ret'] != 0 for e in syncs):
                        bad = 'fsync failed'
                    else:
                        last = max(syncs, key=lambda e: e['n'])
                        late = [w for w in writes if not fileproj.happens_before(w, last)]
                        if late:
                            bad = f'{len(late)} write(s) not completed before the last fsync was issued'
                    if bad:
                        ctx.violation(f'case-{i}-{os.path.basename(dst)}.json', dict(case=c.__dict__, file=os.path.basename(dst), calls=[(t, e['n'], e.get('x'), e['tid']) for t, e in proj], oracle=bad),
                                      f'C18: {os.path.basename(dst)}: {bad} ({c.driver}, workers {c.workers}, plan {c.plan})')
                        continue
                if dst in linked:
                    continue          # (written through an existing link: the creation calls differ from the model's per-file program; oracle only)
                reqs.append(f"monitor {fileproj.cfg_tokens(reflink=c.reflink, fsync=fs, no_perms=nometa[0], no_timestamps=nometa[1])} | {length} {' '.join(t for t, _ in proj)}"); meta.append((dst, proj))
            if reqs:
                for (dst, proj), m, rq in zip(meta, core.ask(core.MODEL, reqs), reqs):
                    ctx.cov['traces_validated_against_impl'] += 1
                    if m != 'ok true':
                        ctx.cov['disagreements_checked'] += 1
                        ctx.violation(f'case-{i}-monitor.json', dict(case=c.__dict__, request=rq, model=m, correspondence='per-file call order vs Xcp.monitorFile',
                                                                     theorems=['Xcp.Pool.writes_before_finalise']),
                                      f'trace monitor rejects the calls on {os.path.basename(dst)}', no_input=True)
            br.verify_case(ctx, root, c, [(s_, os.path.realpath(d_) if d_ in linked else d_, dd) for s_, d_, dd in pairs], r, f'case-{i}')
    ctx.cov['rule'] = ('trees of 1-7 files incl. multi-block and sparse ones x driver x workers {1,2,3,8,16} x block sizes x schedule perturbation (seeded random delays or '
                       'priority holds with 1-4 change points, optionally every copy_file_range stalled); --no-progress in a fifth; the fsync of one file refused in some. distinct = distinct (case, schedule seed); '
                       'non-trivial = --fsync on and at least one multi-block file')
    ctx.assumptions += ['sup orders calls by one counter ticking at every entry and exit: "A before B" means A returned before B was entered',
                        'perturbed schedules sample, they do not enumerate, the real interleavings; the ∀-schedule claim is the theorem about the model']


def replay(ctx, path):
    run(ctx)
