"""C11 — holes stay holes.
Proof (partial: allocation is the file system's business): XcpProps/C11.lean — both drivers write only inside
reported data ranges; create+ftruncate forgets a previous allocation.  Correspondence (A)+(B): sparse layouts with
holes >= 1 MiB up to hundreds of MiB apparent size (costs no disk), > 32 extents, block sizes straddling
segments, workers 1..16, fresh and fully allocated destinations; measured: st_blocks(dst) vs st_blocks(src),
destination data map within the source's, bytes identical; calls replayed through the model."""
import os, shutil
from .. import core, scen, fsutil
from .. import bytesrun as br

MB = 1 << 20
K = 4096


def gen_layout(rng, quick):
    kind = rng.choice(['lead', 'trail', 'inter', 'inter', 'empty', 'many', 'tiny-data', 'quarter-full', 'big-extent'])
    if kind == 'quarter-full':       # a sparse file that is far from empty: a fifth to a half of it is data (disk images, databases)
        out = []
        for q in range(rng.randint(2, 4)):
            out += [('seg', rng.choice([1, 2]) * MB, rng.randrange(1, 1 << 20)), ('hole', rng.choice([2, 3]) * MB)]
        return out
    if kind == 'big-extent':          # data extents of several blocks that do NOT start at offset 0
        return [('hole', rng.choice([3, 16]) * MB), ('seg', rng.choice([2, 4]) * MB + rng.choice([0, 777]), 5), ('hole', rng.choice([1, 8]) * MB), ('seg', 3 * MB, 6), ('hole', MB)]
    hole = rng.choice([1, 2, 8, 64 if quick else 200]) * MB
    seg = lambda: ('seg', rng.choice([1, 2, 3, 8]) * K - (rng.randrange(1, K) if rng.random() < 0.25 else 0), rng.randrange(1, 1 << 20))
    if kind == 'empty':
        return [('hole', hole)]
    if kind == 'lead':
        return [('hole', hole), seg()]
    if kind == 'trail':
        return [seg(), ('hole', hole)]
    if kind == 'tiny-data':
        return [('hole', hole), ('seg', 1, 7), ('hole', hole)]
    if kind == 'many':
        out = []
        for q in range(rng.choice([33, 40, 70])):
            out += [('seg', K, 10 + q), ('hole', MB)]
        return out
    out = []
    for q in range(rng.randint(2, 6)):
        out += [seg(), ('hole', rng.choice([1, 3]) * MB + rng.choice([0, K]))]
    if rng.random() < 0.5:
        out.append(seg())
    return out


def run(ctx):
    ctx.proofs()
    core.build_repo(); core.build_sup()
    rng = ctx.rng
    n = 40 if ctx.quick else 500
    with core.Scratch('c11') as root:
        for i in range(n):
            c = br.Case()
            data = gen_layout(rng, ctx.quick)
            c.files = [('sp', data)]
            b = rng.choice([4096, 100000, MB, 'nop', 3 * K + 1])
            c.no_progress = b == 'nop'; c.bsize = MB if b == 'nop' else b
            c.driver = ['parfile', 'parblock'][i % 2]; c.workers = rng.choice([1, 2, 4, 16]); c.reflink = rng.choice(['auto', 'never'])
            c.prior = 'absent'; c.plan = []; c.extra = []; c.tag = 'gen'
            if i in (10, 11, 12) or (rng.random() < 0.15 and c.driver == 'parfile'):
                # another file system: every copy_file_range is refused (EXDEV) and the user-space loops copy each data segment —
                # exactly the segment, not the hole after it
                c.driver = 'parfile'; c.plan = [f'fail copy_file_range * * {scen.ERRNO["EXDEV"]}']
                if i in (10, 11, 12):
                    data = sum(([('seg', K, 40 + q), ('hole', rng.choice([1, 2]) * MB)] for q in range(12)), []); c.files = [('sp', data)]; c.no_progress = i == 12; c.bsize = [4096, MB, MB][i - 10]
            if i in (13, 14):
                # corpus: hundreds of extents (more than 8 pages of the extent map): the holes after the 256th are holes too
                c.driver = 'parblock'; c.no_progress = False; c.bsize = [MB, 100000][i - 13]; c.plan = []
                data = sum(([('seg', 4 * K, 60 + q % 200), ('hole', 256 * K)] for q in range(300)), []); c.files = [('sp', data)]
            if i in (6, 7, 8, 9):
                # corpus: an UNBOUNDED block size (--no-progress) or one larger than the gaps must not merge neighbouring data
                # extents across the holes between them
                c.driver = 'parblock'; c.no_progress = i % 2 == 0; c.bsize = 64 * MB
                data = [('seg', 2 * K, 31), ('hole', 3 * MB), ('seg', K, 32), ('hole', 8 * MB + K), ('seg', 3 * K, 33), ('hole', MB)]; c.files = [('sp', data)]
            if not c.plan and (rng.random() < 0.3 or (i < 6 and c.driver == 'parblock')):
                # a genuinely short kernel copy inside a data extent: the retry must ask for the REMAINDER only — a block that runs past
                # the end of its extent writes the following hole out as zeros (allocation, not content, shows it)
                c.plan = [f'clamp copy_file_range D/sp * {rng.choice([1, 2, 3, 5])} {rng.choice([1000, 40000, 700000])}']
                if i < 6 and c.driver == 'parblock':
                    data = [('hole', 3 * MB), ('seg', 2 * MB, 5), ('hole', 8 * MB), ('seg', 3 * MB + 777, 6), ('hole', MB)]; c.files = [('sp', data)]
                    c.no_progress = False; c.bsize = MB; c.plan = [f'clamp copy_file_range D/sp * {1 + i % 5} {768 * 1024}']
            prior_alloc = rng.random() < 0.3
            pairs = br.setup_case(root, c)
            length = scen.data_bytes(data)[0]
            if prior_alloc:     # an existing, fully allocated destination (bounded: up to 24 MiB really written)
                os.makedirs(root + '/D', exist_ok=True)
                fsutil.make_file(root + '/D/sp', min(length, 24 * MB) + 12345, [(0, min(length, 24 * MB) + 12345)], seed=3)
            r = scen.run_xcp(root, br.argv_of(c), plan=c.plan or None, timeout=120)
            ndata = sum(1 for d in data if d[0] == 'seg')
            ctx.count(f'driver.{c.driver}'); ctx.count('bsize.' + ('usize::MAX' if c.no_progress else str(c.bsize))); ctx.count('prior.allocated' if prior_alloc else 'prior.absent')
            ctx.count(f'segments.{"0" if ndata == 0 else "1" if ndata == 1 else "2-32" if ndata <= 32 else ">32"}'); ctx.count(f'exit.{r.cls}')
            ctx.case((tuple(data), br.eff_bsize(c), c.driver, c.workers, prior_alloc), True,
                     sample=dict(argv=br.argv_of(c), apparent_size=length, data_segments=ndata, prior_allocated=prior_alloc) if i in (0, 3) else None)
            if r.cls != '0':
                ctx.violation(f'case-{i}-exit.json', dict(case=c.__dict__, stderr=r.stderr[-800:]), 'sparse copy failed', no_input=True)
                continue
            src, dst, _ = pairs[0]
            ss, ds = os.stat(src), os.stat(dst)
            smap, dmap = fsutil.seek_segments(src), fsutil.seek_segments(dst)
            # ---- the property's oracle on the implementation (measured allocation)
            slack = 8 * (ndata + 1) + 16          # 512-byte units: one 4 KiB block of rounding per segment
            bad = None
            if ds.st_blocks > ss.st_blocks + slack:
                bad = f'destination allocates {ds.st_blocks * 512} bytes, source {ss.st_blocks * 512} (apparent {length})'
            else:
                for a, z in dmap:
                    if not any(sa - K < a + 1 and z - 1 < ((sz + K - 1) // K) * K + K for sa, sz in smap if sz > a and sa < z):
                        bad = f'destination has data at {a}-{z} where the source has a hole'; break
            if bad:
                ctx.violation(f'case-{i}.json', dict(case=c.__dict__, prior_allocated=prior_alloc, src_blocks=ss.st_blocks, dst_blocks=ds.st_blocks, src_map=smap[:50], dst_map=dmap[:50], oracle=bad),
                              f'C11: {bad}; {c.driver} b={br.eff_bsize(c)}')
                continue
            br.verify_case(ctx, root, c, pairs, r, f'case-{i}')
            # written ranges lie inside the source's data map rounded to blocks (model: writes ⊆ reported data)
            for e in br.data_calls(r.trace, src, dst):
                if e['sys'] == 'copy_file_range' and e['ret'] > 0:
                    a, z = e['off'], e['off'] + e['ret']
                    ext = fsutil.fiemap(src)
                    if not any(sa <= a and z <= sz for sa, sz in smap) and not any(xa <= a and z <= xz + 1 for xa, xz, _, _ in _merge(ext)):
                        ctx.violation(f'case-{i}-write-in-hole.json', dict(case=c.__dict__, call=e, src_map=smap[:50]), 'C11: a write landed outside every reported data range')
                        break
        # ---- several sparse files in ONE run; extent mapping refused for one of them (a source on a file system without
        # FIEMAP next to sources on ext4): whether a file's holes survive is decided per file, never for the rest of the run
        for i in range(6 if ctx.quick else 40):
            c = br.Case()
            c.files = [(f's{j}', [('hole', 2 * MB), ('seg', 2 * K, 50 + j), ('hole', 3 * MB), ('seg', K, 70 + j), ('hole', MB)]) for j in range(3)]
            c.no_progress = False; c.bsize = rng.choice([65536, MB]); c.driver = ['parblock', 'parfile'][i % 2]; c.workers = rng.choice([1, 4]); c.reflink = 'auto'
            c.prior = 'absent'; c.extra = []; c.tag = 'multi-fiemap'
            nth = rng.choice([1, 1, 2])
            c.plan = [f'fail ioctl fiemap {nth} {scen.ERRNO["EOPNOTSUPP"]}']
            pairs = br.setup_case(root, c)
            r = scen.run_xcp(root, br.argv_of(c), plan=c.plan, timeout=120)
            hit = [e.get('fdpath') or '' for e in r.trace if e.get('inj')]
            ctx.count(f'multi_fiemap.{c.driver}.' + ('fired' if hit else 'not_fired')); ctx.count(f'exit.{r.cls}')
            ctx.case(('multi-fiemap', i, c.driver, c.workers, tuple(c.plan)), bool(hit))
            if r.cls != '0':
                ctx.violation(f'multi-{i}-exit.json', dict(case=c.__dict__, stderr=r.stderr[-500:]), 'copy of three sparse files with FIEMAP refused once failed', no_input=True)
                continue
            for src, dst, data in pairs:
                if any(h == src or h == dst for h in hit):
                    continue            # this file's own mapping was refused: copying it whole is the documented fall-back
                ss, ds = os.stat(src), os.stat(dst)
                if ds.st_blocks > ss.st_blocks + 8 * 3 + 16:
                    ctx.violation(f'multi-{i}.json', dict(case=c.__dict__, refused_for=hit, file=dst[len(root):], src_blocks=ss.st_blocks, dst_blocks=ds.st_blocks),
                                  f'C11: {dst[len(root):]} allocates {ds.st_blocks * 512} bytes (source {ss.st_blocks * 512}) after extent mapping was refused for ANOTHER file ({[h[len(root):] for h in hit]}); {c.driver}')
                    break
        # ---- a file that is ONE hole but whose inode owns a block for its extended attributes (st_blocks > 0, no extent at all),
        # and one with a single data block plus such attributes: the attribute block is not file data
        for i in range(4 if ctx.quick else 24):
            shutil.rmtree(root + '/S', ignore_errors=True); shutil.rmtree(root + '/D', ignore_errors=True)
            os.makedirs(root + '/S')
            src = root + '/S/labelled.img'
            length = rng.choice([8, 80]) * MB
            fd = os.open(src, os.O_CREAT | os.O_WRONLY, 0o644); os.ftruncate(fd, length)
            if i % 2:
                os.pwrite(fd, b'd' * K, 3 * MB)
            os.close(fd)
            os.setxattr(src, 'user.big', bytes(range(256)) * 3)
            os.sync()
            driver = ['parblock', 'parblock', 'parfile'][i % 3]
            argv = ['-r', '-T', '--driver', driver, '--workers', str(rng.choice([1, 4]))] + rng.choice([['--block-size', '65536'], [], ['--no-perms']]) + ['S', 'D']
            prior = rng.random() < 0.3
            if prior:
                os.makedirs(root + '/D'); fsutil.make_file(root + '/D/labelled.img', 2 * MB, [(0, 2 * MB)], seed=4)
            r = scen.run_xcp(root, argv, timeout=120)
            ss = os.stat(src)
            ctx.count(f'xattr_block.{driver}.src_blocks_{min(ss.st_blocks, 16)}'); ctx.count(f'exit.{r.cls}'); ctx.case(('xattr-block', i, driver, tuple(argv), prior), True)
            if r.cls != '0':
                ctx.violation(f'xattr-block-{i}-exit.json', dict(argv=argv, stderr=r.stderr[-400:]), 'copy of a hole-only file with extended attributes failed', no_input=True)
                continue
            ds = os.stat(root + '/D/labelled.img')
            if ds.st_blocks > ss.st_blocks + 24:
                ctx.violation(f'xattr-block-{i}.json', dict(argv=argv, length=length, src_blocks=ss.st_blocks, dst_blocks=ds.st_blocks, data_block=bool(i % 2), prior_allocated=prior),
                              f'C11: destination allocates {ds.st_blocks * 512} bytes, source {ss.st_blocks * 512} (apparent {length}; the source\'s only allocation besides {"one data block" if i % 2 else "nothing"} is its xattr block); {driver}')
        shutil.rmtree(root + '/S', ignore_errors=True); shutil.rmtree(root + '/D', ignore_errors=True)
    ctx.cov['rule'] = ('layouts {leading, trailing, interleaved, only-hole, 1-byte data, >32 extents} with holes 1..64 MiB (200 MiB thorough) x block sizes {4096, 12289, 100000, 1MB, usize::MAX} '
                       'x driver x workers {1,2,4,16} x fresh / fully allocated existing destination; three sparse files in one run with FIEMAP refused for one of them; hole-only files whose inode owns an xattr block. distinct = distinct (layout, block, driver, workers, prior)')
    ctx.assumptions += ['ext4: blocks are allocated only where written; ftruncate/O_TRUNC release previous allocation (measured on every run, not proved)']


def _merge(ext):
    out = []
    for a, z, s, l in ext:
        if out and a <= out[-1][1] + 1:
            out[-1] = (out[-1][0], z, s, l)
        else:
            out.append((a, z, s, l))
    return out


def replay(ctx, path):
    run(ctx)
