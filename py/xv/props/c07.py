"""C07 — xcp always terminates: no deadlock, no spin, with or without errors.
Proof: XcpProps/C07.lean (measures and enabledness over every schedule, with failures; loops never spin).
Correspondence: supervised runs under a wall-clock bound (a hang is a violation, replay = scenario + plan + schedule
seed): trees with FIFOs, sockets, empty directories, empty trees and many files; a single injected fault at every
step-call of the unfaulted trace; perturbed schedules; workers 1..64; both drivers; and the library probe (the
update stream ends and copy() returns, also after faults)."""
import os, shutil
from .. import core, scen, treerun
from . import c04

E = scen.ERRNO
LIMIT = 25      # seconds: an unperturbed run of these trees takes well under one


def trees(rng):
    out = []
    for driver in ('parfile', 'parblock'):
        sc = treerun.Scn(); sc.driver = driver
        sc.d(b'/W').d(b'/W/S').s(b'/W/S/fifo', 'fifo').s(b'/W/S/sock', 'sock').d(b'/W/S/empty').d(b'/W/S/sub').s(b'/W/S/sub/fifo2', 'fifo').f(b'/W/S/sub/f').l(b'/W/S/l', b'fifo')
        sc.opts = ['r']; sc.paths = [b'S', b'DEST']; sc.tag = 'specials'; out.append(sc)
        sc = treerun.Scn(); sc.driver = driver
        sc.d(b'/W').d(b'/W/S'); sc.opts = ['r']; sc.paths = [b'S', b'DEST']; sc.tag = 'empty-tree'; out.append(sc)
        sc = treerun.Scn(); sc.driver = driver
        sc.d(b'/W').s(b'/W/onlyfifo', 'fifo'); sc.paths = [b'onlyfifo', b'DEST']; sc.tag = 'sole-fifo'; out.append(sc)
        sc = treerun.Scn(); sc.driver = driver
        sc.d(b'/W').d(b'/W/S')
        for i in range(60):
            sc.f(b'/W/S/f%d' % i, text=b'z' * (i * 97 % 3000))
        sc.d(b'/W/S/sub'); sc.f(b'/W/S/sub/big', text=b'B' * 40000)
        sc.opts = ['r']; sc.extra = ['--block-size', '1000']; sc.paths = [b'S', b'DEST']; sc.tag = 'many-files'; out.append(sc)
        # one sparse file whose data needs more block jobs than the bounded pool queue holds, a single worker
        sc = treerun.Scn(); sc.driver = driver
        sc.d(b'/W').d(b'/W/S'); sc.opts = ['r']; sc.extra = ['--block-size', '4096']; sc.paths = [b'S', b'DEST']; sc.tag = 'sparse-many-blocks'; sc.only_workers = (1, 2)
        sc.sparse = (b'/W/S/sp', [(0, 262144 * 5)], 262144 * 5 + 8 * 1048576)
        out.append(sc)
        # hundreds of EMPTY files (package trees full of empty __init__.py / .gitkeep) next to small ones
        sc = treerun.Scn(); sc.driver = driver
        sc.d(b'/W').d(b'/W/S')
        for i in range(300):
            sc.d(b'/W/S/p%d' % i) if i % 10 == 0 else None
            sc.f(b'/W/S/p%d/e%d' % (i - i % 10, i), text=b''); sc.f(b'/W/S/p%d/m%d' % (i - i % 10, i), text=b'm' * (1 + i % 50)) if i % 5 == 0 else None
        sc.opts = ['r']; sc.paths = [b'S', b'DEST']; sc.tag = 'many-empty-files'; sc.only_workers = (1, 4, 64); out.append(sc)
        # the repaired defect F21: --gitignore with a source whose `.gitignore` is a FIFO (or a link to one): it is an entry to
        # recreate like any other special file, never something to open and read
        sc = treerun.Scn(); sc.driver = driver
        sc.d(b'/W').d(b'/W/S').f(b'/W/S/a').s(b'/W/S/.gitignore', 'fifo').d(b'/W/S/sub').f(b'/W/S/sub/b').d(b'/W/T').s(b'/W/T/realfifo', 'fifo').l(b'/W/T/.gitignore', b'realfifo').f(b'/W/T/c')
        sc.opts = ['r', 'gitignore']; sc.paths = [b'S', b'T', b'DEST']; sc.d(b'/W/DEST'); sc.tag = 'gitignore-is-a-fifo'; sc.only_workers = (1, 4); out.append(sc)
        # a sparse file whose LAST extent is preallocated but unwritten (data, hole, fallocate region): extent paging must end
        sc = treerun.Scn(); sc.driver = driver
        sc.d(b'/W').d(b'/W/S').f(b'/W/S/plain'); sc.opts = ['r']; sc.extra = ['--block-size', '65536']; sc.paths = [b'S', b'DEST']; sc.tag = 'prealloc-tail'; sc.only_workers = (1, 4)
        sc.prealloc = b'/W/S/pre.bin'
        out.append(sc)
        # every worker dies silently (a FIFO whose destination name is an existing directory: no Error update) while the
        # walker still has hundreds of entries to send
        sc = treerun.Scn(); sc.driver = driver
        sc.d(b'/W').d(b'/W/pipes').d(b'/W/files').d(b'/W/DEST').d(b'/W/DEST/pipes')
        for i in range(8):
            sc.s(b'/W/pipes/p%d' % i, 'fifo'); sc.d(b'/W/DEST/pipes/p%d' % i); sc.f(b'/W/DEST/pipes/p%d/x' % i)
        for i in range(700):
            sc.f(b'/W/files/f%d' % i, text=b'')
        sc.opts = ['r']; sc.paths = [b'pipes', b'files', b'DEST']; sc.tag = 'all-workers-die-silently'; sc.only_workers = (1, 2, 4); out.append(sc)
        # the destination holds a regular file / a dangling link where the source has a DIRECTORY: the directory cannot be
        # made; the run must end (with an error), not retry for ever
        for kind in ('file', 'dangling-link'):
            sc = treerun.Scn(); sc.driver = driver
            sc.d(b'/W').d(b'/W/S').f(b'/W/S/a').d(b'/W/S/sub').f(b'/W/S/sub/b').d(b'/W/S/sub/deep').f(b'/W/S/sub/deep/c').d(b'/W/DEST').d(b'/W/DEST/S')
            if kind == 'file':
                sc.f(b'/W/DEST/S/sub')
            else:
                sc.l(b'/W/DEST/S/sub', b'nowhere')
            sc.opts = ['r']; sc.paths = [b'S', b'DEST']; sc.tag = 'directory-onto-' + kind; sc.only_workers = (1, 4); out.append(sc)
        sc = treerun.Scn(); sc.driver = driver
        sc.d(b'/W').d(b'/W/S').f(b'/W/S/a').d(b'/W/DEST').s(b'/W/DEST/S', 'fifo')
        sc.opts = ['r', 'n']; sc.paths = [b'S', b'DEST']; sc.tag = 'fifo-at-destination-noclobber'; out.append(sc)
    return out


def run_with_sparse(base, sc, limit):
    """treerun.run, plus an optional big sparse file written after materialisation (the tree model is not consulted here)"""
    sp = getattr(sc, 'sparse', None)
    pre = getattr(sc, 'prealloc', None)
    if pre:
        import subprocess
        root = base + '/R'
        subprocess.run(f'rm -rf {root}', shell=True); os.makedirs(root)
        treerun.materialise(root, sc)
        fd = os.open(root + pre.decode(), os.O_CREAT | os.O_RDWR, 0o644)
        os.ftruncate(fd, 8 << 20); os.pwrite(fd, b'head' * 1024, 0); os.posix_fallocate(fd, 6 << 20, 2 << 20)
        # 40 more preallocated, unwritten islands: more than one FIEMAP page of unwritten extents in a row
        os.close(fd)
        fd = os.open(root + pre.decode() + '2', os.O_CREAT | os.O_RDWR, 0o644)
        os.ftruncate(fd, 64 << 20); os.pwrite(fd, b'head' * 1024, 0)
        for q in range(40):
            os.posix_fallocate(fd, (4 + q) << 20, 8192)
        os.close(fd)
        o = treerun.Run(); o.root = root; o.argv = treerun.argv(root, sc)
        os.makedirs(base + '/aux', exist_ok=True)
        o.res = scen.run_xcp(base + '/aux', o.argv, cwd=treerun.real(root, sc.cwd), trace=True, timeout=limit)
        return o
    if not sp:
        return treerun.run(base, sc, trace=True, timeout=limit)
    import subprocess
    from .. import fsutil
    root = base + '/R'
    subprocess.run(f'rm -rf {root}', shell=True); os.makedirs(root)
    treerun.materialise(root, sc)
    fsutil.make_file(root + sp[0].decode(), sp[2], sp[1], seed=5)
    o = treerun.Run(); o.root = root; o.argv = treerun.argv(root, sc)
    os.makedirs(base + '/aux', exist_ok=True)
    o.res = scen.run_xcp(base + '/aux', o.argv, cwd=treerun.real(root, sc.cwd), trace=True, timeout=limit)
    return o


def enough(ctx):
    """six hangs are proof enough: every further hang costs the whole time limit"""
    return sum(1 for _, t, _ in ctx.violations if 'did not finish' in t or 'hung' in t or 'spins' in t) >= 6


def run(ctx):
    ctx.proofs()
    core.build_repo(); core.build_sup()
    probe = core.build_harness() + '/probe_api'
    rng = ctx.rng
    with core.Scratch('c07') as base:
        for sc in trees(rng):
            if enough(ctx):
                break
            for workers in (getattr(sc, 'only_workers', None) or ((1, 64) if ctx.quick else (1, 2, 3, 8, 64))):
                sc.workers = workers
                o0 = run_with_sparse(base, sc, LIMIT)
                ctx.count(f'tree.{sc.tag}'); ctx.count(f'workers.{workers}'); ctx.count(f'exit.{o0.res.cls}')
                ctx.case((sc.tag, sc.driver, workers, 'plain'), True, sample=dict(tree=sc.tag, driver=sc.driver, workers=workers, exit=o0.res.cls, wall_s=round(o0.res.wall, 3)) if workers == 64 and sc.tag in ('specials', 'many-files') else None)
                if o0.res.cls == 'hang':
                    ctx.violation(f'{sc.tag}-{sc.driver}-{workers}-hang.json', dict(tree=sc.tag, argv=[repr(x) for x in o0.argv]), f'C07: xcp did not finish within {LIMIT}s on {sc.tag} ({sc.driver}, {workers} workers)')
                    continue
                opened = [e for e in o0.res.trace if e['sys'] == 'openat' and e['ret'] >= 0 and any(x in (e.get('fdpath') or '') for x in ('/fifo', '/sock', 'onlyfifo', 'realfifo', 'S/.gitignore'))]
                if opened:
                    ctx.violation(f'{sc.tag}-{sc.driver}-opened.json', dict(events=opened[:5]), 'C07/C14: a FIFO or socket source was opened')
                if workers != 1 or sc.tag in ('all-workers-die-silently', 'prealloc-tail', 'gitignore-is-a-fifo', 'many-empty-files', 'directory-onto-file', 'directory-onto-dangling-link'):
                    continue
                # a single fault at every step-call, each under a perturbed schedule
                occ, plans = {}, []
                for e in o0.res.trace:
                    site = c04.site_of(e, o0.root, False)
                    if site is None:
                        continue
                    pathkey = (e.get('path') or e.get('fdpath') or '')
                    key = ('=' + pathkey) if pathkey and ' ' not in pathkey else '*'
                    sysn = 'ioctl' if e['sys'] == 'ficlone' else e['sys']
                    k = (sysn, key); occ[k] = occ.get(k, 0) + 1
                    plans.append((site, f'fail {sysn} {key} {occ[k]} {E[rng.choice(["EIO", "ENOSPC", "EACCES", "EMFILE"])]}'))
                if len(plans) > (30 if ctx.quick else 400):
                    plans = rng.sample(plans, 30 if ctx.quick else 400)
                for j, (site, pl) in enumerate(plans):
                    if enough(ctx):
                        break
                    plan = [pl, f'sched {ctx.seed * 31 + j} {rng.choice(["pct", "delay"])} {rng.randint(1, 3)}']
                    sc.workers = rng.choice([1, 2, 8, 64])
                    o = treerun.run(base, sc, plan=plan, trace=True, timeout=LIMIT)
                    ctx.count(f'fault.{site}'); ctx.count(f'exit.{o.res.cls}')
                    ctx.case((sc.tag, sc.driver, sc.workers, tuple(plan)), True)
                    ctx.cov['traces_validated_against_impl'] += 1
                    if o.res.cls == 'hang':
                        ctx.violation(f'{sc.tag}-{sc.driver}-fault-{j}-hang.json', dict(tree=sc.tag, driver=sc.driver, workers=sc.workers, plan=plan, argv=[repr(x) for x in o.argv]),
                                      f'C07: xcp hung after a failing {site} ({sc.driver}, {sc.workers} workers, plan {plan})')
        # a descriptor limit so low that opening the source and the destination cannot both succeed, or that several workers
        # each hold one descriptor and wait for a second: the run must END (with an error), never wait for ever
        d = base + '/lowfd'; shutil.rmtree(d, ignore_errors=True); os.makedirs(d + '/S')
        for k in range(60):
            open(f'{d}/S/f{k}', 'wb').write(b'x' * 100)
        for driver in ('parfile', 'parblock'):
            for nf in ((4, 5, 6, 8, 10, 12) if ctx.quick else (3, 4, 5, 6, 7, 8, 9, 10, 11, 12, 14, 16, 20)):
                if enough(ctx):
                    break
                for argv, what in ((['--driver', driver, d + '/S/f0', d + f'/out-{driver}-{nf}'], 'one-file'), (['-r', '--driver', driver, '-w', '16', d + '/S', d + f'/tree-{driver}-{nf}'], 'tree-16-workers')):
                    r = scen.run_xcp(d, argv, timeout=LIMIT, env_extra={'SUP_CHILD_NOFILE': str(nf)})
                    ctx.count(f'low_nofile.{what}.{r.cls}'); ctx.case(('low-nofile', driver, nf, what), True, sample=dict(limit=nf, driver=driver, what=what, exit=r.cls) if nf == 6 and driver == 'parfile' else None)
                    if r.cls == 'hang':
                        ctx.violation(f'low-nofile-{driver}-{nf}-{what}.json', dict(argv=argv, nofile=nf), f'C07: xcp did not finish within {LIMIT}s with RLIMIT_NOFILE={nf} ({driver}, {what})')
        # a source file that ANOTHER process holds under an exclusive advisory lock for the whole run (a daemon's lock file): a copy
        # needs no lock and must not wait for one
        import subprocess, sys as _sys
        d = base + '/locked'; shutil.rmtree(d, ignore_errors=True); os.makedirs(d + '/S')
        open(d + '/S/service.lock', 'wb').write(b'pid 1\n'); open(d + '/S/data', 'wb').write(b'd' * 5000)
        holder = subprocess.Popen([_sys.executable, '-c', 'import fcntl,sys,time; f=open(sys.argv[1]); fcntl.flock(f, fcntl.LOCK_EX); print("held", flush=True); time.sleep(120)', d + '/S/service.lock'], stdout=subprocess.PIPE)
        try:
            holder.stdout.readline()
            for driver in ('parfile', 'parblock'):
                shutil.rmtree(d + '/D', ignore_errors=True)
                r = scen.run_xcp(d, ['-r', '--driver', driver, 'S', 'D'], timeout=LIMIT)
                ctx.count(f'locked_source.{driver}.{r.cls}'); ctx.case(('locked-source', driver), True)
                if r.cls == 'hang':
                    ctx.violation(f'locked-source-{driver}.json', dict(driver=driver), f'C07: xcp did not finish within {LIMIT}s copying a file another process holds an exclusive flock on ({driver})')
        finally:
            holder.kill(); holder.wait()
        # FREE-RUNNING (no supervisor): thousands of small files of varied sizes with many workers reporting progress at the same
        # instant — contention on the progress bookkeeping must not stop a thread from finishing
        d = base + '/many'; shutil.rmtree(d, ignore_errors=True); os.makedirs(d + '/S')
        for k in range(4000):
            if k % 200 == 0: os.makedirs(f'{d}/S/g{k // 200}', exist_ok=True)
            open(f'{d}/S/g{k // 200}/f{k}', 'wb').write(b'x' * (1 + (k * 7919) % 3000))
        for rep in range(6 if ctx.quick else 30):
            if enough(ctx):
                break
            driver = ['parfile', 'parfile', 'parblock'][rep % 3]
            shutil.rmtree(d + '/D', ignore_errors=True)
            r = scen.run_xcp(d, ['-r', '--driver', driver, '-w', str([32, 16, 32][rep % 3]), 'S', 'D'], timeout=40, trace=False)
            ctx.count(f'free_running_many_small.{driver}.{r.cls}'); ctx.case(('free-running-many-small', rep, driver), True)
            if r.cls == 'hang':
                ctx.violation(f'free-running-{rep}.json', dict(files=4000, driver=driver, workers=[32, 16, 32][rep % 3]), f'C07: xcp did not finish within 40s copying 4000 small files with many free-running workers ({driver})')
                break
        shutil.rmtree(d, ignore_errors=True)
        # a source whose size lies (sysfs: st_size 4096, a few bytes delivered) on another file system (copy_file_range: EXDEV)
        sysf = '/sys/devices/system/cpu/online'
        if os.path.exists(sysf):
            for driver in ('parfile', 'parblock'):
                d = base + '/sysfs'; shutil.rmtree(d, ignore_errors=True); os.makedirs(d)
                r = scen.run_xcp(d, ['--driver', driver, sysf, d + '/out'], timeout=LIMIT)
                ctx.count('sysfs.' + r.cls); ctx.case(('sysfs', driver), True, sample=dict(source=sysf, driver=driver, exit=r.cls))
                if r.cls == 'hang':
                    ctx.violation(f'sysfs-{driver}-hang.json', dict(source=sysf, driver=driver), f'C07: xcp spins copying {sysf} (short source, copy_file_range refused) with {driver}')
        # library clients: the copy call returns and the channel closes, with and without faults
        root = base + '/lib'
        os.makedirs(root)
        for i in range(16 if ctx.quick else 200):
            if enough(ctx):
                break
            shutil.rmtree(root + '/S', ignore_errors=True); shutil.rmtree(root + '/D', ignore_errors=True)
            os.makedirs(root + '/S/sub')
            for k in range(rng.choice([0, 3, 30])):
                open(f'{root}/S/sub/f{k}' if k % 2 else f'{root}/S/f{k}', 'wb').write(os.urandom(rng.choice([0, 10, 5000])))
            os.mkfifo(root + '/S/fifo')
            driver = ['parfile', 'parblock'][i % 2]
            plan = [f'sched {ctx.seed + i} pct 2']
            if i % 3 == 0:
                plan.append(rng.choice([f'fail copy_file_range D/ {rng.randint(1, 3)} {E["EIO"]}', f'fail openat S/ {rng.randint(3, 8)} {E["EMFILE"]}', f'fail mknodat fifo 1 {E["EPERM"]}', f'fail ftruncate D/ 1 {E["ENOSPC"]}']))
            argv = ['--driver', driver, '--workers', str(rng.choice([1, 4, 64])), '--block-size', '1000', '--updater', 'channel', '--', 'S', 'D']
            r = scen.run_xcp(root, argv, plan=plan, timeout=LIMIT, binary=probe)
            closed = 'closed' in r.stdout_full.split('\n')
            returned = any(l.startswith('result') for l in r.stdout_full.split('\n'))
            ctx.count('library.' + ('faulted' if len(plan) > 1 else 'plain')); ctx.count(f'library.exit.{r.cls}')
            ctx.case(('lib', i, driver, tuple(plan)), True, sample=dict(argv=argv, plan=plan, closed=closed, returned=returned) if i in (0, 3) else None)
            if r.cls == 'hang' or not closed or not returned:
                ctx.violation(f'lib-{i}.json', dict(argv=argv, plan=plan, stdout=r.stdout_full[-500:], cls=r.cls), f'C07: library client: channel closed={closed}, copy returned={returned}, {r.cls} ({driver}, plan {plan})')
        # a client that calls copy() and reads the updates only AFTERWARDS, on a tree that produces thousands of updates: the provided
        # updater must not make the copy wait for a reader (free-running: no supervisor in the way)
        for driver in ('parfile', 'parblock'):
            if enough(ctx):
                break
            shutil.rmtree(root + '/S', ignore_errors=True); shutil.rmtree(root + '/D', ignore_errors=True)
            for k in range(5000):
                if k % 250 == 0:
                    os.makedirs(f'{root}/S/d{k // 250}')
                open(f'{root}/S/d{k // 250}/f{k}', 'wb').write(b'x' * (k % 7))
            argv = ['--driver', driver, '--workers', '4', '--updater', 'channel-late', '--', 'S', 'D']
            r = scen.run_xcp(root, argv, timeout=LIMIT + 20, binary=probe, trace=False)
            lines = r.stdout_full.split('\n')
            closed = 'closed' in lines; returned = any(l.startswith('result ok') for l in lines)
            ctx.count(f'library.late_reader.{r.cls}'); ctx.case(('lib-late-reader', driver), True)
            if r.cls == 'hang' or not closed or not returned:
                ctx.violation(f'lib-late-reader-{driver}.json', dict(argv=argv, stdout=r.stdout_full[-300:], cls=r.cls),
                              f'C07: a library client that reads the updates after copy() returned never got there: 5000 files, channel closed={closed}, copy returned ok={returned}, {r.cls} ({driver})')
    ctx.cov['rule'] = ('a client reading the channel only after copy() returned (5000 files); trees {FIFOs+sockets+empty dirs, empty tree, a sole FIFO, 60 files + a multi-block file, a FIFO at the destination under -n, a sparse file ending in preallocated unwritten extents} x driver x workers {1,64} (thorough 1,2,3,8,64); '
                       f'then one injected fault at each step-call (quick: 30 sampled per tree) under a seeded perturbed schedule with random worker count; library probe with ChannelUpdater; RLIMIT_NOFILE 4..12 for one file and for a tree with 16 workers. Time limit {LIMIT}s. '
                       'distinct = distinct (tree, driver, workers, plan)')
    ctx.assumptions += ['a hang is observed as exceeding the wall-clock limit (25 s for runs that normally take milliseconds)']


def replay(ctx, path):
    run(ctx)
