"""C12 — progress updates are truthful, never exceed 100 %, and the stream ends.
Proof: XcpProps/C12.lean.  Correspondence (D): a harness binary calls `load_driver(..).copy(..)` as a library client
with (i) a recording updater that stamps every update and can stall inside `send(Size)` (a legitimate client
behaviour: catches a walker that queues before announcing), (ii) the provided ChannelUpdater, (iii) NoopUpdater;
under sup (perturbed schedules, stalled copies, injected faults).  The recorded stream is checked by the Lean
monitor (`prefixOk`, sound for the model by theorem), totals against the files and against the bytes the trace
shows were transferred; the stream must end and `copy()` must return."""
import os, shutil
from .. import core, scen

E = scen.ERRNO


def make_tree(root, rng, nfiles, maxlen):
    shutil.rmtree(root + '/S', ignore_errors=True); shutil.rmtree(root + '/D', ignore_errors=True)
    os.makedirs(root + '/S/sub/deep')
    lens = []
    for i in range(nfiles):
        ln = rng.choice([0, 1, 7, 100, maxlen, rng.randrange(maxlen + 1)])
        d = rng.choice(['S', 'S/sub', 'S/sub/deep'])
        with open(f'{root}/{d}/f{i}', 'wb') as fh:
            fh.write(os.urandom(ln) if ln else b'')
        lens.append(ln)
    os.symlink('f0', f'{root}/S/link')
    os.mkfifo(f'{root}/S/sub/fifo')
    return lens


def parse_stream(out):
    ups, result, closed = [], None, False
    for line in out.split('\n'):
        t = line.split()
        if not t:
            continue
        if t[0] == 'result':
            result = t[1]
        elif t[0] == 'closed':
            closed = True
        elif len(t) >= 2 and t[1] in ('size', 'copied', 'error'):
            ups.append('e' if t[1] == 'error' else ('s' if t[1] == 'size' else 'c') + t[2])
    return ups, result, closed


def run(ctx):
    ctx.proofs()
    core.build_repo(); core.build_sup()
    probe = core.build_harness() + '/probe_api'
    rng = ctx.rng
    n = 36 if ctx.quick else 400
    with core.Scratch('c12') as root:
        for i in range(n):
            nfiles = rng.choice([1, 5, 40]) if ctx.quick else rng.choice([1, 5, 40, 300])
            slow_size = 16 <= i < 20      # corpus: a client whose send(Size) is SLOW (20 ms): an operation queued before its size is announced shows as copied > announced
            if slow_size:
                nfiles = 5
            deep_tree = 20 <= i < 22      # corpus: entries far below the source (70 levels): announced and copied like any other
            in_flight = 22 <= i < 26      # corpus: when the walk ends every block is already TAKEN by a worker and still being copied (slow copies, more workers than blocks)
            lens = make_tree(root, rng, nfiles, rng.choice([300, 5000, 70000]))
            if deep_tree:
                dd = root + '/S/sub' + '/d' * 70
                os.makedirs(dd); open(dd + '/leaf', 'wb').write(b'L' * 333); open(root + '/S/sub' + '/d' * 65 + '/mid', 'wb').write(b'M' * 50)
                lens = lens + [333, 50]
            if in_flight:
                shutil.rmtree(root + '/S/sub'); os.unlink(root + '/S/link')
                for f in os.listdir(root + '/S'):
                    os.unlink(f'{root}/S/{f}')
                open(root + '/S/big', 'wb').write(os.urandom(4096 * 5)); lens = [4096 * 5]; nfiles = 1
                os.makedirs(root + '/S/zl'); os.makedirs(root + '/D')      # operands `S/big S/zl D`: after the file, 40 links the dispatcher creates itself
                for k in range(40):
                    os.symlink('../big', f'{root}/S/zl/l{k}')
            hard_links = 26 <= i < 28      # corpus: files with several names: each NAME is announced and copied
            one_cpu = 28 <= i < 30         # corpus: the automatic worker count (0) when the process may use ONE CPU
            if hard_links:
                open(root + '/S/payload', 'wb').write(os.urandom(6000)); lens = lens + [6000]
                os.link(root + '/S/payload', root + '/S/sub/payload-too'); lens = lens + [6000]
                src_files = [(dp, f) for dp, _, fs in os.walk(root + '/S') for f in fs if os.path.isfile(os.path.join(dp, f)) and not os.path.islink(os.path.join(dp, f))]
                for k, (dp, f) in enumerate(src_files[:4]):
                    os.link(os.path.join(dp, f), f'{root}/S/sub/deep/hl{k}'); lens = lens + [os.path.getsize(os.path.join(dp, f))]
                os.link(root + '/S/sub/deep/hl0', root + '/S/hl0-again'); lens = lens + [os.path.getsize(root + '/S/hl0-again')]
            total = sum(lens)
            driver = ['parfile', 'parblock'][i % 2]
            workers = rng.choice([1, 2, 8])
            bsize = rng.choice([7, 4096, 1 << 20, (1 << 64) - 1])
            if bsize == 7 and total > 40000:
                bsize = 4096
            updater = ['record', 'record', 'channel', 'noop'][i % 4] if i % 9 else 'record'
            fault = rng.random() < 0.3
            plan = []
            forced = None
            if i < 8:     # corpus: a failure that is only RETURNED (special file), several workers: copy() must return Err
                driver = ['parfile', 'parblock'][i % 2]; workers = [4, 8][(i // 2) % 2]; updater = ['record', 'noop'][(i // 4) % 2]
                fault = True; forced = f'fail mknodat fifo 1 {E["EPERM"]}'
            elif i < 16 and i >= 12:  # corpus: creating a destination file fails with ENOENT (its directory vanished, a dangling link): an error, not "source vanished"
                driver = 'parfile'; workers = [1, 4][i % 2]; updater = ['record', 'noop', 'channel', 'record'][i - 12]
                fault = True; forced = f'fail openat D/ {1 + i % 3} {E["ENOENT"]}'
            elif hard_links:
                driver = ['parfile', 'parblock'][i % 2]; workers = 2; updater = 'record'; fault = False
            elif one_cpu:
                driver = ['parfile', 'parblock'][i % 2]; workers = 0; updater = ['record', 'noop'][i % 2]; fault = False
            elif deep_tree:
                driver = ['parfile', 'parblock'][i % 2]; workers = 2; updater = ['record', 'noop'][i % 2]; fault = False
            elif in_flight:
                driver = 'parblock'; workers = 16; bsize = 4096; updater = ['record', 'noop', 'channel', 'record'][i - 22]; fault = False
            elif slow_size:
                driver = ['parfile', 'parblock'][i % 2]; workers = 4; updater = 'record'; fault = False; bsize = [4096, 1 << 20][(i // 2) % 2]
            elif i < 12:  # corpus: a source sub-directory that cannot be listed (EACCES, as for an unprivileged user): Error or Err, never silence
                fault = True; forced = f'fail openat =S/sub 1 {E["EACCES"]}'
            if in_flight:
                plan.append('stall copy_file_range 200000'); ctx.count('all_blocks_in_flight_at_end_of_walk')
            elif deep_tree:
                ctx.count('deep_tree_70_levels')
            elif hard_links or one_cpu:
                ctx.count('hard_linked_sources' if hard_links else 'one_cpu_automatic_workers')
            elif rng.random() < 0.5 and not slow_size:
                plan.append(f'sched {ctx.seed * 13 + i} {rng.choice(["pct", "delay"])} {rng.randint(1, 3)}')
            if fault:
                victim = f'f{rng.randrange(nfiles)}'
                plan.append(forced or rng.choice([f'fail copy_file_range D/{victim} 1 {E["EIO"]}', f'fail openat =S/{victim} 1 {E["EACCES"]}', f'fail ftruncate {victim} 1 {E["ENOSPC"]}',
                                        f'fail openat S/sub/{victim} 1 {E["EMFILE"]}', f'fail mkdir sub 1 {E["EACCES"]}', f'fail openat D/{victim} 1 {E["ENOENT"]}', f'fail openat D/sub/{victim} 1 {E["ENOENT"]}', f'fail openat D/sub/deep/{victim} 1 {E["ENOENT"]}',
                                        f'fail mknodat fifo 1 {E["EPERM"]}', f'fail mknodat fifo 1 {E["EPERM"]}', f'fail symlink link 1 {E["EIO"]}']))
            argv = ['--driver', driver, '--workers', str(workers), '--block-size', str(bsize), '--updater', updater]
            if slow_size:
                argv += ['--stall-us', '20000']; ctx.count('slow_size_client')
            elif updater == 'record' and rng.random() < 0.5:
                argv += ['--stall-us', str(rng.choice([100, 500]))]
            argv += ['--', 'S/big', 'S/zl', 'D'] if in_flight else ['--', 'S', 'D']
            r = scen.run_xcp(root, argv, plan=plan, timeout=120, binary=probe, cpus={0} if one_cpu else None)
            ups, result, closed = parse_stream(r.stdout_full if hasattr(r, 'stdout_full') else r.stdout)
            ctx.count(f'driver.{driver}'); ctx.count(f'updater.{updater}'); ctx.count('faulted' if fault else 'unfaulted'); ctx.count(f'result.{result}'); ctx.count(f'bsize.{bsize if bsize < 1 << 60 else "u64::MAX"}')
            fired = any(e.get('inj') for e in r.trace)
            ctx.case((i, driver, workers, bsize, updater, tuple(plan), tuple(lens)), nontrivial=total > 0,
                     sample=dict(argv=argv, plan=plan, files=nfiles, total=total, stream_head=ups[:8], result=result) if i in (0, 1, 2) else None)
            label = f'case-{i}'
            info = dict(argv=argv, plan=plan, lens=lens, result=result, closed=closed, stream=ups[:200], stderr=r.stderr[-300:])
            # ---- the stream ends and copy() returns
            if r.cls == 'hang' or result is None or (updater == 'channel' and not closed):
                ctx.violation(f'{label}-hang.json', info, f'C12: the copy call did not return / the update channel did not close ({driver}, {updater}, plan {plan})')
                continue
            transferred = sum(e['ret'] for e in r.trace if e['sys'] in ('copy_file_range',) and e['ret'] > 0 and (e.get('fdpath') or '').startswith(root + '/D'))
            transferred += sum(e['ret'] for e in r.trace if e['sys'] in ('pwrite64', 'write') and e['ret'] > 0 and (e.get('fdpath') or '').startswith(root + '/D'))
            if updater == 'noop':
                missing = [os.path.relpath(os.path.join(dp, f), root + '/S') for dp, _, fs in os.walk(root + '/S') for f in fs
                           if not os.path.lexists(f'{root}/D/{os.path.relpath(os.path.join(dp, f), root + "/S")}')]
                complete = not missing
                if not complete and result == 'ok':
                    ctx.violation(f'{label}-noop.json', dict(info, missing=missing[:10]), 'C12: destination incomplete but copy() returned Ok and no error update could be delivered')
                continue
            m = core.ask(core.MODEL, [f"updates {0 if updater == 'record' else bsize} | {' '.join(ups)}"])[0]
            ctx.cov['traces_validated_against_impl'] += 1
            kv = dict(t.split('=') for t in m.split()[1:]) if m.startswith('ok') else {}
            bad = None
            if not kv:
                bad = f'monitor could not read the stream: {m}'
            elif kv['prefix'] != 'true':
                bad = 'more bytes reported copied than announced at some point of the stream'
            elif int(kv['copied']) > transferred:
                bad = f"reported copied {kv['copied']} exceeds the {transferred} bytes actually transferred"
            elif result == 'ok' and kv['error'] == 'false' and not fired:
                if int(kv['size']) != total:
                    bad = f"announced sizes sum to {kv['size']}, the regular files to {total}"
                elif updater == 'record' and int(kv['copied']) != total:
                    bad = f"run succeeded but only {kv['copied']} of {total} bytes were reported copied"
            if not bad:
                incomplete = False
                for dp, _, fs in os.walk(root + '/S'):
                    for f in fs:
                        rel = os.path.relpath(os.path.join(dp, f), root + '/S')
                        s, d = os.path.join(root, 'S', rel), os.path.join(root, 'D', rel)
                        if os.path.isfile(s) and not os.path.islink(s):
                            if not os.path.isfile(d) or os.path.getsize(d) != os.path.getsize(s) or open(d, 'rb').read() != open(s, 'rb').read():
                                incomplete = True
                        elif not os.path.lexists(d):
                            incomplete = True          # a link or special node that was not recreated
                if incomplete and result == 'ok' and kv['error'] == 'false':
                    bad = 'destination incomplete but neither an error update was delivered nor did copy() return an error'
            if bad:
                ctx.violation(f'{label}.json', dict(info, monitor=m, transferred=transferred), f'C12: {bad} ({driver}, {updater}, block {bsize}, plan {plan})')
        # ---- data written into PREALLOCATED space and not yet written back (block driver, sparse-looking source): whatever the
        # extent map says about such space, either the bytes arrive or an error is reported
        from .. import fsutil
        for i in range(4 if ctx.quick else 24):
            shutil.rmtree(root + '/S', ignore_errors=True); shutil.rmtree(root + '/D', ignore_errors=True)
            os.makedirs(root + '/S/images')
            src = root + '/S/images/disk.img'
            fd = os.open(src, os.O_CREAT | os.O_RDWR, 0o644); os.ftruncate(fd, 8 << 20)
            os.posix_fallocate(fd, 2 << 20, 1 << 20); os.pwrite(fd, fsutil.lcg_bytes(1 << 20, 3 + i), 2 << 20); os.pwrite(fd, b'head' * 500, 0)
            if i % 2: os.fsync(fd)
            os.close(fd)
            open(root + '/S/small', 'wb').write(b'z' * 70000)
            updater = ['record', 'channel'][i % 2]
            argv = ['--driver', 'parblock', '--workers', '4', '--block-size', '65536', '--updater', updater, '--', 'S', 'D']
            r = scen.run_xcp(root, argv, timeout=120, binary=probe)
            ups, result, closed = parse_stream(r.stdout_full if hasattr(r, 'stdout_full') else r.stdout)
            ctx.count(f'preallocated_source.{"synced" if i % 2 else "dirty"}.{result}'); ctx.case(('preallocated-source', i, updater), True)
            same = os.path.isfile(root + '/D/images/disk.img') and open(root + '/D/images/disk.img', 'rb').read() == open(src, 'rb').read()
            if not same and result == 'ok' and 'e' not in ups:
                ctx.violation(f'preallocated-{i}.json', dict(argv=argv, stream=ups[:60], result=result), f'C12: destination incomplete (disk.img differs: data written into preallocated space is missing) but no error update and copy() returned Ok (parblock, {updater})')
        # ---- every worker dies on a failing entry while hundreds of entries are still to be walked: copy() returns, the stream ends
        for i in range(4 if ctx.quick else 16):
            for sub in ('S', 'D', 'a', 'z'):
                shutil.rmtree(f'{root}/{sub}', ignore_errors=True)
            os.makedirs(root + '/a'); os.makedirs(root + '/z')          # two operands, so that the failing entries are walked FIRST
            for k in range(40):
                if i % 2:
                    os.mkfifo(f'{root}/a/p{k}')
                else:
                    open(f'{root}/a/p{k}', 'wb').write(b'lock')
                os.makedirs(f'{root}/D/a/p{k}/occupied')          # the destination name is a non-empty directory
            for k in range(1000):
                open(f'{root}/z/f{k}', 'wb').write(b'')
            driver = ['parfile', 'parblock'][(i // 2) % 2]; updater = ['channel', 'record', 'noop', 'channel'][i % 4]
            argv = ['--driver', driver, '--workers', '4', '--block-size', '4096', '--updater', updater, '--', 'a', 'z', 'D']
            r = scen.run_xcp(root, argv, timeout=60, binary=probe)
            ups, result, closed = parse_stream(r.stdout_full if hasattr(r, 'stdout_full') else r.stdout)
            ctx.count(f'all_workers_fail.{driver}.{r.cls}.{result}'); ctx.case(('all-workers-fail', i, driver, updater), True)
            if r.cls == 'hang' or result is None or (updater == 'channel' and not closed):
                ctx.violation(f'all-workers-fail-{i}.json', dict(argv=argv, result=result, closed=closed, cls=r.cls, stream_len=len(ups)),
                              f'C12: 40 failing entries then 1000 more: the copy call did not return / the update channel did not close ({driver}, {updater}, 4 workers)')
            elif result == 'ok' and 'e' not in ups:
                ctx.violation(f'all-workers-fail-{i}-silent.json', dict(argv=argv, result=result, stream_len=len(ups)), f'C12: 40 entries could not be copied but neither an error update nor an error return ({driver}, {updater})')
        # ---- the provided ChannelUpdater under REAL parallelism (no supervisor: its bookkeeping is a few atomic operations with no
        # system call in between, so only free-running threads can interleave there): totals exact, never above 100 %
        shutil.rmtree(root + '/S', ignore_errors=True); os.makedirs(root + '/S')
        lens = [4096 * 3000, 4096 * 3000, 4096 * 3000, 4096 * 2720]      # tens of thousands of updates per run: the window is a few instructions wide
        for k, ln in enumerate(lens):
            with open(f'{root}/S/f{k}', 'wb') as fh: fh.write(os.urandom(ln))
        os.sync()       # sources written back and allocated: freshly written (delayed-allocation) files copy along a slower path on which the workers hardly overlap
        total = sum(lens)
        outs = []
        for i in range(-12, 14 if ctx.quick else 60):       # (a dozen unmeasured runs first, then the measured ones back to back: the race window is a few instructions wide and shows only once the process images and the files are warm)
            shutil.rmtree(root + '/D', ignore_errors=True)
            driver = ['parblock', 'parfile', 'parfile'][i % 3]
            argv = ['--driver', driver, '--workers', str([8, 32][i % 2]), '--block-size', '4096', '--updater', 'channel', '--', 'S', 'D']
            r = scen.run_xcp(root, argv, timeout=120, binary=probe, trace=False)
            if i >= 0:
                outs.append((i, driver, argv, r))
        for i, driver, argv, r in outs:
            ups, result, closed = parse_stream(r.stdout_full if hasattr(r, 'stdout_full') else r.stdout)
            ctx.count(f'free_running_channel.{driver}.{result}'); ctx.case(('free-running-channel', i, driver), True)
            copied = sum(int(u[1:]) for u in ups if u.startswith('c')); sizes = sum(int(u[1:]) for u in ups if u.startswith('s'))
            bad = None
            if result != 'ok' or not closed:
                bad = f'free-running copy failed or the channel did not close: result {result}, closed {closed}'
            elif copied > total:
                bad = f'more bytes reported copied ({copied}) than announced/exist ({total})'
            elif sizes != total:
                bad = f"announced {sizes} differs from the files' total {total}"
            elif i < 3:
                m = core.ask(core.MODEL, [f"updates 4096 | {' '.join(ups)}"])[0]      # the full prefix-by-prefix monitor on three of the streams
                kv = dict(t.split('=') for t in m.split()[1:]) if m.startswith('ok') else {}
                if not kv or kv['prefix'] != 'true':
                    bad = f'the monitor rejects the stream: {m[:80]}'
            if bad:
                ctx.violation(f'free-running-{i}.json', dict(argv=argv, lens=lens, stream_len=len(ups)), f'C12: {bad} ({driver}, ChannelUpdater, free-running workers)')
        # ---- a genuinely short copy_file_range on a block that is NOT the last of its file (parblock): the retry must ask for the
        # remainder only, and the block's Copied update must be the block's length — never more than was announced
        for i in range(6 if ctx.quick else 40):
            shutil.rmtree(root + '/S', ignore_errors=True); shutil.rmtree(root + '/D', ignore_errors=True)
            os.makedirs(root + '/S')
            lens = [4096 * 5, 4096 * 3 + 17, 100, 4096 * 2]
            for k, ln in enumerate(lens):
                with open(f'{root}/S/f{k}', 'wb') as fh: fh.write(os.urandom(ln))
            total = sum(lens)
            updater = ['record', 'channel'][i % 2]
            victim, blk, short = rng.choice([(0, 1, 1000), (0, 3, 1), (1, 0, 4095), (1, 2, 2000), (3, 0, 7)])
            plan = [f'clamp copy_file_range D/f{victim} {blk * 4096} 1 {short}']
            argv = ['--driver', 'parblock', '--workers', str(rng.choice([1, 2, 8])), '--block-size', '4096', '--updater', updater, '--', 'S', 'D']
            r = scen.run_xcp(root, argv, plan=plan, timeout=120, binary=probe)
            ups, result, closed = parse_stream(r.stdout_full if hasattr(r, 'stdout_full') else r.stdout)
            fired = any('clamp_from' in e for e in r.trace)
            ctx.count('short_block.' + ('fired' if fired else 'not_fired')); ctx.count(f'result.{result}')
            ctx.case(('short-block', i, updater, tuple(plan)), fired)
            m = core.ask(core.MODEL, [f"updates {0 if updater == 'record' else 4096} | {' '.join(ups)}"])[0]
            kv = dict(t.split('=') for t in m.split()[1:]) if m.startswith('ok') else {}
            bad = None
            if result != 'ok' or not kv:
                bad = f'copy with one short block failed or the stream is unreadable: result {result}, monitor {m}'
            elif kv['prefix'] != 'true' or int(kv['copied']) > total:
                bad = f"more bytes reported copied ({kv['copied']}) than announced/exist ({total})"
            elif int(kv['size']) != total or (updater == 'record' and int(kv['copied']) != total):
                bad = f"announced {kv['size']} / copied {kv['copied']} differ from the files' total {total}"
            elif updater == 'record' and any(u.startswith('c') and int(u[1:]) > 4096 for u in ups):
                bad = f'a Copied update larger than the block size: {[u for u in ups if u.startswith("c") and int(u[1:]) > 4096][:3]}'
            if bad:
                ctx.violation(f'short-block-{i}.json', dict(argv=argv, plan=plan, lens=lens, stream=ups[:100], monitor=m), f'C12: {bad} (parblock, {updater}, plan {plan})')
        # ---- a destination left by an EARLIER copy in which a link has since been re-pointed in the source: either the link is
        # brought up to date or an error is reported — never 'Ok' with the stale link in place
        for i in range(4 if ctx.quick else 16):
            shutil.rmtree(root + '/S', ignore_errors=True); shutil.rmtree(root + '/D', ignore_errors=True)
            os.makedirs(root + '/S/rel/v1'); os.makedirs(root + '/S/rel/v2'); os.makedirs(root + '/D/S/rel')
            open(root + '/S/rel/v2/x', 'wb').write(b'2'); open(root + '/S/a', 'wb').write(b'a')
            os.symlink('rel/v2', root + '/S/current'); os.symlink('rel/v1', root + '/D/S/current')
            driver = ['parfile', 'parblock'][i % 2]; updater = ['record', 'channel', 'noop', 'record'][i % 4]
            argv = ['--driver', driver, '--workers', str(rng.choice([1, 4])), '--block-size', '4096', '--updater', updater, '--', 'S', 'D']
            r = scen.run_xcp(root, argv, timeout=120, binary=probe)
            ups, result, closed = parse_stream(r.stdout_full if hasattr(r, 'stdout_full') else r.stdout)
            ctx.count(f'stale_link.result.{result}'); ctx.case(('stale-link', i, driver, updater), True)
            stale = os.readlink(root + '/D/S/current') != 'rel/v2'
            if stale and result == 'ok' and 'e' not in ups:
                ctx.violation(f'stale-link-{i}.json', dict(argv=argv, stream=ups[:50], result=result, dest_link=os.readlink(root + '/D/S/current')),
                              f'C12: destination incomplete (D/S/current still points to {os.readlink(root + "/D/S/current")!r}, the source link to rel/v2) but no error update and copy() returned Ok ({driver}, {updater})')
    ctx.cov['rule'] = ('trees of 1..40 (thorough 300) files of length {0,1,7,100,max,random} plus a link and a fifo x driver x workers {1,2,8} x block {7,4096,1MB,u64::MAX} x updater {recording (optionally stalling in send(Size)), '
                       'ChannelUpdater, Noop} x half under perturbed schedules x 30% with one injected fault; one genuinely short copy_file_range on a middle block (parblock); a stale link left by an earlier copy; an unlistable source sub-directory; ChannelUpdater with 8 free-running workers (no supervisor). distinct = distinct case; non-trivial = some file non-empty')
    ctx.assumptions += ["crossbeam's channel is linearizable (appends atomic)", 'bytes actually transferred = sum of the positive returns of data-moving calls on destination files in the trace']


def replay(ctx, path):
    run(ctx)
