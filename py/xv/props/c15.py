"""C15 — reflink modes keep their contract.
Proof: XcpProps/C15.lean.  Correspondence (B): FICLONE answered by the real ext4 (EOPNOTSUPP), by each
'unsupported' errno, by hard errors, or emulated as successful by sup; the per-file projection of the trace is
checked by the Lean monitor (sound for the model by theorem), the dispatch by `tryReflink`; oracle on exit
status and bytes."""
import os
from .. import core, scen, fileproj
from .. import bytesrun as br

E = scen.ERRNO
UNSUP = ('EOPNOTSUPP', 'EINVAL', 'EXDEV', 'ETXTBSY')
HARD = ('EIO', 'EACCES', 'ENOSPC', 'EPERM', 'EBADF')


def run(ctx):
    ctx.proofs()
    core.build_repo(); core.build_sup()
    rng = ctx.rng
    n = 60 if ctx.quick else 700
    table = [(m, k, en, d) for m in ('never', 'auto', 'always') for d in ('parfile', 'parblock')
             for (k, en) in [('native', None), ('cloneok', None)] + [('unsup', e) for e in UNSUP] + [('hard', e) for e in ('EIO', 'EACCES')]]
    with core.Scratch('c15') as root:
        for i in range(len(table) + n):
            c = br.Case()
            c.bsize = rng.choice([7, 4096, 1 << 20]); c.no_progress = rng.random() < 0.2
            nf = rng.choice([1, 2, 3])
            c.files = [(f'f{j}', br.gen_data(rng, rng.choice([0, 1, 50, 5000, 8192, 65536, 3 * c.bsize + 1 if c.bsize > 7 else 40, 2 * c.bsize if c.bsize >= 4096 else 4096]), False)) for j in range(nf)]
            if rng.random() < 0.2 and c.bsize >= 4096:
                c.files.append(('sp', br.gen_data(rng, rng.choice([70, 130]) * br.K + rng.randrange(br.K), True)))      # holes: nothing of an old destination may show through
            c.driver = ['parfile', 'parblock'][i % 2]; c.workers = rng.choice([1, 2, 4]); c.prior = rng.choice(['absent', 'longer', 'longer'])
            c.reflink = ['never', 'auto', 'always'][(i // 2) % 3]
            c.extra, c.tag = [], 'gen'
            kind = rng.choice(['native', 'unsup', 'hard', 'cloneok', 'cloneok'])
            forced_en = None
            if i < len(table):      # every mode x every kind of answer (each unsupported errno, hard errors) x driver, exhaustively
                c.reflink, kind, forced_en, c.driver = table[i]
            victim = rng.choice(c.files)[0]
            if kind == 'native':
                c.plan, ans = [], {f: 'EOPNOTSUPP' for f, _ in c.files}
            elif kind == 'unsup':
                en = forced_en or rng.choice(UNSUP); c.plan = [f'fail ioctl D/{victim} 1 {E.get(en, 26)}']
                ans = {f: 'EOPNOTSUPP' for f, _ in c.files}; ans[victim] = en
            elif kind == 'hard':
                en = forced_en or rng.choice(HARD); c.plan = [f'fail ioctl D/{victim} 1 {E[en]}']
                ans = {f: 'EOPNOTSUPP' for f, _ in c.files}; ans[victim] = en
            else:
                c.plan, ans = ['cloneok'], {f: 'ok' for f, _ in c.files}
            pairs = br.setup_case(root, c)
            r = scen.run_xcp(root, br.argv_of(c), plan=c.plan, timeout=60)
            ctx.count(f'mode.{c.reflink}'); ctx.count(f'clone.{kind}'); ctx.count(f'exit.{r.cls}'); ctx.count(f'driver.{c.driver}')
            ctx.case((c.reflink, kind, c.driver, tuple(scen.data_bytes(d)[0] for _, d in c.files), tuple(c.plan)), True,
                     sample=dict(argv=br.argv_of(c), plan=c.plan, exit=r.cls) if i in (2, 9, 16) else None)
            clones = [e for e in r.trace if e['sys'] == 'ficlone']
            bad = None
            # ---- the property's oracle, on the implementation
            ranged = [e for e in r.trace if e['sys'] == 'ficlonerange']
            if c.reflink == 'never' and (clones or ranged):
                bad = f'reflink=never but a clone request was issued ({len(clones)} FICLONE, {len(ranged)} FICLONERANGE/FIDEDUPERANGE)'
            if c.reflink == 'always':
                if r.cls == '0':
                    for src, dst, data in pairs:
                        ok_clone = any(e.get('fdpath') == dst and e['ret'] == 0 for e in clones)
                        datacalls = [t for t, e in fileproj.project(r.trace, dst) if t == 'data']
                        if not ok_clone or datacalls:
                            bad = f'reflink=always exited 0 but {os.path.basename(dst)} was not produced by a successful clone alone'
                elif kind == 'cloneok':
                    bad = 'reflink=always failed although every clone succeeded'
                if kind != 'cloneok' and r.cls == '0':
                    bad = 'reflink=always exited 0 although cloning is unsupported / failed'
            if c.reflink == 'auto':
                for src, dst, data in pairs:
                    proj = fileproj.project(r.trace, dst)
                    toks = [t for t, _ in proj]
                    if 'data' in toks and not any(t.startswith('clone') for t in toks[:toks.index('data')]):
                        bad = 'reflink=auto copied data before trying to clone'
                if kind in ('native', 'unsup') and r.cls != '0':
                    bad = f'reflink=auto failed although cloning was merely unsupported ({ans[victim]})'
                if kind == 'hard' and r.cls == '0':
                    bad = None   # allowed? no: a hard clone error is an error of a step; C04 speaks about it, not C15
            if bad:
                ctx.violation(f'case-{i}.json', dict(case=c.__dict__, exit=r.exit, stderr=r.stderr[-600:], clones=clones[:10]), f'C15: {bad}')
                continue
            if r.cls == '0':
                br.verify_case(ctx, root, c, pairs, r, f'case-{i}')
            # ---- correspondence: dispatch and per-file monitor
            reqs, meta = [], []
            for src, dst, data in pairs:
                proj = fileproj.project(r.trace, dst)
                if not proj:
                    continue
                length = scen.data_bytes(data)[0]
                name = os.path.basename(dst)
                reqs.append(f'reflink {c.reflink} 1 {ans[name]}'); meta.append(('dispatch', dst, proj))
                # finalisation may be cut short when the process exits on the first error
                if r.cls == '0':
                    reqs.append(f"monitor {fileproj.cfg_tokens(reflink=c.reflink)} | {length} {' '.join(t for t, _ in proj)}"); meta.append(('monitor', dst, proj))
            model = core.ask(core.MODEL, reqs)
            for (what, dst, proj), m, rq in zip(meta, model, reqs):
                ctx.cov['traces_validated_against_impl'] += 1
                toks = [t for t, _ in proj]
                if what == 'monitor':
                    good = m == 'ok true'
                else:
                    issued = 'issued=true' in m
                    outcome = m.split()[-1]
                    seen = [t for t in toks if t.startswith('clone')]
                    if r.cls != '0' and not seen and issued:
                        continue    # the process exits on the first error: this file's copy was cut short before its clone request
                    good = (len(seen) == 1) == issued and (not seen or (seen[0] == 'clone:1') == (outcome == 'cloned'))
                    if outcome == 'failed' and seen and r.cls == '0':
                        good = False        # the model's try_reflink returns Err for this answer (a hard error is not "unsupported"): the run cannot exit 0
                    if outcome == 'copy' and r.cls == '0' and scen.data_bytes(dict((os.path.basename(d), dd) for _, d, dd in pairs)[os.path.basename(dst)])[1]:      # (a file that is one hole needs no data call)
                        good = good and 'data' in toks
                if not good:
                    ctx.cov['disagreements_checked'] += 1
                    ctx.violation(f'case-{i}-{what}.json', dict(case=c.__dict__, request=rq, model=m, observed=toks, exit=r.cls,
                                                                 correspondence='try_reflink / per-file call order vs Xcp.tryReflink / Xcp.monitorFile',
                                                                 theorems=['Xcp.C15.monitor_sound']),
                                  f'model/implementation disagree ({what}) on {os.path.basename(dst)}: {toks}', no_input=True)
        # ---- `never` means never, whatever else is asked for: overwriting existing files with backups (numbered, auto with an
        # existing backup), --fsync, --ownership, -n: no clone request of any kind for any file the run touches
        import shutil as _sh
        for driver in ('parfile', 'parblock'):
            for extra in (['--backup=numbered'], ['--backup=auto'], ['--fsync', '--ownership'], ['--no-perms', '--no-timestamps']):
                d = root + '/NV'; _sh.rmtree(d, ignore_errors=True); os.makedirs(d + '/S/sub'); os.makedirs(d + '/D/S/sub')
                for nm in ('a', 'b', 'sub/c'):
                    open(f'{d}/S/{nm}', 'wb').write(os.urandom(9000)); open(f'{d}/D/S/{nm}', 'wb').write(b'previous ' + nm.encode())
                open(d + '/D/S/a.~1~', 'wb').write(b'older a'); open(d + '/D/S/sub/c.~2~', 'wb').write(b'older c')
                argv = ['-r', '--driver', driver, '--workers', '2', '--reflink=never'] + extra + ['S', 'D']
                for plan in (None, ['cloneok']):
                    r = scen.run_xcp(d, argv, plan=plan, timeout=60, trace=True)
                    reqs = [e for e in r.trace if e['sys'] in ('ficlone', 'ficlonerange')]
                    ctx.count(f'never_with.{" ".join(extra)}.exit.{r.cls}'); ctx.case(('never-with', driver, tuple(extra), tuple(plan or ())), True)
                    if reqs or r.cls != '0':
                        ctx.violation(f'never-with-{driver}-{"-".join(x.strip("-") for x in extra)}.json', dict(argv=argv, plan=plan, exit=r.cls, requests=reqs[:4], stderr=r.stderr[-300:]),
                                      f'C15: --reflink=never with {" ".join(extra)} over an existing destination: {len(reqs)} clone requests, exit {r.cls} ({driver})')
                        break
        # ---- verbose logging onto a standard output that cannot be written (a full disk behind a redirect, a closed pipe): what
        # the clone request answered is still what decides — `auto` falls back and exits 0, whatever the logger runs into
        for driver in ('parfile', 'parblock'):
            for verb in (['-v'], ['-vv'], ['-vvv']):
                d = root + '/VB'; _sh.rmtree(d, ignore_errors=True); os.makedirs(d + '/S/sub')
                datas = {'a': os.urandom(9000), 'sub/b': os.urandom(70000), 'c': b'x'}
                for nm, v in datas.items():
                    open(f'{d}/S/{nm}', 'wb').write(v)
                argv = ['-r', '--driver', driver, '--workers', '2', '--reflink=auto'] + verb + ['S', 'D']
                r = scen.run_xcp(d, argv, timeout=60, trace=True, stdout_path='/dev/full')
                same = all(os.path.isfile(f'{d}/D/{nm}') and open(f'{d}/D/{nm}', 'rb').read() == v for nm, v in datas.items())
                ctx.count(f'auto_with_unwritable_stdout.{verb[0]}.exit.{r.cls}'); ctx.case(('auto-unwritable-stdout', driver, verb[0]), True)
                if r.cls != '0' or not same:
                    ctx.violation(f'auto-unwritable-stdout-{driver}-{verb[0].strip("-")}.json', dict(argv=argv, exit=r.cls, identical=same, stderr=r.stderr[-300:]),
                                  f'C15: --reflink=auto {verb[0]} with standard output on a full device: exit {r.cls}, bytes identical={same} ({driver}) — cloning is merely unsupported here')
        # ---- sources on ANOTHER file system than the destination (tmpfs under /dev/shm -> ext4): the mode's contract does not
        # depend on where the files live: `always` still asks for a clone of every file and fails when it is refused (EXDEV)
        import shutil
        shm = '/dev/shm'
        if os.path.isdir(shm) and os.stat(shm).st_dev != os.stat(root).st_dev:
            ext = f'{shm}/xcpv-c15-{os.getpid()}'
            try:
                for driver in ('parfile', 'parblock'):
                    for mode in ('always', 'auto', 'never'):      # (sup's emulation of a successful clone needs both files on one file system)
                        shutil.rmtree(ext, ignore_errors=True); os.makedirs(ext + '/S/sub')
                        shutil.rmtree(root + '/XD', ignore_errors=True)
                        datas = {'S/a': os.urandom(5000), 'S/sub/b': os.urandom(70000), 'S/c': b'x'}
                        for k, v in datas.items():
                            open(f'{ext}/{k}', 'wb').write(v)
                        plan = ['cloneok'] if mode.endswith('cloneok') else None
                        argv = ['-r', '--driver', driver, '--workers', '2', f'--reflink={mode.split("+")[0]}', ext + '/S', root + '/XD']
                        r = scen.run_xcp(root, argv, plan=plan, timeout=60, trace=True)
                        clones = [e for e in r.trace if e['sys'] == 'ficlone']
                        ctx.count(f'cross_device.{mode}.exit.{r.cls}'); ctx.case(('cross-device', driver, mode), True)
                        same = all(os.path.isfile(f'{root}/XD/{k[2:]}') and open(f'{root}/XD/{k[2:]}', 'rb').read() == v for k, v in datas.items())
                        bad = None
                        if mode == 'always' and r.cls == '0':
                            bad = f'--reflink=always across file systems exited 0 ({len(clones)} clone requests for {len(datas)} files): the clone cannot have happened'
                        elif mode == 'always+cloneok' and (r.cls != '0' or len(clones) != len(datas)):
                            bad = f'--reflink=always with every clone answered "done": exit {r.cls}, {len(clones)} clone requests for {len(datas)} files'
                        elif mode == 'auto' and (r.cls != '0' or not same or len(clones) != len(datas)):
                            bad = f'--reflink=auto across file systems: exit {r.cls}, bytes identical={same}, {len(clones)} clone attempts for {len(datas)} files'
                        elif mode == 'never' and (r.cls != '0' or not same or clones):
                            bad = f'--reflink=never across file systems: exit {r.cls}, bytes identical={same}, {len(clones)} clone requests'
                        if bad:
                            ctx.violation(f'cross-device-{driver}-{mode}.json', dict(argv=argv, plan=plan, exit=r.cls, clones=len(clones), stderr=r.stderr[-300:]), f'C15: {bad} ({driver})')
            finally:
                shutil.rmtree(ext, ignore_errors=True)
        else:
            ctx.count('cross_device.skipped')
    ctx.cov['rule'] = ('reflink=never combined with backups / fsync+ownership / no-perms over an existing destination; trees of 1-3 files x driver x reflink {never, auto, always} x clone answered natively (ext4: EOPNOTSUPP), by an injected unsupported errno, '
                       'by a hard error, or emulated as successful; plus sources on another file system (tmpfs) for every mode; distinct = distinct (mode, answer kind, driver, sizes, plan)')
    ctx.assumptions += ['a successful FICLONE makes the destination identical (emulated here by a whole-file kernel copy)']


def replay(ctx, path):
    run(ctx)
