"""C19 — libfs sparse maps never hide data.
Proof: XcpProps/C19.lean (unbounded).  Correspondence (C): libfs::merge_extents / map_extents /
next_sparse_segments linked from /repo vs the Lean model's functions, on enumerated + random inputs and on
real sparse files; the property's own oracle is evaluated on the implementation's answers."""
import itertools, os
from .. import core, fsutil

U64 = 2 ** 64


def fmt(es):
    return ' '.join(f"{a}-{b}{'s' if s else 'u'}" for a, b, s in es)


def wf(es):
    return all(a < b for a, b, _ in es) and all(es[i][1] <= es[i + 1][0] for i in range(len(es) - 1))


def parse(ans):
    out = []
    for t in ans.split()[1:]:
        sh = t[-1] == 's'
        a, b = t[:-1].split('-')
        out.append((int(a), int(b), sh))
    return out


def cov(es, b):
    return any(a <= b < c for a, c, _ in es)


def oracle_merge(inp, out):
    """The property on the implementation's answer, for a well-formed input; returns None or a message."""
    pts = set()
    for a, b, _ in inp + out:
        pts.update((a - 1, a, b - 1, b, b + 1))
    for p in pts:
        if p < 0:
            continue
        ci, co = cov(inp, p), cov(out, p)
        if ci and not co:
            return f'coverage dropped at byte {p}'
        if co and not ci:
            if not any(y[0] == x[1] + 1 and p == x[1] for x in inp for y in inp):
                return f'byte {p} added, not a unit gap between adjacent extents'
    starts = {a for a, _, _ in inp}; stops = {b for _, b, _ in inp}
    for a, b, _ in out:
        if a not in starts or b not in stops:
            return f'merged extent {a}-{b} does not begin/end at input boundaries'
    if not wf(out):
        return 'merged list not ordered / overlapping'
    return None


def gen_lists(ctx):
    rng = ctx.rng
    cases = []
    # exhaustive: all well-formed lists over offsets 0..U (every subset of cut points paired up)
    U = 9 if ctx.quick else 11
    for k in range(0, 4):
        for pts in itertools.combinations(range(U + 1), 2 * k):
            cases.append([(pts[2 * i], pts[2 * i + 1], False) for i in range(k)])
    ctx.cov['exhaustive_universe'] = f'all well-formed lists of <=3 extents over offsets 0..{U}'
    n_exh = len(cases)
    # random: longer lists, shared flags, big offsets, some not well-formed, some near u64::MAX
    for _ in range(1500 if ctx.quick else 20000):
        kind = rng.random()
        n = rng.randint(0, 40 if rng.random() < 0.2 else 8)
        es, pos = [], rng.choice([0, 0, 1, 4096, rng.randrange(1 << 40)])
        scale = rng.choice([1, 1, 3, 4096, 1 << 20])
        for _ in range(n):
            gap = rng.choice([0, 0, 1, 1, 1, 2, rng.randint(0, 5) * scale])
            ln = rng.choice([1, 1, 2, rng.randint(1, 9) * scale])
            a = pos + gap; b = a + ln
            es.append((a, b, rng.random() < 0.3)); pos = b
        if kind < 0.12 and es:       # malformed stream: shuffle / overlap / empty extents
            i = rng.randrange(len(es))
            a, b, s = es[i]
            es[i] = rng.choice([(a, a, s), (b, a, s), (max(0, a - 3), b, s)])
            if rng.random() < 0.5:
                rng.shuffle(es)
        elif kind < 0.17 and es:     # near u64::MAX (p.end + 1 overflow)
            a, b, s = es[-1]
            es[-1] = (a, rng.choice([U64 - 1, U64 - 2]), s)
            if rng.random() < 0.5:
                es.append((rng.choice([0, 5, U64 - 1]), U64 - 1, False))
        cases.append(es)
    return cases, n_exh


def layouts(ctx):
    rng = ctx.rng
    K = 4096
    L = []
    L.append((0, []))
    L.append((1, [(0, 1)]))
    L.append((5000, [(0, 5000)]))
    L.append((3 * K + 17, [(0, K)]))                           # data at the very start, odd size
    L.append((64 * K + 100, [(63 * K, 64 * K + 100)]))        # data at the very end, odd size
    L.append((1 << 20, []))                                    # only a hole
    L.append((40 * 2 * K, [(2 * i * K, (2 * i + 1) * K) for i in range(40)]))    # > 32 extents: two FIEMAP pages
    L.append((70 * 2 * K + 5, [(2 * i * K + K, (2 * i + 2) * K) for i in range(70)]))  # three pages, leading hole
    L.append((32 * 2 * K, [(2 * i * K, (2 * i + 1) * K) for i in range(32)]))    # exactly one full page
    L.append((33 * 2 * K, [(2 * i * K, (2 * i + 1) * K) for i in range(33)]))    # page + 1
    L.append((64 * 2 * K, [(2 * i * K, (2 * i + 1) * K) for i in range(64)]))    # exactly two full pages
    G = 1 << 30                                                                                     # data beyond 4 GiB: offsets need 64 bits
    L.append((4 * G + 8 * (1 << 20) + 123, [(0, K), (G, G + K), (4 * G + 4 * (1 << 20), 4 * G + 4 * (1 << 20) + K), (4 * G + 8 * (1 << 20), 4 * G + 8 * (1 << 20) + 123)]))
    if not ctx.quick:
        L.append((9 * G + 5, [(3 * G + K, 3 * G + 2 * K), (8 * G, 8 * G + K), (9 * G, 9 * G + 5)]))
    for nx in ((2048, 2100) if ctx.quick else (2047, 2048, 2049, 2100, 4100, 6500)):              # tens of FIEMAP pages
        L.append((nx * 2 * K + 100, [(2 * i * K, (2 * i + 1) * K) for i in range(nx)] + [(nx * 2 * K, nx * 2 * K + 100)]))
    for _ in range(12 if ctx.quick else 120):
        n = rng.choice([1, 2, 3, 5, 31, 32, 33, 50, 65, 100])
        pos, segs = rng.choice([0, K, 5 * K]), []
        for _ in range(n):
            ln = rng.randint(1, 3) * K
            segs.append((pos, pos + ln))
            pos += ln + rng.randint(1, 4) * K * rng.choice([1, 1, 64])
        tail = rng.choice([0, 0, 1, 777, 3 * K])
        end = segs[-1][1]
        if rng.random() < 0.3:       # last data segment ends at an odd EOF
            segs[-1] = (segs[-1][0], end - rng.randint(1, K - 1)); length = segs[-1][1]
        else:
            length = end + tail
        L.append((length, segs))
    return L


def run(ctx):
    rng = ctx.rng
    ctx.proofs()
    core.build_repo
    bindir = core.build_harness()
    probe = bindir + '/probe_libfs'
    ctx.assumptions += ['FIEMAP answers are well-formed (checked on every real answer in this run)',
                        'SEEK_DATA/SEEK_HOLE never skip non-zero bytes (checked by reading every file back)']

    # (1) merge_extents: implementation vs model, and the property's oracle on the implementation
    cases, n_exh = gen_lists(ctx)
    reqs = ['merge ' + fmt(es) for es in cases]
    impl = core.ask(probe, reqs)
    model = core.ask(core.MODEL, reqs)
    n_merged = n_wf = 0
    for es, a, m, rq in zip(cases, impl, model, reqs):
        is_wf = wf(es)
        ctx.count('merge.wf' if is_wf else 'merge.malformed')
        ctx.count(f'merge.len{min(len(es), 9)}')
        nontrivial = len(es) >= 2
        ctx.case(('merge', tuple(es)), nontrivial, sample=dict(kind='merge', request=rq, impl=a, model=m) if len(es) == 3 and a != rq else None)
        bad = None
        if is_wf and a.startswith('ok'):
            out = parse(a)
            if len(out) < len(es):
                n_merged += 1
            bad = oracle_merge(es, out)
        elif is_wf and all(b < U64 - 1 for _, b, _ in es):
            bad = f'implementation answered {a!r} on a well-formed list'
        if bad:
            ctx.violation(f'merge-{ctx.cov["evaluations"]}.json', dict(kind='merge', request=rq, impl=a, model=m, oracle=bad),
                          f'merge_extents violates C19 on {rq!r}: {bad}')
        elif a != m:
            ctx.cov['disagreements_checked'] += 1
            ctx.violation(f'merge-corr-{ctx.cov["evaluations"]}.json',
                          dict(kind='merge', request=rq, impl=a, model=m, correspondence='libfs::merge_extents vs Xcp.mergeGoChk',
                               theorems=['Xcp.C19.merge_never_drops_coverage', 'Xcp.C19.merge_adds_only_unit_gaps']),
                          f'model/implementation disagree on {rq!r}: impl={a!r} model={m!r}', no_input=True)
    ctx.count('merge.exhaustive_cases', n_exh)
    ctx.count('merge.cases_where_something_merged', n_merged)

    # (2) real files: map_extents paging and the segment search
    with core.Scratch('c19') as d:
        lays = layouts(ctx)
        volatile = set()
        reqs_p, reqs_m, meta = [], [], []
        for i, (length, segs) in enumerate(lays):
            p = f'{d}/f{i}'
            fsutil.make_file(p, length, segs, seed=i + ctx.seed)
            ext = fsutil.fiemap(p)
            sk = fsutil.seek_segments(p)
            ext3 = [(a, b, s) for a, b, s, _ in ext]
            if not wf(ext3):
                ctx.violation(f'fiemap-{i}.json', dict(layout=(length, segs), extents=ext),
                              'kernel FIEMAP answer is not well-formed: the WF hypothesis of C19 does not hold here', no_input=True)
            reqs_p += [f'file-extents {p}', f'file-segments {p}', f'file-sparse {p}']
            st = os.stat(p)
            reqs_m += [f'pages 32 {fmt(ext3)}', 'segments %d %s' % (length, ' '.join(f'{a}-{b}u' for a, b in sk)),
                       f'sparse {st.st_blocks} {st.st_size}']
            meta.append((p, length, segs, ext3, sk))
        # preallocated (fallocate) regions: written but not yet written back (extents still flagged 'unwritten'), and written
        # and synced (adjacent unwritten/written/unwritten extents that start exactly where the previous one ends)
        for j in range(6 if ctx.quick else 60):
            p = f'{d}/pre{j}'
            length = rng.choice([4, 8, 64]) * 1048576
            fd = os.open(p, os.O_CREAT | os.O_TRUNC | os.O_RDWR, 0o644)
            os.ftruncate(fd, length)
            pa = rng.choice([1, 2]) * 1048576; pl = rng.choice([16, 64, 256]) * 1024
            os.posix_fallocate(fd, pa, pl)
            woff = pa + rng.choice([0, 8192, pl // 2]); wlen = rng.choice([4096, 8192, 12288])
            os.pwrite(fd, fsutil.lcg_bytes(min(wlen, pa + pl - woff), 77 + j), woff)
            segs = [(woff, woff + min(wlen, pa + pl - woff))]
            if j % 2 == 1:
                os.fsync(fd)
            os.close(fd)
            ext = fsutil.fiemap(p); sk = fsutil.seek_segments(p)
            ext3 = [(a, b, s_) for a, b, s_, _ in ext]
            ctx.count('file.preallocated.' + ('synced' if j % 2 else 'dirty'))
            reqs_p += [f'file-extents {p}', f'file-segments {p}', f'file-sparse {p}']
            st = os.stat(p)
            reqs_m += [f'pages 32 {fmt(ext3)}', 'segments %d %s' % (length, ' '.join(f'{a}-{b}u' for a, b in sk)), f'sparse {st.st_blocks} {st.st_size}']
            meta.append((p, length, segs, ext3, sk))
            if j % 2 == 0:
                volatile.add(p)       # writeback may change the extent map between two readings: oracle only, no model comparison
        # files that are HALF written back: some data synced (allocated on disk), some written a moment ago (delayed allocation, no
        # physical address yet) at logically EARLIER and interleaved offsets — logical order is the only order that counts
        for j in range(4 if ctx.quick else 24):
            p = f'{d}/mixed{j}'
            K4 = 4096
            first = [((3 + 8 * q) * 8 * K4, (3 + 8 * q) * 8 * K4 + rng.choice([1, 2]) * K4) for q in range(rng.choice([2, 3, 5]))]
            fsutil.make_file(p, 1 << 20, first, seed=300 + j)
            fd = os.open(p, os.O_RDWR); os.fsync(fd)
            later = [(0, K4), (8 * K4, 9 * K4)] + [((7 + 8 * q) * 8 * K4, (7 + 8 * q) * 8 * K4 + K4) for q in range(2)]
            for a_, b_ in later:
                os.pwrite(fd, fsutil.lcg_bytes(b_ - a_, 500 + j), a_)
            os.close(fd)
            segs = sorted(first + later)
            ext = fsutil.fiemap(p); sk = fsutil.seek_segments(p); ext3 = [(a, b, s_) for a, b, s_, _ in ext]
            ctx.count('file.half_written_back')
            reqs_p += [f'file-extents {p}', f'file-segments {p}', f'file-sparse {p}']
            st = os.stat(p)
            reqs_m += [f'pages 32 {fmt(ext3)}', 'segments %d %s' % (1 << 20, ' '.join(f'{a}-{b}u' for a, b in sk)), f'sparse {st.st_blocks} {st.st_size}']
            meta.append((p, 1 << 20, segs, ext3, sk)); volatile.add(p)
        # an extent that starts exactly where the previous one ENDS, placed around the page boundaries of the extent map (the
        # 32nd/33rd, 64th/65th extent): k separated blocks, then a preallocated run whose second half is written and synced
        for k in ((30, 31, 32, 63) if ctx.quick else (29, 30, 31, 32, 33, 61, 62, 63, 64, 65, 95, 96)):
            p = f'{d}/touch{k}'
            K4 = 4096
            segs = [(2 * q * K4, (2 * q + 1) * K4) for q in range(k)]
            base_ = (2 * k + 2) * K4
            fsutil.make_file(p, base_ + 40 * K4, segs, seed=700 + k)
            fd = os.open(p, os.O_RDWR)
            os.posix_fallocate(fd, base_, 16 * K4)
            os.pwrite(fd, fsutil.lcg_bytes(8 * K4, 900 + k), base_ + 8 * K4)
            os.fsync(fd); os.close(fd)
            segs = segs + [(base_ + 8 * K4, base_ + 16 * K4)]
            ext = fsutil.fiemap(p); sk = fsutil.seek_segments(p); ext3 = [(a, b, s_) for a, b, s_, _ in ext]
            ctx.count('file.touching_extents_at_page_boundary')
            reqs_p += [f'file-extents {p}', f'file-segments {p}', f'file-sparse {p}']
            st = os.stat(p)
            reqs_m += [f'pages 32 {fmt(ext3)}', 'segments %d %s' % (base_ + 40 * K4, ' '.join(f'{a}-{b}u' for a, b in sk)), f'sparse {st.st_blocks} {st.st_size}']
            meta.append((p, base_ + 40 * K4, segs, ext3, sk))
        impl = core.ask(probe, reqs_p)
        model = core.ask(core.MODEL, reqs_m)
        for i, (p, length, segs, ext3, sk) in enumerate(meta):
            ctx.count(f'file.extents{"0" if not ext3 else "1-32" if len(ext3) <= 32 else "33-64" if len(ext3) <= 64 else ">64"}')
            for j, what in enumerate(('map_extents', 'next_sparse_segments', 'probably_sparse')):
                a, m = impl[3 * i + j], model[3 * i + j]
                ctx.case((what, length, tuple(segs)), nontrivial=len(segs) > 0,
                         sample=dict(kind=what, length=length, n_segments=len(segs), impl=a[:200], model=m[:200]) if i in (6, 12) and j < 2 else None)
                ctx.cov['traces_validated_against_impl'] += 1
                bad = None
                if j < 2 and a.startswith('ok'):
                    if j == 0:
                        rs = [(x, y) for x, y, _ in parse(a)]
                        ordered = wf([(x, y, False) for x, y in rs])
                    else:
                        rs = [tuple(int(v) for v in t.split('-')) for t in a.split()[1:]]
                        ordered = all(x <= y for x, y in rs) and all(rs[k][1] <= rs[k + 1][0] for k in range(len(rs) - 1))
                    nz = fsutil.nonzero_outside(p, rs)
                    if nz is not None:
                        bad = f'{what}: byte {nz} lies outside every reported range and is not zero'
                    elif not ordered:
                        bad = f'{what}: reported ranges are not ordered / overlap'
                elif j < 2:
                    bad = f'{what}: implementation answered {a!r}'
                if bad:
                    ctx.violation(f'file-{i}-{what}.json', dict(kind=what, length=length, segments=segs, fiemap=ext3, seek=sk, impl=a, model=m, oracle=bad),
                                  f'libfs hides data on layout len={length} nsegs={len(segs)}: {bad}')
                elif a != m and p not in volatile:
                    ctx.cov['disagreements_checked'] += 1
                    ctx.violation(f'file-corr-{i}-{what}.json',
                                  dict(kind=what, length=length, segments=segs, fiemap=ext3, seek=sk, impl=a, model=m,
                                       correspondence=f'libfs::{what} vs the Lean model run over an independent FIEMAP/SEEK reading'),
                                  f'model/implementation disagree for {what} on layout len={length} nsegs={len(segs)}', no_input=True)
        # (3) a data/hole search that FAILS (EINVAL on a file system without SEEK_DATA, EIO, …) must surface as an error: it
        # must never be read as "the rest of the file is a hole" (only ENXIO means that)
        import subprocess
        from .. import scen
        E = scen.ERRNO
        K = 4096
        p = f'{d}/seekfault'
        segs = [(10 * K, 11 * K), (100 * K, 102 * K), (200 * K, 200 * K + 777)]
        fsutil.make_file(p, 256 * K, segs, seed=99)
        for nth in range(1, 9 if ctx.quick else 13):
            for en in ('EINVAL', 'EIO') if ctx.quick else ('EINVAL', 'EIO', 'EBADF', 'ENOMEM'):
                tf, pf = f'{d}/trace', f'{d}/plan'
                open(pf, 'w').write(f'fail lseek seekfault {nth} {E[en]}\ntimeout 30000\n')
                pr = subprocess.run([core.SUP, '-o', tf, '-p', pf, '--', probe], input=f'file-segments {p}\n', capture_output=True, text=True, timeout=90, env=core.ENV)
                a = pr.stdout.strip().split('\n')[-1] if pr.stdout.strip() else 'no-answer'
                trace, _ = scen.parse_trace(tf)
                fired = any(e.get('inj') for e in trace)
                ctx.count('seek_fault.' + ('fired' if fired else 'not_fired')); ctx.count('seek_fault.answer.' + a.split()[0])
                ctx.case(('seek-fault', nth, en), fired)
                if fired and a.startswith('ok'):
                    rs = [tuple(int(v) for v in t.split('-')) for t in a.split()[1:]]
                    nz = fsutil.nonzero_outside(p, rs)
                    if nz is not None:
                        ctx.violation(f'seek-fault-{nth}-{en}.json', dict(kind='next_sparse_segments', plan=f'fail lseek {nth} {en}', segments=segs, impl=a),
                                      f'libfs hides data: the {nth}th lseek failed with {en} and next_sparse_segments still answered {a[:80]!r}: byte {nz} is data outside every reported range')
        # (4) extent mapping that is INTERRUPTED (EINTR/EAGAIN) or answered in short, non-final pages (allowed by the FIEMAP ABI):
        # the map is either complete or an error — never silently cut off
        p49 = f'{d}/ext49'
        segs49 = [(2 * i * K, (2 * i + 1) * K) for i in range(49)]
        fsutil.make_file(p49, 49 * 2 * K + 300, segs49 + [(49 * 2 * K, 49 * 2 * K + 300)], seed=123)
        for nth in (1, 2, 3):
            for en in ('EINTR', 'EAGAIN'):
                tf, pf = f'{d}/trace', f'{d}/plan'
                open(pf, 'w').write(f'fail ioctl fiemap {nth} {E[en]}\ntimeout 30000\n')
                pr = subprocess.run([core.SUP, '-o', tf, '-p', pf, '--', probe], input=f'file-extents {p49}\n', capture_output=True, text=True, timeout=90, env=core.ENV)
                a = pr.stdout.strip().split('\n')[-1] if pr.stdout.strip() else 'no-answer'
                trace, _ = scen.parse_trace(tf)
                fired = any(e.get('inj') for e in trace)
                ctx.count('fiemap_interrupted.' + ('fired' if fired else 'not_fired')); ctx.count('fiemap_interrupted.answer.' + a.split()[0]); ctx.case(('fiemap-interrupted', nth, en), fired)
                if fired and a.startswith('ok'):
                    nz = fsutil.nonzero_outside(p49, [(x, y) for x, y, _ in parse(a)])
                    if nz is not None:
                        ctx.violation(f'fiemap-interrupted-{nth}-{en}.json', dict(kind='map_extents', plan=f'fail ioctl fiemap {nth} {en}', extents=50, impl=a[:300]),
                                      f'libfs hides data: the {nth}th FIEMAP call failed with {en} and map_extents still answered with a map: byte {nz} is data outside every reported range')
        shim = core.build_shim()
        for cap in (10, 1, 31, 7):
            for pth, nseg in ((p49, 50), (f'{d}/f6', None)):
                if not os.path.exists(pth):
                    continue
                pr = subprocess.run([probe], input=f'file-extents {pth}\n', capture_output=True, text=True, timeout=90, env=dict(core.ENV, LD_PRELOAD=shim, FIEMAP_SHORT_MAX=str(cap)))
                a = pr.stdout.strip().split('\n')[-1] if pr.stdout.strip() else 'no-answer'
                ctx.count('fiemap_short_pages.answer.' + a.split()[0]); ctx.case(('fiemap-short-pages', cap, os.path.basename(pth)), True)
                if a.startswith('ok'):
                    nz = fsutil.nonzero_outside(pth, [(x, y) for x, y, _ in parse(a)])
                    if nz is not None:
                        ctx.violation(f'fiemap-short-{cap}-{os.path.basename(pth)}.json', dict(kind='map_extents', shim=f'FIEMAP answers at most {cap} extents per call, none flagged last unless final', impl=a[:300]),
                                      f'libfs hides data when FIEMAP answers in short pages of {cap}: byte {nz} of {os.path.basename(pth)} is data outside every reported range')
                else:
                    ctx.violation(f'fiemap-short-{cap}-err.json', dict(impl=a), f'map_extents failed when FIEMAP answers in short pages of {cap}: {a[:100]}', no_input=True)
        # (5) a file system with blocks SMALLER than a page (ext4 with 1 KiB blocks, loop-mounted): data runs and holes of 1 KiB inside
        # one 4 KiB page — the segment search must report every data run
        img, mnt = f'{d}/small.img', f'{d}/mnt1k'
        os.makedirs(mnt, exist_ok=True)
        mounted = False
        try:
            with open(img, 'wb') as fh:
                fh.truncate(24 << 20)
            ok = subprocess.run(['mke2fs', '-q', '-F', '-t', 'ext4', '-b', '1024', img], capture_output=True).returncode == 0
            ok = ok and subprocess.run(['mount', '-o', 'loop', img, mnt], capture_output=True).returncode == 0
            mounted = ok
            if not ok:
                ctx.count('small_block_fs.skipped'); ctx.assumptions.append('no loop mount available: 1 KiB-block file system not exercised')
            else:
                for j in range(4 if ctx.quick else 20):
                    p1 = f'{mnt}/f{j}'
                    segs1 = []
                    pos = rng.choice([0, 1024, 3072])
                    for _ in range(rng.randint(3, 12)):
                        ln = rng.choice([1, 1, 2, 3]) * 1024
                        segs1.append((pos, pos + ln)); pos += ln + rng.choice([1, 1, 2, 5, 200]) * 1024
                    if j == 0:
                        segs1 = [(0, 1024), (2048, 3072), (7168, 8192), (206848, 207872)]; pos = 300000
                    if j in (1, 2, 3):      # more than one page of the extent map (> 32 extents) of 1 KiB runs at 1 KiB granularity, not aligned to 4 KiB
                        start, stride = [(3072, 2048), (1024, 3072), (2048, 5120)][j - 1]
                        segs1 = [(start + stride * q, start + stride * q + 1024) for q in range(40 + 30 * (j - 1))]; pos = segs1[-1][1] + 4096
                    fsutil.make_file(p1, pos + 100, segs1, seed=500 + j)
                    for what in ('file-segments', 'file-extents'):
                        a = core.ask(probe, [f'{what} {p1}'])[0]
                        ctx.count(f'small_block_fs.{what}.' + a.split()[0]); ctx.case(('small-block-fs', j, what), True)
                        if a.startswith('ok'):
                            rs = [tuple(int(v) for v in t.split('-')) for t in a.split()[1:]] if what == 'file-segments' else [(x, y) for x, y, _ in parse(a)]
                            nz = fsutil.nonzero_outside(p1, rs)
                            if nz is not None:
                                ctx.violation(f'small-block-{j}-{what}.json', dict(kind=what, block_size=1024, segments=segs1, impl=a[:300]),
                                              f'libfs hides data on a 1 KiB-block file system ({what}): byte {nz} is data outside every reported range (layout {segs1[:4]}…)')
        finally:
            if mounted:
                subprocess.run(['umount', mnt], capture_output=True)
    ctx.cov['rule'] = ('(files: + layouts of 2048..2100 (thorough 6500) extents; + data beyond 4 GiB; + every lseek of a segment search failing with EINVAL/EIO; + FIEMAP interrupted or answered in short non-final pages through an LD_PRELOAD shim; + a loop-mounted ext4 with 1 KiB blocks) merge: exhaustive well-formed lists over a small offset universe + random lists (long, shared flags, malformed, near u64::MAX); '
                       'files: fixed boundary layouts (0, 1, 32, 33, 64, 70 extents; data at start/end; odd sizes) + random layouts on ext4. '
                       'distinct = distinct input; non-trivial = at least two extents (merge) / at least one data segment (files)')


def replay(ctx, path):
    run(ctx)
