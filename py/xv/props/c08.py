"""C08 — --no-clobber never alters anything that already exists in the destination.
Proof: XcpProps/C08.lean.  Correspondence (A): pre-populated destinations with colliding files, directories, links
(live and dangling) and special files at every depth and every position in walk order, both drivers, perturbed
schedules; pre-existing entries compared before/after (content, kind, link text, mode, mtime for non-directories);
every mutating call of the trace must target a path that did not exist before (the `FreshRun` hypothesis)."""
import os, stat
from .. import core, scen, treerun, treegen


def meta_of(root, tokens):
    out = {}
    for p in treerun.decode(tokens):
        rp = root.encode() + p
        try:
            st = os.lstat(rp)
        except OSError:
            continue
        if not stat.S_ISDIR(st.st_mode):
            out[p] = (stat.S_IMODE(st.st_mode), st.st_mtime_ns, st.st_size, st.st_ino)
        else:
            out[p] = (stat.S_IMODE(st.st_mode),)
    return out


def gen(rng, driver):
    """With --no-clobber an existing DIRECTORY at a directory's target already stops the walk, so collisions can only
    be met at the targets of the sources themselves (DEST/<basename>, or DEST under -T): sources of every kind,
    colliding entries of every kind, at any position among the sources."""
    sc = treerun.Scn(); sc.driver = driver; sc.workers = rng.choice([1, 2, 4, 8])
    sc.d(b'/W').d(b'/X').f(b'/X/ext').d(b'/W/DEST').f(b'/W/DEST/keep').d(b'/W/DEST/keepdir').f(b'/W/DEST/keepdir/inner')
    nsrc = rng.choice([1, 1, 2, 3])
    names = treegen.pick_names(rng, nsrc, avoid=(b'-dash', b'*star', b'q?', b'\xff\xfe'))
    srcs = []
    for n in names:
        p = b'/W/' + n
        k = rng.choice(['f', 'f', 'd', 'l', 's'])
        if k == 'f': sc.f(p)
        elif k == 'd':
            sc.d(p); treegen.gen_subtree(rng, sc, p, rng.randint(0, 2), 3, links=True, specials=rng.random() < 0.3)
        elif k == 'l': sc.l(p, rng.choice([b'/X/ext', b'nowhere', b'DEST/keep']))
        else: sc.s(p, 'fifo')
        srcs.append((n, k))
    sc.coll = None
    single_T = nsrc == 1 and rng.random() < 0.3
    if rng.random() < 0.8:
        n, k = rng.choice(srcs)
        tgt = b'/W/DEST/' + (b'T-' + n if single_T else n)
        ck = rng.choice(['file', 'dir', 'link-live', 'link-dangling', 'fifo'])
        if ck == 'file': sc.f(tgt)
        elif ck == 'dir': sc.d(tgt); sc.f(tgt + b'/old')
        elif ck == 'link-live': sc.l(tgt, b'/X/ext')
        elif ck == 'link-dangling': sc.l(tgt, b'/X/not-there')
        else: sc.s(tgt, 'fifo')
        sc.coll = (n, k, ck)
    if rng.random() < 0.35:
        # bystanders named like TEMPORARY or partial versions of a target (name.part, name.tmp, .name.swp, name~, name.xcp-1): they
        # are existing entries like any other
        n0, k0 = rng.choice(srcs)
        suf = rng.choice([b'.part', b'.tmp', b'~', b'.xcp-1', b'.partial', b'.new'])
        tname = (b'T-' + n0 if single_T else n0) + suf
        if not any(e['p'] == b'/W/DEST/' + tname for e in sc.entries):
            rng.choice([lambda: sc.f(b'/W/DEST/' + tname), lambda: sc.l(b'/W/DEST/' + tname, b'keep')])()
    sc.opts = ['r', 'n'] + (['T'] if single_T else [])
    # option combinations must not weaken no-clobber
    sc.extra = rng.choice([[], [], ['--backup=numbered'], ['--backup=auto'], ['--fsync'], ['--no-perms'], ['--reflink=never'], ['--no-timestamps'], ['--no-progress'], ['--no-progress']])
    if single_T:
        sc.paths = [names[0], b'DEST/T-' + names[0]]
    else:
        sc.paths = [n for n, _ in srcs] + [b'DEST']
    sc.meta = dict(dest=b'/W/DEST')
    return sc


def run(ctx):
    ctx.proofs()
    core.build_repo(); core.build_sup()
    rng = ctx.rng
    n = 120 if ctx.quick else 2500
    # corpus: the repaired defect F6 (dangling symlink at the target)
    c0 = treerun.Scn(); c0.d(b'/W').d(b'/X').f(b'/W/f').d(b'/W/DEST').l(b'/W/DEST/f', b'/X/outside'); c0.opts = ['n']; c0.paths = [b'f', b'DEST']
    c0.coll = (b'f', 'f', 'link-dangling'); c0.meta = dict(dest=b'/W/DEST'); c0.extra = []
    # corpus 2: the existence test must be made for EVERY entry, also when an earlier source's link makes a later source's
    # directory resolve into an existing one (two sources with one base name; forced schedule)
    c1 = treerun.Scn(); c1.d(b'/W').d(b'/W/s1').d(b'/W/s1/data').l(b'/W/s1/x', b'data').d(b'/W/s2').d(b'/W/s2/x').f(b'/W/s2/x/keep.txt').d(b'/W/DEST').d(b'/W/DEST/data').f(b'/W/DEST/data/keep.txt')
    c1.opts = ['r', 'n']; c1.paths = [b's1/x', b's2/x', b'DEST']; c1.coll = (b'x/keep.txt', 'f', 'file'); c1.meta = dict(dest=b'/W/DEST'); c1.extra = []
    c1.forced_plan = ['stallp symlink * 300000', 'stallp mkdir * 1200000']; c1.no_model = True
    # corpus 3: several sources whose names are PREFIXES of one another (data, data.csv, data2): the existence test is per entry
    # and per path component, whatever was created just before
    corp = []
    for driver in ('parfile', 'parblock'):
        for order in ((b'data', b'data.csv', b'data2'), (b'data', b'data2', b'data.csv')):
            c2 = treerun.Scn(); c2.driver = driver
            c2.d(b'/W').d(b'/W/data').f(b'/W/data/x').f(b'/W/data.csv').d(b'/W/data2').f(b'/W/data2/keep').d(b'/W/DEST').f(b'/W/DEST/data.csv').d(b'/W/DEST/data2').f(b'/W/DEST/data2/keep')
            c2.opts = ['r', 'n']; c2.paths = list(order) + [b'DEST']; c2.coll = (b'data.csv', 'f', 'file'); c2.meta = dict(dest=b'/W/DEST'); c2.extra = []
            corp.append(c2)
    # corpus 4: bystanders named like partial/temporary versions of a source's target, next to a FREE target
    for driver in ('parfile', 'parblock'):
        for suf in (b'.part', b'.tmp', b'~'):
            c3 = treerun.Scn(); c3.driver = driver
            c3.d(b'/W').f(b'/W/image.iso').d(b'/W/tree').f(b'/W/tree/a').d(b'/W/DEST').f(b'/W/DEST/image.iso' + suf).f(b'/W/DEST/notes.txt').d(b'/W/DEST/tree' + suf).f(b'/W/DEST/tree' + suf + b'/x')
            c3.opts = ['r', 'n']; c3.paths = [b'image.iso', b'tree', b'DEST']; c3.coll = None; c3.meta = dict(dest=b'/W/DEST'); c3.extra = []
            corp.append(c3)
    scs = [c0, c1] + corp + [gen(rng, ['parfile', 'parblock'][i % 2]) for i in range(n)]
    runs = []
    with core.Scratch('c08') as base:
        for i, sc in enumerate(scs):
            plan = [f'sched {ctx.seed * 77 + i} {rng.choice(["pct", "delay"])} {rng.randint(1, 3)}'] if i % 3 == 0 else None
            plan = getattr(sc, 'forced_plan', plan)
            plan = getattr(sc, 'forced_plan', plan)
            root = base + '/R'
            o = treerun.run(base, sc, plan=plan, trace=True)
            o.meta_after = meta_of(o.root, o.after)
            runs.append((i, sc, o, plan))
            # the snapshot taken before the run has no metadata: re-materialise is costly, so compare inode/mtime through the trace instead
        ans = core.ask(core.MODEL, [o.request for _, _, o, _ in runs])
    for (i, sc, o, plan), a in zip(runs, ans):
        before, after = treerun.decode(o.before), treerun.decode(o.after)
        ctx.count(f'exit.{o.res.cls}'); ctx.count(f'driver.{sc.driver}')
        ctx.count('collision.' + (sc.coll[2] + '<-' + sc.coll[1] if sc.coll else 'none'))
        if plan: ctx.count('scheduled')
        ctx.case((tuple(sc.paths), tuple((e['k'], e['p'], e.get('t')) for e in sc.entries), sc.driver, tuple(plan or ())), nontrivial=sc.coll is not None,
                 sample=dict(collision=[repr(x) for x in sc.coll] if sc.coll else None, exit=o.res.cls, plan=plan) if i in (0, 3, 8) else None)
        # ---- the property's oracle on the implementation
        bad = None
        for p, v in before.items():
            if not p.startswith(b'/W/DEST'):
                continue
            if v == 'd':
                if after.get(p) != 'd': bad = f'existing directory {p!r} replaced by {after.get(p)}'
            elif after.get(p) != v:
                bad = f'existing entry {p!r} ({v}) became {after.get(p)}'
        if sc.coll and sc.coll[1] != 'd' and o.res.cls == '0':
            bad = bad or f'a source {sc.coll[1]} maps onto an existing {sc.coll[2]} but the run exited 0'
        if sc.coll and sc.coll[1] == 'd' and sc.coll[2] != 'dir' and o.res.cls == '0':
            bad = bad or f'a source directory maps onto an existing {sc.coll[2]} but the run exited 0'
        # writes to pre-existing non-directories, seen in the trace (truncation and rewriting with equal bytes included)
        rootb = o.root
        for e in o.res.trace:
            if not e.get('mut'):
                continue
            for key in ('path', 'fdpath'):
                pth = e.get(key)
                if not pth or not pth.startswith(rootb + '/W/DEST') and not pth.startswith('DEST'):
                    continue
                mp = pth[len(rootb):].encode('latin-1') if pth.startswith(rootb) else (b'/W/' + pth.encode('latin-1'))
                if e['sys'] in ('openat', 'ftruncate', 'copy_file_range', 'write', 'pwrite64', 'unlink', 'unlinkat', 'rename', 'fchmod', 'utimensat', 'fchown', 'fsetxattr', 'ficlone') and e['ret'] >= 0:
                    if mp in before and before[mp] != 'd':
                        bad = bad or f'{e["sys"]} succeeded on the pre-existing entry {mp!r}'
        if bad:
            ctx.violation(f'case-{i}.json', dict(argv=[repr(x) for x in o.argv], collision=[repr(x) for x in sc.coll] if sc.coll else None, plan=plan, exit=o.res.cls,
                                                 diff=treerun.diff_tokens(o.after, o.before, 20), oracle=bad), f'C08: {bad}')
            continue
        if getattr(sc, 'no_model', False):
            continue      # two sources onto one name: outside the sequential model's distinct-target fragment
        # ---- correspondence: exit class; on success the whole end state
        ctx.cov['traces_validated_against_impl'] += 1
        ex, rej, toks = treerun.model_snapshot(a)
        impl_ex = 'ok' if o.res.cls == '0' else 'err'
        if ex != impl_ex or (ex == 'ok' and toks != o.after):
            ctx.cov['disagreements_checked'] += 1
            ctx.violation(f'case-{i}-corr.json', dict(argv=[repr(x) for x in o.argv], request=o.request, model_exit=ex, impl_exit=o.res.cls, stderr=o.res.stderr[-300:], diff=treerun.diff_tokens(o.after, toks, 20),
                                                      correspondence='exit class / end state under --no-clobber vs Xcp.L1run', theorems=['Xcp.C08.collision_emits_no_operation']),
                          f'model/implementation disagree under --no-clobber (impl {o.res.cls}, model {ex})', no_input=True)
    # ---- as an unprivileged user, into a destination directory that may be searched and written but NOT LISTED (mode 0300, a
    # drop box): the existence of a target is still decided (lstat needs search permission only); a listing that cannot be
    # read is not an empty directory
    import subprocess
    with core.Scratch('c08u') as ub:
        for driver in ('parfile', 'parblock'):
            for shape in ('file', 'tree', 'link'):
                u = ub + '/u'
                subprocess.run(f'chmod -R u+rwx {u} 2>/dev/null; rm -rf {u}', shell=True); os.makedirs(u + '/S/sub'); os.makedirs(u + '/D/S/sub'); os.makedirs(u + '/elsewhere')
                for nm in ('S/report', 'S/sub/x'):
                    open(f'{u}/{nm}', 'wb').write(b'NEW ' + nm.encode())
                open(u + '/D/S/report', 'wb').write(b'old report'); open(u + '/D/report', 'wb').write(b'old top report'); open(u + '/elsewhere/t', 'wb').write(b'old target')
                os.symlink('../../../elsewhere/t', u + '/D/S/sub/x')
                subprocess.run(f'chown -R 61234:61234 {u}', shell=True)
                for dd in ('D', 'D/S', 'D/S/sub'):
                    os.chmod(f'{u}/{dd}', 0o300)
                argv = {'file': ['-n', '--driver', driver, 'S/report', 'D/report'], 'tree': ['-n', '-r', '-T', '--driver', driver, 'S', 'D/S'], 'link': ['-n', '--driver', driver, 'S/sub/x', 'D/S/sub/x']}[shape]
                r = scen.run_xcp(u, argv, ids=(61234, 61234, []), timeout=30)
                now = {nm: open(f'{u}/{nm}', 'rb').read() for nm in ('D/S/report', 'D/report', 'elsewhere/t')}
                ctx.count(f'unlistable_destination.{shape}.{r.cls}'); ctx.case(('unlistable-destination', driver, shape), True)
                changed = [nm for nm, want in (('D/S/report', b'old report'), ('D/report', b'old top report'), ('elsewhere/t', b'old target')) if now[nm] != want]
                if changed or r.cls == '0' or not os.path.islink(u + '/D/S/sub/x'):
                    ctx.violation(f'unlistable-{driver}-{shape}.json', dict(argv=argv, exit=r.cls, stderr=r.stderr[-300:], changed=changed),
                                  f'C08: no-clobber into a directory that cannot be listed: exit {r.cls}, altered {changed}')
                subprocess.run(f'chmod -R u+rwx {u}', shell=True)
    ctx.cov['rule'] = ('as an unprivileged user into unlistable (0300) destination directories; random source trees; destination absent or pre-populated; one colliding entry of kind {file, directory, live link, dangling link, fifo} placed at the target of a random source entry '
                       '(any depth, any position in walk order) with its ancestors; -T or into-directory mapping; both drivers; a third of the runs under perturbed schedules. '
                       'distinct = distinct scenario; non-trivial = a collision is present')


def replay(ctx, path):
    run(ctx)
