"""C10 — permissions, timestamps, xattrs and ownership are preserved as requested.
Proof: XcpProps/C10.lean.  Correspondence (A)+(B): files with modes from 0..07777, past/future/sub-second
mtimes, user xattrs, uid/gid (the sandbox runs as root), all flag combinations, both drivers, multi-block files,
fresh and overwritten destinations; end state vs `Xcp.finalise` under Linux' chown; per-file trace monitor."""
import os, time
from .. import core, scen, fileproj
from .. import bytesrun as br


def run(ctx):
    ctx.proofs()
    core.build_repo(); core.build_sup()
    rng = ctx.rng
    n = 90 if ctx.quick else 1500
    t_start = time.time_ns()
    with core.Scratch('c10') as root:
        for i in range(n):
            umask = rng.choice([0o022, 0o022, 0, 0o077])
            special = rng.choice([0, 0, 0o4000, 0o2000, 0o1000, 0o6000, 0o7000])
            mode = special | rng.choice([0o755, 0o644, 0o600, 0o777, 0o711, 0o070, 0o007, 0, rng.randrange(0o1000)])
            if i == 0:
                mode = 0o6755      # corpus: the repaired defect F3
            mtime = rng.choice([1_000_000_000_123_456_789, 4_000_000_000_000_000_001, 1, 1_700_000_000_000_000_000, 946684800_999_999_999, rng.randrange(10 ** 18),
                                -1, -152_391_232_750_000_000, -86_400_000_000_000, -(10 ** 9) * rng.randrange(1, 10 ** 9) - rng.randrange(10 ** 9)])      # before 1970, with and without a sub-second part
            xattr = {f'user.k{j}': bytes([rng.randrange(256) for _ in range(rng.randint(0, 9))]) for j in range(rng.choice([0, 0, 1, 3]))}
            if i in (1, 2, 3, 4):
                xattr['user.reviewed'] = b''      # corpus: a flag-style attribute whose VALUE is empty is an attribute like any other
            uid, gid = rng.choice([(0, 0), (1000, 1000), (12345, 54321), (0, 7)])
            size = rng.choice([0, 10, 5000, 30000])
            flags = dict(ownership=rng.random() < 0.5 or i == 0, no_perms=rng.random() < 0.3 and i != 0, no_timestamps=rng.random() < 0.3, fsync=rng.random() < 0.2)
            driver = ['parfile', 'parblock'][i % 2]
            prior = rng.choice(['absent', 'absent', 'existing'])
            pmode = rng.choice([0o600, 0o4755, 0o2770, 0o644])
            tree = [dict(p='S', k='dir', mode=0o755),
                    dict(p='S/f', k='file', mode=mode, uid=uid, gid=gid, mtime=mtime, xattr=xattr, data=[('seg', size, i + 1)] if size else [], sync=True)]
            pxattr = {'user.old': b'x'} if rng.random() < 0.5 else {}
            if xattr and rng.random() < 0.6:
                pxattr.update({k: b'stale-' + v for k, v in list(xattr.items())[:2]})      # same names, stale values (a re-copy after the attributes changed)
            if prior == 'existing':
                tree += [dict(p='D', k='dir', mode=0o755), dict(p='D/f', k='file', mode=pmode, uid=3, gid=4, mtime=12345, xattr=pxattr, data=[('seg', 77, 9)])]
            for sub in ('S', 'D'):
                import shutil; shutil.rmtree(os.path.join(root, sub), ignore_errors=True)
            scen.materialise(root, tree)
            argv = ['-r', '-T', '--driver', driver, '--workers', str(rng.choice([1, 3, 8]))]
            argv += ['--no-progress'] if rng.random() < 0.15 else ['--block-size', str(rng.choice([7 if size < 1000 else 4096, 4096, 1 << 20]))]
            argv += [f for f, on in (('--ownership', flags['ownership']), ('--no-perms', flags['no_perms']), ('--no-timestamps', flags['no_timestamps']), ('--fsync', flags['fsync'])) if on]
            argv += ['S', 'D']
            plan = [f'sched {ctx.seed * 17 + i} {rng.choice(["pct", "delay"])} {rng.randint(1, 3)}'] if i % 3 == 1 else None   # the last block may finish on any worker
            if i in (1, 3, 5, 7):
                # corpus: a multi-block file whose FIRST block finishes long after the block that ends at EOF (stalled by address)
                size, driver = 30000, 'parblock'
                tree[1]['data'] = [('seg', size, i + 1)]
                argv = ['-r', '-T', '--driver', driver, '--workers', '4', '--block-size', '4096'] + [a for a in argv if a in ('--ownership', '--no-perms', '--no-timestamps', '--fsync')] + ['S', 'D']
                for sub in ('S', 'D'):
                    shutil.rmtree(os.path.join(root, sub), ignore_errors=True)
                scen.materialise(root, tree)
                plan = [f'stallo copy_file_range D/f {0 if i < 5 else 4096} 300000']
            r = scen.run_xcp(root, argv, umask=umask, timeout=60, plan=plan)
            for k, v in flags.items():
                if v: ctx.count('flag.' + k)
            ctx.count(f'prior.{prior}'); ctx.count(f'driver.{driver}'); ctx.count(f'exit.{r.cls}')
            ctx.count('mode.special' if special else 'mode.plain')
            ctx.case((mode, mtime, tuple(sorted(xattr)), uid, gid, tuple(sorted(flags.items())), driver, prior, umask), True,
                     sample=dict(argv=argv, mode=oct(mode), mtime=mtime, xattr={k: v.hex() for k, v in xattr.items()}, uid=uid, gid=gid, prior=prior, umask=oct(umask)) if i in (0, 4, 11) else None)
            if r.cls != '0':
                ctx.violation(f'case-{i}-exit.json', dict(argv=argv, stderr=r.stderr[-800:]), 'plain copy failed', no_input=True)
                continue
            st = os.lstat(root + '/D/f')
            got = dict(mode=st.st_mode & 0o7777, uid=st.st_uid, gid=st.st_gid, mtime=st.st_mtime_ns,
                       xattr={k: os.getxattr(root + '/D/f', k) for k in os.listxattr(root + '/D/f')})
            # ---- the property's oracle on the implementation
            bad = []
            d0_mode = pmode if prior == 'existing' else 0o666 & ~umask
            if not flags['no_perms']:
                if got['mode'] != mode: bad.append(f"mode {oct(got['mode'])} != source {oct(mode)}")
                for k, v in xattr.items():
                    if got['xattr'].get(k) != v: bad.append(f'xattr {k} not preserved')
            else:
                if not flags['ownership'] and got['mode'] != d0_mode: bad.append(f"--no-perms: mode {oct(got['mode'])} is not the default/previous {oct(d0_mode)}")
            if not flags['no_timestamps']:
                if got['mtime'] != mtime: bad.append(f"mtime {got['mtime']} != source {mtime}")
            else:
                if got['mtime'] < t_start - 5 * 10 ** 9: bad.append(f"--no-timestamps: mtime {got['mtime']} is not current")
            if flags['ownership'] and (got['uid'], got['gid']) != (uid, gid): bad.append(f"owner {(got['uid'], got['gid'])} != {(uid, gid)}")
            if bad:
                ctx.violation(f'case-{i}.json', dict(argv=argv, umask=oct(umask), source=dict(mode=oct(mode), mtime=mtime, uid=uid, gid=gid), got={**got, 'mode': oct(got['mode']), 'xattr': {k: v.hex() for k, v in got['xattr'].items()}},
                                                     prior=prior, oracle=bad), 'C10: ' + '; '.join(bad))
                continue
            if mtime < 0:
                ctx.count('mtime.before_1970'); continue          # (the model's timestamps are natural numbers: oracle only)
            # ---- correspondence: end state vs Xcp.finalise, and the per-file monitor
            d0 = (d0_mode, 3 if prior == 'existing' else 0, 4 if prior == 'existing' else 0)
            cfgt = fileproj.cfg_tokens(ownership=flags['ownership'], no_perms=flags['no_perms'], no_timestamps=flags['no_timestamps'], fsync=flags['fsync'])
            proj = fileproj.project(r.trace, root + '/D/f')
            # (the attribute maps travel too: source listing order as the kernel gives it, destination = what was there before)
            hx = lambda b: b.hex() if b else '-'
            xf = lambda d_: ','.join(f'{hx(k.encode())}={hx(v)}' for k, v in d_.items()) or '-'
            sx = {k: xattr[k] for k in os.listxattr(root + '/S/f')}
            dx0 = dict(pxattr) if prior == 'existing' else {}
            reqs = [f'finalise {cfgt} | {mode}:{uid}:{gid}:{mtime}:{xf(sx)} {d0[0]}:{d0[1]}:{d0[2]}:0:{xf(dx0)}',
                    f"monitor {cfgt} | {size} {' '.join(t for t, _ in proj)}"]
            m = core.ask(core.MODEL, reqs)
            ctx.cov['traces_validated_against_impl'] += 2
            mm = m[0].split()[1].split(':') if m[0].startswith('ok') else None
            obs = [str(got['mode']), str(got['uid']), str(got['gid']), str(got['mtime'] if not flags['no_timestamps'] else 0)]
            # the whole attribute map, as a set of pairs (the kernel's listing order is not the model's list order)
            if mm is not None and len(mm) == 5:
                mx = sorted(mm.pop().split(',')) if mm[-1] != '-' else (mm.pop() and [])
                ox = sorted(f'{hx(k.encode())}={hx(v)}' for k, v in got['xattr'].items())
                ctx.count('xattr_map.compared'); ctx.count('xattr_map.dest_only_key' if set(dx0) - set(sx) else 'xattr_map.no_dest_only_key')
                if flags['no_perms'] and dx0: ctx.count('xattr_map.no_perms_with_prior_attrs')
                if mx != ox:
                    ctx.cov['disagreements_checked'] += 1
                    ctx.violation(f'case-{i}-xattrs.json', dict(argv=argv, request=reqs[0], model=m[0], observed=ox, source_xattrs={k: v.hex() for k, v in sx.items()}, prior_xattrs={k: v.hex() for k, v in dx0.items()},
                                                                correspondence='user xattrs of the destination after the run vs Xcp.finalise', theorems=['Xcp.C10.xattrs_exact', 'Xcp.C10.no_perms_keeps_xattrs']),
                                  f'C10: model/implementation disagree on the destination\'s extended attributes: model {mx} observed {ox}', no_input=True)
            if mm is None or mm != obs:
                ctx.cov['disagreements_checked'] += 1
                ctx.violation(f'case-{i}-corr.json', dict(argv=argv, request=reqs[0], model=m[0], observed=':'.join(obs), correspondence='finalise_copy end state vs Xcp.finalise (linuxChownFx)',
                                                          theorems=['Xcp.C10.mode_preserved', 'Xcp.C10.no_perms_keeps_mode']),
                              f'model/implementation disagree on final metadata: model {m[0]} observed {":".join(obs)}', no_input=True)
            if m[1] != 'ok true':
                ctx.cov['disagreements_checked'] += 1
                ctx.violation(f'case-{i}-monitor.json', dict(argv=argv, request=reqs[1], model=m[1], correspondence='per-file call order vs Xcp.monitorFile'),
                              f'trace monitor rejects the calls on D/f: {[t for t, _ in proj]}', no_input=True)
            # finalisation after the last write, in happens-before order (multi-block files finishing on any worker)
            fins = [e for t, e in proj if t.startswith('fin:')]
            datas = [e for t, e in proj if t == 'data']
            if any(not fileproj.happens_before(dd, ff) for dd in datas for ff in fins):
                ctx.violation(f'case-{i}-order.json', dict(argv=argv, calls=[(t, e['n'], e.get('x')) for t, e in proj]), 'C10: metadata applied before the last data write returned')
        # ---- an extended attribute that cannot be written (EPERM for security.*, ENOSPC, E2BIG …) is tolerated, but it must not
        # take the permission bits and the timestamps with it: finalisation continues with the remaining steps
        E = scen.ERRNO
        for i in range(12 if ctx.quick else 120):
            driver = ['parfile', 'parblock'][i % 2]
            mode = rng.choice([0o750, 0o4711, 0o600, 0o2775]); mtime = rng.choice([981173106_123456789, 1_600_000_000_000_000_001])
            prior = rng.choice(['absent', 'existing'])
            tree = [dict(p='S', k='dir', mode=0o755), dict(p='S/f', k='file', mode=mode, uid=0, gid=0, mtime=mtime, xattr={'user.a': b'1', 'user.b': b'22'}, data=[('seg', 3000, i + 1)], sync=True)]
            if prior == 'existing':
                tree += [dict(p='D', k='dir', mode=0o755), dict(p='D/f', k='file', mode=0o644, uid=0, gid=0, mtime=12345, xattr={}, data=[('seg', 77, 9)])]
            for sub in ('S', 'D'):
                import shutil; shutil.rmtree(os.path.join(root, sub), ignore_errors=True)
            scen.materialise(root, tree)
            en = rng.choice(['EPERM', 'ENOSPC', 'EACCES', 'EIO'])
            plan = [f'fail fsetxattr D/f {rng.choice([1, 2])} {E[en]}']
            argv = ['-r', '-T', '--driver', driver, '--workers', str(rng.choice([1, 4])), 'S', 'D']
            r = scen.run_xcp(root, argv, umask=0o022, timeout=60, plan=plan, trace=True)
            fired = any(e.get('inj') for e in r.trace)
            ctx.count('xattr_fault.' + ('fired' if fired else 'not_fired')); ctx.count(f'xattr_fault.exit.{r.cls}')
            ctx.case(('xattr-fault', i, driver, prior, tuple(plan)), fired)
            if fired and r.cls == '0':
                st = os.lstat(root + '/D/f')
                bad = []
                if st.st_mode & 0o7777 != mode: bad.append(f'mode {oct(st.st_mode & 0o7777)} != source {oct(mode)}')
                if st.st_mtime_ns != mtime: bad.append(f'mtime {st.st_mtime_ns} != source {mtime}')
                if bad:
                    ctx.violation(f'xattr-fault-{i}.json', dict(argv=argv, plan=plan, prior=prior, oracle=bad), f'C10: after a failing fsetxattr ({en}) the run exits 0 but ' + '; '.join(bad))
        # ---- --ownership as an UNPRIVILEGED user who may still change the group (the file's group is one of the caller's
        # supplementary groups): chown(2) does not require root, so the group must be preserved
        for driver in ('parfile', 'parblock'):
            u = root + '/U'
            shutil.rmtree(u, ignore_errors=True); os.makedirs(u + '/S'); os.chmod(root, 0o755)
            open(u + '/S/f', 'wb').write(b'payload'); os.utime(u + '/S/f', ns=(10 ** 18, 10 ** 18)); os.chmod(u + '/S/f', 0o640)
            ro = {}
            for nm, md in (('ro444', 0o444), ('ro555', 0o555), ('ro400', 0o400)):     # read-only files carrying user xattrs
                open(f'{u}/S/{nm}', 'wb').write(b'data-' + nm.encode()); os.setxattr(f'{u}/S/{nm}', 'user.k', b'v-' + nm.encode()); os.setxattr(f'{u}/S/{nm}', 'user.sha', b'0' * 40)
                os.utime(f'{u}/S/{nm}', ns=(10 ** 18 + 5, 10 ** 18 + 5)); os.chmod(f'{u}/S/{nm}', md); os.chown(f'{u}/S/{nm}', 61234, 61234); ro[nm] = md
            for pth, ug in ((u, (61234, 61234)), (u + '/S', (61234, 61234)), (u + '/S/f', (61234, 61235))):
                os.chown(pth, *ug)
            argv = ['--ownership', '-r', '-T', '--driver', driver, 'S', 'D']
            r = scen.run_xcp(u, argv, ids=(61234, 61234, [61235]), timeout=60)
            ctx.count(f'unprivileged_ownership.exit.{r.cls}'); ctx.case(('unprivileged-ownership', driver), True)
            if r.cls != '0':
                ctx.violation(f'unpriv-owner-{driver}-exit.json', dict(argv=argv, stderr=r.stderr[-300:]), 'copy with --ownership as an unprivileged user failed', no_input=True)
            else:
                st = os.lstat(u + '/D/f')
                if (st.st_uid, st.st_gid) != (61234, 61235) or st.st_mode & 0o7777 != 0o640 or st.st_mtime_ns != 10 ** 18:
                    ctx.violation(f'unpriv-owner-{driver}.json', dict(argv=argv, run_as='uid 61234 gid 61234 groups [61235]', source='61234:61235 0640', got=f'{st.st_uid}:{st.st_gid} {oct(st.st_mode & 0o7777)} mtime {st.st_mtime_ns}'),
                                  f'C10: --ownership as uid 61234 (member of group 61235): destination is {st.st_uid}:{st.st_gid} mode {oct(st.st_mode & 0o7777)}, source 61234:61235 mode 0640 ({driver})')
                for nm, md in ro.items():
                    try:
                        xs = {k: os.getxattr(f'{u}/D/{nm}', k) for k in os.listxattr(f'{u}/D/{nm}')}
                        st2 = os.lstat(f'{u}/D/{nm}')
                    except OSError as ex:
                        xs, st2 = {'error': str(ex)}, None
                    if st2 is None or st2.st_mode & 0o7777 != md or xs.get('user.k') != b'v-' + nm.encode() or xs.get('user.sha') != b'0' * 40:
                        ctx.violation(f'unpriv-xattr-{driver}-{nm}.json', dict(argv=argv, run_as='uid 61234', file=nm, source_mode=oct(md), got_mode=oct(st2.st_mode & 0o7777) if st2 else None, got_xattrs={k: repr(v) for k, v in xs.items()}),
                                      f'C10: run as an unprivileged user: the read-only file {nm} (mode {oct(md)}) lost its user xattrs or its mode at the destination ({driver}): {sorted(xs)}')
                        break
            shutil.rmtree(u, ignore_errors=True)
        # ---- with --no-perms every regular file keeps the DEFAULT mode (0666 & ~umask), whatever other threads are doing at the
        # moment it is created (special files being recreated next to it, any interleaving)
        for driver in ('parfile', 'parblock'):
            for sub in ('S', 'D'):
                import shutil; shutil.rmtree(os.path.join(root, sub), ignore_errors=True)
            tree = [dict(p='S', k='dir', mode=0o755)]
            for j in range(6):
                tree.append(dict(p=f'S/d{j}', k='dir', mode=0o755))
                tree.append(dict(p=f'S/d{j}/fifo', k='fifo', mode=0o600))
                for k in range(25 if ctx.quick else 80):
                    tree.append(dict(p=f'S/d{j}/f{k}', k='file', mode=0o600, uid=0, gid=0, mtime=10 ** 18, xattr={}, data=[('seg', 10, j * 100 + k + 1)]))
            scen.materialise(root, tree)
            argv = ['-r', '-T', '--no-perms', '--driver', driver, '--workers', '4', 'S', 'D']
            for plan in ([], ['stall mknodat 300000'], ['stall umask 300000', 'stall mknodat 100000']):
                shutil.rmtree(os.path.join(root, 'D'), ignore_errors=True)
                r = scen.run_xcp(root, argv, umask=0o022, timeout=120, plan=plan or None)
                ctx.count(f'no_perms_tree.exit.{r.cls}'); ctx.case(('no-perms-tree', driver, tuple(plan)), True)
                wrong = []
                for dp, dn, fn in os.walk(root + '/D'):
                    for f in fn:
                        st = os.lstat(os.path.join(dp, f))
                        import stat as _st
                        if _st.S_ISREG(st.st_mode) and st.st_mode & 0o7777 != 0o644:
                            wrong.append((os.path.join(dp, f)[len(root):], oct(st.st_mode & 0o7777)))
                if r.cls != '0':
                    ctx.violation(f'no-perms-tree-{driver}-exit.json', dict(argv=argv, plan=plan, stderr=r.stderr[-300:]), 'copy of a tree with FIFOs under --no-perms failed', no_input=True)
                elif wrong:
                    ctx.violation(f'no-perms-tree-{driver}.json', dict(argv=argv, plan=plan, umask='0o22', wrong=wrong[:10], count=len(wrong)),
                                  f'C10: --no-perms: {len(wrong)} regular files do not have the default mode 0644 (umask 022), e.g. {wrong[0]} ({driver}, plan {plan})')
    ctx.cov['rule'] = ('mode = special bits {none, suid, sgid, sticky, combos} | rwx sample over 0..0777; mtime past/future/sub-second/1ns; 0-3 user xattrs; uid/gid pairs; '
                       'all combinations of --ownership/--no-perms/--no-timestamps/--fsync; drivers; workers; block sizes giving 1..many blocks; fresh or existing destination; umask; a failing fsetxattr (must not skip chmod/utimens); --no-perms over a tree with FIFOs under stalled mknodat; --ownership as an unprivileged member of the group of the file. '
                       'distinct = distinct parameter tuple')
    ctx.assumptions += ['runs as root on ext4 (chown permitted; CAP_FSETID keeps set-id bits on write)', "Linux' chown clears S_ISUID, and S_ISGID when S_IXGRP is set"]


def replay(ctx, path):
    run(ctx)
